#!/bin/sh
# usage: check.sh <property id> [quick|thorough]
# Rebuilds the analyser when its sources changed, then analyses /repo's current
# working tree (nothing under /repo is executed).  Exit 0 = the property's
# structural obligations hold, 1 = VIOLATION line printed, 2 = no verdict (broken check).
#
# quick    : the analysis of the working tree (default build).
# thorough : the analysis on three variants of the program (default, GOARCH=386,
#            GOARCH=arm64) whose violations are merged, plus the sensitivity self-test: every
#            variant of /verif/variants and every kept seeded change for this property
#            is applied to a scratch copy of the working tree (outside /repo and
#            /verif, deleted afterwards) and must be reported by the analysis; every
#            behaviour-preserving control of /verif/refactors must stay silent.  A missed
#            variant or an alarm on a control means the CHECK is broken (exit 2), enforced
#            when /repo is the commit the corpus is calibrated for.
set -u
cd /verif || exit 2
# GOSUMDB=off / GOTOOLCHAIN=local would break the offline switch to the go1.24.2
# toolchain that /repo/go.mod (and the analyser) need; see DESIGN.md section 1.
unset GOSUMDB GOTOOLCHAIN GONOSUMDB GONOSUMCHECK GOWORK GOARCH GOOS
export GOPROXY=off
BIN=/verif/bin/cqlverif
ID="$1"
TIER="${2:-${VERIF_TIER:-quick}}"
need=0
[ -x "$BIN" ] || need=1
if [ $need -eq 0 ] && [ -n "$(find /verif/checker -newer "$BIN" \( -name '*.go' -o -name go.mod -o -name go.sum \) 2>/dev/null | head -1)" ]; then need=1; fi
if [ $need -eq 1 ]; then
  mkdir -p /verif/bin
  (cd /verif/checker && GOFLAGS=-mod=mod go build -o "$BIN" .) || { echo "NO-VERDICT: analyser build failed" >&2; exit 2; }
fi
if [ "$TIER" != "thorough" ]; then
  exec "$BIN" -p "$ID" -tier quick -repo /repo -verif /verif
fi
mkdir -p /verif/.cache
ST=/verif/.cache/selftest_$ID.json
rm -f "$ST"
"$BIN" -p "$ID" -tier thorough -repo /repo -verif /verif -selftest /nonexistent > /verif/.cache/thorough_$ID.out 2>&1
rc=$?
if [ $rc -ne 0 ]; then
  # a violation (or a broken analysis) on the working tree: report it as is, the self-test
  # is meaningless on a tree that already violates the property
  cat /verif/.cache/thorough_$ID.out
  exit $rc
fi
python3 /verif/tools/selftest.py -p "$ID" --seeded -j 8 --json "$ST" > /verif/.cache/selftest_$ID.out 2>&1
src=$?
# negative controls: behaviour-preserving refactorings must stay silent
RT=/verif/.cache/refactor_$ID.json
python3 /verif/tools/refactor_test.py -p "$ID" -j 8 --json "$RT" > /verif/.cache/refactor_$ID.out 2>&1
rrc=$?
python3 - "$ST" "$RT" <<'PY'
import json,sys
st=json.load(open(sys.argv[1])); rt=json.load(open(sys.argv[2]))
st["negative_controls"]=rt["summary"]; st["negative_control_results"]=[r for r in rt["results"] if r[2]!="silent-ok"]
json.dump(st,open(sys.argv[1],"w"),indent=1)
PY
"$BIN" -p "$ID" -tier thorough -repo /repo -verif /verif -selftest "$ST"
rc=$?
tail -1 /verif/.cache/selftest_$ID.out
tail -1 /verif/.cache/refactor_$ID.out
# The variants, seeded changes and controls are calibrated against one commit of /repo (the
# one named in variants/CALIBRATED_AT).  On any other tree (a patch applied, other commits) an
# edit of the corpus may mean something else, so its outcome is recorded in the evidence but is
# not allowed to turn the verdict on the property into "no verdict".
STRICT=0
if [ "$(git -C /repo rev-parse HEAD 2>/dev/null)" = "$(cat /verif/variants/CALIBRATED_AT 2>/dev/null)" ] && git -C /repo diff --quiet HEAD 2>/dev/null; then STRICT=1; fi
if [ $STRICT -eq 0 ] && { [ $src -ne 0 ] || [ $rrc -ne 0 ]; }; then
  echo "note property=$ID: the working tree is not the commit the self-test corpus is calibrated for; its results are recorded in the evidence and not enforced" >&2
  exit $rc
fi
if [ $rc -eq 0 ] && [ $rrc -ne 0 ]; then
  grep -E "FALSE-ALARM|BROKEN" /verif/.cache/refactor_$ID.out
  echo "NO-VERDICT property=$ID: a behaviour-preserving refactoring raises an alarm: the check is broken, not the property" >&2
  exit 2
fi
if [ $rc -eq 0 ] && [ $src -ne 0 ]; then
  grep -E "^(MISSED|FALSE-ALARM|error)" /verif/.cache/selftest_$ID.out
  echo "NO-VERDICT property=$ID: the sensitivity self-test failed (a variant that must be reported was missed, or a silent control raised an alarm): the check is broken, not the property" >&2
  exit 2
fi
exit $rc
