#!/bin/sh
# usage: check.sh <property id> [quick|thorough]
# Rebuilds the analyser when its sources changed, then analyses /repo's current
# working tree (nothing under /repo is executed).  Exit 0 = property's structural
# obligations hold, 1 = VIOLATION line printed, 2 = no verdict (broken check).
set -u
cd /verif || exit 2
# GOSUMDB=off / GOTOOLCHAIN=local would break the offline switch to the go1.24.2
# toolchain that /repo/go.mod (and the analyser) need; see DESIGN.md section 1.
unset GOSUMDB GOTOOLCHAIN GONOSUMDB GONOSUMCHECK GOWORK GOARCH GOOS
export GOPROXY=off
BIN=/verif/bin/cqlverif
need=0
[ -x "$BIN" ] || need=1
if [ $need -eq 0 ] && [ -n "$(find /verif/checker -newer "$BIN" \( -name '*.go' -o -name go.mod -o -name go.sum \) 2>/dev/null | head -1)" ]; then need=1; fi
if [ $need -eq 1 ]; then
  mkdir -p /verif/bin
  (cd /verif/checker && GOFLAGS=-mod=mod go build -o "$BIN" .) || { echo "NO-VERDICT: analyser build failed" >&2; exit 2; }
fi
exec "$BIN" -p "$1" -tier "${2:-${VERIF_TIER:-quick}}" -repo /repo -verif /verif
