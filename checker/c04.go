package main

// C04 — non-idempotent requests are never re-executed once they may have been applied.
//
// Decided: the retry decision structure of the request type.  A "retry" is a
// call of the host-walking loop from anywhere but the initial Execute.
//  retry-guard     in the error-result handler a retry happens only in the arms
//                  whose outcome guarantees the attempt was not applied
//                  (read timeout, unavailable, bootstrapping) or after the
//                  idempotency check returned true on that path
//  onclose-guard   a lost backend connection retries only after the check returned true
//  check           the idempotency check returns true only for state isIdempotent,
//                  reached only when a classifier said "idempotent" on that path
//  batch           a batch is idempotent only if every child was classified idempotent
//  prepared-lookup unknown prepared ids are not idempotent; stored metadata comes
//                  from the classifier with err == nil, keyed by the backend's id
//  initial-state   only PREPARE starts as idempotent; graph requests need the option

import (
	"fmt"
	"go/constant"
	"go/token"
	"go/types"
	"sort"
	"strings"

	"golang.org/x/tools/go/ssa"
)

func init() { register("C04", checkC04) }

type reqRoles struct {
	req         *types.Named
	checkIdem   *ssa.Function
	execLoop    *ssa.Function
	handleErr   *ssa.Function
	batchIdem   *ssa.Function
	onClose     *ssa.Function
	stateF      *types.Var
	retryCountF *types.Var
}

func isParserClassifier(call ssa.CallInstruction) bool {
	return callIsFunc(call, "parser", "IsQueryIdempotent")
}

func isPolicyInvoke(call ssa.CallInstruction) (string, bool) {
	c := call.Common()
	if c.IsInvoke() && recvNamedIs(c.Method, "proxy", "RetryPolicy") {
		return c.Method.Name(), true
	}
	return "", false
}

func requestRoles(p *Prog) *reqRoles {
	rr := &reqRoles{req: p.proxyRequestType()}
	name := rr.req.Obj().Name()
	for _, m := range p.methodsOf(rr.req) {
		m := m
		direct := func(pred func(ssa.CallInstruction) bool) bool {
			found := false
			eachCall(m, func(c ssa.CallInstruction) {
				if pred(c) {
					found = true
				}
			})
			return found
		}
		sig := m.Signature
		switch {
		case direct(func(c ssa.CallInstruction) bool { return callIsMethod(c, "proxycore", "Session", "Send") }):
			rr.execLoop = m
		case direct(func(c ssa.CallInstruction) bool { _, ok := isPolicyInvoke(c); return ok }):
			rr.handleErr = m
		}
		_ = sig
	}
	// the error-result handler may have been split: it is the method that is handed the raw
	// error frame by the delivery path and (transitively, through the request's own helpers)
	// consults the retry policy
	reqHelperCalls := func(m *ssa.Function, pred func(ssa.CallInstruction) bool) bool {
		found := false
		seen := map[*ssa.Function]bool{}
		var walk func(f *ssa.Function, d int)
		walk = func(f *ssa.Function, d int) {
			if seen[f] || d > 3 {
				return
			}
			seen[f] = true
			eachCall(f, func(c ssa.CallInstruction) {
				if pred(c) {
					found = true
				}
				if callee := c.Common().StaticCallee(); callee != nil && callee.Pkg == m.Pkg && callee.Parent() == nil && callee != rr.execLoop {
					walk(callee, d+1)
				}
			})
		}
		walk(m, 0)
		return found
	}
	if onRes := p.methodOf(rr.req, "OnResult"); onRes != nil {
		eachCall(onRes, func(c ssa.CallInstruction) {
			callee := c.Common().StaticCallee()
			if callee == nil || recvNamed(callee) != rr.req || callee.Signature.Params().Len() != 1 || !typeIs(callee.Signature.Params().At(0).Type(), "frame", "RawFrame") {
				return
			}
			if reqHelperCalls(callee, func(c ssa.CallInstruction) bool { _, ok := isPolicyInvoke(c); return ok }) {
				rr.handleErr = callee
			}
		})
	}
	// the batch classifier: a function of package proxy taking the partial batch and returning (bool, error)
	for _, f := range p.ScopedFuncs("proxy") {
		if f.Parent() != nil {
			continue
		}
		sig := f.Signature
		if sig.Results().Len() != 2 {
			continue
		}
		for i := 0; i < sig.Params().Len(); i++ {
			if typeIs(sig.Params().At(i).Type(), "codecs", "PartialBatch") {
				if b, ok := sig.Results().At(0).Type().Underlying().(*types.Basic); ok && b.Kind() == types.Bool {
					rr.batchIdem = f
				}
			}
		}
	}
	// the idempotency check: a parameterless bool method that reaches the statement classifier and records the state
	stateF0 := p.Field("proxy", name, "state")
	for _, m := range p.methodsOf(rr.req) {
		sig := m.Signature
		if sig.Params().Len() != 0 || sig.Results().Len() != 1 {
			continue
		}
		if b, ok := sig.Results().At(0).Type().Underlying().(*types.Basic); !ok || b.Kind() != types.Bool {
			continue
		}
		if !reqHelperCalls(m, isParserClassifier) {
			continue
		}
		writes := false
		eachInstr(m, func(in ssa.Instruction) {
			if st, ok := in.(*ssa.Store); ok {
				if fa, ok := st.Addr.(*ssa.FieldAddr); ok && fieldOfAddr(fa) == stateF0 {
					writes = true
				}
			}
		})
		if writes || rr.checkIdem == nil {
			rr.checkIdem = m
		}
	}
	rr.onClose = p.methodOf(rr.req, "OnClose")
	for what, f := range map[string]*ssa.Function{"idempotency check": rr.checkIdem, "host-walking loop": rr.execLoop,
		"error-result handler": rr.handleErr, "batch classifier": rr.batchIdem, "OnClose": rr.onClose} {
		if f == nil {
			fatalf("anchor: could not resolve the %s of %s by role", what, name)
		}
	}
	rr.stateF = p.Field("proxy", name, "state")
	rr.retryCountF = p.Field("proxy", name, "retryCount")
	return rr
}

// helper reports whether fn is a private helper of the request logic that a simulation
// looks through: a method of the request type or a plain function of package proxy, other than
// the reply functions and the functions that have a role of their own.
func (rr *reqRoles) helper(p *Prog, fn *ssa.Function) bool {
	if fn == nil || fn.Parent() != nil || fn.Blocks == nil || fn.Pkg == nil || fn.Pkg.Pkg.Path() != pkgPath("proxy") {
		return false
	}
	if replyFuncs(p, rr.req)[fn] {
		return false
	}
	switch fn {
	case rr.execLoop, rr.checkIdem, rr.handleErr, rr.batchIdem, rr.onClose:
		return false
	}
	if recvNamed(fn) == rr.req {
		return true
	}
	// plain functions that are handed the request or one of the request's messages
	if fn.Signature.Recv() == nil {
		for _, par := range fn.Params {
			if n := namedOf(par.Type()); n != nil && (n == rr.req || typeIs(par.Type(), "codecs", "PartialBatch") || typeIs(par.Type(), "codecs", "PartialQuery") || typeIs(par.Type(), "codecs", "PartialExecute")) {
				return true
			}
		}
	}
	return false
}

// constOf returns the value of a package-level constant.
func (p *Prog) constOf(pkg, name string) constant.Value {
	sp := p.Pkg(pkg)
	c, ok := sp.Pkg.Scope().Lookup(name).(*types.Const)
	if !ok {
		fatalf("anchor: constant %s.%s not found", pkg, name)
	}
	return c.Val()
}

func avC(v constant.Value) AV { return AV{K: avConst, C: v} }

// safeRetryArms: error kinds after which the attempt is known not to have been applied.
var safeRetryArms = map[string]bool{
	"*message.ReadTimeout":     true,
	"*message.Unavailable":     true,
	"*message.IsBootstrapping": true,
}

// errorSim runs the error-result handler with the idempotency check and the
// policy modelled; it records for each path the arm, the check result, the
// policy method, the decision at the switch and the retries performed.
type errPath struct {
	arm, idem, policy, dec string
	retries                []string // "true"/"false"/"?" per executeInternal call (the next argument)
	incs                   int
	ret                    AV
	pos                    string
}

func runErrorSim(p *Prog, rr *reqRoles, forceDecision map[string]constant.Value) ([]errPath, int) {
	s := newSim(p)
	// helpers of the request type that the handler was split into are looked through
	reply := replyFuncs(p, rr.req)
	s.Inline = func(fn *ssa.Function) bool {
		return recvNamed(fn) == rr.req && fn.Parent() == nil && !reply[fn] && fn != rr.checkIdem && fn != rr.execLoop
	}
	decNames := map[string]string{}
	for _, n := range []string{"RetrySame", "RetryNext", "ReturnError"} {
		decNames[p.constOf("proxy", n).ExactString()] = n
	}
	s.OnBranch = func(st *State, cond ssa.Value, truth bool) {
		if ex, ok := cond.(*ssa.Extract); ok {
			if ta, ok := ex.Tuple.(*ssa.TypeAssert); ok && recvNamed(ta.Parent()) == rr.req {
				if truth {
					st.aux["arm"] = shortType(ta.AssertedType)
				}
			}
		}
		if bo, ok := cond.(*ssa.BinOp); ok && recvNamed(bo.Parent()) == rr.req && ((truth && bo.Op == token.EQL) || (!truth && bo.Op == token.NEQ)) {
			for _, side := range []ssa.Value{bo.X, bo.Y} {
				if c, ok := side.(*ssa.Const); ok && c.Value != nil && typeIs(c.Type(), "proxy", "RetryDecision") {
					st.aux["dec"] = decNames[c.Value.ExactString()]
				}
			}
		}
	}
	s.OnInstr = func(st *State, in ssa.Instruction) {
		if stv, ok := in.(*ssa.Store); ok {
			if fa, ok := stv.Addr.(*ssa.FieldAddr); ok && fieldOfAddr(fa) == rr.retryCountF {
				st.aux["incs"] = st.aux["incs"] + "+"
			}
		}
	}
	s.Model = func(sm *Sim, st *State, call ssa.CallInstruction, callee *ssa.Function) []*State {
		switch {
		case callee == rr.checkIdem:
			t, f := st.clone(), st.clone()
			t.aux["idem"] = "T"
			SetCallResult(t, call, avBool(true))
			f.aux["idem"] = "F"
			SetCallResult(f, call, avBool(false))
			return []*State{t, f}
		case callee == rr.execLoop:
			arg := "?"
			if len(call.Common().Args) >= 2 {
				if b, ok := sm.eval(st, call.Common().Args[1]).isBool(); ok {
					arg = fmt.Sprint(b)
				}
			}
			st.aux["retries"] = st.aux["retries"] + arg + ","
			return []*State{st}
		}
		if m, ok := isPolicyInvoke(call); ok {
			st.aux["policy"] = m
			if forceDecision != nil {
				var outs []*State
				var names []string
				for n := range forceDecision {
					names = append(names, n)
				}
				sort.Strings(names)
				for _, n := range names {
					ns := st.clone()
					ns.aux["forced"] = n
					SetCallResult(ns, call, avC(forceDecision[n]))
					outs = append(outs, ns)
				}
				return outs
			}
		}
		return nil
	}
	outs := s.Run(rr.handleErr, newState())
	var paths []errPath
	for _, o := range outs {
		if o.Panic {
			continue
		}
		ep := errPath{arm: o.St.aux["arm"], idem: o.St.aux["idem"], policy: o.St.aux["policy"], dec: o.St.aux["dec"],
			incs: len(o.St.aux["incs"]), ret: o.Ret, pos: p.Pos(o.Pos)}
		if r := strings.TrimSuffix(o.St.aux["retries"], ","); r != "" {
			ep.retries = strings.Split(r, ",")
		}
		paths = append(paths, ep)
	}
	return paths, s.Nodes
}

func checkC04(p *Prog, r *Report) {
	requireRecognisedDispatch(p)
	r.NotCov = append(r.NotCov,
		"the classifier's verdict on statement text (C06)",
		"what a backend actually applied; user-supplied RetryPolicy implementations",
		"requests whose statement text the classifier mis-reads (C06)")
	rr := requestRoles(p)
	name := rr.req.Obj().Name()

	// the table of non-idempotent functions decides which texts are "positively classified as
	// idempotent": the rule on it (C06) is part of this property too
	{
		fam := map[*ssa.Function]bool{}
		for _, f := range classifierFamily(p) {
			fam[f] = true
		}
		r.borrow("C06", "C04", func() { c06FunctionRule(p, r, fam); c06Lwt(p, r, fam) })
	}

	// ---- retry-guard
	r.Rule("C04.retry-guard", "the error-result handler retries only in the read-timeout / unavailable / bootstrapping arms or after the idempotency check returned true on that path; it reports 'retried' exactly when it retried")
	paths, n := runErrorSim(p, rr, nil)
	r.count("sim_states", n)
	r.count("paths", len(paths))
	byArm := map[string][]string{}
	armSeen := map[string]int{}
	for _, ep := range paths {
		arm := ep.arm
		if arm == "" {
			arm = "(no arm)"
		}
		armSeen[arm]++
		if _, ok := byArm[arm]; !ok {
			byArm[arm] = nil
		}
		retb, retKnown := ep.ret.isBool()
		if len(ep.retries) > 0 {
			if !safeRetryArms[ep.arm] && ep.idem != "T" {
				byArm[arm] = append(byArm[arm], fmt.Sprintf("retry without a positive idempotency check (check=%q policy=%s) on path ending at %s", ep.idem, ep.policy, ep.pos))
			}
			if !retKnown || !retb {
				byArm[arm] = append(byArm[arm], "retried but reports retried=false (the error would also be sent to the client): path ending at "+ep.pos)
			}
			if len(ep.retries) > 1 {
				byArm[arm] = append(byArm[arm], "more than one retry on one path ending at "+ep.pos)
			}
		} else if !retKnown || retb {
			byArm[arm] = append(byArm[arm], "did not retry but reports retried=true (the client would get no reply): path ending at "+ep.pos)
		}
	}
	var arms []string
	for a := range byArm {
		arms = append(arms, a)
	}
	sort.Strings(arms)
	for _, a := range arms {
		r.check(len(byArm[a]) == 0, "C04.retry-guard", name+"."+rr.handleErr.Name()+"#"+a, p.Pos(rr.handleErr.Pos()),
			fmt.Sprintf("%d paths", armSeen[a]), strings.Join(dedupe(byArm[a]), " || "))
	}
	r.Floor("C04.retry-guard", 9, "error kinds distinguished by the error-result handler")

	// ---- onclose-guard
	r.Rule("C04.onclose-guard", "after the loss of a backend connection the request is re-sent only if the idempotency check returned true; otherwise the client gets an error")
	{
		rs := newRequestSim(p)
		base := rs.Model
		rs.Inline = func(fn *ssa.Function) bool { return rr.helper(p, fn) }
		rs.Model = func(sm *Sim, st *State, call ssa.CallInstruction, callee *ssa.Function) []*State {
			switch callee {
			case rr.checkIdem:
				t, f := st.clone(), st.clone()
				t.aux["idem"] = "T"
				SetCallResult(t, call, avBool(true))
				f.aux["idem"] = "F"
				SetCallResult(f, call, avBool(false))
				return []*State{t, f}
			case rr.execLoop:
				st.addEff("retry")
				return []*State{st}
			}
			return base(sm, st, call, callee)
		}
		init := newState()
		init.cells[rs.doneF] = avBool(false)
		init.cells[lockCell(rs.muF)] = avBool(false)
		var bad []string
		outs := rs.Run(rr.onClose, init)
		r.count("sim_states", rs.Nodes)
		for _, o := range outs {
			if o.Panic {
				continue
			}
			if o.St.eff["retry"] > 0 && o.St.aux["idem"] != "T" {
				bad = append(bad, fmt.Sprintf("connection loss re-sends the request without a positive idempotency check (path ending at %s)", p.Pos(o.Pos)))
			}
			if o.St.aux["idem"] == "F" && o.St.eff["reply"] != 1 {
				bad = append(bad, fmt.Sprintf("non-idempotent request gets %d replies after connection loss (path ending at %s)", o.St.eff["reply"], p.Pos(o.Pos)))
			}
		}
		r.check(len(bad) == 0 && len(outs) > 0, "C04.onclose-guard", name+".OnClose", p.Pos(rr.onClose.Pos()), fmt.Sprintf("%d paths", len(outs)), strings.Join(dedupe(bad), " || "))
	}

	c04Check(p, r, rr)
	c04Batch(p, r, rr)
	c04Prepared(p, r, rr)
	c04Initial(p, r, rr)
	sendResult(p, r, "C04.send-result", rr)
	c12MetadataBeforeReply(p, r, "C04.metadata-before-reply")
	resultThreading(p, r, "C04.result-threading", "proxy", "parser")
}

// classifier models shared by check/batch: fork into (true,nil) (false,nil) (false,err)
func classifierModel(p *Prog, rr *reqRoles, proxyIdem *ssa.Function, inlineBatch bool) func(sm *Sim, st *State, call ssa.CallInstruction, callee *ssa.Function) []*State {
	return func(sm *Sim, st *State, call ssa.CallInstruction, callee *ssa.Function) []*State {
		mk := func(b bool, errAV AV, tuple bool) *State {
			ns := st.clone()
			if b {
				ns.aux["clsT"] = "1"
				ns.aux["last"] = "T"
			} else {
				ns.aux["clsF"] = "1"
				ns.aux["last"] = "F"
			}
			delete(ns.aux, "pendingKind")
			if tuple {
				SetCallResult(ns, call, avTup(avBool(b), errAV))
			} else {
				SetCallResult(ns, call, avBool(b))
			}
			return ns
		}
		switch {
		case isParserClassifier(call):
			return []*State{mk(true, AV{K: avNil}, true), mk(false, AV{K: avNil}, true), mk(false, AV{K: avNonNil}, true)}
		case callee != nil && callee == proxyIdem:
			return []*State{mk(true, top, false), mk(false, top, false)}
		case callee != nil && callee == rr.batchIdem && !inlineBatch:
			return []*State{mk(true, AV{K: avNil}, true), mk(false, AV{K: avNil}, true), mk(false, AV{K: avNonNil}, true)}
		}
		return nil
	}
}

func proxyIsIdempotentFn(p *Prog) *ssa.Function {
	// the Proxy method taking a []byte id and returning bool that consults preparedMetadata
	px := p.Named("proxy", "Proxy")
	for _, m := range p.methodsOf(px) {
		sig := m.Signature
		if sig.Params().Len() == 1 && sig.Results().Len() == 1 {
			if sl, ok := sig.Params().At(0).Type().Underlying().(*types.Slice); ok {
				if b, ok := sl.Elem().Underlying().(*types.Basic); ok && b.Kind() == types.Byte || ok && b.Kind() == types.Uint8 {
					if rb, ok := sig.Results().At(0).Type().Underlying().(*types.Basic); ok && rb.Kind() == types.Bool {
						return m
					}
				}
			}
		}
	}
	fatalf("anchor: Proxy method (id []byte) bool not found")
	return nil
}

func c04Check(p *Prog, r *Report, rr *reqRoles) {
	const rule = "C04.check"
	r.Rule(rule, "the idempotency check answers true only in state isIdempotent, and moves an undetermined request to isIdempotent only when a classifier said idempotent on that path (parse errors, unknown ids and unknown message kinds stay non-idempotent)")
	name := rr.req.Obj().Name()
	pi := proxyIsIdempotentFn(p)
	states := map[string]constant.Value{
		"notDetermined": p.constOf("proxy", "notDetermined"),
		"notIdempotent": p.constOf("proxy", "notIdempotent"),
		"isIdempotent":  p.constOf("proxy", "isIdempotent"),
	}
	for _, sn := range []string{"notDetermined", "notIdempotent", "isIdempotent"} {
		s := newSim(p)
		s.Tracked[rr.stateF] = true
		s.Model = classifierModel(p, rr, pi, false)
		s.Inline = func(fn *ssa.Function) bool { return rr.helper(p, fn) }
		init := newState()
		init.cells[rr.stateF] = avC(states[sn])
		outs := s.Run(rr.checkIdem, init)
		r.count("sim_states", s.Nodes)
		var bad []string
		for _, o := range outs {
			if o.Panic {
				continue
			}
			b, known := o.Ret.isBool()
			stOut := o.St.cells[rr.stateF]
			desc := fmt.Sprintf("path ending at %s {classifier said %q, state_out=%s, returns %s}", p.Pos(o.Pos), o.St.aux["last"], stOut, o.Ret)
			if !known {
				bad = append(bad, "result not determined by the state: "+desc)
				continue
			}
			switch sn {
			case "notDetermined":
				if b && o.St.aux["last"] != "T" {
					bad = append(bad, "classified idempotent although no classifier said so: "+desc)
				}
				if b && (stOut.K != avConst || stOut.C.ExactString() != states["isIdempotent"].ExactString()) {
					bad = append(bad, "answers true without fixing the state to isIdempotent: "+desc)
				}
				if !b && stOut.K == avConst && stOut.C.ExactString() == states["isIdempotent"].ExactString() {
					bad = append(bad, "state set to isIdempotent although the answer is false: "+desc)
				}
			case "notIdempotent":
				if b {
					bad = append(bad, "a request already classified non-idempotent is reported idempotent: "+desc)
				}
				if stOut.K != avConst || stOut.C.ExactString() != states["notIdempotent"].ExactString() {
					bad = append(bad, "a request already classified non-idempotent changes state: "+desc)
				}
			case "isIdempotent":
				if !b {
					bad = append(bad, "idempotent request reported non-idempotent: "+desc)
				}
			}
		}
		r.check(len(bad) == 0 && len(outs) > 0, rule, fmt.Sprintf("%s.%s[state=%s]", name, rr.checkIdem.Name(), sn), p.Pos(rr.checkIdem.Pos()),
			fmt.Sprintf("%d paths", len(outs)), strings.Join(dedupe(bad), " || "))
	}
	r.Floor(rule, 3, "initial idempotency states")
}

func c04Batch(p *Prog, r *Report, rr *reqRoles) {
	const rule = "C04.batch"
	r.Rule(rule, "a batch is reported idempotent only if every child went through a classifier that said idempotent; unknown child kinds and classifier errors make it non-idempotent")
	pi := proxyIsIdempotentFn(p)
	queriesF := p.Field("codecs", "PartialBatch", "Queries")
	s := newSim(p)
	s.Model = classifierModel(p, rr, pi, true)
	s.OnInstr = func(st *State, in ssa.Instruction) {
		// a new child is picked: index into the slice loaded from batch.Queries
		if ia, ok := in.(*ssa.IndexAddr); ok {
			if f, _ := loadedField(ia.X); f == queriesF {
				if st.aux["pendingKind"] == "1" {
					st.aux["skipped"] = "1"
				}
				st.aux["pendingKind"] = "1"
			}
		}
	}
	outs := s.Run(rr.batchIdem, newState())
	r.count("sim_states", s.Nodes)
	var bad []string
	sawTrue := false
	for _, o := range outs {
		if o.Panic {
			continue
		}
		b, known := o.Ret.elem(0).isBool()
		desc := fmt.Sprintf("path ending at %s {returns %s}", p.Pos(o.Pos), o.Ret)
		if !known || b {
			sawTrue = sawTrue || known
			if o.St.aux["clsF"] == "1" {
				bad = append(bad, "idempotent although a child was classified non-idempotent: "+desc)
			}
			if o.St.aux["skipped"] == "1" || o.St.aux["pendingKind"] == "1" {
				bad = append(bad, "idempotent although a child was accepted without classification: "+desc)
			}
			if !known {
				bad = append(bad, "verdict not a constant on this path: "+desc)
			}
		}
		if e := o.Ret.elem(1); e.K == avNonNil || e.K == avTop {
			if !known || b {
				bad = append(bad, "may return an error together with idempotent=true: "+desc)
			}
		}
	}
	if !sawTrue {
		bad = append(bad, "no path reports a batch idempotent (rule would be vacuous)")
	}
	r.check(len(bad) == 0, rule, rr.req.Obj().Name()+"."+rr.batchIdem.Name(), p.Pos(rr.batchIdem.Pos()), fmt.Sprintf("%d paths", len(outs)), strings.Join(dedupe(bad), " || "))
}

func c04Prepared(p *Prog, r *Report, rr *reqRoles) {
	const rule = "C04.prepared-lookup"
	r.Rule(rule, "an unknown prepared id is not idempotent; the stored verdict is the classifier's result for the PREPARE text with err == nil, keyed by the id the backend returned")
	pi := proxyIsIdempotentFn(p)
	// (a) every return of a non-false value is dominated by the 'found' branch of the metadata lookup
	var bad []string
	var okVal ssa.Value
	eachInstr(pi, func(in ssa.Instruction) {
		if c, ok := in.(*ssa.Call); ok && callIsMethod(c, "sync", "Map", "Load") {
			for _, ref := range *c.Referrers() {
				if ex, ok := ref.(*ssa.Extract); ok && ex.Index == 1 {
					okVal = ex
				}
			}
		}
	})
	if okVal == nil {
		bad = append(bad, "no sync.Map.Load lookup found")
	}
	nret := 0
	eachInstr(pi, func(in ssa.Instruction) {
		ret, ok := in.(*ssa.Return)
		if !ok {
			return
		}
		nret++
		for _, v := range origins(ret.Results[0]) {
			if c, ok := v.(*ssa.Const); ok && c.Value != nil && !constant.BoolVal(c.Value) {
				continue
			}
			if okVal == nil || !guardedBy(ret.Block(), okVal, true) {
				// the value may come through a phi: check the defining block instead
				if iv, ok := v.(ssa.Instruction); ok && okVal != nil && guardedBy(iv.Block(), okVal, true) {
					continue
				}
				bad = append(bad, p.Pos(ret.Pos())+": returns a value other than false on a path where the id was not found")
			}
		}
	})
	r.check(len(bad) == 0 && nret > 0, rule, "Proxy."+pi.Name(), p.Pos(pi.Pos()), "miss => false", strings.Join(dedupe(bad), " || "))

	// (b) stores into preparedMetadata
	pmF := p.Field("proxy", "Proxy", "preparedMetadata")
	idemF := p.Field("proxy", "preparedMetadata", "idempotent")
	nstores := 0
	for _, fn := range p.ScopedFuncs("proxy") {
		eachCall(fn, func(c ssa.CallInstruction) {
			if !callIsMethod(c, "sync", "Map", "Store") {
				return
			}
			fa, ok := c.Common().Args[0].(*ssa.FieldAddr)
			if !ok || fieldOfAddr(fa) != pmF {
				return
			}
			nstores++
			var sb []string
			// the verdict recorded for an id is that of the LATEST PREPARE answered with it: the function
			// that stores does not look at what is already stored (no first-wins, no "already known")
			for _, f2 := range withClosures(rootFn(fn)) {
				eachCall(f2, func(c2 ssa.CallInstruction) {
					for _, m := range []string{"Load", "LoadOrStore", "LoadAndDelete"} {
						if callIsMethod(c2, "sync", "Map", m) {
							if fa2, ok := c2.Common().Args[0].(*ssa.FieldAddr); ok && fieldOfAddr(fa2) == pmF {
								sb = append(sb, fmt.Sprintf("%s: the function that records the verdict consults the stored metadata (%s): an id that was first prepared with an idempotent text keeps that verdict when a later PREPARE defines it with a non-idempotent one", p.Pos(c2.Pos()), m))
							}
						}
					}
				})
			}
			// value: MakeInterface of a preparedMetadata struct whose 'idempotent' field derives from IsQueryIdempotent #0
			val := c.Common().Args[2]
			var clsCall *ssa.Call
			idemOK := false
			for _, o := range origins(val) {
				// struct built in a local alloc: find stores to its idempotent field
				ld, ok := o.(*ssa.UnOp)
				if !ok {
					continue
				}
				al, ok := ld.X.(*ssa.Alloc)
				if !ok {
					continue
				}
				for _, ref := range *al.Referrers() {
					if fa2, ok := ref.(*ssa.FieldAddr); ok && fieldOfAddr(fa2) == idemF {
						for _, rr2 := range *fa2.Referrers() {
							if st, ok := rr2.(*ssa.Store); ok {
								for _, src := range origins(st.Val) {
									if ex, ok := src.(*ssa.Extract); ok && ex.Index == 0 {
										if cc, ok := ex.Tuple.(*ssa.Call); ok && isParserClassifier(cc) {
											idemOK = true
											clsCall = cc
										}
									}
								}
							}
						}
					}
				}
			}
			if !idemOK {
				sb = append(sb, "stored 'idempotent' does not come from parser.IsQueryIdempotent")
			} else {
				// guarded by err == nil of the same call
				guarded := false
				for _, ref := range *clsCall.Referrers() {
					if ex, ok := ref.(*ssa.Extract); ok && ex.Index == 1 {
						for _, ct := range dominatingConds(c.Block()) {
							if bo, ok := ct.Cond.(*ssa.BinOp); ok && (bo.X == ex || bo.Y == ex) {
								isNe := bo.Op.String() == "!="
								if (isNe && !ct.Truth) || (!isNe && ct.Truth) {
									guarded = true
								}
							}
						}
					}
				}
				if !guarded {
					sb = append(sb, "classifier verdict stored without checking its error")
				}
				// classified text is the PREPARE's query
				qOK := false
				for _, o := range origins(clsCall.Call.Args[0]) {
					if f, _ := loadedField(o); f != nil && f.Name() == "Query" {
						qOK = true
					}
				}
				if !qOK {
					sb = append(sb, "classified text is not the PREPARE message's query")
				}
			}
			// key derives from PreparedResult.PreparedQueryId
			keyOK := false
			var walk func(v ssa.Value, d int)
			walk = func(v ssa.Value, d int) {
				if d > 6 {
					return
				}
				for _, o := range origins(v) {
					if f, _ := loadedField(o); f != nil && f.Name() == "PreparedQueryId" {
						keyOK = true
					}
					if cc, ok := o.(*ssa.Call); ok {
						for _, a := range cc.Call.Args {
							walk(a, d+1)
						}
					}
				}
			}
			walk(c.Common().Args[1], 0)
			if !keyOK {
				sb = append(sb, "key does not derive from the backend's PreparedQueryId")
			}
			r.check(len(sb) == 0, rule, "store:"+fn.Name(), p.Pos(c.Pos()), "classifier verdict with err==nil, keyed by backend id", strings.Join(sb, " || "))
		})
	}
	if nstores == 0 {
		fatalf("anchor: no store into Proxy.preparedMetadata found")
	}
}

func c04Initial(p *Prog, r *Report, rr *reqRoles) {
	const rule = "C04.initial-state"
	r.Rule(rule, "a request starts as idempotent only when it is a PREPARE, or a graph request with the idempotent-graph option; everything else starts undetermined or non-idempotent")
	cl := p.proxyClientType()
	// the client method that builds the request literal
	var execFn *ssa.Function
	for _, m := range p.methodsOf(cl) {
		found := false
		eachInstr(m, func(in ssa.Instruction) {
			if a, ok := in.(*ssa.Alloc); ok && namedOf(a.Type()) == rr.req {
				found = true
			}
		})
		if found {
			execFn = m
		}
	}
	if execFn == nil {
		fatalf("anchor: no client method constructs a request")
	}
	// which parameter feeds request.state?
	var stateSlot paramSlot
	haveSlot := false
	eachInstr(execFn, func(in ssa.Instruction) {
		if st, ok := in.(*ssa.Store); ok {
			if fa, ok := st.Addr.(*ssa.FieldAddr); ok && fieldOfAddr(fa) == rr.stateF {
				if sl, ok := slotOfValue(execFn, st.Val); ok {
					stateSlot, haveSlot = sl, true
				}
			}
		}
	})
	if !haveSlot {
		r.bad(rule, "construct:"+execFn.Name(), p.Pos(execFn.Pos()), "the initial idempotency state of a request is not taken from the caller")
		return
	}
	isIdem := p.constOf("proxy", "isIdempotent").ExactString()
	var defFn *ssa.Function
	sites := 0
	for _, fn := range p.ScopedFuncs("proxy") {
		eachCall(fn, func(c ssa.CallInstruction) {
			if c.Common().StaticCallee() != execFn {
				return
			}
			sites++
			arg := slotArg(c, stateSlot)
			key := fmt.Sprintf("site:%s", fn.Name())
			var bad []string
			if arg == nil {
				bad = append(bad, "the initial state handed to the request constructor could not be resolved at this site")
			}
			for _, o := range origins(arg) {
				switch x := o.(type) {
				case *ssa.Const:
					if x.Value != nil && x.Value.ExactString() == isIdem {
						// only allowed in a function handling a PREPARE message
						isPrep := false
						for _, par := range fn.Params {
							if typeIs(par.Type(), "message", "Prepare") {
								isPrep = true
							}
						}
						if !isPrep {
							bad = append(bad, "request starts as idempotent outside the PREPARE handler")
						}
					}
				case *ssa.Call:
					if f := x.Call.StaticCallee(); f != nil && recvNamed(f) == cl {
						defFn = f
					} else {
						bad = append(bad, "initial state computed by an unexpected function "+callDesc(x))
					}
				default:
					bad = append(bad, "initial state of unknown origin "+o.String())
				}
			}
			r.check(len(bad) == 0, rule, key, p.Pos(c.Pos()), "", strings.Join(bad, " || "))
		})
	}
	if sites < 4 {
		fatalf("rule %s: only %d call sites of %s found (4 confirmed by hand)", rule, sites, execFn.Name())
	}
	if defFn == nil {
		r.bad(rule, "default-idempotency", p.Pos(execFn.Pos()), "no default-idempotency function feeds QUERY/EXECUTE requests")
		return
	}
	// default idempotency: isIdempotent only with config.IdempotentGraph and the graph payload present
	igF := p.Field("proxy", "Config", "IdempotentGraph")
	for _, ig := range []bool{false, true} {
		s := newSim(p)
		s.Tracked[igF] = true
		s.OnBranch = func(st *State, cond ssa.Value, truth bool) {
			if ex, ok := cond.(*ssa.Extract); ok {
				if lk, ok := ex.Tuple.(*ssa.Lookup); ok && lk.CommaOk {
					if k, ok := constStr(lk.Index); ok && k == "graph-source" {
						st.aux["graph"] = fmt.Sprint(truth)
					}
				}
			}
		}
		init := newState()
		init.cells[igF] = avBool(ig)
		outs := s.Run(defFn, init)
		r.count("sim_states", s.Nodes)
		var bad []string
		for _, o := range outs {
			if o.Panic {
				continue
			}
			if o.Ret.K != avConst {
				bad = append(bad, "result is not a constant state on path ending at "+p.Pos(o.Pos))
				continue
			}
			v := o.Ret.C.ExactString()
			graph := o.St.aux["graph"]
			switch {
			case v == isIdem && !(ig && graph == "true"):
				bad = append(bad, fmt.Sprintf("default state isIdempotent with idempotent-graph=%v graph-payload=%q (path ending at %s)", ig, graph, p.Pos(o.Pos)))
			case graph == "true" && !ig && v != p.constOf("proxy", "notIdempotent").ExactString():
				bad = append(bad, fmt.Sprintf("graph request without the option does not start as notIdempotent (path ending at %s)", p.Pos(o.Pos)))
			case graph == "false" && v != p.constOf("proxy", "notDetermined").ExactString():
				bad = append(bad, fmt.Sprintf("non-graph request does not start undetermined (path ending at %s)", p.Pos(o.Pos)))
			}
		}
		r.check(len(bad) == 0 && len(outs) > 0, rule, fmt.Sprintf("default:%s[idempotent-graph=%v]", defFn.Name(), ig), p.Pos(defFn.Pos()), fmt.Sprintf("%d paths", len(outs)), strings.Join(dedupe(bad), " || "))
	}
}

// sendResult decides what the host walk (and C01's hand-over) assume of the function
// that hands a request to a backend: an error means the request was NOT put on any
// connection's write queue, so moving on to the next host is not a second execution;
// nil means it was registered in the connection's pending table, so a reply or the
// loss of that connection will reach it.
func sendResult(p *Prog, r *Report, rule string, rr *reqRoles) {
	r.Rule(rule, "the function the host walk uses to hand a request to a backend returns a non-nil error only on paths on which the request was not put on a connection's write queue and is no longer registered as pending there (trying the next host is then neither a re-execution nor a second activation), and returns nil only while the request is registered as pending on that connection")
	var root *ssa.Function
	eachCall(rr.execLoop, func(c ssa.CallInstruction) {
		if callIsMethod(c, "proxycore", "Session", "Send") {
			root = c.Common().StaticCallee()
		}
	})
	if root == nil {
		fatalf("anchor: the backend hand-over call of %s is not statically resolved", rr.execLoop)
	}
	pend := getPendingRoles(p)
	s := newSim(p)
	s.Inline = func(fn *ssa.Function) bool {
		return fn.Pkg != nil && fn.Pkg.Pkg.Path() == pkgPath("proxycore") && fn.Parent() == nil && fn != pend.store
	}
	s.Model = func(sm *Sim, st *State, call ssa.CallInstruction, callee *ssa.Function) []*State {
		// registering: either a stream id (>= 0) was free and the request is stored under it,
		// or the ids are exhausted (-1) and nothing is stored (C02.stream-alloc decides that contract)
		if callee != nil && callee == pend.store {
			okSt, full := st.clone(), st.clone()
			SetCallResult(okSt, call, avInt(0))
			okSt.addEff("registered")
			SetCallResult(full, call, avInt(-1))
			return []*State{okSt, full}
		}
		// taking the request back out of the pending table: either this caller gets it
		// (the entry is gone) or the closing notification already claimed it
		if callee == nil || callee != pend.loadAndDelete {
			return nil
		}
		won, lost := st.clone(), st.clone()
		SetCallResult(won, call, AV{K: avNonNil})
		won.addEff("taken-back")
		SetCallResult(lost, call, AV{K: avNil})
		lost.addEff("claimed-by-closing")
		return []*State{won, lost}
	}
	isQueueSend := func(ch ssa.Value) bool {
		ct, ok := ch.Type().Underlying().(*types.Chan)
		if !ok {
			return false
		}
		_, isIface := ct.Elem().Underlying().(*types.Interface)
		return isIface
	}
	s.OnInstr = func(st *State, in ssa.Instruction) {
		if snd, ok := in.(*ssa.Send); ok && isQueueSend(snd.Chan) {
			st.addEff("queued")
			st.aux["queuedAt"] = p.Pos(snd.Pos())
		}
	}
	s.OnBranch = func(st *State, cond ssa.Value, truth bool) {
		bo, ok := cond.(*ssa.BinOp)
		if !ok || bo.Op != token.EQL {
			return
		}
		ex, ok := bo.X.(*ssa.Extract)
		if !ok || ex.Index != 0 {
			return
		}
		sel, ok := ex.Tuple.(*ssa.Select)
		if !ok {
			return
		}
		k, ok := constInt(bo.Y)
		if !ok || !truth || int(k) >= len(sel.States) {
			return
		}
		if stt := sel.States[k]; stt.Dir == types.SendOnly && isQueueSend(stt.Chan) {
			st.addEff("queued")
			st.aux["queuedAt"] = p.Pos(sel.Pos())
		}
	}
	outs := s.Run(root, newState())
	r.count("sim_states", s.Nodes)
	var bad []string
	nQueuedNil, nErr := 0, 0
	for _, o := range outs {
		if o.Panic {
			continue
		}
		q, reg := o.St.eff["queued"], o.St.eff["registered"]
		desc := fmt.Sprintf("path returning %s at %s (queued=%d at %s, registered=%d)", o.Ret, p.Pos(o.Pos), q, o.St.aux["queuedAt"], reg)
		back, claimed := o.St.eff["taken-back"], o.St.eff["claimed-by-closing"]
		if o.Ret.K == avNil {
			if reg == 0 {
				bad = append(bad, "reports success although the request was never registered as pending: "+desc)
			}
			if back > 0 {
				bad = append(bad, "reports success although the request was taken out of the pending table again: no reply and no connection loss will reach it: "+desc)
			}
			if q >= 1 {
				nQueuedNil++
			}
			continue
		}
		nErr++
		if q > 0 {
			bad = append(bad, "may return an error after the request was put on the write queue (the caller then tries the next host while this connection may still execute it): "+desc)
		}
		if q > 1 {
			bad = append(bad, "request queued more than once: "+desc)
		}
		if reg > 0 && back == 0 {
			why := "the request stays registered on this connection"
			if claimed > 0 {
				why = "the connection's closing notification has claimed the request"
			}
			bad = append(bad, "returns an error although "+why+": the caller moves on to the next host and the closing notification delivers OnClose for the same request as well (retried or failed twice): "+desc)
		}
	}
	if nQueuedNil == 0 {
		bad = append(bad, "no path hands the request to a connection's write queue and reports success")
	}
	r.check(len(bad) == 0, rule, relName(root), p.Pos(root.Pos()), fmt.Sprintf("%d paths, %d may fail, %d queue and succeed", len(outs), nErr, nQueuedNil), strings.Join(dedupe(bad), " || "))
}
