package main

// C16 — the proxy tracks backend topology and heals lost backend connections.
//
// The timing parts (refresh window, heartbeat/idle timing, numeric bounds of the
// back-off arithmetic) quantify over run-time durations and are NOT decided.
// Decided structural clauses:
//  backoff-bounds   NextDelay returns maxDelay or a delay that was compared with
//                   maxDelay and replaced by it when larger; Reset zeroes the attempts
//  reconnect-loop   in both maintenance loops (pool slot, control connection) a
//                   reconnect timer is created from the policy's NextDelay(), and the
//                   policy is Reset() after, and only after, a successful (re)connect
//  timer-flag       at every loop iteration a "pending" flag that is true has its
//                   timer armed (otherwise the awaited event never fires and the loop
//                   stops reacting: refreshes or reconnects silently stop)
//  refresh          topology changes and status UP arm a host refresh, the refresh
//                   case re-reads the hosts; mergeHosts emits Add for new keys and
//                   Remove for keys no longer listed; sessions create and cancel pools
//                   accordingly; reconnect rotates over the known hosts
//  outage-clock     the outage time is set to now only when the control connection is
//                   found closed and cleared only after a successful connect;
//                   OutageDuration is zero iff it is cleared; readiness answers 200 iff
//                   the outage is shorter than the readiness timeout

import (
	"fmt"
	"go/constant"
	"go/token"
	"go/types"
	"strings"

	"golang.org/x/tools/go/ssa"
)

func init() { register("C16", checkC16) }

func checkC16(p *Prog, r *Report) {
	r.NotCov = append(r.NotCov,
		"'within the refresh window', heartbeat and idle-timeout timing, lower bound / overflow of the back-off arithmetic, jitter (numeric, timing)",
		"which hosts actually receive traffic after a sequence of changes (fault sequences): only the event plumbing is decided")
	c16Backoff(p, r)
	c16Loops(p, r)
	c16Refresh(p, r)
	c16Outage(p, r)
	c17NilStore16(p, r)
	c16AddKeepsPool(p, r)
	c16Heartbeats(p, r)
	// an event dropped between the control connection and the control loop is a topology change never followed
	r.borrow("C14", "C16", func() { c14Handoff(p, r) })
	connectBounded(p, r, "C16.connect-bounded")
}

func c17NilStore16(p *Prog, r *Report) {
	saved := len(r.Obl)
	c17NilStore(p, r)
	for i := saved; i < len(r.Obl); i++ {
		r.Obl[i].Rule = "C16.pools"
	}
	r.Rules["C16.pools"] = r.Rules["C17.nil-store"]
	delete(r.Rules, "C17.nil-store")
	for i, id := range r.ruleOrder {
		if id == "C17.nil-store" {
			r.ruleOrder[i] = "C16.pools"
		}
	}
}

func c16Backoff(p *Prog, r *Report) {
	const rule = "C16.backoff-bounds"
	r.Rule(rule, "ReconnectPolicy.NextDelay never returns more than maxDelay: every returned value is maxDelay itself or was compared with maxDelay and replaced by it when greater; Reset() sets the attempt counter to zero; Clone() keeps base and max delay")
	impls := p.implsOf("proxycore", "proxycore", "ReconnectPolicy")
	if len(impls) != 1 {
		fatalf("anchor: expected one ReconnectPolicy implementation, found %d", len(impls))
	}
	pol := impls[0]
	maxF := p.Field("proxycore", pol.Obj().Name(), "maxDelay")
	attF := p.Field("proxycore", pol.Obj().Name(), "attempts")
	nd := p.methodOf(pol, "NextDelay")
	var bad []string
	eachInstr(nd, func(in ssa.Instruction) {
		ret, ok := in.(*ssa.Return)
		if !ok {
			return
		}
		res := ret.Results[0]
		check := func(v ssa.Value, via *ssa.Phi, edge int) {
			if f, _ := loadedField(v); f == maxF {
				return
			}
			// v must be the left side of `v > maxDelay` (or >=) that is false on the way to the return
			okCmp := false
			eachInstr(nd, func(in2 ssa.Instruction) {
				bo, ok := in2.(*ssa.BinOp)
				if !ok {
					return
				}
				// which truth value of the comparison means v <= maxDelay (or v < maxDelay)?
				var need bool
				fx, _ := loadedField(bo.X)
				fy, _ := loadedField(bo.Y)
				switch {
				case bo.X == v && fy == maxF && (bo.Op == token.GTR || bo.Op == token.GEQ):
					need = false
				case bo.X == v && fy == maxF && (bo.Op == token.LEQ || bo.Op == token.LSS):
					need = true
				case bo.Y == v && fx == maxF && (bo.Op == token.LSS || bo.Op == token.LEQ):
					need = false
				case bo.Y == v && fx == maxF && (bo.Op == token.GEQ || bo.Op == token.GTR):
					need = true
				default:
					return
				}
				// that edge reaches the return/phi directly, or dominates the return
				blk := bo.Block()
				if ifi, ok := lastIf(blk); ok && ifi.Cond == ssa.Value(bo) {
					succ := 1
					if need {
						succ = 0
					}
					if via != nil && via.Block().Preds[edge] == blk && blk.Succs[succ] == via.Block() {
						okCmp = true
					}
					if via == nil && guardedBy(ret.Block(), bo, need) {
						okCmp = true
					}
				}
			})
			if !okCmp {
				bad = append(bad, p.Pos(ret.Pos())+": a delay can be returned that was not capped by maxDelay ("+valDesc(v)+")")
			}
		}
		if phi, ok := res.(*ssa.Phi); ok {
			for i, e := range phi.Edges {
				check(e, phi, i)
			}
		} else {
			check(res, nil, 0)
		}
	})
	// Reset
	rs := p.methodOf(pol, "Reset")
	okReset := false
	if rs != nil {
		eachInstr(rs, func(in ssa.Instruction) {
			if st, ok := in.(*ssa.Store); ok {
				if fa, ok := st.Addr.(*ssa.FieldAddr); ok && fieldOfAddr(fa) == attF {
					if c, ok := constInt(st.Val); ok && c == 0 {
						okReset = true
					}
				}
			}
		})
	}
	if !okReset {
		bad = append(bad, "Reset() does not zero the attempt counter (delays stay at their maximum after a successful reconnect)")
	}
	// NextDelay advances attempts by one
	inc := false
	eachInstr(nd, func(in ssa.Instruction) {
		if st, ok := in.(*ssa.Store); ok {
			if fa, ok := st.Addr.(*ssa.FieldAddr); ok && fieldOfAddr(fa) == attF {
				if bo, ok := st.Val.(*ssa.BinOp); ok && bo.Op == token.ADD {
					if c, ok := constInt(bo.Y); ok && c == 1 {
						inc = true
					}
				}
			}
		}
	})
	if !inc {
		bad = append(bad, "NextDelay does not advance the attempt counter (no back-off)")
	}
	r.check(len(bad) == 0, rule, pol.Obj().Name(), p.Pos(nd.Pos()), "", strings.Join(dedupe(bad), " || "))
}

// timer families of a maintenance loop
type timerInfo struct {
	family   map[ssa.Value]string  // NewTimer calls and phis -> "refresh" | "connect"
	fieldFam map[*types.Var]string // *time.Timer fields of a loop-state struct -> family
}

// keeperType: the loop state may live in a small struct built by the loop function (fields for
// the timer, the pending flag, the connection) whose methods hold the loop body.
func keeperType(p *Prog, fn *ssa.Function) *types.Named {
	var kt *types.Named
	consider := func(t types.Type) {
		n := namedOf(t)
		if n == nil || n.Obj().Pkg() == nil || !strings.HasPrefix(n.Obj().Pkg().Path(), modPath) {
			return
		}
		st, ok := n.Underlying().(*types.Struct)
		if !ok {
			return
		}
		for i := 0; i < st.NumFields(); i++ {
			if typeIs(st.Field(i).Type(), "time", "Timer") {
				kt = n
			}
		}
	}
	eachInstr(fn, func(in ssa.Instruction) {
		switch x := in.(type) {
		case *ssa.Alloc:
			consider(x.Type())
		case *ssa.Call:
			// built by a constructor function
			if callee := x.Call.StaticCallee(); callee != nil && p.InRepo(callee) && callee.Signature.Results().Len() == 1 {
				consider(callee.Signature.Results().At(0).Type())
			}
		}
	})
	// Stated limit: the state of the loop is tracked per struct FIELD.  Two instances of the same
	// record type (a {timer, pending} pair used once for the refresh and once for the reconnect)
	// would be one set of cells: the loop cannot be decided, and is not judged.
	if kt != nil {
		instances := 0
		eachInstr(fn, func(in ssa.Instruction) {
			al, ok := in.(*ssa.Alloc)
			if !ok {
				return
			}
			elem := al.Type().Underlying().(*types.Pointer).Elem()
			if namedOf(elem) == kt {
				if _, isPtr := elem.(*types.Pointer); !isPtr {
					instances++
				}
			}
			if st, ok := elem.Underlying().(*types.Struct); ok && namedOf(elem) != kt {
				for i := 0; i < st.NumFields(); i++ {
					if namedOf(st.Field(i).Type()) == kt {
						instances++
					}
				}
			}
		})
		if instances > 1 {
			fatalf("anchor: the maintenance loop %s keeps %d instances of the record type %s (a timer with its flag) as its state: the loop simulation tracks state per struct field and cannot tell the instances apart", fn.Name(), instances, kt.Obj().Name())
		}
	}
	return kt
}

// keeperFuncs: the methods of the loop-state struct and the constructor function(s) the loop
// function builds it with.
func keeperFuncs(p *Prog, fn *ssa.Function, kt *types.Named) []*ssa.Function {
	if kt == nil {
		return nil
	}
	out := p.methodsOf(kt)
	// the arms of the loop may also be private functions (methods of the loop's owner) that are
	// handed the state struct
	for _, h := range withCallees(p, fn, 2) {
		if h == fn || h.Parent() != nil || !onlyCalledFrom(p, h, fn, 2) {
			continue
		}
		takes := false
		for _, par := range h.Params {
			if namedOf(par.Type()) == kt {
				takes = true
			}
		}
		if takes && recvNamed(h) != kt {
			out = append(out, h)
		}
	}
	eachCall(fn, func(c ssa.CallInstruction) {
		if callee := c.Common().StaticCallee(); callee != nil && p.InRepo(callee) && callee.Blocks != nil && callee.Signature.Recv() == nil &&
			callee.Signature.Results().Len() == 1 && namedOf(callee.Signature.Results().At(0).Type()) == kt {
			out = append(out, callee)
		}
	})
	return out
}

func classifyTimers(fn *ssa.Function, more ...*ssa.Function) *timerInfo {
	ti := &timerInfo{family: map[ssa.Value]string{}, fieldFam: map[*types.Var]string{}}
	fieldRep := map[*types.Var]ssa.Value{}
	var timers []ssa.Value
	parent := map[ssa.Value]ssa.Value{}
	var find func(v ssa.Value) ssa.Value
	find = func(v ssa.Value) ssa.Value {
		if parent[v] == nil || parent[v] == v {
			return v
		}
		parent[v] = find(parent[v])
		return parent[v]
	}
	union := func(a, b ssa.Value) { parent[find(a)] = find(b) }
	kind := map[ssa.Value]string{}
	each := func(f func(in ssa.Instruction)) {
		eachInstr(fn, f)
		for _, m := range more {
			eachInstr(m, f)
		}
	}
	each(func(in ssa.Instruction) {
		switch x := in.(type) {
		case *ssa.Call:
			if callIsFunc(x, "time", "NewTimer") {
				timers = append(timers, x)
				parent[x] = x
				// timers kept in the same field of the loop-state struct are one family
				for _, ref := range *x.Referrers() {
					if st, ok := ref.(*ssa.Store); ok && st.Val == ssa.Value(x) {
						if fa, ok := st.Addr.(*ssa.FieldAddr); ok {
							f := fieldOfAddr(fa)
							if rep, ok := fieldRep[f]; ok {
								union(x, rep)
							} else {
								fieldRep[f] = x
							}
						}
					}
				}
				delayOrigins := origins(x.Call.Args[0])
				if curProg != nil {
					delayOrigins = originsInter(curProg, x.Call.Args[0], 2) // the delay may be a parameter of a small arming helper
				}
				for _, o := range delayOrigins {
					if c, ok := o.(*ssa.Call); ok {
						if c.Call.IsInvoke() && c.Call.Method.Name() == "NextDelay" {
							kind[x] = "connect"
						}
						// a helper of the program that is handed the configured refresh window (value-or-default)
						if f := c.Call.StaticCallee(); f != nil && curProg != nil && curProg.InRepo(f) {
							for _, a := range c.Call.Args {
								if strings.Contains(fieldPath(a), "RefreshWindow") {
									kind[x] = "refresh"
								}
							}
						}
					}
					if strings.Contains(fieldPath(o), "RefreshWindow") {
						kind[x] = "refresh"
					}
				}
			}
		case *ssa.Phi:
			if typeIs(x.Type(), "time", "Timer") {
				timers = append(timers, x)
				parent[x] = x
			}
		}
	})
	for _, t := range timers {
		if phi, ok := t.(*ssa.Phi); ok {
			for _, e := range phi.Edges {
				if _, known := parent[e]; known {
					union(phi, e)
				}
			}
		}
	}
	famKind := map[ssa.Value]string{}
	for t, k := range kind {
		famKind[find(t)] = k
	}
	// a family whose delay is of unknown origin is the reconnect timer when no other family is
	// (the delay is then judged: it must come from the reconnect policy)
	haveConnect := false
	for _, k := range famKind {
		if k == "connect" {
			haveConnect = true
		}
	}
	if !haveConnect {
		for _, t := range timers {
			if _, isCall := t.(*ssa.Call); isCall && famKind[find(t)] == "" {
				if k, ok := constInt(t.(*ssa.Call).Call.Args[0]); !(ok && k == 0) {
					famKind[find(t)] = "connect"
				}
			}
		}
	}
	for _, t := range timers {
		ti.family[t] = famKind[find(t)]
	}
	for f, rep := range fieldRep {
		ti.fieldFam[f] = famKind[find(rep)]
	}
	return ti
}

func (ti *timerInfo) of(v ssa.Value) string {
	if f, ok := ti.family[v]; ok {
		return f
	}
	if f, _ := loadedField(v); f != nil && ti.fieldFam[f] != "" {
		return ti.fieldFam[f]
	}
	for _, o := range origins(v) {
		if f, ok := ti.family[o]; ok && f != "" {
			return f
		}
		if f, _ := loadedField(o); f != nil && ti.fieldFam[f] != "" {
			return ti.fieldFam[f]
		}
	}
	return ""
}

type loopResult struct {
	problems []string
	nodes    int
	resets   map[string]int
}

// simulateMaintenanceLoop explores a stayConnected loop with the timer/flag typestate.
func simulateMaintenanceLoop(p *Prog, fn *ssa.Function, connectOK func(call ssa.CallInstruction, callee *ssa.Function) (tuple bool, match bool)) loopResult {
	res := loopResult{resets: map[string]int{}}
	kt := keeperType(p, fn)
	keeperFns := keeperFuncs(p, fn, kt)
	isKeeperFn := map[*ssa.Function]bool{}
	for _, kf := range keeperFns {
		isKeeperFn[kf] = true
	}
	ti := classifyTimers(fn, keeperFns...)
	// header: the block with the most predecessors that is a loop header
	var header *ssa.BasicBlock
	for _, b := range fn.Blocks {
		if isLoopHeader(b) && (header == nil || len(b.Preds) > len(header.Preds)) {
			header = b
		}
	}
	if header == nil {
		res.problems = append(res.problems, "no maintenance loop found")
		return res
	}
	// flags: bool phis of the header paired with a timer family
	flagOf := map[*ssa.Phi]string{}
	for _, in := range header.Instrs {
		phi, ok := in.(*ssa.Phi)
		if !ok {
			break
		}
		if b, ok := phi.Type().Underlying().(*types.Basic); !ok || b.Kind() != types.Bool {
			continue
		}
		for i, e := range phi.Edges {
			if c, ok := e.(*ssa.Const); ok && c.Value != nil && constant.BoolVal(c.Value) {
				pred := header.Preds[i]
				for _, pin := range pred.Instrs {
					if call, ok := pin.(*ssa.Call); ok && callIsFunc(call, "time", "NewTimer") {
						if f := ti.of(call); f != "" {
							flagOf[phi] = f
						}
					}
				}
			}
		}
	}
	// flags kept in the loop-state struct: a bool field set to true where a timer of a family is armed
	fieldFlagOf := map[*types.Var]string{}
	for _, g := range append([]*ssa.Function{fn}, keeperFns...) {
		eachInstr(g, func(in ssa.Instruction) {
			st, ok := in.(*ssa.Store)
			if !ok {
				return
			}
			fa, ok := st.Addr.(*ssa.FieldAddr)
			if !ok || namedOf(fa.X.Type()) != kt || kt == nil {
				return
			}
			c, ok := st.Val.(*ssa.Const)
			if !ok || c.Value == nil || c.Value.Kind() != constant.Bool || !constant.BoolVal(c.Value) {
				return
			}
			for _, bin := range st.Block().Instrs {
				if call, ok := bin.(*ssa.Call); ok && callIsFunc(call, "time", "NewTimer") {
					if f := ti.of(call); f != "" {
						fieldFlagOf[fieldOfAddr(fa)] = f
					}
				}
			}
		})
	}
	if len(flagOf) == 0 && len(fieldFlagOf) == 0 {
		res.problems = append(res.problems, "no pending-flag / timer pair recognised in the loop")
	}
	// select cases on timer channels
	type caseKey struct {
		idx ssa.Value
		k   int64
	}
	timerCase := map[caseKey]string{}
	selScan := func(in ssa.Instruction) {
		sel, ok := in.(*ssa.Select)
		if !ok {
			return
		}
		var idxVal ssa.Value
		for _, ref := range *sel.Referrers() {
			if ex, ok := ref.(*ssa.Extract); ok && ex.Index == 0 {
				idxVal = ex
			}
		}
		for i, st := range sel.States {
			if f, base := loadedField(st.Chan); f != nil && f.Name() == "C" {
				if fam := ti.of(base); fam != "" {
					timerCase[caseKey{idxVal, int64(i)}] = fam
				}
			}
		}
	}
	eachInstr(fn, selScan)
	for _, g := range keeperFns {
		eachInstr(g, selScan)
	}
	s := newSim(p)
	if kt != nil {
		// the loop body lives in the methods of the loop-state struct; its fields are the loop variables
		s.Inline = func(f *ssa.Function) bool { return isKeeperFn[f] && f.Parent() == nil }
		if stt, ok := kt.Underlying().(*types.Struct); ok {
			for i := 0; i < stt.NumFields(); i++ {
				s.Tracked[stt.Field(i)] = true
			}
		}
	}
	s.Model = func(sm *Sim, st *State, call ssa.CallInstruction, callee *ssa.Function) []*State {
		cm := call.Common()
		switch {
		case callIsFunc(call, "time", "NewTimer"):
			if v, ok := call.(ssa.Value); ok {
				fam := ti.of(v)
				if fam != "" {
					st.aux["armed:"+fam] = "1"
				}
				// a timer created from the back-off policy
				if fam == "connect" {
					if k, ok := constInt(cm.Args[0]); !(ok && k == 0) {
						fromPolicy := false
						for _, o := range origins(cm.Args[0]) {
							if c, ok := o.(*ssa.Call); ok && c.Call.IsInvoke() && c.Call.Method.Name() == "NextDelay" {
								fromPolicy = true
							}
						}
						if !fromPolicy {
							res.problems = append(res.problems, p.Pos(call.Pos())+": reconnect delay does not come from the reconnect policy")
						}
					}
				}
			}
			return nil
		case callee != nil && callee.String() == "(*time.Timer).Stop":
			if fam := ti.of(cm.Args[0]); fam != "" {
				delete(st.aux, "armed:"+fam)
			}
			return nil
		case cm.IsInvoke() && cm.Method.Name() == "Reset" && recvNamedIs(cm.Method, "proxycore", "ReconnectPolicy"):
			st.aux["reset"] = "1"
			return nil
		}
		if tuple, ok := connectOK(call, callee); ok {
			okSt, bad := st.clone(), st.clone()
			okSt.aux["connected"] = "ok"
			bad.aux["connected"] = "fail"
			if tuple {
				SetCallResult(okSt, call, avTup(AV{K: avNonNil}, AV{K: avNil}))
				SetCallResult(bad, call, avTup(AV{K: avNil}, AV{K: avNonNil}))
			} else {
				SetCallResult(okSt, call, avBool(true))
				SetCallResult(bad, call, avBool(false))
			}
			return []*State{okSt, bad}
		}
		return nil
	}
	s.OnBranch = func(st *State, cond ssa.Value, truth bool) {
		if bo, ok := cond.(*ssa.BinOp); ok && bo.Op == token.EQL && truth {
			if k, ok := constInt(bo.Y); ok {
				if fam, ok := timerCase[caseKey{bo.X, k}]; ok {
					delete(st.aux, "armed:"+fam) // the timer fired
				}
			}
		}
	}
	s.OnInstr = func(st *State, in ssa.Instruction) {
		// a loop-state struct built by the loop function starts with zero values: its flags are false
		if al, ok := in.(*ssa.Alloc); ok && kt != nil {
			if elem := al.Type().Underlying().(*types.Pointer).Elem(); namedOf(elem) == kt {
				if stt, ok := elem.Underlying().(*types.Struct); ok {
					for i := 0; i < stt.NumFields(); i++ {
						if b, ok := stt.Field(i).Type().Underlying().(*types.Basic); ok && b.Kind() == types.Bool {
							st.cells[stt.Field(i)] = avBool(false)
						}
					}
				}
			}
		}
		if in != header.Instrs[0] {
			return
		}
		// invariant at the loop header (phis have been evaluated on the edge)
		for phi, fam := range flagOf {
			if b, known := st.vals[phi].isBool(); known && b && st.aux["armed:"+fam] != "1" {
				res.problems = append(res.problems, fmt.Sprintf("the %s-pending flag (%s) is true while its timer is not armed: the loop waits for an event that never fires and stops scheduling %ses", fam, phi.Comment, fam))
			}
		}
		for fld, fam := range fieldFlagOf {
			if b, known := st.cells[fld].isBool(); known && b && st.aux["armed:"+fam] != "1" {
				res.problems = append(res.problems, fmt.Sprintf("the %s-pending flag (%s) is true while its timer is not armed: the loop waits for an event that never fires and stops scheduling %ses", fam, fld.Name(), fam))
			}
		}
		switch st.aux["connected"] {
		case "ok":
			res.resets["ok"]++
			if st.aux["reset"] != "1" {
				res.problems = append(res.problems, "the reconnect policy is not reset after a successful (re)connect: delays stay long after recovery")
			}
		case "fail":
			res.resets["fail"]++
			if st.aux["reset"] == "1" {
				res.problems = append(res.problems, "the reconnect policy is reset after a failed attempt: no back-off")
			}
		}
		delete(st.aux, "connected")
		delete(st.aux, "reset")
	}
	s.Run(fn, newState())
	res.nodes = s.Nodes
	return res
}

func c16Loops(p *Prog, r *Report) {
	r.Rule("C16.reconnect-loop", "both maintenance loops take their reconnect delay from ReconnectPolicy.NextDelay() and Reset() the policy after, and only after, a successful (re)connect")
	r.Rule("C16.timer-flag", "at every iteration of a maintenance loop a pending flag that is true has its timer armed")
	pool := p.Named("proxycore", "connPool")
	cl := p.Named("proxycore", "Cluster")
	loops := []struct {
		name string
		fn   *ssa.Function
		ok   func(call ssa.CallInstruction, callee *ssa.Function) (bool, bool)
	}{
		{"connPool.stayConnected", p.methodOf(pool, "stayConnected"), func(call ssa.CallInstruction, callee *ssa.Function) (bool, bool) {
			return true, callee != nil && callee == p.methodOf(pool, "connect")
		}},
		{"Cluster.stayConnected", p.methodOf(cl, "stayConnected"), func(call ssa.CallInstruction, callee *ssa.Function) (bool, bool) {
			return false, callee != nil && callee == p.methodOf(cl, "reconnect")
		}},
	}
	for _, l := range loops {
		if l.fn == nil {
			fatalf("anchor: %s not found", l.name)
		}
		res := simulateMaintenanceLoop(p, l.fn, l.ok)
		r.count("sim_states", res.nodes)
		var loopBad, flagBad []string
		for _, pr := range dedupe(res.problems) {
			if strings.Contains(pr, "pending flag") || strings.Contains(pr, "-pending flag") || strings.Contains(pr, "recognised") {
				flagBad = append(flagBad, pr)
			} else {
				loopBad = append(loopBad, pr)
			}
		}
		if res.resets["ok"] == 0 {
			loopBad = append(loopBad, "no iteration performs a (re)connect")
		}
		r.check(len(loopBad) == 0, "C16.reconnect-loop", l.name, p.Pos(l.fn.Pos()), fmt.Sprintf("%d successful / %d failed reconnect iterations explored", res.resets["ok"], res.resets["fail"]), strings.Join(loopBad, " || "))
		r.check(len(flagBad) == 0, "C16.timer-flag", l.name, p.Pos(l.fn.Pos()), "", strings.Join(flagBad, " || "))
		c16LoopExit(p, r, l.name, l.fn)
	}
}

// c16LoopExit: a maintenance loop heals its connection for as long as the proxy runs.  The only
// thing that ends it is its context: the exit flag is set only in the select arm that received from
// ctx.Done(), and the loop has no other way out.
func c16LoopExit(p *Prog, r *Report, name string, fn *ssa.Function) {
	const rule = "C16.loop-exit"
	r.Rule(rule, "the reconnect loops of a pool slot and of the control connection end only when their context is done: the flag that ends the loop is set, and the loop is left, only in the select arm that received from ctx.Done() (a loop that gives up after a failed attempt leaves its slot, or the control connection, unhealed for good)")
	fns := append([]*ssa.Function{fn}, keeperFuncs(p, fn, keeperType(p, fn))...)
	for _, h := range privateHelpersOf(p, fn) {
		dup := false
		for _, f := range fns {
			if f == h {
				dup = true
			}
		}
		if !dup {
			fns = append(fns, h)
		}
	}
	inDoneArm := func(b *ssa.BasicBlock) bool {
		for _, ct := range dominatingConds(b) {
			bo, ok := ct.Cond.(*ssa.BinOp)
			if !ok || bo.Op != token.EQL || !ct.Truth {
				continue
			}
			ex, ok := bo.X.(*ssa.Extract)
			if !ok || ex.Index != 0 {
				continue
			}
			sel, ok := ex.Tuple.(*ssa.Select)
			if !ok {
				continue
			}
			k, isK := constInt(bo.Y)
			if !isK || int(k) >= len(sel.States) {
				continue
			}
			for _, o := range origins(sel.States[k].Chan) {
				if c, ok := o.(*ssa.Call); ok && c.Call.IsInvoke() && c.Call.Method.Name() == "Done" {
					return true
				}
			}
		}
		return false
	}
	// (an arm may live in a small helper that is only called from the ctx.Done() arm)
	inArm := inDoneArm
	var inDoneArmInter func(b *ssa.BasicBlock, depth int) bool
	inDoneArmInter = func(b *ssa.BasicBlock, depth int) bool {
		if inArm(b) {
			return true
		}
		if depth <= 0 {
			return false
		}
		sites, only := p.staticCallSites(b.Parent())
		if !only || len(sites) == 0 {
			return false
		}
		for _, cs := range sites {
			if !inDoneArmInter(cs.Block(), depth-1) {
				return false
			}
		}
		return true
	}
	inDoneArm = func(b *ssa.BasicBlock) bool { return inDoneArmInter(b, 2) }
	// the exit flag: the boolean the loop condition tests (a local, or a field of the loop-state struct)
	var bad []string
	n := 0
	// a loop without a flag is left by returning: every return inside the loop body belongs to the
	// ctx.Done() arm
	eachInstr(fn, func(in ssa.Instruction) {
		ret, ok := in.(*ssa.Return)
		if !ok {
			return
		}
		// reached from inside the loop: the block is in the loop, or is dominated by its header
		// without the loop condition having ended it
		inside := loopDepthOf(ret.Block()) > 0
		for _, h := range fn.Blocks {
			if isLoopHeader(h) && h != ret.Block() && h.Dominates(ret.Block()) {
				// a `for cond` loop's normal exit leaves through the header's own false edge
				viaHeaderExit := false
				if _, isIf := lastIf(h); isIf && len(h.Succs) == 2 {
					for _, sc := range h.Succs {
						if loopDepthOf(sc) == 0 && (sc == ret.Block() || sc.Dominates(ret.Block())) {
							viaHeaderExit = true
						}
					}
				}
				if !viaHeaderExit {
					inside = true
				}
			}
		}
		if !inside {
			return
		}
		n++
		if !inDoneArm(ret.Block()) {
			bad = append(bad, fmt.Sprintf("%s: %s leaves its loop on a path that did not receive from ctx.Done()", p.Pos(ret.Pos()), fn.Name()))
		}
	})
	// the value the loop condition tests, followed to the places that make it true
	seen := map[ssa.Value]bool{}
	var walk func(v ssa.Value, from *ssa.BasicBlock, depth int)
	walk = func(v ssa.Value, from *ssa.BasicBlock, depth int) {
		if depth > 8 || v == nil {
			return
		}
		switch y := v.(type) {
		case *ssa.Const:
			if y.Value != nil && y.Value.Kind() == constant.Bool && constant.BoolVal(y.Value) {
				n++
				if !inDoneArm(from) {
					pos := "?"
					if len(from.Instrs) > 0 {
						pos = p.Pos(from.Instrs[len(from.Instrs)-1].Pos())
					}
					bad = append(bad, fmt.Sprintf("%s: the loop is ended by %s on a path that did not receive from ctx.Done()", pos, from.Parent().Name()))
				}
			}
		case *ssa.Phi:
			if seen[y] {
				return
			}
			seen[y] = true
			for i, e := range y.Edges {
				walk(e, y.Block().Preds[i], depth+1)
			}
		case *ssa.Call:
			// an iteration (or an arm) lives in a function that reports whether the loop is done
			callee := y.Call.StaticCallee()
			if callee == nil || callee.Blocks == nil || !p.InRepo(callee) || seen[y] {
				return
			}
			seen[y] = true
			eachInstr(callee, func(i2 ssa.Instruction) {
				if ret, ok := i2.(*ssa.Return); ok && len(ret.Results) == 1 {
					walk(ret.Results[0], ret.Block(), depth+1)
				}
			})
		case *ssa.UnOp:
			// a named result or local spilled to a cell: the values stored into it
			if y.Op == token.NOT {
				return
			}
			if al, ok := y.X.(*ssa.Alloc); ok && y.Op == token.MUL {
				for _, ref := range *al.Referrers() {
					if st, ok := ref.(*ssa.Store); ok && st.Addr == ssa.Value(al) {
						walk(st.Val, st.Block(), depth+1)
					}
				}
			}
		}
	}
	for _, f := range fns {
		for _, h := range f.Blocks {
			if !isLoopHeader(h) {
				continue
			}
			iff, ok := lastIf(h)
			if !ok {
				continue
			}
			c, _ := stripNot(iff.Cond)
			walk(c, h, 0)
		}
		eachInstr(f, func(in ssa.Instruction) {
			switch x := in.(type) {
			case *ssa.Store:
				// loop state in a struct: `loop.done = true`
				fa, ok := x.Addr.(*ssa.FieldAddr)
				if !ok {
					return
				}
				k, isK := x.Val.(*ssa.Const)
				if !isK || k.Value == nil || k.Value.Kind() != constant.Bool || !constant.BoolVal(k.Value) {
					return
				}
				if !strings.Contains(strings.ToLower(fieldOfAddr(fa).Name()), "done") {
					return
				}
				n++
				if !inDoneArm(x.Block()) {
					bad = append(bad, fmt.Sprintf("%s: %s ends the loop on a path that did not receive from ctx.Done()", p.Pos(x.Pos()), f.Name()))
				}
			}
		})
	}
	r.check(len(bad) == 0 && n > 0, rule, name, p.Pos(fn.Pos()), fmt.Sprintf("%d assignment(s) that end the loop, all in the ctx.Done() arm", n), strings.Join(dedupe(bad), " || "))
}

func c16Refresh(p *Prog, r *Report) {
	const rule = "C16.refresh"
	r.Rule(rule, "TOPOLOGY_CHANGE and STATUS_CHANGE(UP) arm a host refresh; the refresh case re-reads the hosts; mergeHosts sends Add for keys not known before and Remove for keys no longer listed and adopts the new list; sessions create a pool on Add and cancel it on Remove; reconnect moves to the next known host")
	cl := p.Named("proxycore", "Cluster")
	sc := p.methodOf(cl, "stayConnected")
	// the loop function, the private helpers of the cluster only it calls, and - when the loop state
	// lives in a struct - that struct's methods and constructor
	family := []*ssa.Function{sc}
	for _, f := range withCallees(p, sc, 2) {
		if f != sc && f.Parent() == nil && recvNamed(f) == cl && onlyCalledFrom(p, f, sc, 3) {
			family = append(family, f)
		}
	}
	kfs := keeperFuncs(p, sc, keeperType(p, sc))
	family = append(family, kfs...)
	ti := classifyTimers(sc, kfs...)
	var bad []string
	// where the refresh timer is armed: the NewTimer call, or a call of a helper that holds it
	arming := map[*ssa.Function]bool{}
	for _, f := range family {
		eachInstr(f, func(in ssa.Instruction) {
			if call, ok := in.(*ssa.Call); ok && callIsFunc(call, "time", "NewTimer") && ti.of(call) == "refresh" {
				arming[f] = true
			}
		})
	}
	var armSites []*ssa.Call
	for _, f := range family {
		eachInstr(f, func(in ssa.Instruction) {
			call, ok := in.(*ssa.Call)
			if !ok {
				return
			}
			if callIsFunc(call, "time", "NewTimer") && ti.of(call) == "refresh" {
				armSites = append(armSites, call)
			} else if callee := call.Call.StaticCallee(); callee != nil && arming[callee] && callee != f {
				armSites = append(armSites, call)
			}
		})
	}
	// arms that create the refresh timer
	for _, want := range []string{"TopologyChangeEvent", "StatusChangeEvent"} {
		armed := false
		for _, call := range armSites {
			for _, ct := range dominatingConds(call.Block()) {
				if ex, ok := ct.Cond.(*ssa.Extract); ok && ct.Truth {
					if ta, ok := ex.Tuple.(*ssa.TypeAssert); ok && typeIs(ta.AssertedType, "message", want) {
						armed = true
					}
				}
				// or the arm's body was moved into a helper that reports whether to refresh:
				// the timer is armed when the helper says so, and the helper says so for this event type
				if !ct.Truth {
					continue
				}
				for _, o := range origins(ct.Cond) {
					hc, ok := o.(*ssa.Call)
					if !ok || hc.Call.StaticCallee() == nil || recvNamed(hc.Call.StaticCallee()) != cl {
						continue
					}
					eachInstr(hc.Call.StaticCallee(), func(hin ssa.Instruction) {
						ret, ok := hin.(*ssa.Return)
						if !ok || len(ret.Results) != 1 {
							return
						}
						if k, isC := ret.Results[0].(*ssa.Const); isC && k.Value != nil && k.Value.ExactString() == "false" {
							return
						}
						for _, hct := range dominatingConds(ret.Block()) {
							if ex, ok := hct.Cond.(*ssa.Extract); ok && hct.Truth {
								if ta, ok := ex.Tuple.(*ssa.TypeAssert); ok && typeIs(ta.AssertedType, "message", want) {
									armed = true
								}
							}
						}
					})
				}
			}
		}
		if !armed {
			bad = append(bad, want+" does not schedule a host refresh")
		}
	}
	// status: only UP
	upOnly := false
	scFns := family
	for _, scf := range scFns {
		eachInstr(scf, func(in ssa.Instruction) {
			if bo, ok := in.(*ssa.BinOp); ok && bo.Op == token.EQL {
				for _, side := range []ssa.Value{bo.X, bo.Y} {
					if k, ok := side.(*ssa.Const); ok && k.Value != nil && k.Value.ExactString() == p.constOf("primitive", "StatusChangeTypeUp").ExactString() {
						upOnly = true
					}
				}
			}
		})
	}
	if !upOnly {
		bad = append(bad, "status events are not filtered for UP")
	}
	// refresh case calls refreshHosts
	rh := p.methodOf(cl, "refreshHosts")
	called := false
	for _, f := range family {
		eachCall(f, func(c ssa.CallInstruction) {
			if c.Common().StaticCallee() == rh && rh != nil {
				called = true
			}
		})
	}
	if !called {
		bad = append(bad, "the refresh timer case does not re-read the hosts")
	}
	r.check(len(bad) == 0, rule, "Cluster.stayConnected", p.Pos(sc.Pos()), "", strings.Join(bad, " || "))

	// mergeHosts
	mh := p.methodOf(cl, "mergeHosts")
	hostsF := p.Field("proxycore", "Cluster", "hosts")
	var mb []string
	addOK, remOK, adopt := false, false, false
	se := p.methodOf(cl, "sendEvent")
	if se == nil {
		fatalf("anchor: the Cluster method that delivers an event to the listeners was not found")
	}
	// where an event is "decided": at the sendEvent call itself, or - when the call sits in a callback
	// that mergeHosts hands to a diff helper - where the helper invokes that callback
	decidedAt := func(c ssa.CallInstruction) []ssa.Instruction {
		fn := c.Parent()
		if fn == mh || fn.Parent() != mh {
			return []ssa.Instruction{c.(ssa.Instruction)}
		}
		var out []ssa.Instruction
		eachCall(mh, func(hc ssa.CallInstruction) {
			h := hc.Common().StaticCallee()
			if h == nil || h.Blocks == nil || !p.InRepo(h) {
				return
			}
			args := hc.Common().Args
			hp := h.Params
			for i, a := range args {
				mc, ok := a.(*ssa.MakeClosure)
				if !ok || mc.Fn != ssa.Value(fn) || i >= len(hp) {
					continue
				}
				eachCall(h, func(dc ssa.CallInstruction) {
					if dc.Common().Value == ssa.Value(hp[i]) {
						out = append(out, dc.(ssa.Instruction))
					}
				})
			}
		})
		return out
	}
	scanFns := []*ssa.Function{mh}
	scanFns = append(scanFns, mh.AnonFuncs...)
	for _, sf := range scanFns {
		eachCall(sf, func(c ssa.CallInstruction) {
			if c.Common().StaticCallee() != se {
				return
			}
			for _, o := range origins(c.Common().Args[1]) {
				al, ok := o.(*ssa.Alloc)
				if !ok {
					continue
				}
				for _, site := range decidedAt(c) {
					switch {
					case typeIs(al.Type(), "proxycore", "AddEvent"):
						// in the branch where the key was NOT found among the existing hosts
						for _, ct := range dominatingConds(site.Block()) {
							if ex, ok := ct.Cond.(*ssa.Extract); ok && ex.Index == 1 && !ct.Truth {
								if _, ok := ex.Tuple.(*ssa.Lookup); ok {
									addOK = true
								}
							}
						}
					case typeIs(al.Type(), "proxycore", "RemoveEvent"):
						// while ranging over what is left of the existing map
						if strings.HasPrefix(site.Block().Comment, "rangeiter") {
							remOK = true
						}
					}
				}
			}
		})
	}
	eachInstr(mh, func(in ssa.Instruction) {
		if st, ok := in.(*ssa.Store); ok {
			if fa, ok := st.Addr.(*ssa.FieldAddr); ok && fieldOfAddr(fa) == hostsF && st.Val == ssa.Value(mh.Params[1]) {
				adopt = true
			}
		}
	})
	// found hosts are removed from the 'existing' set so that only vanished hosts remain
	del := false
	for _, df := range withCallees(p, mh, 1) {
		eachCall(df, func(c ssa.CallInstruction) {
			if b, ok := c.Common().Value.(*ssa.Builtin); ok && b.Name() == "delete" {
				del = true
			}
		})
	}
	if !addOK {
		mb = append(mb, "no AddEvent for hosts that were not known before (new nodes never receive requests)")
	}
	if !remOK || !del {
		mb = append(mb, "no RemoveEvent for hosts that are no longer listed (removed nodes keep receiving requests)")
	}
	if !adopt {
		mb = append(mb, "the new host list is not adopted")
	}
	r.check(len(mb) == 0, rule, "Cluster.mergeHosts", p.Pos(mh.Pos()), "", strings.Join(mb, " || "))

	// Session.OnEvent
	sess := p.Named("proxycore", "Session")
	oe := p.methodOf(sess, "OnEvent")
	poolsF := p.Field("proxycore", "Session", "pools")
	var sb []string
	addArm, remArm := false, false
	// OnEvent and the private helpers its arms were moved into
	var oeFns []*ssa.Function
	for _, f := range withCallees(p, oe, 2) {
		if f == oe || (f.Parent() == nil && recvNamed(f) == sess && onlyCalledFrom(p, f, oe, 3)) {
			oeFns = append(oeFns, f)
		}
	}
	for _, op := range p.syncMapOps(poolsF, oeFns) {
		c, of := op.Call, op.Fn
		arm := ""
		for _, ct := range dominatingConds(c.Block()) {
			if ex, ok := ct.Cond.(*ssa.Extract); ok && ct.Truth {
				if ta, ok := ex.Tuple.(*ssa.TypeAssert); ok {
					arm = shortType(ta.AssertedType)
				}
			}
		}
		if arm == "" {
			// a helper called from the arm
			if sites, only := p.staticCallSites(of); only {
				for _, site := range sites {
					for _, ct := range dominatingConds(site.Block()) {
						if ex, ok := ct.Cond.(*ssa.Extract); ok && ct.Truth {
							if ta, ok := ex.Tuple.(*ssa.TypeAssert); ok {
								arm = shortType(ta.AssertedType)
							}
						}
					}
				}
			}
		}
		if arm == "" {
			// a helper that is handed the typed event
			for _, par := range of.Params {
				if typeIs(par.Type(), "proxycore", "AddEvent") || typeIs(par.Type(), "proxycore", "RemoveEvent") {
					arm = shortType(par.Type())
				}
			}
		}
		if (op.Kind == "LoadOrStore" || op.Kind == "Store") && arm == "*proxycore.AddEvent" {
			addArm = true
		}
		if op.Kind == "LoadAndDelete" && arm == "*proxycore.RemoveEvent" {
			remArm = true
		}
	}
	// removal cancels the pool
	cancels := 0
	for _, of := range oeFns {
		eachInstr(of, func(in ssa.Instruction) {
			if c, ok := in.(*ssa.Call); ok && c.Call.StaticCallee() == nil && !c.Call.IsInvoke() {
				if f, _ := loadedField(c.Call.Value); f != nil && f.Name() == "cancel" {
					cancels++
				}
			}
		})
	}
	if !addArm {
		sb = append(sb, "AddEvent does not create a pool for the new host")
	}
	if !remArm || cancels == 0 {
		sb = append(sb, "RemoveEvent does not delete and cancel the host's pool")
	}
	r.check(len(sb) == 0, rule, "Session.OnEvent", p.Pos(oe.Pos()), "", strings.Join(sb, " || "))

	// reconnect rotates
	rc := p.methodOf(cl, "reconnect")
	idxF := p.Field("proxycore", "Cluster", "currentHostIndex")
	rot := false
	eachInstr(rc, func(in ssa.Instruction) {
		if st, ok := in.(*ssa.Store); ok {
			if fa, ok := st.Addr.(*ssa.FieldAddr); ok && fieldOfAddr(fa) == idxF {
				if rem, ok := st.Val.(*ssa.BinOp); ok && rem.Op == token.REM {
					if add, ok := rem.X.(*ssa.BinOp); ok && add.Op == token.ADD {
						if one, ok := constInt(add.Y); ok && one == 1 {
							if f, _ := loadedField(add.X); f == idxF {
								rot = true
							}
						}
					}
				}
			}
		}
	})
	r.check(rot, rule, "Cluster.reconnect", p.Pos(rc.Pos()), "", "control connection fail-over does not move on to the next known host")
}

func c16Outage(p *Prog, r *Report) {
	const rule = "C16.outage-clock"
	r.Rule(rule, "the outage clock starts (time.Now) only where the control connection is found closed and is cleared (zero time) only after a successful control connect; OutageDuration is zero iff the clock is cleared; readiness returns 200 iff the outage is shorter than the readiness timeout")
	cl := p.Named("proxycore", "Cluster")
	set := p.methodOf(cl, "setOutageTime")
	if set == nil {
		fatalf("anchor: Cluster.setOutageTime not found")
	}
	var bad []string
	nNow, nZero := 0, 0
	for _, fn := range p.ScopedFuncs("proxycore") {
		eachCall(fn, func(c ssa.CallInstruction) {
			if c.Common().StaticCallee() != set {
				return
			}
			arg := c.Common().Args[1]
			isNow := false
			if call, ok := arg.(*ssa.Call); ok && callIsFunc(call, "time", "Now") {
				isNow = true
			}
			if isNow {
				nNow++
				// in the IsClosed case of the control loop: a select on IsClosed() of the control connection
				var inClosedArm func(site ssa.Instruction, depth int) bool
				inClosedArm = func(site ssa.Instruction, depth int) bool {
					sfn := site.Parent()
					found := false
					eachInstr(sfn, func(in ssa.Instruction) {
						sel, ok := in.(*ssa.Select)
						if !ok {
							return
						}
						var idxVal ssa.Value
						for _, ref := range *sel.Referrers() {
							if ex, ok := ref.(*ssa.Extract); ok && ex.Index == 0 {
								idxVal = ex
							}
						}
						for i, st := range sel.States {
							if cc, ok := st.Chan.(*ssa.Call); ok && cc.Call.StaticCallee() != nil && cc.Call.StaticCallee().Name() == "IsClosed" {
								for _, ct := range dominatingConds(site.Block()) {
									if bo, ok := ct.Cond.(*ssa.BinOp); ok && bo.Op == token.EQL && ct.Truth && bo.X == idxVal {
										if k, ok := constInt(bo.Y); ok && k == int64(i) {
											found = true
										}
									}
								}
							}
						}
					})
					if found || depth == 0 {
						return found
					}
					// a private helper holding the arm's body: every call site is in that arm
					sites, only := p.staticCallSites(rootFn(sfn))
					if !only || len(sites) == 0 {
						return false
					}
					for _, cs := range sites {
						if !inClosedArm(cs.(ssa.Instruction), depth-1) {
							return false
						}
					}
					return true
				}
				okCase := inClosedArm(c.(ssa.Instruction), 2)
				if !okCase {
					bad = append(bad, p.Pos(c.Pos())+": the outage clock is started somewhere other than where the control connection is found closed")
				}
			} else {
				nZero++
				// zero value and after queryHosts succeeded
				if _, isConst := arg.(*ssa.Const); !isConst {
					if ld, ok := arg.(*ssa.UnOp); !ok {
						bad = append(bad, p.Pos(c.Pos())+": the outage clock is set to something other than now or zero")
					} else if _, ok := ld.X.(*ssa.Alloc); !ok {
						bad = append(bad, p.Pos(c.Pos())+": the outage clock is set to something other than now or zero")
					}
				}
				guardedAt := func(blk *ssa.BasicBlock) bool {
					for _, ct := range dominatingConds(blk) {
						if bo, ok := ct.Cond.(*ssa.BinOp); ok && ((bo.Op == token.NEQ && !ct.Truth) || (bo.Op == token.EQL && ct.Truth)) {
							for _, side := range []ssa.Value{bo.X, bo.Y} {
								for _, o := range origins(side) {
									if ex, ok := o.(*ssa.Extract); ok {
										if cc, ok := ex.Tuple.(*ssa.Call); ok && cc.Call.StaticCallee() != nil && cc.Call.StaticCallee().Name() == "queryHosts" {
											return true
										}
									}
								}
							}
						}
					}
					return false
				}
				guarded := guardedAt(c.Block())
				if !guarded {
					// a private helper that publishes the new control connection: every call of it is guarded
					if hsites, only := p.staticCallSites(rootFn(c.Parent())); only && len(hsites) > 0 && c.Parent().Parent() == nil {
						guarded = true
						for _, hs := range hsites {
							if !guardedAt(hs.Block()) {
								guarded = false
							}
						}
					}
				}
				if !guarded {
					bad = append(bad, p.Pos(c.Pos())+": the outage clock is cleared without a successful control connection (hosts queried)")
				}
			}
		})
	}
	if nNow != 1 || nZero != 1 {
		bad = append(bad, fmt.Sprintf("%d start sites and %d clear sites of the outage clock (1 and 1 expected)", nNow, nZero))
	}
	// OutageDuration: 0 iff IsZero
	od := p.methodOf(cl, "OutageDuration")
	{
		s := newSim(p)
		s.Model = func(sm *Sim, st *State, call ssa.CallInstruction, callee *ssa.Function) []*State {
			if callee != nil && callee.String() == "(time.Time).IsZero" {
				t, f := st.clone(), st.clone()
				t.aux["zero"] = "T"
				f.aux["zero"] = "F"
				SetCallResult(t, call, avBool(true))
				SetCallResult(f, call, avBool(false))
				return []*State{t, f}
			}
			return nil
		}
		sawZero := false
		for _, o := range s.Run(od, newState()) {
			if o.Panic || !o.Pos.IsValid() && o.St.aux["zero"] == "" {
				continue
			}
			isZeroRet := o.Ret.K == avConst && constant.Sign(o.Ret.C) == 0
			switch o.St.aux["zero"] {
			case "T":
				sawZero = true
				if !isZeroRet {
					bad = append(bad, "a non-zero outage is reported while the clock is cleared (a control connection exists)")
				}
			case "F":
				if isZeroRet {
					bad = append(bad, "no outage is reported while the clock is running")
				}
			}
		}
		r.count("sim_states", s.Nodes)
		if !sawZero {
			bad = append(bad, "OutageDuration does not test whether the clock is cleared")
		}
	}
	r.check(len(bad) == 0, rule, "Cluster outage clock", p.Pos(set.Pos()), "", strings.Join(dedupe(bad), " || "))

	// readiness handler
	rtF := p.Field("proxy", "runConfig", "ReadinessTimeout")
	var hb []string
	found := false
	for _, fn := range p.ScopedFuncs("proxy") {
		var cmp *ssa.BinOp
		eachInstr(fn, func(in ssa.Instruction) {
			if bo, ok := in.(*ssa.BinOp); ok {
				fx, _ := loadedField(bo.X)
				fy, _ := loadedField(bo.Y)
				if fx == rtF || fy == rtF {
					cmp = bo
				}
			}
		})
		if cmp == nil {
			continue
		}
		found = true
		// outage < timeout => 200 ; else 503 (in any of the four equivalent spellings)
		rtOnY := func() bool { f, _ := loadedField(cmp.Y); return f == rtF }()
		okTruth, strict := true, true
		switch {
		case cmp.Op == token.LSS && rtOnY, cmp.Op == token.GTR && !rtOnY:
			okTruth = true
		case cmp.Op == token.GEQ && rtOnY, cmp.Op == token.LEQ && !rtOnY:
			okTruth = false
		default:
			strict = false
		}
		if !strict {
			hb = append(hb, p.Pos(cmp.Pos())+": readiness does not compare `outage < readiness-timeout`")
		}
		// the outage operand comes from OutageDuration
		fromOutage := false
		for _, side := range []ssa.Value{cmp.X, cmp.Y} {
			for _, o := range origins(side) {
				if c, ok := o.(*ssa.Call); ok && c.Call.StaticCallee() != nil && c.Call.StaticCallee().Name() == "OutageDuration" {
					fromOutage = true
				}
			}
		}
		if !fromOutage {
			hb = append(hb, "readiness is not computed from the proxy's outage duration")
		}
		eachCall(fn, func(c ssa.CallInstruction) {
			cm := c.Common()
			if cm.IsInvoke() && cm.Method.Name() == "WriteHeader" {
				code, _ := constInt(cm.Args[0])
				t := guardedBy(c.Block(), cmp, okTruth)
				f := guardedBy(c.Block(), cmp, !okTruth)
				switch {
				case code == 200 && !t:
					hb = append(hb, p.Pos(c.Pos())+": 200 is not restricted to `outage < readiness-timeout`")
				case code == 503 && !f:
					hb = append(hb, p.Pos(c.Pos())+": 503 is not the answer for `outage >= readiness-timeout`")
				}
			}
		})
	}
	if !found {
		hb = append(hb, "no handler compares the outage with the readiness timeout")
	}
	r.check(len(hb) == 0, rule, "readiness handler", "", "", strings.Join(dedupe(hb), " || "))
}

// c16AddKeepsPool: an AddEvent for a host that already has a pool leaves that pool in
// service.  With sync.Map.LoadOrStore the first result is the pool that IS in the map: on
// the loaded path the pool to dispose of is the one just built, never the one returned.
func c16AddKeepsPool(p *Prog, r *Report) {
	const rule = "C16.add-keeps-pool"
	r.Rule(rule, "when a host that already has a connection pool is announced again, the pool in service is kept: on the 'already present' path of LoadOrStore the pool that is cancelled is the newly built one, not the one returned from the map (cancelling that one leaves the host without connections for good: it stays in the map and never reconnects)")
	sess := p.Named("proxycore", "Session")
	onEvent := p.methodOf(sess, "OnEvent")
	poolsF := p.Field("proxycore", "Session", "pools")
	var bad []string
	n := 0
	var scanFns []*ssa.Function
	for _, f := range withCallees(p, onEvent, 2) {
		if f == onEvent || (f.Parent() == nil && recvNamed(f) == sess && onlyCalledFrom(p, f, onEvent, 3)) {
			scanFns = append(scanFns, withClosures(f)...)
		}
	}
	for _, op := range p.syncMapOps(poolsF, scanFns) {
		if op.Kind != "LoadOrStore" {
			continue
		}
		n++
		fn := op.Fn
		call, isCall := op.Call.(*ssa.Call)
		if !isCall {
			continue
		}
		// which result of the site is the pool that was already in the map: the first result of
		// LoadOrStore itself, or the result through which a typed wrapper hands it on (none when
		// the wrapper only reports whether the pool was stored)
		loadedIdx := []int{0}
		if op.Wrapper != nil {
			loadedIdx = nil
			inner, _ := op.Inner.(*ssa.Call)
			eachInstr(op.Wrapper, func(in ssa.Instruction) {
				ret, ok := in.(*ssa.Return)
				if !ok {
					return
				}
				for i, rv := range ret.Results {
					for _, o := range origins(rv) {
						if ex, ok := o.(*ssa.Extract); ok && inner != nil && ex.Tuple == ssa.Value(inner) && ex.Index == 0 {
							loadedIdx = append(loadedIdx, i)
						}
					}
				}
			})
		}
		isLoaded := func(v ssa.Value) bool {
			for _, o := range origins(v) {
				if op.Wrapper != nil && op.Wrapper.Signature.Results().Len() == 1 {
					if o == ssa.Value(call) && len(loadedIdx) > 0 {
						return true
					}
					continue
				}
				if ex, ok := o.(*ssa.Extract); ok && ex.Tuple == ssa.Value(call) {
					for _, i := range loadedIdx {
						if ex.Index == i {
							return true
						}
					}
				}
			}
			return false
		}
		// every cancel in this function whose receiver derives from the value LoadOrStore returned
		eachCall(fn, func(cc ssa.CallInstruction) {
			callee := cc.Common().StaticCallee()
			var recv ssa.Value
			switch {
			case callee != nil && callee.Name() == "cancel" && len(cc.Common().Args) > 0:
				recv = cc.Common().Args[0]
			case callee == nil && !cc.Common().IsInvoke():
				// p.cancel is a func field: the call's value is loaded from a field of the pool
				if _, base := loadedField(cc.Common().Value); base != nil {
					recv = base
				}
			}
			if recv == nil {
				return
			}
			if isLoaded(recv) {
				bad = append(bad, p.Pos(cc.Pos())+": the pool returned by LoadOrStore (the one in service for that host) is cancelled")
			}
		})
	}
	r.check(len(bad) == 0 && n > 0, rule, "Session.OnEvent#AddEvent", p.Pos(onEvent.Pos()), fmt.Sprintf("%d LoadOrStore site(s)", n), strings.Join(dedupe(bad), " || "))
}

// c16Heartbeats: what the heartbeat loop of a connection needs to detect a dead or hung backend,
// and only that.
func c16Heartbeats(p *Prog, r *Report) {
	const rule = "C16.heartbeats"
	r.Rule(rule, "a connection is heartbeated with the protocol version its own handshake negotiated (or one that was compared equal to it); the idle timer of the heartbeat loop is re-armed only after a SUPPORTED answer to a heartbeat of that iteration (never because requests are in flight, which is exactly the situation of a backend that stopped answering)")
	cc := p.Named("proxycore", "ClientConn")
	hb := p.methodOf(cc, "Heartbeats")
	hs := p.methodOf(cc, "Handshake")
	if hb == nil || hs == nil {
		fatalf("rule %s: ClientConn.Heartbeats / Handshake not found", rule)
	}
	// (a) version argument at every start of a heartbeat loop
	var verIdx = -1
	for i, par := range hb.Params {
		if typeIs(par.Type(), "primitive", "ProtocolVersion") {
			verIdx = i
		}
	}
	if verIdx < 0 {
		fatalf("rule %s: Heartbeats takes no protocol version", rule)
	}
	nstart := 0
	for _, fn := range p.ScopedFuncs("proxycore", "proxy") {
		eachInstr(fn, func(in ssa.Instruction) {
			var cm *ssa.CallCommon
			switch x := in.(type) {
			case *ssa.Go:
				cm = &x.Call
			case *ssa.Call:
				cm = &x.Call
			default:
				return
			}
			if cm.StaticCallee() != hb {
				return
			}
			nstart++
			v := cm.Args[verIdx]
			conn := cm.Args[0]
			// the handshake of this connection in the same function
			var neg ssa.Value
			var req ssa.Value
			eachCall(fn, func(c ssa.CallInstruction) {
				if c.Common().StaticCallee() == hs && sameValue(c.Common().Args[0], conn) {
					if cv, ok := c.(ssa.Value); ok {
						for _, ref := range *cv.Referrers() {
							if ex, ok := ref.(*ssa.Extract); ok && ex.Index == 0 {
								neg = ex
							}
						}
					}
					for _, a := range c.Common().Args[1:] {
						if typeIs(a.Type(), "primitive", "ProtocolVersion") {
							req = a
						}
					}
				}
			})
			sameV := func(a, b ssa.Value) bool {
				if a == b || sameValue(a, b) {
					return true
				}
				pa, pb := fieldPath(a), fieldPath(b)
				return pa == pb && strings.Contains(pa, ".") && !strings.HasPrefix(pa, "?") && !strings.HasPrefix(pa, "phi") && !strings.HasPrefix(pa, "local")
			}
			ok := false
			var why string
			if neg == nil {
				// the handshake phase may live in a private helper that is handed the connection
				if viaHelper, desc := heartbeatVersionViaHelper(p, fn, in, hs, conn, v); viaHelper {
					owner := ""
					if rn := recvNamed(fn); rn != nil {
						owner = rn.Obj().Name() + "."
					}
					r.check(desc == "", rule, "start@"+owner+fn.Name(), p.Pos(in.Pos()), "negotiated version (handshake in a helper)", desc)
					return
				}
			}
			switch {
			case neg == nil:
				why = "no handshake of this connection in " + fn.Name()
			case v == neg || sameValue(v, neg):
				ok = true
			default:
				// the requested version, when every path to here compared it equal to the negotiated one
				if req != nil && sameV(v, req) {
					for _, ct := range dominatingConds(in.Block()) {
						bo, isBo := ct.Cond.(*ssa.BinOp)
						if !isBo {
							continue
						}
						pair := (bo.X == neg && sameV(bo.Y, req)) || (bo.Y == neg && sameV(bo.X, req))
						if pair && ((bo.Op == token.NEQ && !ct.Truth) || (bo.Op == token.EQL && ct.Truth)) {
							ok = true
						}
					}
				}
				why = "the heartbeat version is " + valDesc(v) + ", not the version negotiated by this connection's handshake (and not compared equal to it on every path): after a downgrade every heartbeat is refused and the healthy connection is closed after the idle timeout"
			}
			owner := ""
			if rn := recvNamed(fn); rn != nil {
				owner = rn.Obj().Name() + "."
			}
			r.check(ok, rule, "start@"+owner+fn.Name(), p.Pos(in.Pos()), "negotiated version", why)
		})
	}
	if nstart < 2 {
		fatalf("rule %s: only %d starts of the heartbeat loop found (2 confirmed by hand)", rule, nstart)
	}
	// (b) re-arming the idle timer
	var bad []string
	nreset := 0
	eachCall(hb, func(c ssa.CallInstruction) {
		callee := c.Common().StaticCallee()
		if callee == nil || callee.String() != "(*time.Timer).Reset" {
			return
		}
		nreset++
		okGuard := false
		// (the round trip may live in a boolean helper that answers true only for SUPPORTED)
		for _, ct := range impliedConds(c.Block()) {
			ex, ok := ct.Cond.(*ssa.Extract)
			if !ok || !ct.Truth {
				continue
			}
			if ta, ok := ex.Tuple.(*ssa.TypeAssert); ok && typeIs(ta.AssertedType, "message", "Supported") {
				okGuard = true
			}
		}
		if !okGuard {
			bad = append(bad, p.Pos(c.Pos())+": the idle timer is re-armed without a SUPPORTED answer to a heartbeat: a backend that hangs (with requests in flight or not) is never detected and its connection never replaced")
		}
	})
	if nreset == 0 {
		bad = append(bad, "the idle timer is never re-armed")
	}
	r.check(len(bad) == 0, rule, "ClientConn.Heartbeats:idle-timer", p.Pos(hb.Pos()), fmt.Sprintf("%d re-arm site(s)", nreset), strings.Join(dedupe(bad), " || "))
}

// connectBounded: a connection attempt ends when its context does.  The reconnect loops of the
// pools and of the control connection wait for Connect to return before they schedule the next
// attempt or move on to another host: a step that ignores the deadline (a TLS handshake with a
// peer that accepts the TCP connection and then says nothing) parks the loop for good, and the
// control loop with it whoever waits for it.
func connectBounded(p *Prog, r *Report, rule string) {
	r.Rule(rule, "every step of proxycore.Connect that waits for the peer is bounded by the caller's context: the dial is DialContext, a TLS handshake is HandshakeContext with that context (or runs under a deadline set on the socket)")
	var fn *ssa.Function
	for _, f := range p.ScopedFuncs("proxycore") {
		if f.Parent() == nil && callsDirectly(f, func(c ssa.CallInstruction) bool {
			callee := c.Common().StaticCallee()
			return callee != nil && callee.String() == "crypto/tls.Client"
		}) {
			fn = f
		}
	}
	if fn == nil {
		fatalf("rule %s: the function that wraps a backend socket in a TLS client was not found", rule)
	}
	var ctxPar ssa.Value
	for _, par := range fn.Params {
		if types.TypeString(par.Type(), nil) == "context.Context" {
			ctxPar = par
		}
	}
	fromCtx := func(v ssa.Value) bool {
		for _, o := range origins(v) {
			if o == ctxPar {
				return true
			}
		}
		for _, o := range originsInter(p, v, 1) {
			if o == ctxPar {
				return true
			}
			// a context derived from it (WithTimeout, WithCancel ...)
			if ex, ok := o.(*ssa.Extract); ok {
				if c, ok := ex.Tuple.(*ssa.Call); ok && len(c.Call.Args) > 0 && c.Call.Args[0] == ctxPar {
					return true
				}
			}
		}
		return false
	}
	deadline := false
	var bad []string
	n := 0
	for _, f := range withClosures(fn) {
		eachCall(f, func(c ssa.CallInstruction) {
			cm := c.Common()
			name := ""
			if cm.IsInvoke() {
				name = cm.Method.Name()
			} else if callee := cm.StaticCallee(); callee != nil {
				name = callee.Name()
			}
			switch name {
			case "SetDeadline", "SetReadDeadline":
				deadline = true
			}
		})
	}
	for _, f := range withClosures(fn) {
		eachCall(f, func(c ssa.CallInstruction) {
			callee := c.Common().StaticCallee()
			if callee == nil {
				return
			}
			switch callee.String() {
			case "(*net.Dialer).Dial", "net.Dial", "net.DialTimeout":
				n++
				if ctxPar != nil {
					bad = append(bad, p.Pos(c.Pos())+": the dial ignores the caller's context")
				}
			case "(*net.Dialer).DialContext":
				n++
				if ctxPar == nil || !fromCtx(c.Common().Args[1]) {
					bad = append(bad, p.Pos(c.Pos())+": the dial is not given the caller's context")
				}
			case "(*crypto/tls.Conn).Handshake":
				n++
				if !deadline {
					bad = append(bad, p.Pos(c.Pos())+": the TLS handshake waits for the peer without the caller's context or a deadline: an endpoint that accepts the connection and then stays silent holds the reconnect loop (no further attempts, no fail-over) and whoever waits for it")
				}
			case "(*crypto/tls.Conn).HandshakeContext":
				n++
				if ctxPar == nil || !fromCtx(c.Common().Args[1]) {
					bad = append(bad, p.Pos(c.Pos())+": the TLS handshake is not given the caller's context")
				}
			}
		})
	}
	r.check(len(bad) == 0 && n >= 2, rule, "proxycore."+fn.Name(), p.Pos(fn.Pos()), fmt.Sprintf("%d waiting steps, all under the context", n), strings.Join(dedupe(bad), " || "))
}

// heartbeatVersionViaHelper: the start of the heartbeat loop (at in, in fn) follows a call of a
// private helper that performs the handshake of this connection.  Found reports whether such a
// helper exists; problem is empty when the heartbeat version is the version the helper requested
// and compared equal to the negotiated one on every path on which it reports success, and the
// start is reached only after the helper reported success.
func heartbeatVersionViaHelper(p *Prog, fn *ssa.Function, in ssa.Instruction, hs *ssa.Function, conn, v ssa.Value) (found bool, problem string) {
	var helper *ssa.Function
	var hcall *ssa.Call
	connIdx := -1
	eachCall(fn, func(c ssa.CallInstruction) {
		callee := c.Common().StaticCallee()
		cc, isCall := c.(*ssa.Call)
		if callee == nil || !isCall || callee.Blocks == nil || callee == hs || !p.InRepo(callee) || pkgOfFn(callee) != pkgOfFn(fn) || !onlyCalledFrom(p, callee, fn, 1) {
			return
		}
		for i, a := range c.Common().Args {
			if sameValue(a, conn) && i < len(callee.Params) {
				par := callee.Params[i]
				if callsDirectly(callee, func(c2 ssa.CallInstruction) bool {
					return c2.Common().StaticCallee() == hs && len(c2.Common().Args) > 0 && c2.Common().Args[0] == ssa.Value(par)
				}) {
					helper, hcall, connIdx = callee, cc, i
				}
			}
		}
	})
	if helper == nil {
		return false, ""
	}
	_ = connIdx
	// inside the helper: negotiated and requested version
	var neg, req ssa.Value
	eachCall(helper, func(c ssa.CallInstruction) {
		if c.Common().StaticCallee() != hs {
			return
		}
		if cv, ok := c.(ssa.Value); ok {
			for _, ref := range *cv.Referrers() {
				if ex, ok := ref.(*ssa.Extract); ok && ex.Index == 0 {
					neg = ex
				}
			}
		}
		for _, a := range c.Common().Args[1:] {
			if typeIs(a.Type(), "primitive", "ProtocolVersion") {
				req = a
			}
		}
	})
	if neg == nil || req == nil {
		return true, "the helper " + helper.Name() + " does not keep the version its handshake negotiated"
	}
	// field paths relative to the receiver (the helper is called on fn's own receiver)
	rel := func(f *ssa.Function, x ssa.Value) string {
		pth := fieldPath(x)
		if len(f.Params) > 0 && strings.HasPrefix(pth, f.Params[0].Name()+".") {
			return "recv." + strings.TrimPrefix(pth, f.Params[0].Name()+".")
		}
		return pth
	}
	// the helper hands the negotiated version back and the heartbeat uses that result
	usesNegotiated := false
	for _, o := range origins(v) {
		ex, ok := o.(*ssa.Extract)
		if !ok || ex.Tuple != ssa.Value(hcall) {
			continue
		}
		allNeg, nret := true, 0
		eachInstr(helper, func(hin ssa.Instruction) {
			ret, ok := hin.(*ssa.Return)
			if !ok || ex.Index >= len(ret.Results) {
				return
			}
			nret++
			for _, ro := range origins(ret.Results[ex.Index]) {
				if ro != neg {
					allNeg = false
				}
			}
		})
		if allNeg && nret > 0 {
			usesNegotiated = true
		}
	}
	sameRecv := len(hcall.Call.Args) > 0 && len(fn.Params) > 0 && hcall.Call.Args[0] == ssa.Value(fn.Params[0])
	if !usesNegotiated && (!sameRecv || !strings.HasPrefix(rel(fn, v), "recv.") || rel(fn, v) != rel(helper, req)) {
		return true, "the heartbeat version is " + valDesc(v) + ", not the version the handshake in " + helper.Name() + " requested and compared with the negotiated one"
	}
	// every successful return of the helper compared the negotiated version equal to the requested one
	okRets := true
	eachInstr(helper, func(i2 ssa.Instruction) {
		ret, ok := i2.(*ssa.Return)
		if !ok || len(ret.Results) == 0 {
			return
		}
		last := ret.Results[len(ret.Results)-1]
		isNil := false
		for _, o := range origins(last) {
			if k, ok := o.(*ssa.Const); ok && k.IsNil() {
				isNil = true
			}
		}
		if !isNil {
			return
		}
		cmp := false
		for _, ct := range dominatingConds(ret.Block()) {
			bo, isBo := ct.Cond.(*ssa.BinOp)
			if !isBo {
				continue
			}
			pair := (bo.X == neg && rel(helper, bo.Y) == rel(helper, req)) || (bo.Y == neg && rel(helper, bo.X) == rel(helper, req))
			if pair && ((bo.Op == token.NEQ && !ct.Truth) || (bo.Op == token.EQL && ct.Truth)) {
				cmp = true
			}
		}
		if !cmp {
			okRets = false
		}
	})
	if !okRets && !usesNegotiated {
		return true, helper.Name() + " can report success without having compared the negotiated version with the requested one: after a downgrade the heartbeats would use a version the connection does not speak"
	}
	// the start is reached only after the helper reported success
	after := false
	for _, ct := range dominatingConds(in.Block()) {
		bo, isBo := ct.Cond.(*ssa.BinOp)
		if !isBo {
			continue
		}
		isNilC := func(x ssa.Value) bool { k, ok := x.(*ssa.Const); return ok && k.IsNil() }
		var other ssa.Value
		switch {
		case isNilC(bo.Y):
			other = bo.X
		case isNilC(bo.X):
			other = bo.Y
		default:
			continue
		}
		fromHelper := false
		for _, o := range origins(other) {
			if o == ssa.Value(hcall) {
				fromHelper = true
			}
			if ex, ok := o.(*ssa.Extract); ok && ex.Tuple == ssa.Value(hcall) {
				fromHelper = true
			}
		}
		if fromHelper && ((bo.Op == token.NEQ && !ct.Truth) || (bo.Op == token.EQL && ct.Truth)) {
			after = true
		}
	}
	if !after {
		return true, "the heartbeat loop is started without " + helper.Name() + " having reported success"
	}
	return true, ""
}
