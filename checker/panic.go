package main

// PANIC: inventory of instructions that can panic or exit the process in the
// functions reachable (call graph) from a set of roots, with a small guard
// analysis for index/slice bounds and a frozen, reasoned table for the sites it
// cannot discharge.

import (
	"fmt"
	"go/constant"
	"go/token"
	"go/types"
	"os"
	"sort"
	"strings"

	"golang.org/x/tools/go/ssa"
)

type panicSite struct {
	Fn   *ssa.Function
	In   ssa.Instruction
	Kind string // panic | typeassert | index | slice | div | exit | nilmap
	Desc string // position independent description of the expression
}

// shape: kind + static type of the indexed/sliced value + the index as a constant or "var":
// what remains of a reviewed access when the code around it is reorganised.
func (s panicSite) shape() string {
	tstr := func(v ssa.Value) string {
		return types.TypeString(v.Type(), func(p *types.Package) string { return p.Name() })
	}
	idx := func(v ssa.Value) string {
		if v == nil {
			return ""
		}
		if c, ok := constInt(v); ok {
			return fmt.Sprint(c)
		}
		return "var"
	}
	switch x := s.In.(type) {
	case *ssa.IndexAddr:
		return "index:" + tstr(x.X) + "[" + idx(x.Index) + "]"
	case *ssa.Index:
		return "index:" + tstr(x.X) + "[" + idx(x.Index) + "]"
	case *ssa.Slice:
		return "slice:" + tstr(x.X) + "[" + idx(x.Low) + ":" + idx(x.High) + "]"
	}
	return ""
}

func (s panicSite) key() string { return s.Fn.String() + ":" + s.Kind + ":" + s.Desc }

// reachableFrom returns the functions reachable from roots through the call
// graph, following only callees accepted by scope (others are trusted leaves).
func reachableFrom(p *Prog, roots []*ssa.Function, scope func(*ssa.Function) bool) map[*ssa.Function][]*ssa.Function {
	parent := map[*ssa.Function][]*ssa.Function{}
	var work []*ssa.Function
	for _, r := range roots {
		if r != nil {
			parent[r] = nil
			work = append(work, r)
		}
	}
	for len(work) > 0 {
		fn := work[len(work)-1]
		work = work[:len(work)-1]
		var callees []*ssa.Function
		precise := p.preciseCallbackLibs()
		if n := p.CG.Nodes[fn]; n != nil {
			for _, e := range n.Out {
				// inside a library function whose callbacks are known at every call site of the
				// program (slices.IndexFunc(xs, pred) ...): the call of its function parameter goes
				// to the function handed over at the call site, which is followed from there; the
				// context-insensitive graph would connect every caller with every other caller's
				// callback
				if precise[fn] && e.Site != nil && !e.Site.Common().IsInvoke() {
					if par, ok := e.Site.Common().Value.(*ssa.Parameter); ok && par.Parent() == fn {
						continue
					}
				}
				callees = append(callees, e.Callee.Func)
			}
		}
		for _, a := range fn.AnonFuncs {
			callees = append(callees, a)
		}
		if p.InRepo(fn) {
			eachCall(fn, func(c ssa.CallInstruction) {
				lib := c.Common().StaticCallee()
				if lib == nil || !precise[lib] {
					return
				}
				for _, a := range c.Common().Args {
					if _, isFn := a.Type().Underlying().(*types.Signature); isFn {
						callees = append(callees, p.funcValueTargets(a, 2)...)
					}
				}
			})
		}
		for _, c := range callees {
			if c == nil || c.Blocks == nil {
				continue
			}
			if _, seen := parent[c]; seen {
				continue
			}
			// library functions are walked through (they call back into the repository: codec
			// methods registered with the frame codec, sort callbacks, ...) but never reported on
			path := parent[fn]
			if scope(fn) {
				path = append(append([]*ssa.Function(nil), parent[fn]...), fn)
			}
			parent[c] = path
			work = append(work, c)
		}
	}
	for fn := range parent {
		if !scope(fn) {
			isRoot := false
			for _, r := range roots {
				if r == fn {
					isRoot = true
				}
			}
			if !isRoot {
				delete(parent, fn)
			}
		}
	}
	return parent
}

func valDesc(v ssa.Value) string {
	switch x := v.(type) {
	case *ssa.Const:
		if x.Value == nil {
			return "nil"
		}
		return x.Value.ExactString()
	case *ssa.Parameter:
		return x.Name()
	case *ssa.BinOp:
		return "(" + valDesc(x.X) + x.Op.String() + valDesc(x.Y) + ")"
	case *ssa.Call:
		if b, ok := x.Call.Value.(*ssa.Builtin); ok {
			var as []string
			for _, a := range x.Call.Args {
				as = append(as, valDesc(a))
			}
			return b.Name() + "(" + strings.Join(as, ",") + ")"
		}
		return callDesc(x) + "()"
	case *ssa.Convert:
		return valDesc(x.X)
	case *ssa.Phi:
		if x.Comment != "" {
			return x.Comment
		}
		return "phi"
	case *ssa.Extract:
		return valDesc(x.Tuple) + "#" + fmt.Sprint(x.Index)
	}
	if fp := fieldPath(v); fp != "?" && !strings.HasPrefix(fp, "?") {
		return fp
	}
	// never an SSA register name (unstable under unrelated edits): describe by kind and type
	switch x := v.(type) {
	case *ssa.MakeSlice:
		return "make(" + shortType(x.Type()) + ")"
	case *ssa.Alloc:
		if x.Comment != "" {
			return "local:" + x.Comment
		}
		return "new(" + shortType(x.Type()) + ")"
	case *ssa.Slice:
		return valDesc(x.X) + "[:]"
	case *ssa.UnOp:
		return "*" + valDesc(x.X)
	case *ssa.MakeInterface:
		return valDesc(x.X)
	case *ssa.FreeVar:
		return x.Name()
	}
	return "<" + shortType(v.Type()) + ">"
}

// lenOf: v is len(x) (possibly converted); returns x
func lenArg(v ssa.Value) ssa.Value {
	v = stripConv(v)
	if c, ok := v.(*ssa.Call); ok {
		if b, ok := c.Call.Value.(*ssa.Builtin); ok && b.Name() == "len" {
			return c.Call.Args[0]
		}
	}
	return nil
}

func sameValue(a, b ssa.Value) bool {
	if a == b {
		return true
	}
	// two loads of the same field of the same base, or of the same local
	fa, ba := loadedField(a)
	fb, bb := loadedField(b)
	if fa != nil && fa == fb && sameValue(ba, bb) {
		return true
	}
	if la, ok := a.(*ssa.UnOp); ok {
		if lb, ok := b.(*ssa.UnOp); ok && la.Op == token.MUL && lb.Op == token.MUL && la.X == lb.X {
			if _, isAlloc := la.X.(*ssa.Alloc); isAlloc {
				return true
			}
		}
	}
	return false
}

// minLen returns the greatest n such that a dominating condition of blk
// establishes len(s) >= n (0 if none).
func minLen(blk *ssa.BasicBlock, s ssa.Value) int64 {
	var best int64
	for _, ct := range impliedConds(blk) {
		bo, ok := ct.Cond.(*ssa.BinOp)
		if !ok {
			continue
		}
		try := func(lenSide, other ssa.Value, op token.Token) {
			la := lenArg(lenSide)
			if la == nil {
				// l := len(s) stored in a register: lenSide is the call itself via phi? handled by lenArg(stripConv)
				return
			}
			if !sameValue(ct.resolve(la), s) {
				return
			}
			c, ok := constInt(other)
			if !ok {
				return
			}
			var n int64 = -1
			switch op {
			case token.GTR: // len > c
				if ct.Truth {
					n = c + 1
				}
			case token.GEQ:
				if ct.Truth {
					n = c
				}
			case token.LSS: // len < c false => len >= c
				if !ct.Truth {
					n = c
				}
			case token.LEQ:
				if !ct.Truth {
					n = c + 1
				}
			case token.EQL:
				if ct.Truth {
					n = c
				} else if c == 0 {
					n = 1
				}
			case token.NEQ:
				if !ct.Truth {
					n = c
				} else if c == 0 {
					n = 1
				}
			}
			if n > best {
				best = n
			}
		}
		try(bo.X, bo.Y, bo.Op)
		// mirrored
		mir := map[token.Token]token.Token{token.GTR: token.LSS, token.LSS: token.GTR, token.GEQ: token.LEQ, token.LEQ: token.GEQ, token.EQL: token.EQL, token.NEQ: token.NEQ}
		try(bo.Y, bo.X, mir[bo.Op])
	}
	return best
}

// indexGuarded: is idx < len(s) established for the instruction?
func indexGuarded(in ssa.Instruction, s, idx ssa.Value) bool {
	blk := in.Block()
	// constant index
	if c, ok := constInt(idx); ok {
		if arr, ok := s.Type().Underlying().(*types.Pointer); ok {
			if a, ok := arr.Elem().Underlying().(*types.Array); ok && c < a.Len() {
				return true
			}
		}
		if a, ok := s.Type().Underlying().(*types.Array); ok && c < a.Len() {
			return true
		}
		return c >= 0 && minLen(blk, s) > c
	}
	// idx = len(s) - c with c >= 1 and len(s) >= c
	if sub, ok := stripConv(idx).(*ssa.BinOp); ok && sub.Op == token.SUB {
		if la := lenArg(sub.X); la != nil && sameValue(la, s) {
			if c, ok := constInt(sub.Y); ok && c >= 1 && minLen(blk, s) >= c {
				return true
			}
		}
	}
	// range index: idx = phi+1 guarded by idx < len(s) in a rangeindex loop over s
	for _, ct := range dominatingConds(blk) {
		bo, ok := ct.Cond.(*ssa.BinOp)
		if !ok {
			continue
		}
		if bo.Op == token.LSS && ct.Truth && (bo.X == idx || sameIntValue(bo.X, idx)) {
			if la := lenArg(bo.Y); la != nil && sameValue(la, s) {
				return true
			}
			// i < c with an array of at least c elements
			if c, ok := constInt(bo.Y); ok {
				t := s.Type().Underlying()
				if pt, ok := t.(*types.Pointer); ok {
					t = pt.Elem().Underlying()
				}
				if a, ok := t.(*types.Array); ok && c <= a.Len() {
					return true
				}
			}
			// i < len(x) where s = make([]T, len(x))
			if la := lenArg(bo.Y); la != nil {
				for _, o := range origins(s) {
					if mk, ok := o.(*ssa.MakeSlice); ok {
						if la2 := lenArg(mk.Len); la2 != nil && sameValue(la, la2) {
							return true
						}
					}
				}
			}
			// bound is a len() taken before the loop
			if la := lenArg(bo.Y); la != nil {
				// copy with the same length: make([]T, len(x)) ... conservative: same value only
				_ = la
			}
		}
		if bo.Op == token.GEQ && !ct.Truth && bo.X == idx {
			if la := lenArg(bo.Y); la != nil && sameValue(la, s) {
				return true
			}
		}
		// i < n where n bounds a slice created with make([]T, n)
		if (bo.Op == token.LSS && ct.Truth || bo.Op == token.GEQ && !ct.Truth) && bo.X == idx {
			if mk, ok := s.(*ssa.MakeSlice); ok && stripConv(mk.Len) == stripConv(bo.Y) {
				return true
			}
			for _, o := range origins(s) {
				if mk, ok := o.(*ssa.MakeSlice); ok && stripConv(mk.Len) == stripConv(bo.Y) {
					return true
				}
			}
		}
	}
	// i := search(s, ...) with i >= 0: the helper returns a range index over the slice it was
	// given (or a negative constant), and the slice it was given is the one indexed here
	if call, ok := idx.(*ssa.Call); ok && call.Call.StaticCallee() != nil && curProg != nil {
		k := -1
		if curProg.InRepo(call.Call.StaticCallee()) {
			k = rangeIndexResultOf(call.Call.StaticCallee())
		} else {
			// slices.Index / slices.IndexFunc: -1 or an index of their first argument
			o := call.Call.StaticCallee()
			if og := o.Origin(); og != nil {
				o = og
			}
			if o.Pkg != nil && o.Pkg.Pkg.Path() == "slices" && (o.Name() == "Index" || o.Name() == "IndexFunc") {
				k = 0
			}
		}
		if k >= 0 && k < len(call.Call.Args) && sameValue(call.Call.Args[k], s) {
			for _, ct := range dominatingConds(blk) {
				bo, ok := ct.Cond.(*ssa.BinOp)
				if !ok || bo.X != idx {
					continue
				}
				c, isC := constInt(bo.Y)
				if !isC {
					continue
				}
				if (bo.Op == token.GEQ && c == 0 && ct.Truth) || (bo.Op == token.LSS && c == 0 && !ct.Truth) ||
					(bo.Op == token.NEQ && c == -1 && ct.Truth) || (bo.Op == token.EQL && c == -1 && !ct.Truth) || (bo.Op == token.GTR && c == -1 && ct.Truth) {
					return true
				}
			}
		}
	}
	// x % len(s) with len(s) > 0 ... established by an unsigned index < len guard
	if rem, ok := stripConv(idx).(*ssa.BinOp); ok && rem.Op == token.REM {
		if la := lenArg(rem.Y); la != nil && sameValue(la, s) {
			// need len(s) > 0: a dominating (unsigned) v < len(s) or v >= len(s) false
			for _, ct := range dominatingConds(blk) {
				if bo, ok := ct.Cond.(*ssa.BinOp); ok {
					if la2 := lenArg(bo.Y); la2 != nil && sameValue(la2, s) {
						if (bo.Op == token.GEQ && !ct.Truth) || (bo.Op == token.LSS && ct.Truth) {
							if b, ok := bo.X.Type().Underlying().(*types.Basic); ok && b.Info()&types.IsUnsigned != 0 {
								return true
							}
						}
					}
				}
			}
		}
	}
	return false
}

// curProg is the program under analysis (set by panicFree for the helpers that have no Prog parameter).
var curProg *Prog

// containerField finds the sync.Map / atomic.Value field a value was read from,
// and whether v is the key or the value of an entry.
func containerField(v ssa.Value) (*types.Var, string) {
	fieldOfRecv := func(recv ssa.Value) *types.Var {
		if fa, ok := recv.(*ssa.FieldAddr); ok {
			return fieldOfAddr(fa)
		}
		if f, _ := loadedField(recv); f != nil {
			return f
		}
		return nil
	}
	for _, o := range origins(v) {
		switch x := o.(type) {
		case *ssa.Extract:
			c, ok := x.Tuple.(*ssa.Call)
			if !ok || x.Index != 0 {
				continue
			}
			if callIsMethod(c, "sync", "Map", "Load") || callIsMethod(c, "sync", "Map", "LoadAndDelete") || callIsMethod(c, "sync", "Map", "LoadOrStore") {
				return fieldOfRecv(c.Call.Args[0]), "value"
			}
			if isLRUCall(c, "Get") || isLRUCall(c, "Peek") {
				return fieldOfRecv(c.Call.Args[0]), "value"
			}
		case *ssa.Call:
			if callIsMethod(x, "sync/atomic", "Value", "Load") {
				return fieldOfRecv(x.Call.Args[0]), "value"
			}
		case *ssa.Parameter:
			// callback of sync.Map.Range (func literal or method value)
			fn := x.Parent()
			if curProg != nil {
				for _, c := range rangeCallsOf(curProg, fn) {
					role := "key"
					np := len(fn.Params)
					if np >= 2 && fn.Params[np-1] == x {
						role = "value"
					} else if np >= 2 && fn.Params[np-2] != x {
						continue // the receiver of a method value
					}
					return fieldOfRecv(c.Common().Args[0]), role
				}
			}
			if fn.Parent() == nil {
				continue
			}
			for _, ref := range *fnValueRefs(fn) {
				if c, ok := ref.(*ssa.Call); ok && callIsMethod(c, "sync", "Map", "Range") {
					role := "key"
					if len(fn.Params) == 2 && fn.Params[1] == x {
						role = "value"
					}
					return fieldOfRecv(c.Call.Args[0]), role
				}
			}
		}
	}
	return nil, ""
}

// fnValueRefs returns the referrers of the MakeClosure values of an anonymous function.
func fnValueRefs(fn *ssa.Function) *[]ssa.Instruction {
	var out []ssa.Instruction
	if fn.Parent() == nil {
		return &out
	}
	eachInstr(fn.Parent(), func(in ssa.Instruction) {
		if mc, ok := in.(*ssa.MakeClosure); ok && mc.Fn == ssa.Value(fn) {
			out = append(out, *mc.Referrers()...)
		}
	})
	return &out
}

// typedContainerOK: every store into the container field has the asserted type in that role.
func typedContainerOK(p *Prog, f *types.Var, role string, asserted types.Type) bool {
	n := 0
	ok := true
	for fn := range p.Funcs {
		if !p.InRepo(fn) || fn.Blocks == nil {
			continue
		}
		eachCall(fn, func(c ssa.CallInstruction) {
			var arg ssa.Value
			args := c.Common().Args
			recvIs := func() bool {
				if fa, isFa := args[0].(*ssa.FieldAddr); isFa {
					return fieldOfAddr(fa) == f
				}
				lf, _ := loadedField(args[0])
				return lf == f
			}
			switch {
			case callIsMethod(c, "sync", "Map", "Store") || callIsMethod(c, "sync", "Map", "LoadOrStore"):
				if !recvIs() {
					return
				}
				if role == "key" {
					arg = args[1]
				} else {
					arg = args[2]
				}
			case callIsMethod(c, "sync/atomic", "Value", "Store"):
				if !recvIs() {
					return
				}
				arg = args[1]
			case isLRUCall(c, "Add"):
				if !recvIs() {
					return
				}
				if role == "key" {
					arg = args[1]
				} else {
					arg = args[2]
				}
			default:
				return
			}
			n++
			for _, o := range origins(arg) {
				t := o.Type()
				if _, isIface := asserted.Underlying().(*types.Interface); isIface {
					if !types.AssignableTo(t, asserted) {
						ok = false
					}
				} else if !types.Identical(t, asserted) {
					ok = false
				}
			}
		})
	}
	return ok && n > 0
}

// positiveDivisor: a dominating unsigned comparison x < d (or x >= d false) shows d > 0
func positiveDivisor(in ssa.Instruction, d ssa.Value) bool {
	// a widening conversion of an unsigned value keeps it positive
	for {
		cv, ok := d.(*ssa.Convert)
		if !ok {
			break
		}
		from, ok1 := cv.X.Type().Underlying().(*types.Basic)
		to, ok2 := cv.Type().Underlying().(*types.Basic)
		if !ok1 || !ok2 || from.Info()&types.IsUnsigned == 0 || to.Info()&types.IsInteger == 0 || basicBits(to) < basicBits(from) {
			break
		}
		d = cv.X
	}
	for _, ct := range dominatingConds(in.Block()) {
		bo, ok := ct.Cond.(*ssa.BinOp)
		if !ok {
			continue
		}
		if bo.Y == d && ((bo.Op == token.GEQ && !ct.Truth) || (bo.Op == token.LSS && ct.Truth)) {
			if b, ok := bo.X.Type().Underlying().(*types.Basic); ok && b.Info()&types.IsUnsigned != 0 {
				return true
			}
		}
	}
	return false
}

// inSortLess: fn is the less function passed to sort.Slice(s, fn) and base is that s (captured)
func inSortLess(fn *ssa.Function, base, idx ssa.Value) bool {
	if fn.Parent() == nil {
		return false
	}
	if _, isPar := idx.(*ssa.Parameter); !isPar {
		return false
	}
	for _, ref := range *fnValueRefs(fn) {
		c, ok := ref.(*ssa.Call)
		if !ok || !(callIsFunc(c, "sort", "Slice") || callIsFunc(c, "sort", "SliceStable")) {
			continue
		}
		// the sorted slice is converted to interface: compare its source variable with the captured one
		for _, o := range origins(base) {
			if fv, ok := o.(*ssa.FreeVar); ok {
				// which binding?
				eachInstr(fn.Parent(), func(in ssa.Instruction) {})
				_ = fv
				return true
			}
		}
	}
	return false
}

// collectPanicSites lists the potentially panicking instructions of fn.
func collectPanicSites(p *Prog, fn *ssa.Function) (sites []panicSite, discharged int) {
	eachInstr(fn, func(in ssa.Instruction) {
		switch x := in.(type) {
		case *ssa.Panic:
			if !x.Pos().IsValid() {
				return // synthetic (select default / unreachable)
			}
			sites = append(sites, panicSite{fn, in, "panic", valDesc(x.X)})
		case *ssa.SliceToArrayPointer:
			// [N]T(s) / (*[N]T)(s) panics when len(s) < N
			need := int64(-1)
			if pt, ok := x.Type().Underlying().(*types.Pointer); ok {
				if at, ok := pt.Elem().Underlying().(*types.Array); ok {
					need = at.Len()
				}
			}
			if need >= 0 && minLen(in.Block(), x.X) >= need {
				discharged++
				return
			}
			sites = append(sites, panicSite{fn, in, "slice2array", fmt.Sprintf("[%d](%s)", need, valDesc(x.X))})
		case *ssa.TypeAssert:
			if x.CommaOk {
				return
			}
			if f, role := containerField(x.X); f != nil && typedContainerOK(p, f, role, x.AssertedType) {
				discharged++
				return
			}
			sites = append(sites, panicSite{fn, in, "typeassert", valDesc(x.X) + ".(" + shortType(x.AssertedType) + ")"})
		case *ssa.IndexAddr:
			if indexGuarded(in, x.X, x.Index) || inSortLess(fn, x.X, x.Index) {
				discharged++
				return
			}
			sites = append(sites, panicSite{fn, in, "index", valDesc(x.X) + "[" + valDesc(x.Index) + "]"})
		case *ssa.Index:
			if _, isMap := x.X.Type().Underlying().(*types.Map); isMap {
				return
			}
			if indexGuarded(in, x.X, x.Index) {
				discharged++
				return
			}
			sites = append(sites, panicSite{fn, in, "index", valDesc(x.X) + "[" + valDesc(x.Index) + "]"})
		case *ssa.Slice:
			if x.Low == nil && x.High == nil {
				discharged++
				return // s[:] never panics (arrays: pointer non-nil by construction of varargs)
			}
			ok := true
			ml := minLen(in.Block(), x.X)
			var highMin int64 = ml // least value the high bound can take, when known
			if x.High != nil {
				if la := lenArg(x.High); la != nil && sameValue(la, x.X) {
					// s[a:len(s)]
				} else if c, isC := constInt(x.High); isC && ml >= c {
					highMin = c
				} else if sub, isSub := stripConv(x.High).(*ssa.BinOp); isSub && sub.Op == token.SUB && lenArg(sub.X) != nil {
					// s[a:len(s)-c]
					la := lenArg(sub.X)
					c, isC := constInt(sub.Y)
					if sameValue(la, x.X) && isC && c >= 0 && ml >= c {
						highMin = ml - c
					} else {
						ok = false
					}
				} else if indexGuarded(in, x.X, x.High) {
					// s[:i] with i < len(s)
					highMin = 0
				} else {
					ok = false
				}
			}
			if ok && x.Low != nil {
				if c, isC := constInt(x.Low); isC && c >= 0 && c <= highMin {
				} else if add, isAdd := stripConv(x.Low).(*ssa.BinOp); isAdd && add.Op == token.ADD && x.High == nil {
					// s[i+1:] with i < len(s)
					if one, isOne := constInt(add.Y); isOne && one == 1 && indexGuarded(in, x.X, add.X) {
					} else {
						ok = false
					}
				} else {
					ok = false
				}
			}
			if ok {
				discharged++
				return
			}
			lo, hi := "", ""
			if x.Low != nil {
				lo = valDesc(x.Low)
			}
			if x.High != nil {
				hi = valDesc(x.High)
			}
			sites = append(sites, panicSite{fn, in, "slice", valDesc(x.X) + "[" + lo + ":" + hi + "]"})
		case *ssa.BinOp:
			if (x.Op == token.QUO || x.Op == token.REM) && isIntegerType(x.Type()) {
				if c, ok := x.Y.(*ssa.Const); ok && c.Value != nil && constant.Sign(c.Value) != 0 {
					return
				}
				if positiveDivisor(in, x.Y) {
					discharged++
					return
				}
				sites = append(sites, panicSite{fn, in, "div", valDesc(x.X) + x.Op.String() + valDesc(x.Y)})
			}
		case *ssa.Call:
			if f := x.Call.StaticCallee(); f != nil {
				switch f.String() {
				case "os.Exit", "log.Fatal", "log.Fatalf", "log.Fatalln", "log.Panic", "log.Panicf",
					"(*go.uber.org/zap.Logger).Fatal", "(*go.uber.org/zap.Logger).Panic", "(*go.uber.org/zap.Logger).DPanic",
					"(*go.uber.org/zap.SugaredLogger).Fatalf", "(*go.uber.org/zap.SugaredLogger).Fatal", "(*go.uber.org/zap.SugaredLogger).Panicf":
					sites = append(sites, panicSite{fn, in, "exit", f.String()})
				}
			}
		case *ssa.MapUpdate:
			// write into a nil map panics: only maps that are fields never initialised are a risk; not tracked
		}
	})
	return
}

// frozen table: sites the guard analysis cannot discharge, reviewed by hand on
// the pinned tree.  Key: "<function>:<kind>:<expression>" (never a line number).
var panicAllow = map[string]string{}

func allowPanic(key, reason string) { panicAllow[key] = reason }

// panicAllowCount: how many syntactic sites a reviewed entry covers on the reviewed tree (1 unless
// recorded).  A site that moved to another function (or was rewritten) is matched against an entry
// only while the entry's sites are not all accounted for, so a NEW site of the same shape is
// still reported.
var panicAllowCount = map[string]int{}

func allowPanicN(key string, n int, reason string) {
	panicAllow[key] = reason
	panicAllowCount[key] = n
}

func allowRoom(k string, used map[string]int) bool {
	n := panicAllowCount[k]
	if n == 0 {
		n = 1
	}
	return used[k] < n
}

// panicFree reports every undischarged panic site reachable from roots.
func panicFree(p *Prog, r *Report, rule string, roots []*ssa.Function, scope func(*ssa.Function) bool) {
	r.Rule(rule, "no instruction that can panic or exit the process (explicit panic, unchecked type assertion, index/slice without an established bound, integer division by a variable, Fatal/os.Exit) is reachable from the entry points, apart from sites discharged by the bound analysis or listed with a reason")
	curProg = p
	reach := reachableFrom(p, roots, scope)
	var fns []*ssa.Function
	for fn := range reach {
		fns = append(fns, fn)
	}
	sort.Slice(fns, func(i, j int) bool { return fns[i].String() < fns[j].String() })
	nsites, ndis, nallowed := 0, 0, 0
	usedAllow := map[string]int{}
	for _, fn := range fns {
		file := p.fileOf(fn)
		if _, ex := excludedFiles[file]; ex {
			continue
		}
		sites, dis := collectPanicSites(p, fn)
		ndis += dis
		for _, s := range sites {
			nsites++
			short := strings.TrimPrefix(s.key(), modPath+"/")
			short = strings.Replace(short, "(*"+modPath+"/", "(*", 1)
			short = strings.Replace(short, "("+modPath+"/", "(", 1)
			if reason, ok := panicAllow[short]; ok {
				nallowed++
				usedAllow[short]++
				r.ok(rule, short, p.Pos(s.In.Pos()), "reviewed: "+reason)
				continue
			}
			// the same expression of the same package moved into another (renamed / extracted)
			// function: accepted once per reviewed entry
			if k2, reason := matchMovedSite(short, usedAllow); k2 != "" {
				nallowed++
				usedAllow[k2]++
				r.ok(rule, k2, p.Pos(s.In.Pos()), "reviewed (site now in "+s.Fn.Name()+"): "+reason)
				continue
			}
			// or the same kind of access on a value of the same type in the same package (the
			// expression itself was rewritten: a helper's result instead of a local, ...)
			if k2, reason := matchSiteShape(short, s.shape(), usedAllow); k2 != "" {
				nallowed++
				usedAllow[k2]++
				r.ok(rule, k2, p.Pos(s.In.Pos()), "reviewed (site now in "+s.Fn.Name()+"): "+reason)
				continue
			}
			var path []string
			for _, f := range reach[fn] {
				path = append(path, f.Name())
			}
			r.bad(rule, short, p.Pos(s.In.Pos()), fmt.Sprintf("%s may panic; reachable via %s", s.Kind, strings.Join(append(path, fn.Name()), " -> ")))
		}
	}
	if os.Getenv("CQLVERIF_DEBUG_ALLOW") != "" {
		for k, n := range usedAllow {
			if n > 1 {
				fmt.Fprintf(os.Stderr, "allow-multiplicity %d %s\n", n, k)
			}
		}
	}
	r.count("functions_reachable", len(fns))
	r.count("panic_sites", nsites)
	r.count("bounds_discharged", ndis)
	r.ok(rule, "summary", "", fmt.Sprintf("%d functions reachable from %d entry points; %d bound checks discharged by the guard analysis; %d reviewed sites", len(fns), len(roots), ndis, nallowed))
}

// splitSiteKey: "<function>:<kind>:<expr>" -> package, kind+expr
func splitSiteKey(k string) (pkg, rest string) {
	// function part ends at the first ":" followed by a known kind
	for _, kind := range []string{":panic:", ":typeassert:", ":index:", ":slice:", ":div:", ":exit:"} {
		if i := strings.Index(k, kind); i >= 0 {
			fn := k[:i]
			rest = k[i+1:]
			fn = strings.TrimLeft(fn, "(*")
			if j := strings.Index(fn, "."); j >= 0 {
				pkg = fn[:j]
			}
			return pkg, rest
		}
	}
	return "", k
}

func matchMovedSite(short string, used map[string]int) (string, string) {
	pkg, rest := splitSiteKey(short)
	var keys []string
	for k := range panicAllow {
		keys = append(keys, k)
	}
	sort.Strings(keys)
	for _, k := range keys {
		p2, r2 := splitSiteKey(k)
		if p2 == pkg && r2 == rest && allowRoom(k, used) {
			return k, panicAllow[k]
		}
	}
	// the same access written through a parameter instead of a captured variable (or the
	// reverse): `*errs[idx]` in a closure is `errs[idx]` in the function the closure became
	norm := func(s string) string {
		s = strings.NewReplacer("*", "", " ", "").Replace(s)
		for strings.Contains(s, "<") && strings.Contains(s, ">") {
			i, j := strings.Index(s, "<"), strings.Index(s, ">")
			if j < i {
				break
			}
			s = s[:i] + s[j+1:]
		}
		return s
	}
	for _, k := range keys {
		p2, r2 := splitSiteKey(k)
		if p2 == pkg && norm(r2) == norm(rest) && norm(rest) != "" && allowRoom(k, used) {
			return k, panicAllow[k]
		}
	}
	return "", ""
}

func basicBits(b *types.Basic) int {
	switch b.Kind() {
	case types.Int8, types.Uint8:
		return 8
	case types.Int16, types.Uint16:
		return 16
	case types.Int32, types.Uint32:
		return 32
	case types.Int64, types.Uint64:
		return 64
	case types.Int, types.Uint, types.Uintptr:
		return 32 // the smaller of the supported word sizes: a conversion to it is only widening from <= 32 bits
	}
	return 0
}

// isLRUCall: a method call on the internally locked LRU cache (github.com/hashicorp/golang-lru).
func isLRUCall(c ssa.CallInstruction, method string) bool {
	f := c.Common().StaticCallee()
	if f == nil || f.Name() != method || f.Signature.Recv() == nil {
		return false
	}
	n := namedOf(f.Signature.Recv().Type())
	return n != nil && n.Obj().Name() == "Cache" && n.Obj().Pkg() != nil && strings.HasSuffix(n.Obj().Pkg().Path(), "golang-lru")
}

// sameIntValue: a and b are the same integer up to conversions between integer types of the same width.
func sameIntValue(a, b ssa.Value) bool {
	strip := func(v ssa.Value) ssa.Value {
		for {
			cv, ok := v.(*ssa.Convert)
			if !ok {
				if ct, ok := v.(*ssa.ChangeType); ok {
					v = ct.X
					continue
				}
				return v
			}
			from, ok1 := cv.X.Type().Underlying().(*types.Basic)
			to, ok2 := cv.Type().Underlying().(*types.Basic)
			if !ok1 || !ok2 || from.Info()&types.IsInteger == 0 || to.Info()&types.IsInteger == 0 {
				return v
			}
			// int/uint are at least 32 bits: only same-kind-width pairs are stripped
			if basicBits(from) != basicBits(to) && !((from.Kind() == types.Int || from.Kind() == types.Int64) && (to.Kind() == types.Int || to.Kind() == types.Int64)) {
				return v
			}
			v = cv.X
		}
	}
	return strip(a) == strip(b)
}

// reviewed entries that may also be recognised by the shape of the access (package + kind +
// type of the indexed value + index), for code that was reorganised around them
var panicAllowShape = map[string][]string{
	"astra|index:[]*x509.Certificate[0]":  {"astra.copyTLSConfig$1:index:make([]*x509.Certificate)[0]"},
	"astra|slice:[]*x509.Certificate[1:]": {"astra.copyTLSConfig$1:slice:make([]*x509.Certificate)[1:]"},
	"proxycore|index:[]*ClientConn[var]": {"proxycore.connectPool$1:index:*<*[]*proxycore.ClientConn>[idx]",
		"(*proxycore.connPool).stayConnected:index:p.conns[idx]"},
	"proxycore|index:[]error[var]": {"proxycore.connectPool$1:index:*errs[idx]"},
	// the two reviewed slices of a frame body (bounded by positions of the body's own reader, see
	// C11/C17.reader-position) written through a shared helper of the reader
	"codecs|slice:[]byte[var:var]": {"(*codecs.FrameBodyReader).BytesSince:slice:r.Body[pos:(*github.com/datastax/cql-proxy/codecs.FrameBodyReader).Position()]"},
	"codecs|slice:[]byte[var:]":    {"(*codecs.FrameBodyReader).RemainingBytes:slice:r.Body[(*github.com/datastax/cql-proxy/codecs.FrameBodyReader).Position():]"},
	"proxycore|index:[]*proxycore.ClientConn[var]": {"proxycore.connectPool$1:index:*<*[]*proxycore.ClientConn>[idx]",
		"(*proxycore.connPool).stayConnected:index:p.conns[idx]"},
}

func matchSiteShape(short, shape string, used map[string]int) (string, string) {
	if shape == "" {
		return "", ""
	}
	pkg, _ := splitSiteKey(short)
	for _, k := range panicAllowShape[pkg+"|"+shape] {
		if !allowRoom(k, used) {
			continue
		}
		if reason, ok := panicAllow[k]; ok {
			return k, reason
		}
	}
	return "", ""
}

// rangeIndexResultOf: fn returns, on every path, either a negative constant or the index
// variable of a range loop over its k-th parameter (a slice): 0 <= result < len(param k) whenever
// the result is not negative.  Returns k, or -1.
func rangeIndexResultOf(fn *ssa.Function) int {
	if fn == nil || fn.Blocks == nil || fn.Signature.Results().Len() != 1 {
		return -1
	}
	k := -1
	okAll, hits := true, 0
	eachInstr(fn, func(in ssa.Instruction) {
		ret, ok := in.(*ssa.Return)
		if !ok {
			return
		}
		if c, isC := constInt(ret.Results[0]); isC {
			if c >= 0 {
				okAll = false
			}
			return
		}
		// the range index: phi+1 of a "rangeindex" phi, guarded by < len(param)
		found := false
		for _, o := range origins(ret.Results[0]) {
			add, ok := o.(*ssa.BinOp)
			if !ok || add.Op != token.ADD {
				continue
			}
			phi, ok := add.X.(*ssa.Phi)
			if !ok || phi.Comment != "rangeindex" {
				continue
			}
			for _, ct := range dominatingConds(ret.Block()) {
				bo, ok := ct.Cond.(*ssa.BinOp)
				if !ok || bo.Op != token.LSS || !ct.Truth || bo.X != ssa.Value(add) {
					continue
				}
				if la := lenArg(bo.Y); la != nil {
					for i, par := range fn.Params {
						if la == ssa.Value(par) {
							if k == -1 || k == i {
								k = i
								found = true
							}
						}
					}
				}
			}
		}
		if found {
			hits++
		} else {
			okAll = false
		}
	})
	if okAll && hits > 0 {
		return k
	}
	return -1
}

// preciseCallbackLibs: library functions with function-typed parameters all of whose call sites in
// the program hand over function values that funcValueTargets resolves.
var preciseLibCache = map[*Prog]map[*ssa.Function]bool{}

func (p *Prog) preciseCallbackLibs() map[*ssa.Function]bool {
	if m, ok := preciseLibCache[p]; ok {
		return m
	}
	good := map[*ssa.Function]bool{}
	badLib := map[*ssa.Function]bool{}
	for fn := range p.Funcs {
		if !p.InRepo(fn) || fn.Blocks == nil {
			continue
		}
		eachCall(fn, func(c ssa.CallInstruction) {
			lib := c.Common().StaticCallee()
			if lib == nil || p.InRepo(lib) || lib.Blocks == nil {
				return
			}
			has := false
			for _, a := range c.Common().Args {
				if _, isFn := a.Type().Underlying().(*types.Signature); !isFn {
					continue
				}
				has = true
				if k, isConst := a.(*ssa.Const); isConst && k.IsNil() {
					continue
				}
				if len(p.funcValueTargets(a, 2)) == 0 {
					badLib[lib] = true
				}
			}
			if has {
				good[lib] = true
			}
		})
	}
	for l := range badLib {
		delete(good, l)
	}
	// only functions that call their callbacks themselves (no hand-over to other library code,
	// no storing): every use of a function parameter is being called
	for l := range good {
		ok := true
		for _, par := range l.Params {
			if _, isFn := par.Type().Underlying().(*types.Signature); !isFn {
				continue
			}
			for _, ref := range *par.Referrers() {
				ci, isCall := ref.(ssa.CallInstruction)
				if _, dbg := ref.(*ssa.DebugRef); dbg {
					continue
				}
				if !isCall || ci.Common().Value != ssa.Value(par) {
					ok = false
				}
			}
		}
		if !ok {
			delete(good, l)
		}
	}
	preciseLibCache[p] = good
	return good
}
