package main

import (
	"fmt"
	"go/ast"
	"go/token"
	"go/types"
	"sort"
	"strings"
)

// staleShadows: results that never reach the variable the rest of the function reads.
//
// In a function, `x, y := f()` inside an inner scope (an if/for/switch header or a nested block)
// declares new variables.  When a variable of the same name and type belongs to the function's
// own scope (a parameter, a named result, a local) and that outer variable is READ after the
// inner scope has ended, before anything is assigned to it, then what f returned was computed
// into a copy and the code that follows works with the value from before the call: a stale
// verdict, a stale "next token", a stale error.  (The common `if err := f(); err != nil {return}`
// followed by `err = g()` is not reported: the outer variable is assigned before it is read.)
//
// Decided on the syntax tree with the type checker's scopes and uses; position order within the
// function stands for execution order, with one refinement for loops: a read earlier in the
// body of a loop that encloses the inner scope also counts.
type shadowFinding struct {
	Pos   token.Pos
	Func  string
	Name  string
	Where string
}

func staleShadows(p *Prog, rel string) []shadowFinding {
	info := p.TypesInfo(rel)
	var out []shadowFinding
	for _, file := range p.Syntax(rel) {
		if strings.HasSuffix(p.Fset.Position(file.Pos()).Filename, "_test.go") {
			continue
		}
		for _, d := range file.Decls {
			fd, ok := d.(*ast.FuncDecl)
			if !ok || fd.Body == nil {
				continue
			}
			out = append(out, staleShadowsIn(p, info, fd.Name.Name, fd.Type, fd.Body)...)
			// function literals are functions of their own
			ast.Inspect(fd.Body, func(n ast.Node) bool {
				if fl, ok := n.(*ast.FuncLit); ok {
					out = append(out, staleShadowsIn(p, info, fd.Name.Name+"$lit", fl.Type, fl.Body)...)
				}
				return true
			})
		}
	}
	sort.Slice(out, func(i, j int) bool { return out[i].Pos < out[j].Pos })
	return out
}

func staleShadowsIn(p *Prog, info *types.Info, name string, ft *ast.FuncType, body *ast.BlockStmt) []shadowFinding {
	fscope := info.Scopes[ft]
	if fscope == nil {
		return nil
	}
	// objects that belong to the function itself: parameters, results, and locals declared
	// directly in the body block
	bscope := info.Scopes[body]
	own := func(o types.Object) bool {
		if o == nil {
			return false
		}
		// any variable of this function (its parameters and results, or a local of an enclosing block)
		for sc := o.Parent(); sc != nil; sc = sc.Parent() {
			if sc == fscope || (bscope != nil && sc == bscope) {
				return true
			}
		}
		return false
	}
	var out []shadowFinding
	var visit func(n ast.Node, loops []ast.Node, depth int)
	checkDefine := func(as *ast.AssignStmt, scopeEnd token.Pos, loops []ast.Node) {
		for _, lhs := range as.Lhs {
			id, ok := lhs.(*ast.Ident)
			if !ok || id.Name == "_" {
				continue
			}
			inner, ok := info.Defs[id].(*types.Var)
			if !ok || inner == nil {
				continue // not newly declared here
			}
			// the outer namesake visible just before this statement
			_, outerObj := inner.Parent().Parent().LookupParent(id.Name, as.Pos())
			outer, ok := outerObj.(*types.Var)
			if !ok || !own(outer) || outer == inner || !types.Identical(outer.Type(), inner.Type()) {
				continue
			}
			if firstUseIsRead(info, body, outer, scopeEnd, loops, as.Pos()) {
				pos := p.Fset.Position(as.Pos())
				out = append(out, shadowFinding{Pos: as.Pos(), Func: name, Name: id.Name,
					Where: fmt.Sprintf("%s:%d", relPath(pos.Filename), pos.Line)})
			}
		}
	}
	visit = func(n ast.Node, loops []ast.Node, depth int) {
		switch x := n.(type) {
		case nil:
			return
		case *ast.FuncLit:
			return // analysed separately
		case *ast.BlockStmt:
			for _, s := range x.List {
				if as, ok := s.(*ast.AssignStmt); ok && as.Tok == token.DEFINE && depth > 0 {
					checkDefine(as, x.End(), loops)
				}
				visit(s, loops, depth+1)
			}
			return
		case *ast.IfStmt:
			if as, ok := x.Init.(*ast.AssignStmt); ok && as.Tok == token.DEFINE {
				checkDefine(as, x.End(), loops)
			}
			visit(x.Body, loops, depth+1)
			visit(x.Else, loops, depth+1)
			return
		case *ast.ForStmt:
			l2 := append(append([]ast.Node(nil), loops...), x)
			if as, ok := x.Init.(*ast.AssignStmt); ok && as.Tok == token.DEFINE {
				checkDefine(as, x.End(), loops)
			}
			visit(x.Body, l2, depth+1)
			return
		case *ast.RangeStmt:
			l2 := append(append([]ast.Node(nil), loops...), x)
			visit(x.Body, l2, depth+1)
			return
		case *ast.SwitchStmt:
			if as, ok := x.Init.(*ast.AssignStmt); ok && as.Tok == token.DEFINE {
				checkDefine(as, x.End(), loops)
			}
			visit(x.Body, loops, depth+1)
			return
		case *ast.TypeSwitchStmt:
			if as, ok := x.Init.(*ast.AssignStmt); ok && as.Tok == token.DEFINE {
				checkDefine(as, x.End(), loops)
			}
			visit(x.Body, loops, depth+1)
			return
		case *ast.CaseClause:
			for _, s := range x.Body {
				if as, ok := s.(*ast.AssignStmt); ok && as.Tok == token.DEFINE {
					checkDefine(as, x.End(), loops)
				}
				visit(s, loops, depth+1)
			}
			return
		case *ast.CommClause:
			for _, s := range x.Body {
				if as, ok := s.(*ast.AssignStmt); ok && as.Tok == token.DEFINE {
					checkDefine(as, x.End(), loops)
				}
				visit(s, loops, depth+1)
			}
			return
		case *ast.SelectStmt:
			visit(x.Body, loops, depth+1)
			return
		case *ast.LabeledStmt:
			visit(x.Stmt, loops, depth)
			return
		}
	}
	// depth 0: the body block itself (definitions there are the function's own locals)
	for _, s := range body.List {
		visit(s, nil, 1)
	}
	return out
}

func relPath(file string) string {
	for _, pre := range []string{"/proxy/", "/proxycore/", "/parser/", "/codecs/", "/astra/"} {
		if i := strings.LastIndex(file, pre); i >= 0 {
			return file[i+1:]
		}
	}
	return file
}

// firstUseIsRead: after position `after` (the end of the inner scope), is the first mention of
// obj in the function a read?  A plain assignment `obj = ...` (or obj among the left-hand sides)
// is a write; `obj += ...`, `obj++` and every other mention read it.  A return statement without
// operands reads every named result.  When the inner scope sits in a loop, the mentions in that
// loop before the inner scope are considered after the ones that follow it.
func firstUseIsRead(info *types.Info, body *ast.BlockStmt, obj *types.Var, after token.Pos, loops []ast.Node, defPos token.Pos) bool {
	type use struct {
		pos  token.Pos
		read bool
	}
	var uses []use
	isResult := false
	if sig, ok := info.Scopes[body]; ok && sig != nil {
		_ = sig
	}
	var inspect func(n ast.Node) bool
	inspect = func(n ast.Node) bool {
		switch x := n.(type) {
		case *ast.FuncLit:
			// a closure that mentions the variable may run at any time: count as a read at its position
			ast.Inspect(x.Body, func(m ast.Node) bool {
				if id, ok := m.(*ast.Ident); ok && info.Uses[id] == types.Object(obj) {
					uses = append(uses, use{x.Pos(), true})
				}
				return true
			})
			return false
		case *ast.AssignStmt:
			// (`a, err := f()` with err already declared in the same scope assigns to it)
			if x.Tok == token.ASSIGN || x.Tok == token.DEFINE {
				for _, r := range x.Rhs {
					ast.Inspect(r, inspect)
				}
				for _, l := range x.Lhs {
					if id, ok := l.(*ast.Ident); ok {
						if info.Uses[id] == types.Object(obj) {
							uses = append(uses, use{x.End(), false}) // assigned after the right-hand side was evaluated
						}
						continue
					}
					ast.Inspect(l, inspect)
				}
				return false
			}
		case *ast.ReturnStmt:
			if len(x.Results) == 0 && isResult {
				uses = append(uses, use{x.Pos(), true})
			}
		case *ast.Ident:
			if info.Uses[x] == types.Object(obj) {
				uses = append(uses, use{x.Pos(), true})
			}
		}
		return true
	}
	// is obj a named result?
	if obj.Parent() != nil {
		// named results are declared in the function scope and appear in no parameter list we can
		// reach from here cheaply: treat every function-scope variable that is not assigned from
		// a parameter as a potential result for bare returns
		isResult = true
	}
	ast.Inspect(body, inspect)
	sort.Slice(uses, func(i, j int) bool { return uses[i].pos < uses[j].pos })
	defPath := enclosing(body, defPos)
	for _, u := range uses {
		if u.pos >= after {
			if exclusiveBranches(defPath, enclosing(body, u.pos)) {
				continue // the other branch of an if / another case of a switch: never runs after the inner scope
			}
			return u.read
		}
	}
	// nothing after the scope: inside a loop the body runs again from the top
	if len(loops) > 0 {
		lp := loops[len(loops)-1]
		if obj.Pos() >= lp.Pos() {
			return false // declared anew in every iteration
		}
		for _, u := range uses {
			if u.pos >= lp.Pos() && u.pos < defPos {
				return u.read
			}
		}
	}
	return false
}

// enclosing: the chain of nodes of the function body that contain pos, outermost first.
func enclosing(body *ast.BlockStmt, pos token.Pos) []ast.Node {
	var path []ast.Node
	ast.Inspect(body, func(n ast.Node) bool {
		if n == nil {
			return false
		}
		if n.Pos() <= pos && pos < n.End() {
			path = append(path, n)
			return true
		}
		return false
	})
	return path
}

// exclusiveBranches: the two positions lie in different branches of the same if statement or in
// different clauses of the same switch/select.
func exclusiveBranches(a, b []ast.Node) bool {
	i := 0
	for i < len(a) && i < len(b) && a[i] == b[i] {
		i++
	}
	if i == 0 || i >= len(a) || i >= len(b) {
		return false
	}
	switch parent := a[i-1].(type) {
	case *ast.IfStmt:
		inBody := func(n ast.Node) bool { return n == ast.Node(parent.Body) }
		inElse := func(n ast.Node) bool { return parent.Else != nil && n == parent.Else }
		return (inBody(a[i]) && inElse(b[i])) || (inElse(a[i]) && inBody(b[i]))
	case *ast.BlockStmt:
		_, ca := a[i].(*ast.CaseClause)
		_, cb := b[i].(*ast.CaseClause)
		if ca && cb {
			return true
		}
		_, ma := a[i].(*ast.CommClause)
		_, mb := b[i].(*ast.CommClause)
		return ma && mb
	}
	return false
}

// resultThreading: the rule built on staleShadows, claimed by the properties whose mechanisms
// live in the given packages.
func resultThreading(p *Prog, r *Report, rule string, rels ...string) {
	r.Rule(rule, "what a call returns reaches the variable the rest of the function reads: no `:=` in an inner scope (if/for/switch header, nested block) re-declares a variable of the enclosing function that is read afterwards before being assigned (the code after the scope would work with the verdict, token, error or flag from before the call)")
	for _, rel := range rels {
		var bad []string
		for _, f := range staleShadows(p, rel) {
			if strings.Contains(f.Where, "mock") {
				continue // test doubles shipped in the package
			}
			bad = append(bad, fmt.Sprintf("%s: `%s :=` in %s declares a new variable; the %s of the enclosing function, which is read after this scope, keeps its old value", f.Where, f.Name, f.Func, f.Name))
		}
		n := innerDefines(p, rel)
		r.count("inner_scope_definitions", n)
		r.check(len(bad) == 0 && n > 0, rule, "package "+rel, "", fmt.Sprintf("%d inner-scope definitions examined", n), strings.Join(dedupe(bad), " || "))
	}
}

// innerDefines counts the `:=` statements below the top level of function bodies (what the rule looked at).
func innerDefines(p *Prog, rel string) int {
	n := 0
	for _, file := range p.Syntax(rel) {
		for _, d := range file.Decls {
			fd, ok := d.(*ast.FuncDecl)
			if !ok || fd.Body == nil {
				continue
			}
			top := map[ast.Stmt]bool{}
			for _, s := range fd.Body.List {
				top[s] = true
			}
			ast.Inspect(fd.Body, func(nd ast.Node) bool {
				if as, ok := nd.(*ast.AssignStmt); ok && as.Tok == token.DEFINE && !top[as] {
					n++
				}
				return true
			})
		}
	}
	return n
}
