package main

// C11 — partial QUERY/EXECUTE/BATCH codecs agree with the protocol layout.
//
// CODEC engine: the ordered read/write layout signature of a message.Codec
// method is extracted per protocol version by property simulation (the version
// parameter bound to a constant, library predicates on it inlined and folded):
// the sequence of primitive.ReadX/WriteX/LengthOfX calls on each success path,
// each annotated with the struct field the value goes to / comes from.  Loops
// contribute the set of their per-iteration signatures.
//
//  layout          signature == native-protocol layout of the leading fields, for
//                  every version in {v3,v4,v5,DSEv1,DSEv2} and for Decode, Encode
//                  and EncodedLength alike (so they also agree with each other)
//  field-symmetry  part of the signature: every value read by Decode lands in the
//                  field Encode writes at that position
//  error-discipline a failed primitive read/write makes the method return a
//                  non-nil error (and a nil message)
//  registered      the three partial codecs are the ones the proxy's frame codec uses

import (
	"fmt"
	"go/ast"
	"go/constant"
	"go/token"
	"go/types"
	"sort"
	"strings"

	"golang.org/x/tools/go/ssa"
)

func init() { register("C11", checkC11) }

// flowsToField: where does value v end up? returns a field name, "len(F)", or "_".
func flowsToField(v ssa.Value) string {
	type item struct {
		v      ssa.Value
		prefix string
		d      int
	}
	seen := map[ssa.Value]bool{}
	work := []item{{v, "", 0}}
	found := map[string]bool{}
	for len(work) > 0 {
		it := work[0]
		work = work[1:]
		if seen[it.v] || it.d > 8 {
			continue
		}
		seen[it.v] = true
		refs := it.v.Referrers()
		if refs == nil {
			continue
		}
		for _, r := range *refs {
			switch x := r.(type) {
			case *ssa.Store:
				if x.Val == it.v {
					if fa, ok := x.Addr.(*ssa.FieldAddr); ok {
						name := fieldOfAddr(fa).Name()
						if it.prefix != "" {
							name = it.prefix + name + ")"
						}
						found[name] = true
					}
				}
			case *ssa.MakeSlice:
				if x.Len == it.v || x.Cap == it.v {
					work = append(work, item{x, "len(", it.d + 1})
				}
			case *ssa.Phi, *ssa.Convert, *ssa.ChangeType, *ssa.MakeInterface, *ssa.Slice, *ssa.ChangeInterface:
				work = append(work, item{r.(ssa.Value), it.prefix, it.d + 1})
			case *ssa.Extract:
				work = append(work, item{x, it.prefix, it.d + 1})
			case *ssa.Return:
				// returned by a private helper: continue at its call sites
				if curProg == nil {
					break
				}
				fn := x.Parent()
				sites, only := curProg.staticCallSites(fn)
				if !only {
					break
				}
				for i, rv := range x.Results {
					if rv != it.v {
						continue
					}
					for _, cs := range sites {
						cv, ok := cs.(ssa.Value)
						if !ok {
							continue
						}
						if len(x.Results) == 1 {
							work = append(work, item{cv, it.prefix, it.d + 1})
							continue
						}
						for _, cr := range *cv.Referrers() {
							if ex, ok := cr.(*ssa.Extract); ok && ex.Index == i {
								work = append(work, item{ex, it.prefix, it.d + 1})
							}
						}
					}
				}
			case *ssa.Call:
				// handed to a constructor of the package: continue at its parameter
				if curProg == nil {
					break
				}
				callee := x.Call.StaticCallee()
				if callee == nil || callee.Blocks == nil || pkgOfFn(callee) == nil || pkgOfFn(callee).Pkg.Path() != pkgPath("codecs") {
					break
				}
				for i, a := range x.Call.Args {
					if a == it.v && i < len(callee.Params) {
						work = append(work, item{callee.Params[i], it.prefix, it.d + 1})
					}
				}
			}
		}
	}
	if len(found) == 0 {
		return "_"
	}
	return strings.Join(sortedKeys(found), "+")
}

// comesFromField: which field does a written value come from?
func comesFromField(v ssa.Value) string {
	found := map[string]bool{}
	for _, o := range origins(v) {
		if _, ok := o.(*ssa.Const); ok {
			found["const"] = true
			continue
		}
		if f, _ := loadedField(o); f != nil {
			found[f.Name()] = true
			continue
		}
		if c, ok := o.(*ssa.Call); ok {
			if b, ok := c.Call.Value.(*ssa.Builtin); ok && b.Name() == "len" {
				if f, _ := loadedField(c.Call.Args[0]); f != nil {
					found["len("+f.Name()+")"] = true
					continue
				}
			}
		}
		// element of a ranged slice field: query.QueryOrId where query = batch.Queries[i]
		if ld, ok := o.(*ssa.UnOp); ok && ld.Op == token.MUL {
			if fa, ok := ld.X.(*ssa.FieldAddr); ok {
				found[fieldOfAddr(fa).Name()] = true
				continue
			}
		}
		found["?"] = true
	}
	if len(found) == 0 {
		return "_"
	}
	return strings.Join(sortedKeys(found), "+")
}

func kindOfPrimitive(name string) (kind, mode string) {
	for _, pre := range []string{"Read", "Write", "LengthOf"} {
		if strings.HasPrefix(name, pre) {
			return strings.TrimPrefix(name, pre), pre
		}
	}
	return "", ""
}

var constLenKinds = map[int64]string{1: "Byte", 2: "Short", 4: "Int", 8: "Long", 16: "Uuid"}

type codecSig struct {
	sigs     map[string]bool // success-path signatures
	problems []string
	nodes    int
}

func isLoopHeader(b *ssa.BasicBlock) bool {
	for _, p := range b.Preds {
		if b.Dominates(p) {
			return true
		}
	}
	return false
}

// codecSignature simulates a codec method for one protocol version.
func codecSignature(p *Prog, fn *ssa.Function, partial *types.Named, version int64) codecSig {
	res := codecSig{sigs: map[string]bool{}}
	s := newSim(p)
	init := newState()
	for _, par := range fn.Params {
		if typeIs(par.Type(), "primitive", "ProtocolVersion") {
			init.vals[par] = avInt(version)
		}
	}
	s.Inline = func(f *ssa.Function) bool {
		// predicates on the protocol version in the library are folded
		return f.Pkg != nil && f.Pkg.Pkg.Path() == pkgPath("primitive") && recvNamed(f) != nil && recvNamed(f).Obj().Name() == "ProtocolVersion"
	}
	emit := func(st *State, el string) { st.aux["cur"] = st.aux["cur"] + el + " " }
	var structural func(h *ssa.Function) bool
	inScope := func(f *ssa.Function) bool { return f == fn || structural(f) }
	// values that make up the returned length (EncodedLength): backward slice from the result
	lenVals := map[ssa.Value]bool{}
	lenRoots := func() {}
	if fn.Name() == "EncodedLength" {
		var walk func(v ssa.Value)
		walk = func(v ssa.Value) {
			if lenVals[v] {
				return
			}
			lenVals[v] = true
			switch x := v.(type) {
			case *ssa.Phi:
				for _, e := range x.Edges {
					walk(e)
				}
			case *ssa.BinOp:
				if x.Op == token.ADD {
					walk(x.X)
					walk(x.Y)
				}
			}
		}
		lenRoots = func() {
			for _, f := range withCallees(p, fn, 3) {
				if !inScope(f) {
					continue
				}
				eachInstr(f, func(in ssa.Instruction) {
					if ret, ok := in.(*ssa.Return); ok && len(ret.Results) > 0 {
						if b, ok := ret.Results[0].Type().Underlying().(*types.Basic); ok && b.Info()&types.IsInteger != 0 {
							walk(ret.Results[0])
						}
					}
				})
			}
		}
	}
	s.OnInstr = func(st *State, in ssa.Instruction) {
		if !inScope(in.Parent()) {
			return
		}
		b := in.Block()
		if in == b.Instrs[0] && isLoopHeader(b) {
			if st.aux["phase"] == "" {
				st.aux["pre"] = st.aux["cur"]
				st.aux["phase"] = "loop"
			} else if st.aux["cur"] != "" {
				set := map[string]bool{}
				for _, x := range strings.Split(st.aux["iters"], ";") {
					if x != "" {
						set[x] = true
					}
				}
				set[strings.TrimSpace(st.aux["cur"])] = true
				st.aux["iters"] = strings.Join(sortedKeys(set), ";")
			}
			st.aux["cur"] = ""
		}
		// EncodedLength arithmetic
		if bo, ok := in.(*ssa.BinOp); ok && bo.Op == token.ADD && lenVals[bo] {
			for _, opnd := range []ssa.Value{bo.X, bo.Y} {
				if c, ok := constInt(opnd); ok {
					if k, ok := constLenKinds[c]; ok {
						emit(st, k+":?")
					} else {
						emit(st, fmt.Sprintf("Const%d:?", c))
					}
				} else if call, ok := opnd.(*ssa.Call); ok {
					if bi, ok := call.Call.Value.(*ssa.Builtin); ok && bi.Name() == "len" {
						emit(st, "Raw:"+comesFromField(call.Call.Args[0]))
					}
				}
			}
		}
	}
	// helpers the per-child (or per-field) work was moved into are looked through: functions of
	// package codecs that are handed, or return, a piece of the partial message
	structural = func(h *ssa.Function) bool {
		if h == nil || h == fn || h.Blocks == nil || h.Parent() != nil {
			return false
		}
		// (an instance of a generic helper belongs to the package of the generic function)
		hp := h.Pkg
		if og := h.Origin(); og != nil {
			hp = og.Pkg
		}
		if hp == nil || hp.Pkg.Path() != pkgPath("codecs") {
			return false
		}
		mentions := func(t types.Type) bool {
			n := namedOf(t)
			if n == nil || n.Obj().Pkg() == nil || n.Obj().Pkg().Path() != pkgPath("codecs") {
				return false
			}
			_, isStruct := n.Underlying().(*types.Struct)
			return isStruct && strings.HasPrefix(n.Obj().Name(), "Partial")
		}
		sig := h.Signature
		for i := 0; i < sig.Params().Len(); i++ {
			if mentions(sig.Params().At(i).Type()) {
				return true
			}
		}
		for i := 0; i < sig.Results().Len(); i++ {
			if mentions(sig.Results().At(i).Type()) {
				return true
			}
		}
		// a method of the partial message itself, a generic helper instantiated with it
		if sig.Recv() != nil && mentions(sig.Recv().Type()) {
			return true
		}
		for _, ta := range h.TypeArgs() {
			if mentions(ta) {
				return true
			}
		}
		// a private reading helper of this method: it is handed the body reader and returns what it read
		takesReader, returnsData := false, false
		for i := 0; i < sig.Params().Len(); i++ {
			if n := namedOf(sig.Params().At(i).Type()); n != nil && n.Obj().Name() == "FrameBodyReader" {
				takesReader = true
			}
		}
		for i := 0; i < sig.Results().Len(); i++ {
			if !types.Identical(sig.Results().At(i).Type(), errType) {
				returnsData = true
			}
		}
		if takesReader && returnsData && (onlyCalledFrom(p, h, fn, 2) || (h.Pkg == fn.Pkg && h.Parent() == nil && h.Signature.Recv() == nil)) {
			// (or a reading helper the codecs of the package share: one field read with its error text)
			return true
		}
		return false
	}
	lenRoots()
	prevInline := s.Inline
	s.Inline = func(f *ssa.Function) bool { return structural(f) || (prevInline != nil && prevInline(f)) }
	s.Model = func(sm *Sim, st *State, call ssa.CallInstruction, callee *ssa.Function) []*State {
		if call.Parent() != fn && !structural(call.Parent()) {
			return nil
		}
		if structural(callee) {
			return nil // inlined
		}
		c := call.Common()
		fork := func(el string, tuple bool) []*State {
			okSt, bad := st.clone(), st.clone()
			if el != "" {
				emit(okSt, el)
			}
			bad.aux["failed"] = "1"
			if tuple {
				SetCallResult(okSt, call, avTup(top, AV{K: avNil}))
				SetCallResult(bad, call, avTup(top, AV{K: avNonNil}))
			} else {
				SetCallResult(okSt, call, AV{K: avNil})
				SetCallResult(bad, call, AV{K: avNonNil})
			}
			return []*State{okSt, bad}
		}
		if callee != nil && callee.Pkg != nil && callee.Pkg.Pkg.Path() == pkgPath("primitive") && callee.Signature.Recv() == nil {
			kind, mode := kindOfPrimitive(callee.Name())
			switch mode {
			case "Read":
				dest := "_"
				if v, ok := call.(ssa.Value); ok {
					for _, ref := range *v.Referrers() {
						if ex, ok := ref.(*ssa.Extract); ok && ex.Index == 0 {
							dest = flowsToField(ex)
						}
					}
				}
				return fork(kind+":"+dest, true)
			case "Write":
				return fork(kind+":"+comesFromField(c.Args[0]), false)
			case "LengthOf":
				emit(st, kind+":"+comesFromField(c.Args[0]))
				return nil
			}
			if strings.HasPrefix(callee.Name(), "Check") {
				return fork("", false)
			}
		}
		// opaque remainder
		if callee != nil && recvNamed(callee) != nil && recvNamed(callee).Obj().Name() == "FrameBodyReader" {
			switch callee.Name() {
			case "RemainingBytes", "BytesSince":
				if v, ok := call.(ssa.Value); ok {
					emit(st, "Raw:"+flowsToField(v))
				}
				return nil
			}
		}
		if c.IsInvoke() && c.Method.Name() == "Write" && len(c.Args) == 1 {
			return fork("Raw:"+comesFromField(c.Args[0]), true)
		}
		// repo helpers returning an error (toFrameBodyReader, skipPositionalValues): fork on the error
		if callee != nil && p.InRepo(callee) {
			res := callee.Signature.Results()
			if res.Len() > 0 && types.Identical(res.At(res.Len()-1).Type(), types.Universe.Lookup("error").Type()) {
				okSt, bad := st.clone(), st.clone()
				bad.aux["failed"] = "1"
				if res.Len() == 1 {
					SetCallResult(okSt, call, AV{K: avNil})
					SetCallResult(bad, call, AV{K: avNonNil})
				} else {
					xs := make([]AV, res.Len())
					ys := make([]AV, res.Len())
					xs[res.Len()-1] = AV{K: avNil}
					ys[res.Len()-1] = AV{K: avNonNil}
					if _, isPtr := res.At(0).Type().Underlying().(*types.Pointer); isPtr {
						xs[0] = AV{K: avNonNil}
					}
					SetCallResult(okSt, call, avTup(xs...))
					SetCallResult(bad, call, avTup(ys...))
				}
				return []*State{okSt, bad}
			}
		}
		return nil
	}
	// only the arm handling the partial message type
	s.OnBranch = func(st *State, cond ssa.Value, truth bool) {
		if ex, ok := cond.(*ssa.Extract); ok {
			if ta, ok := ex.Tuple.(*ssa.TypeAssert); ok && inScope(ta.Parent()) && namedOf(ta.AssertedType) == partial {
				st.aux["arm"] = fmt.Sprint(truth)
			}
		}
	}
	outs := s.Run(fn, init)
	res.nodes = s.Nodes
	nres := fn.Signature.Results().Len()
	for _, o := range outs {
		if o.Panic {
			res.problems = append(res.problems, "panic reachable at "+p.Pos(o.Pos))
			continue
		}
		if o.St.aux["arm"] == "false" {
			continue // delegated to the built-in codec
		}
		errAV := o.Ret
		if nres > 1 {
			errAV = o.Ret.elem(nres - 1)
		}
		if o.St.aux["failed"] == "1" {
			if errAV.K != avNonNil {
				res.problems = append(res.problems, fmt.Sprintf("a failed read/write does not produce an error (path ending at %s returns %s)", p.Pos(o.Pos), o.Ret))
			}
			if nres > 1 && fn.Name() == "Decode" && o.Ret.elem(0).K != avNil {
				res.problems = append(res.problems, fmt.Sprintf("a failed read still returns a message (path ending at %s)", p.Pos(o.Pos)))
			}
			continue
		}
		if errAV.K == avNonNil {
			continue // validation error (empty id, bad batch type ...)
		}
		sig := strings.TrimSpace(o.St.aux["cur"])
		if o.St.aux["phase"] == "loop" {
			sig = strings.TrimSpace(o.St.aux["pre"]) + " {" + o.St.aux["iters"] + "} " + sig
		}
		res.sigs[sig] = true
	}
	return res
}

// splitSig splits "pre {a;b} post" into its parts.
func splitSig(s string) (pre string, alts []string, post string) {
	i, j := strings.Index(s, "{"), strings.LastIndex(s, "}")
	if i < 0 || j < i {
		return strings.TrimSpace(s), nil, ""
	}
	pre = strings.TrimSpace(s[:i])
	post = strings.TrimSpace(s[j+1:])
	for _, a := range strings.Split(s[i+1:j], ";") {
		if a = strings.TrimSpace(a); a != "" {
			alts = append(alts, a)
		}
	}
	return
}

func checkC11(p *Prog, r *Report) {
	r.NotCov = append(r.NotCov,
		"byte equality of decode/encode for all messages (differential testing against the reference codec); only the layout of the leading fields and their field mapping is decided",
		"the opaque remainder (flags, values, paging state ...) which is copied verbatim")
	codecLayouts(p, r, "C11")
	readerPosition(p, r, "C11.reader-position")
	resultThreading(p, r, "C11.result-threading", "codecs")
	// the partial codecs decode bytes a peer chose: no index or slice without an established bound
	panicFree(p, r, "C11.panic-free", codecEntryPoints(p), func(fn *ssa.Function) bool {
		return pkgOfFn(fn) != nil && pkgOfFn(fn).Pkg.Path() == pkgPath("codecs")
	})
}

// codecLayouts holds the layout/error/registration rules (also used by C12 and C03,
// whose re-encoded or forwarded requests depend on them).
func codecLayouts(p *Prog, r *Report, pfx string) {
	r.Rule(pfx+".layout", "for every protocol version the partial codec's Decode, Encode and EncodedLength have the native-protocol layout of the leading fields, each value mapped to the same struct field in all three")
	r.Rule(pfx+".error-discipline", "a failed primitive read/write or helper makes the codec method return a non-nil error and no message; no panic is reachable")
	r.Rule(pfx+".registered", "the proxy's frame codecs are built with the three partial codecs, each registered for its opcode")

	versions := []struct {
		name string
		v    int64
		rmi  bool
	}{}
	for _, n := range []string{"3", "4", "5", "Dse1", "Dse2"} {
		c := p.constOf("primitive", "ProtocolVersion"+n)
		i, _ := constant.Int64Val(c)
		versions = append(versions, struct {
			name string
			v    int64
			rmi  bool
		}{n, i, n == "5" || n == "Dse2"})
	}
	type spec struct {
		codec, msg string
		expect     func(method string, rmi bool) []string // acceptable signatures
	}
	ann := func(method, dec, enc string) string {
		switch method {
		case "Decode":
			return dec
		case "EncodedLength":
			if enc == "const" {
				return "?"
			}
			return enc
		}
		return enc
	}
	specs := []spec{
		{"partialQueryCodec", "PartialQuery", func(m string, rmi bool) []string {
			short := "Short:Consistency"
			if m == "EncodedLength" {
				short = "Short:?"
			}
			return []string{"LongString:Query " + short + " Raw:Parameters"}
		}},
		{"partialExecuteCodec", "PartialExecute", func(m string, rmi bool) []string {
			short := "Short:Consistency"
			if m == "EncodedLength" {
				short = "Short:?"
			}
			s := "ShortBytes:QueryId "
			if rmi {
				s += "ShortBytes:ResultMetadataId "
			}
			return []string{s + short + " Raw:Parameters"}
		}},
		{"partialBatchCodec", "PartialBatch", func(m string, rmi bool) []string {
			short := "Short:Consistency"
			typ := "Byte:Type"
			if m == "EncodedLength" {
				short = "Short:?"
				typ = "Byte:?"
			}
			kind := "Byte:" + ann(m, "_", "const")
			cnt := "Short:len(Queries)"
			if m == "EncodedLength" {
				cnt = "Short:?"
			}
			its := []string{kind + " LongString:QueryOrId Raw:Values", kind + " ShortBytes:QueryOrId Raw:Values"}
			if m == "EncodedLength" {
				// the kind byte is added before the switch, the values after it
				its = []string{kind + " LongString:QueryOrId Raw:Values", kind + " ShortBytes:QueryOrId Raw:Values"}
			}
			sort.Strings(its)
			full := typ + " " + cnt + " {" + strings.Join(its, ";") + "} " + short + " Raw:Parameters"
			one := func(i int) string { return typ + " " + cnt + " {" + its[i] + "} " + short + " Raw:Parameters" }
			empty := typ + " " + cnt + " {} " + short + " Raw:Parameters"
			return []string{full, one(0), one(1), empty}
		}},
	}
	msgCodec := p.Named("message", "Codec")
	_ = msgCodec
	cells := 0
	for _, sp := range specs {
		codec := p.Named("codecs", sp.codec)
		partial := p.Named("codecs", sp.msg)
		for _, method := range []string{"Decode", "Encode", "EncodedLength"} {
			fn := p.methodOf(codec, method)
			if fn == nil {
				fatalf("anchor: %s.%s not found", sp.codec, method)
			}
			var bad, errs []string
			for _, ver := range versions {
				cs := codecSignature(p, fn, partial, ver.v)
				r.count("sim_states", cs.nodes)
				cells++
				want := sp.expect(method, ver.rmi)
				wpre, walts, wpost := splitSig(want[0])
				pres, posts, alts := map[string]bool{}, map[string]bool{}, map[string]bool{}
				for sgn := range cs.sigs {
					a, b, c := splitSig(sgn)
					pres[a], posts[c] = true, true
					for _, x := range b {
						alts[x] = true
					}
				}
				if len(cs.sigs) == 0 {
					bad = append(bad, fmt.Sprintf("version %s: no success path", ver.name))
					continue
				}
				if len(pres) != 1 || !pres[wpre] {
					bad = append(bad, fmt.Sprintf("version %s: leading fields %v differ from the protocol layout [%s]", ver.name, sortedKeys(pres), wpre))
				}
				if len(posts) != 1 || !posts[wpost] {
					bad = append(bad, fmt.Sprintf("version %s: trailing fields %v differ from the protocol layout [%s]", ver.name, sortedKeys(posts), wpost))
				}
				for _, w := range walts {
					if !alts[w] {
						bad = append(bad, fmt.Sprintf("version %s: batch child layout [%s] is not produced (found %v)", ver.name, w, sortedKeys(alts)))
					}
				}
				for a := range alts {
					okAlt := false
					for _, w := range walts {
						if a == w {
							okAlt = true
						}
					}
					// a child that is neither a string nor an id writes only its values: Decode never builds one
					if !okAlt && method != "Decode" && a == "Raw:Values" {
						okAlt = true
					}
					if method == "EncodedLength" && a == "Byte:? Raw:Values" {
						okAlt = true
					}
					if !okAlt {
						bad = append(bad, fmt.Sprintf("version %s: batch child layout [%s] is not part of the protocol", ver.name, a))
					}
				}
				errs = append(errs, cs.problems...)
			}
			r.check(len(bad) == 0, pfx+".layout", sp.codec+"."+method, p.Pos(fn.Pos()), "5 versions", strings.Join(dedupe(bad), " || "))
			r.check(len(errs) == 0, pfx+".error-discipline", sp.codec+"."+method, p.Pos(fn.Pos()), "", strings.Join(dedupe(errs), " || "))
		}
		// opcode
		gop := p.methodOf(codec, "GetOpCode")
		want := map[string]string{"partialQueryCodec": "OpCodeQuery", "partialExecuteCodec": "OpCodeExecute", "partialBatchCodec": "OpCodeBatch"}[sp.codec]
		okOp := false
		if gop != nil {
			eachInstr(gop, func(in ssa.Instruction) {
				if ret, ok := in.(*ssa.Return); ok {
					if c, ok := ret.Results[0].(*ssa.Const); ok && c.Value != nil && c.Value.ExactString() == p.constOf("primitive", want).ExactString() {
						okOp = true
					}
				}
			})
		}
		r.check(okOp, pfx+".registered", sp.codec+".GetOpCode", p.Pos(codec.Obj().Pos()), want, "codec is not registered for "+want)
	}
	r.count("layout_cells", cells)
	r.Floor(pfx+".layout", 9, "codec methods")

	c11SkipValue(p, r, pfx)

	// registration in CustomMessageCodecs and use by the raw codecs
	e, info := p.astGlobalInit("codecs", "CustomMessageCodecs")
	have := map[string]bool{}
	if cl, ok := e.(*ast.CompositeLit); ok {
		for _, el := range cl.Elts {
			if tv, ok := info.Types[el]; ok {
				if n := namedOf(tv.Type); n != nil {
					have[n.Obj().Name()] = true
				}
			}
		}
	}
	var miss []string
	for _, n := range []string{"partialQueryCodec", "partialExecuteCodec", "partialBatchCodec"} {
		if !have[n] {
			miss = append(miss, n)
		}
	}
	r.check(len(miss) == 0, pfx+".registered", "codecs.CustomMessageCodecs", p.Pos(p.Global("codecs", "CustomMessageCodecs").Pos()), "", "missing partial codecs: "+strings.Join(miss, ","))
	// the proxy's client codec and the compression table are built from CustomMessageCodecs
	initFn := p.Pkg("codecs").Func("init")
	uses := 0
	g := p.Global("codecs", "CustomMessageCodecs")
	if initFn != nil {
		// (the codecs may be built in helpers the initialisers call: the message codecs are followed
		// from the helper's parameter to its call sites; a helper called twice counts per site that
		// hands it the partial codecs)
		for _, f := range withCallees(p, initFn, 2) {
			eachCall(f, func(c ssa.CallInstruction) {
				if callIsFunc(c, "frame", "NewRawCodec") || callIsFunc(c, "frame", "NewRawCodecWithCompression") {
					for _, a := range c.Common().Args {
						for _, o := range originsInter(p, a, 2) {
							if ld, ok := o.(*ssa.UnOp); ok && sameGlobal(ld.X, g) {
								uses++
							}
						}
					}
				}
			})
		}
	}
	r.check(uses >= 3, pfx+".registered", "codecs.CustomRawCodec*", p.Pos(g.Pos()), fmt.Sprintf("%d raw codecs built from the partial codecs", uses),
		fmt.Sprintf("only %d of the proxy's raw codecs (plain, lz4, snappy) are built from CustomMessageCodecs", uses))
}

// c11SkipValue: the helper that skips a batch child's [value] accepts every
// length the protocol allows: n >= 0 bytes follow for n > 0, nothing follows for
// 0, -1 (null) and -2 (unset); it must not fail for any of them.
func c11SkipValue(p *Prog, r *Report, pfx string) {
	rule := pfx + ".value-skip"
	r.Rule(rule, "skipping a batch child's [value] succeeds for the lengths the protocol allows: 0, -1 (null), -2 (unset, v4+) skip nothing; a positive n skips exactly n bytes; other negative lengths and read errors are reported")
	var fn *ssa.Function
	for _, f := range p.ScopedFuncs("codecs") {
		if f.Parent() != nil {
			continue
		}
		reads, copies := false, false
		eachCall(f, func(c ssa.CallInstruction) {
			if callIsFunc(c, "primitive", "ReadInt") {
				reads = true
			}
			if callIsFunc(c, "io", "CopyN") {
				copies = true
			}
		})
		if reads && copies {
			fn = f
		}
	}
	if fn == nil {
		r.bad(rule, "codecs:skip-value", "", "no function reads an [int] length and skips that many bytes")
		return
	}
	var bad []string
	for _, n := range []int64{-2147483648, -3, -2, -1, 0, 1, 7, 1 << 20} {
		s := newSim(p)
		s.Model = func(sm *Sim, st *State, call ssa.CallInstruction, callee *ssa.Function) []*State {
			switch {
			case callIsFunc(call, "primitive", "ReadInt"):
				SetCallResult(st, call, avTup(avInt(n), AV{K: avNil}))
				return []*State{st}
			case callIsFunc(call, "io", "CopyN"):
				st.addEff("skip")
				// the number of bytes skipped is the length read
				okN := false
				for _, o := range origins(call.Common().Args[2]) {
					if ex, ok := o.(*ssa.Extract); ok {
						if cc, ok := ex.Tuple.(*ssa.Call); ok && callIsFunc(cc, "primitive", "ReadInt") {
							okN = true
						}
					}
				}
				if !okN {
					st.aux["wrongN"] = "1"
				}
				okSt, bad := st.clone(), st.clone()
				SetCallResult(okSt, call, avTup(top, AV{K: avNil}))
				SetCallResult(bad, call, avTup(top, AV{K: avNonNil}))
				bad.aux["failed"] = "1"
				return []*State{okSt, bad}
			}
			return nil
		}
		outs := s.Run(fn, newState())
		r.count("sim_states", s.Nodes)
		for _, o := range outs {
			if o.Panic {
				bad = append(bad, fmt.Sprintf("length %d: panic reachable", n))
				continue
			}
			switch {
			case o.St.aux["failed"] == "1":
				if o.Ret.K != avNonNil {
					bad = append(bad, fmt.Sprintf("length %d: a failed skip is not reported", n))
				}
			case n < -2:
				if o.Ret.K == avNil || o.St.eff["skip"] != 0 {
					bad = append(bad, fmt.Sprintf("length %d (not a length the protocol defines) is accepted: a malformed BATCH body is forwarded instead of being rejected", n))
				}
			case n <= 0:
				if o.Ret.K != avNil {
					bad = append(bad, fmt.Sprintf("length %d (a legal null/unset/empty value) is rejected: valid BATCH bodies fail to decode", n))
				}
				if o.St.eff["skip"] != 0 {
					bad = append(bad, fmt.Sprintf("length %d: bytes are skipped although none follow", n))
				}
			default:
				if o.Ret.K != avNil || o.St.eff["skip"] != 1 || o.St.aux["wrongN"] == "1" {
					bad = append(bad, fmt.Sprintf("length %d: does not skip exactly that many bytes (skips=%d, result %s)", n, o.St.eff["skip"], o.Ret))
				}
			}
		}
	}
	r.check(len(bad) == 0, rule, "codecs."+fn.Name(), p.Pos(fn.Pos()), "lengths -2^31,-3,-2,-1,0,1,7,2^20 folded", strings.Join(dedupe(bad), " || "))
}

// codecEntryPoints: the Decode/Encode/EncodedLength methods of the partial codecs.
func codecEntryPoints(p *Prog) []*ssa.Function {
	var out []*ssa.Function
	for _, fn := range p.ScopedFuncs("codecs") {
		if fn.Parent() != nil || fn.Signature.Recv() == nil {
			continue
		}
		switch fn.Name() {
		case "Decode", "Encode", "EncodedLength":
			if rn := recvNamed(fn); rn != nil && strings.HasPrefix(rn.Obj().Name(), "partial") {
				out = append(out, fn)
			}
		}
	}
	if len(out) < 3 {
		fatalf("anchor: only %d Decode/Encode/EncodedLength methods of partial codecs found", len(out))
	}
	return out
}
