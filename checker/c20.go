package main

// C20 — configuration values are honoured as documented and bad configurations refused.
//
//  version-names     every label parseProtocolVersion knows is folded (the lower-cased
//                    input bound to the label): documented spellings map to the
//                    version they name, distinct names to distinct versions, unknown
//                    names are refused, labels are lower case under a lower-cased input
//  consistency-names the same for the 11 consistency names of clWrapper.UnmarshalText
//  validation        Run() is simulated with the option values bound around their
//                    validity boundaries: heartbeat >= idle, fewer than one connection,
//                    version > max version, unknown version names and no backend are
//                    refused with a non-zero exit before a proxy is built
//  report-then-stop  after a configuration error has been reported no path builds or
//                    starts the proxy, and the exit status is non-zero
//  validate-after-merge options are validated only after the configuration file has
//                    been merged into them
//  peers             buildNodes refuses peers without rpc-address / without own
//                    rpc-address / missing peer tokens; the error reaches the exit status

import (
	"fmt"
	"go/constant"
	"go/token"
	"go/types"
	"sort"
	"strings"

	"golang.org/x/tools/go/ssa"
)

func init() { register("C20", checkC20) }

// labelsOf collects the string constants a function compares with.
func labelsOf(fn *ssa.Function) []string {
	set := map[string]bool{}
	eachInstr(fn, func(in ssa.Instruction) {
		if bo, ok := in.(*ssa.BinOp); ok && bo.Op == token.EQL {
			for _, v := range []ssa.Value{bo.X, bo.Y} {
				if s, ok := constStr(v); ok {
					set[s] = true
				}
			}
		}
	})
	return sortedKeys(set)
}

func checkC20(p *Prog, r *Report) {
	r.NotCov = append(r.NotCov,
		"kong's flag/environment parsing and yaml.Unmarshal themselves (library); durations/numbers other than the boundary cells folded here",
		"the README is not parsed: the documented spellings are encoded in the checker from the option help texts")
	c20Versions(p, r)
	c20Consistencies(p, r)
	c20Run(p, r)
	c20Peers(p, r)
	c20ConfiguredValuesKept(p, r)
	c20FirstHandshakeVersion(p, r)
	// --max-protocol-version is honoured by the per-frame version gate (decided for every version and maximum)
	{
		cl := p.proxyClientType()
		r.borrow("C13", "C20", func() { c13Gate(p, r, cl, p.methodOf(cl, "Receive")) })
	}
}

// tableLabels: a lookup table instead of a switch: the keys of every constant name table fn looks
// a name up in are its labels.
func tableLabels(p *Prog, fn *ssa.Function) []string {
	var labels []string
	eachInstr(fn, func(in ssa.Instruction) {
		if lk, ok := in.(*ssa.Lookup); ok {
			if ld, ok := lk.X.(*ssa.UnOp); ok {
				if g, ok := ld.X.(*ssa.Global); ok {
					if tbl, ok := p.constMapLiteral(g); ok {
						for k := range tbl {
							labels = append(labels, k)
						}
					}
				}
			}
		}
	})
	sort.Strings(labels)
	return labels
}

func c20Versions(p *Prog, r *Report) {
	const rule = "C20.version-names"
	r.Rule(rule, "each documented spelling of a protocol version (v3 v4 v5 DSEv1 DSEv2 and 3 4 5 65 66, any letter case) selects the version it names; distinct names select distinct versions; other names are refused")
	fn := p.Func("parser", "IsQueryHandled") // placeholder to keep anchor style uniform
	_ = fn
	pv := p.Func("proxy", "parseProtocolVersion")
	want := map[string]string{
		"3": "ProtocolVersion3", "v3": "ProtocolVersion3",
		"4": "ProtocolVersion4", "v4": "ProtocolVersion4",
		"5": "ProtocolVersion5", "v5": "ProtocolVersion5",
		"65": "ProtocolVersionDse1", "dsev1": "ProtocolVersionDse1",
		"66": "ProtocolVersionDse2", "dsev2": "ProtocolVersionDse2",
	}
	labels := append(labelsOf(pv), tableLabels(p, pv)...)
	sort.Strings(labels)
	lowerCalled := false
	eachCall(pv, func(c ssa.CallInstruction) {
		if callIsFunc(c, "strings", "ToLower") && c.Common().Args[0] == ssa.Value(pv.Params[0]) {
			lowerCalled = true
		}
	})
	run := func(label string) (string, bool, bool) {
		s := newSim(p)
		init := newState()
		init.vals[pv.Params[0]] = AV{K: avConst, C: constant.MakeString(label)}
		outs := s.Run(pv, init)
		r.count("sim_states", s.Nodes)
		if len(outs) != 1 {
			return "", false, false
		}
		okv, known := outs[0].Ret.elem(1).isBool()
		v := outs[0].Ret.elem(0)
		name := v.String()
		for n, c := range p.constsOfType("primitive", "ProtocolVersion") {
			if v.K == avConst && c.ExactString() == v.C.ExactString() && strings.HasPrefix(n, "ProtocolVersion") && !strings.Contains(n, "Beta") {
				name = n
			}
		}
		return name, okv, known
	}
	var bad []string
	_ = lowerCalled
	// letter case: the documented forms are mixed case (DSEv1), and any case selects the same version
	for l, w := range want {
		for _, form := range []string{strings.ToUpper(l), strings.Replace(strings.Replace(l, "dsev", "DSEv", 1), "v", "V", 0)} {
			if form == l {
				continue
			}
			got, okv, known := run(form)
			if !known {
				fatalf("rule %s: what parseProtocolVersion returns for %q could not be determined", rule, form)
			}
			if !okv || got != w {
				bad = append(bad, fmt.Sprintf("%q selects %s (accepted=%v), documented %s: the option value is not compared case-insensitively", form, got, okv, w))
			}
		}
	}
	for _, l := range labels {
		if l != strings.ToLower(l) {
			bad = append(bad, fmt.Sprintf("label %q contains upper-case letters but the input is lower-cased: it can never match", l))
		}
	}
	seen := map[string]string{}
	// every documented spelling is evaluated, whether or not the function spells it out as a constant
	// (it may parse the number instead)
	for l := range want {
		have := false
		for _, x := range labels {
			if x == l {
				have = true
			}
		}
		if !have {
			labels = append(labels, l)
		}
	}
	sort.Strings(labels)
	for _, l := range labels {
		got, okv, known := run(l)
		if !known {
			fatalf("rule %s: what parseProtocolVersion returns for %q could not be determined (an operation on the name that the analysis does not evaluate)", rule, l)
		}
		w, documented := want[l]
		switch {
		case documented && (!okv || got != w):
			bad = append(bad, fmt.Sprintf("%q selects %s (accepted=%v), documented %s", l, got, okv, w))
		case !documented && okv:
			bad = append(bad, fmt.Sprintf("undocumented spelling %q is accepted as %s", l, got))
		}
		if okv {
			seen[l] = got
		}
	}
	for l := range want {
		if _, ok := seen[l]; !ok {
			bad = append(bad, fmt.Sprintf("documented spelling %q is not accepted", l))
		}
	}
	// names of distinct versions map to distinct values (injectivity across name groups)
	byVal := map[string]map[string]bool{}
	for l, v := range seen {
		if byVal[v] == nil {
			byVal[v] = map[string]bool{}
		}
		byVal[v][want[l]] = true
	}
	for v, names := range byVal {
		if len(names) > 1 {
			bad = append(bad, fmt.Sprintf("different documented names select the same version %s", v))
		}
	}
	// an unknown name is refused
	// (numbers that equal a version modulo 256 included: the version is a byte)
	for _, l := range []string{"", "v6", "2", "v2", "dsev3", "latest", "259", "260", "v260", "261", "321", "322", "-252", "0x4"} {
		got, okv, known := run(l)
		if !known {
			fatalf("rule %s: what parseProtocolVersion returns for %q could not be determined", rule, l)
		}
		if okv {
			bad = append(bad, fmt.Sprintf("unknown version name %q is not refused (it selects %s)", l, got))
		}
	}
	r.check(len(bad) == 0, rule, "proxy.parseProtocolVersion", p.Pos(pv.Pos()), fmt.Sprintf("%d labels folded", len(labels)), strings.Join(dedupe(bad), " || "))
}

func c20Consistencies(p *Prog, r *Report) {
	const rule = "C20.consistency-names"
	r.Rule(rule, "each of the 11 consistency names (any letter case) selects the consistency level it names, distinct names select distinct levels, other names are an error")
	cw := p.Named("proxy", "clWrapper")
	fn := p.methodOf(cw, "UnmarshalText")
	if fn == nil {
		fatalf("anchor: clWrapper.UnmarshalText not found")
	}
	want := map[string]string{
		"any": "Any", "one": "One", "two": "Two", "three": "Three", "quorum": "Quorum", "all": "All",
		"local_quorum": "LocalQuorum", "each_quorum": "EachQuorum", "serial": "Serial", "local_serial": "LocalSerial", "local_one": "LocalOne",
	}
	cls := p.constsOfType("primitive", "ConsistencyLevel")
	clF := p.Field("proxy", "clWrapper", "ConsistencyLevel")
	labels := append(labelsOf(fn), tableLabels(p, fn)...)
	sort.Strings(labels)
	run := func(label string) (string, AV) {
		s := newSim(p)
		s.Tracked[clF] = true
		s.Model = func(sm *Sim, st *State, call ssa.CallInstruction, callee *ssa.Function) []*State {
			if callIsFunc(call, "strings", "ToLower") {
				SetCallResult(st, call, AV{K: avConst, C: constant.MakeString(label)})
				return []*State{st}
			}
			return nil
		}
		init := newState()
		init.cells[clF] = avSymbol("unset")
		outs := s.Run(fn, init)
		r.count("sim_states", s.Nodes)
		if len(outs) != 1 {
			return "?", top
		}
		v := outs[0].St.cells[clF]
		name := v.String()
		if v.K == avConst {
			for n, c := range cls {
				if c.ExactString() == v.C.ExactString() {
					name = strings.TrimPrefix(n, "ConsistencyLevel")
				}
			}
		}
		return name, outs[0].Ret
	}
	var bad []string
	lower := false
	eachCall(fn, func(c ssa.CallInstruction) {
		if callIsFunc(c, "strings", "ToLower") {
			lower = true
		}
	})
	if !lower {
		bad = append(bad, "the name is not lower-cased before it is compared")
	}
	seen := map[string]string{}
	for _, l := range labels {
		if l != strings.ToLower(l) {
			bad = append(bad, fmt.Sprintf("label %q can never match a lower-cased name", l))
		}
		got, ret := run(l)
		w, documented := want[l]
		switch {
		case documented && (got != w || ret.K != avNil):
			bad = append(bad, fmt.Sprintf("%q selects %s (error=%s), documented %s", l, got, ret, w))
		case !documented && ret.K == avNil:
			bad = append(bad, fmt.Sprintf("undocumented name %q accepted as %s", l, got))
		}
		if ret.K == avNil {
			seen[got] = l
		}
	}
	for l, w := range want {
		if seen[w] != l {
			bad = append(bad, fmt.Sprintf("documented name %q does not select %s", l, w))
		}
	}
	for _, l := range []string{"", "quorun", "local", "LOCAL_QUORUM "} {
		if _, ret := run(strings.ToLower(l)); ret.K != avNonNil {
			bad = append(bad, fmt.Sprintf("unknown consistency name %q is not an error", l))
		}
	}
	r.check(len(bad) == 0, rule, "proxy.clWrapper.UnmarshalText", p.Pos(fn.Pos()), fmt.Sprintf("%d labels folded", len(labels)), strings.Join(dedupe(bad), " || "))
}

type runCell struct {
	name     string
	bind     func(st *State, s *Sim)
	versions [2]string // names of (version, max) constants, "" = unknown label, "-" = leave to the real parser
	reject   bool
}

func c20Run(p *Prog, r *Report) {
	r.Rule("C20.validation", "Run refuses (non-zero exit, no proxy built) exactly the inconsistent option values: heartbeat interval >= idle timeout, fewer than one connection, version above max version, unknown version names, no backend")
	r.Rule("C20.report-then-stop", "once Run has reported a configuration error, no path builds or starts the proxy and the exit status is non-zero")
	r.Rule("C20.validate-after-merge", "option values are tested only after the configuration file (if any) has been merged into them")
	run := p.Func("proxy", "Run")
	rc := p.Named("proxy", "runConfig")
	fld := func(n string) *types.Var { return p.Field("proxy", "runConfig", n) }
	hbF, idleF, ncF, cfgF, cpF := fld("HeartbeatInterval"), fld("IdleTimeout"), fld("NumConns"), fld("Config"), fld("ContactPoints")
	bundleF, tokenF := fld("AstraBundle"), fld("AstraToken")
	pvFn := p.Func("proxy", "parseProtocolVersion")
	newProxy := p.Func("proxy", "NewProxy")
	vers := p.constsOfType("primitive", "ProtocolVersion")
	validated := map[*types.Var]bool{hbF: true, idleF: true, ncF: true, fld("ProtocolVersion"): true, fld("MaxProtocolVersion"): true}

	mkSim := func(cell *runCell, problems *[]string) (*Sim, *State) {
		s := newSim(p)
		for _, f := range []*types.Var{hbF, idleF, ncF, cfgF} {
			s.Tracked[f] = true
		}
		pvCalls := 0
		// phases of Run moved into methods of the configuration object are looked through
		s.Inline = func(f *ssa.Function) bool {
			return recvNamed(f) == rc && f.Parent() == nil && f.Name() != "listenAndServe" && onlyCalledFrom(p, f, run, 2)
		}
		s.Model = func(sm *Sim, st *State, call ssa.CallInstruction, callee *ssa.Function) []*State {
			if callee == nil {
				return nil
			}
			switch {
			case callee.Name() == "Errorf" && recvNamed(callee) != nil && recvNamed(callee).Obj().Name() == "Kong":
				st.aux["reported"] = "1"
				return nil
			case callee.Name() == "Fatalf" && recvNamed(callee) != nil && recvNamed(callee).Obj().Name() == "Kong":
				return []*State{} // exits the process
			case callee == newProxy:
				st.addEff("newproxy")
				if st.aux["reported"] == "1" {
					*problems = append(*problems, p.Pos(call.Pos())+": a proxy is built after a configuration error was reported")
				}
				return nil
			case callee.Name() == "listenAndServe":
				st.addEff("serve")
				okSt, bad := st.clone(), st.clone()
				SetCallResult(okSt, call, AV{K: avNil})
				SetCallResult(bad, call, AV{K: avNonNil})
				bad.aux["servefail"] = "1"
				return []*State{okSt, bad}
			case callee == pvFn && cell != nil && cell.versions[0] != "-":
				name := cell.versions[st.eff["pv"]%2]
				st.addEff("pv")
				pvCalls++
				if name == "" {
					SetCallResult(st, call, avTup(avInt(0), avBool(false)))
				} else {
					SetCallResult(st, call, avTup(avC(vers[name]), avBool(true)))
				}
				return []*State{st}
			case callee.String() == "gopkg.in/yaml.v2.Unmarshal":
				st.aux["merged"] = "1"
				return nil
			}
			return nil
		}
		s.OnBranch = func(st *State, cond ssa.Value, truth bool) {
			// the configuration-file decision
			dependsOn := func(v ssa.Value, fields map[*types.Var]bool) bool {
				found := false
				var walk func(v ssa.Value, d int)
				walk = func(v ssa.Value, d int) {
					if d > 4 || found {
						return
					}
					if f, _ := loadedField(v); f != nil && fields[f] {
						found = true
						return
					}
					switch x := v.(type) {
					case *ssa.BinOp:
						walk(x.X, d+1)
						walk(x.Y, d+1)
					case *ssa.UnOp:
						walk(x.X, d+1)
					case *ssa.Extract:
						walk(x.Tuple, d+1)
					case *ssa.Call:
						for _, a := range x.Call.Args {
							walk(a, d+1)
						}
					case *ssa.Convert:
						walk(x.X, d+1)
					}
				}
				walk(v, 0)
				return found
			}
			if dependsOn(cond, map[*types.Var]bool{cfgF: true}) {
				st.aux["fileDecided"] = "1"
			}
			if dependsOn(cond, validated) && st.aux["fileDecided"] != "1" {
				*problems = append(*problems, "an option is validated before the configuration file has been merged (values from the YAML file would bypass the check)")
			}
		}
		init := newState()
		// a backend is configured through contact points unless the cell says otherwise
		_ = cpF
		_ = bundleF
		_ = tokenF
		_ = rc
		if cell != nil && cell.bind != nil {
			cell.bind(init, s)
		}
		return s, init
	}

	// ---- report-then-stop and validate-after-merge on the unconstrained function
	{
		var problems []string
		s, init := mkSim(nil, &problems)
		outs := s.Run(run, init)
		r.count("sim_states", s.Nodes)
		var bad []string
		nrep := 0
		for _, o := range outs {
			if o.Panic {
				continue
			}
			if o.St.aux["reported"] == "1" {
				nrep++
				if o.Ret.K != avConst || constant.Sign(o.Ret.C) == 0 {
					bad = append(bad, fmt.Sprintf("a configuration error was reported but the exit status is %s (path ending at %s)", o.Ret, p.Pos(o.Pos)))
				}
				if o.St.eff["serve"] > 0 && o.St.aux["servefail"] != "1" {
					bad = append(bad, "the proxy is started after a configuration error was reported")
				}
			}
		}
		var merge []string
		for _, pr := range dedupe(problems) {
			if strings.Contains(pr, "validated before") {
				merge = append(merge, pr)
			} else {
				bad = append(bad, pr)
			}
		}
		r.check(len(bad) == 0 && nrep >= 8, "C20.report-then-stop", "proxy.Run", p.Pos(run.Pos()), fmt.Sprintf("%d reporting paths", nrep), strings.Join(dedupe(bad), " || "))
		r.check(len(merge) == 0, "C20.validate-after-merge", "proxy.Run", p.Pos(run.Pos()), "", strings.Join(merge, " || "))
	}

	// ---- validation cells
	dur := func(sec int64) AV { return avInt(sec * 1e9) }
	var cells []runCell
	for _, c := range [][3]int64{{30, 60, 0}, {59, 60, 0}, {60, 60, 1}, {61, 60, 1}, {90, 30, 1}} {
		c := c
		cells = append(cells, runCell{name: fmt.Sprintf("heartbeat=%ds idle=%ds", c[0], c[1]), reject: c[2] == 1, versions: [2]string{"ProtocolVersion4", "ProtocolVersion4"},
			bind: func(st *State, s *Sim) {
				st.cells[hbF], st.cells[idleF], st.cells[ncF] = dur(c[0]), dur(c[1]), avInt(1)
			}})
	}
	for _, n := range []int64{-1, 0, 1, 2} {
		n := n
		cells = append(cells, runCell{name: fmt.Sprintf("num-conns=%d", n), reject: n < 1, versions: [2]string{"ProtocolVersion4", "ProtocolVersion4"},
			bind: func(st *State, s *Sim) { st.cells[hbF], st.cells[idleF], st.cells[ncF] = dur(30), dur(60), avInt(n) }})
	}
	vnames := []string{"ProtocolVersion3", "ProtocolVersion4", "ProtocolVersion5", "ProtocolVersionDse1", "ProtocolVersionDse2"}
	for _, v := range vnames {
		for _, m := range vnames {
			vi, _ := constant.Int64Val(vers[v])
			mi, _ := constant.Int64Val(vers[m])
			cells = append(cells, runCell{name: fmt.Sprintf("version=%s max=%s", strings.TrimPrefix(v, "ProtocolVersion"), strings.TrimPrefix(m, "ProtocolVersion")),
				reject: vi > mi, versions: [2]string{v, m},
				bind: func(st *State, s *Sim) { st.cells[hbF], st.cells[idleF], st.cells[ncF] = dur(30), dur(60), avInt(1) }})
		}
	}
	cells = append(cells, runCell{name: "version=<unknown name>", reject: true, versions: [2]string{"", "ProtocolVersion4"},
		bind: func(st *State, s *Sim) { st.cells[hbF], st.cells[idleF], st.cells[ncF] = dur(30), dur(60), avInt(1) }})
	cells = append(cells, runCell{name: "max-version=<unknown name>", reject: true, versions: [2]string{"ProtocolVersion4", ""},
		bind: func(st *State, s *Sim) { st.cells[hbF], st.cells[idleF], st.cells[ncF] = dur(30), dur(60), avInt(1) }})
	groups := map[string][]string{}
	counts := map[string]int{}
	for i := range cells {
		cell := &cells[i]
		var problems []string
		s, init := mkSim(cell, &problems)
		outs := s.Run(run, init)
		r.count("sim_states", s.Nodes)
		group := strings.SplitN(cell.name, "=", 2)[0]
		if strings.HasPrefix(cell.name, "version=") || strings.HasPrefix(cell.name, "max-version=") {
			group = "version/max-version"
		}
		counts[group]++
		built := 0
		for _, o := range outs {
			if o.Panic {
				continue
			}
			if o.St.eff["newproxy"] > 0 {
				built++
			}
		}
		switch {
		case cell.reject && built > 0:
			groups[group] = append(groups[group], fmt.Sprintf("%s must be refused but %d path(s) build a proxy", cell.name, built))
		case !cell.reject && built == 0:
			groups[group] = append(groups[group], fmt.Sprintf("%s is a valid configuration but no path builds a proxy", cell.name))
		default:
			if _, ok := groups[group]; !ok {
				groups[group] = nil
			}
		}
	}
	var gs []string
	for g := range groups {
		gs = append(gs, g)
	}
	sort.Strings(gs)
	for _, g := range gs {
		r.check(len(groups[g]) == 0, "C20.validation", g, p.Pos(run.Pos()), fmt.Sprintf("%d cells", counts[g]), strings.Join(groups[g], " || "))
	}
	r.count("validation_cells", len(cells))
	// no backend given (no bundle, no token, no contact points): refused
	{
		cell := runCell{name: "no backend", reject: true, versions: [2]string{"ProtocolVersion4", "ProtocolVersion4"},
			bind: func(st *State, s *Sim) {
				st.cells[hbF], st.cells[idleF], st.cells[ncF] = dur(30), dur(60), avInt(1)
				s.TrackLens = true
				for _, f := range []*types.Var{bundleF, tokenF} {
					s.Tracked[f] = true
					st.cells[f] = AV{K: avConst, C: constant.MakeString("")}
				}
				s.Tracked[cpF] = true
				st.cells[cpF] = AV{K: avNil}
			}}
		var problems []string
		s, init := mkSim(&cell, &problems)
		outs := s.Run(run, init)
		r.count("sim_states", s.Nodes)
		built, refused := 0, 0
		for _, o := range outs {
			if o.Panic {
				continue
			}
			if o.St.eff["newproxy"] > 0 {
				built++
			} else if o.Ret.K == avConst && constant.Sign(o.Ret.C) != 0 {
				refused++
			}
		}
		r.check(built == 0 && refused > 0, "C20.validation", "no-backend", p.Pos(run.Pos()), fmt.Sprintf("%d refusing path(s)", refused),
			fmt.Sprintf("start-up without bundle, token or contact points is not refused: %d path(s) build a proxy, %d refuse", built, refused))
	}
}

func c20Peers(p *Prog, r *Report) {
	const rule = "C20.peers"
	r.Rule(rule, "buildNodes returns an error for peers configured without an own rpc-address, a peer without rpc-address, and tokens given for this proxy but not for every peer; Connect, listenAndServe and Run turn that error into a non-zero exit")
	px := p.Named("proxy", "Proxy")
	bn := p.methodOf(px, "buildNodes")
	if bn == nil {
		fatalf("anchor: Proxy.buildNodes not found")
	}
	type need struct {
		what  string
		match func(conds []condTruth) bool
	}
	lenOfField := func(v ssa.Value, field string) bool {
		if la := lenArg(v); la != nil {
			return strings.HasSuffix(fieldPath(la), "."+field) || strings.HasSuffix(fieldPath(la), field)
		}
		return false
	}
	needs := []need{
		{"peers without own rpc-address", func(cs []condTruth) bool {
			rpcEmpty, peers := false, false
			for _, ct := range cs {
				bo, ok := ct.Cond.(*ssa.BinOp)
				if !ok {
					continue
				}
				if lenOfField(bo.X, "RPCAddr") && strings.Contains(fieldPath(lenArg(bo.X)), "config") && bo.Op == token.GTR && !ct.Truth {
					rpcEmpty = true
				}
				if bo.Op == token.GTR && ct.Truth {
					if c, ok := constInt(bo.Y); ok && c == 0 {
						peers = true
					}
				}
			}
			return rpcEmpty && peers
		}},
		{"peer without rpc-address", func(cs []condTruth) bool {
			for _, ct := range cs {
				if bo, ok := ct.Cond.(*ssa.BinOp); ok && bo.Op == token.EQL && ct.Truth && lenOfField(bo.X, "RPCAddr") && !strings.Contains(fieldPath(lenArg(bo.X)), "config.RPCAddr") {
					return true
				}
			}
			return false
		}},
		{"tokens for this proxy but not for a peer", func(cs []condTruth) bool {
			for _, ct := range cs {
				if bo, ok := ct.Cond.(*ssa.BinOp); ok && bo.Op == token.EQL && ct.Truth && lenOfField(bo.X, "Tokens") {
					return true
				}
			}
			return false
		}},
	}
	found := make([]bool, len(needs))
	var bad []string
	// buildNodes and the private helpers it was split into; a helper's error must be passed on
	scan := []*ssa.Function{bn}
	for _, h := range withCallees(p, bn, 2) {
		if h == bn || h.Parent() != nil || h.Pkg != bn.Pkg || !onlyCalledFrom(p, h, bn, 3) {
			continue
		}
		res := h.Signature.Results()
		if res.Len() == 0 || !types.Identical(res.At(res.Len()-1).Type(), types.Universe.Lookup("error").Type()) {
			continue
		}
		scan = append(scan, h)
		sites, _ := p.staticCallSites(h)
		for _, cs := range sites {
			passed := false
			caller := cs.Parent()
			eachInstr(caller, func(in ssa.Instruction) {
				ret, ok := in.(*ssa.Return)
				if !ok || len(ret.Results) == 0 {
					return
				}
				for _, o := range origins(ret.Results[len(ret.Results)-1]) {
					if ex, ok := o.(*ssa.Extract); ok && ex.Tuple == cs.(ssa.Value) {
						passed = true
					}
					if o == cs.(ssa.Value) {
						passed = true
					}
				}
			})
			if !passed {
				bad = append(bad, fmt.Sprintf("%s: the error of %s is not returned by %s", p.Pos(cs.Pos()), h.Name(), caller.Name()))
			}
		}
	}
	for _, f := range scan {
		eachInstr(f, func(in ssa.Instruction) {
			ret, ok := in.(*ssa.Return)
			if !ok || len(ret.Results) == 0 {
				return
			}
			isErr := false
			for _, o := range origins(ret.Results[len(ret.Results)-1]) {
				if c, ok := o.(*ssa.Call); ok && (callIsFunc(c, "errors", "New") || callIsFunc(c, "fmt", "Errorf")) {
					isErr = true
				}
			}
			if !isErr {
				return
			}
			cs := dominatingConds(ret.Block())
			// conditions under which a helper is called count as well
			if f != bn {
				if sites, only := p.staticCallSites(f); only {
					for _, site := range sites {
						cs = append(cs, dominatingConds(site.Block())...)
					}
				}
			}
			for i, n := range needs {
				if n.match(cs) {
					found[i] = true
				}
			}
		})
	}
	for i, n := range needs {
		if !found[i] {
			bad = append(bad, "no error return for: "+n.what)
		}
	}
	r.check(len(bad) == 0, rule, "Proxy.buildNodes", p.Pos(bn.Pos()), "3 refusals", strings.Join(bad, " || "))
	// error chain: Connect returns buildNodes' error
	connect := p.methodOf(px, "Connect")
	s := newSim(p)
	s.Model = func(sm *Sim, st *State, call ssa.CallInstruction, callee *ssa.Function) []*State {
		if callee == bn {
			SetCallResult(st, call, AV{K: avNonNil})
			st.addEff("bn")
			return []*State{st}
		}
		return nil
	}
	var cb []string
	reached := false
	for _, o := range s.Run(connect, newState()) {
		if o.Panic || o.St.eff["bn"] == 0 {
			continue
		}
		reached = true
		if o.Ret.K != avNonNil {
			cb = append(cb, fmt.Sprintf("Connect returns %s although buildNodes failed", o.Ret))
		}
	}
	r.count("sim_states", s.Nodes)
	if !reached {
		cb = append(cb, "Connect does not call buildNodes")
	}
	r.check(len(cb) == 0, rule, "Proxy.Connect", p.Pos(connect.Pos()), "", strings.Join(dedupe(cb), " || "))
	// listenAndServe returns Connect's error; Run maps listenAndServe's error to a non-zero exit (report-then-stop)
	var las *ssa.Function
	for _, fn := range p.ScopedFuncs("proxy") {
		if fn.Name() == "listenAndServe" {
			las = fn
		}
	}
	if las == nil {
		fatalf("anchor: listenAndServe not found")
	}
	s2 := newSim(p)
	// (the serving phase may live in private helpers / methods of a helper object)
	s2.Inline = func(f *ssa.Function) bool {
		return f != connect && f.Parent() == nil && pkgOfFn(f) == pkgOfFn(las) && onlyCalledFrom(p, f, las, 3)
	}
	s2.Model = func(sm *Sim, st *State, call ssa.CallInstruction, callee *ssa.Function) []*State {
		if callee == connect {
			SetCallResult(st, call, AV{K: avNonNil})
			st.addEff("connectfail")
			return []*State{st}
		}
		return nil
	}
	var lb []string
	n := 0
	for _, o := range s2.Run(las, newState()) {
		if o.Panic || o.St.eff["connectfail"] == 0 {
			continue
		}
		n++
		if o.Ret.K != avNonNil {
			lb = append(lb, "listenAndServe continues although Connect failed")
		}
	}
	r.count("sim_states", s2.Nodes)
	r.check(len(lb) == 0 && n > 0, rule, "runConfig.listenAndServe", p.Pos(las.Pos()), "", strings.Join(dedupe(lb), " || "))
}

// c20ConfiguredValuesKept: a consistency level chosen by the operator is never replaced after
// parsing.  Zero is a legal, documented value (ANY = 0x0000), so "default when unset" logic
// keyed on the zero value silently turns an explicit setting into another one.
func c20ConfiguredValuesKept(p *Prog, r *Report) {
	const rule = "C20.configured-values-kept"
	r.Rule(rule, "consistency-level options are written only by the option parser (UnmarshalText) and by struct literals that copy the parsed configuration; no later code re-defaults or rewrites them (ANY is the zero value: a zero test cannot tell 'unset' from 'any')")
	isCL := func(t types.Type) bool {
		n := namedOf(t)
		if n == nil {
			return false
		}
		if n.Obj().Name() == "ConsistencyLevel" && n.Obj().Pkg() != nil && strings.HasSuffix(n.Obj().Pkg().Path(), "/primitive") {
			return true
		}
		return false
	}
	wraps := func(t types.Type) bool {
		if isCL(t) {
			return true
		}
		if st, ok := t.Underlying().(*types.Struct); ok {
			for i := 0; i < st.NumFields(); i++ {
				if st.Field(i).Embedded() && isCL(st.Field(i).Type()) {
					return true
				}
			}
		}
		return false
	}
	var bad []string
	n := 0
	for _, fn := range p.ScopedFuncs("proxy") {
		isParser := fn.Name() == "UnmarshalText" && fn.Signature.Recv() != nil
		eachInstr(fn, func(in ssa.Instruction) {
			st, ok := in.(*ssa.Store)
			if !ok {
				return
			}
			fa, ok := st.Addr.(*ssa.FieldAddr)
			if !ok {
				return
			}
			f := fieldOfAddr(fa)
			if f == nil || !wraps(f.Type()) {
				return
			}
			// the struct must be one of the proxy's configuration types (not a protocol message)
			owner := namedOf(fa.X.Type())
			if owner == nil || owner.Obj().Pkg() == nil || owner.Obj().Pkg().Path() != pkgPath("proxy") {
				return
			}
			n++
			if isParser {
				return
			}
			if al, ok := fa.X.(*ssa.Alloc); ok && al.Parent() == fn {
				// a literal under construction: fine when it copies a configuration value; a local that
				// received a whole struct (the spilled `config Config` parameter, a copy) is an existing
				// configuration, not a literal
				wholeStore := false
				for _, ref := range *al.Referrers() {
					if ws, ok := ref.(*ssa.Store); ok && ws.Addr == ssa.Value(al) {
						wholeStore = true
					}
				}
				if !wholeStore {
					return
				}
			}
			bad = append(bad, fmt.Sprintf("%s: %s assigns %s.%s after the configuration was parsed (%s)", p.Pos(st.Pos()), fn.Name(), owner.Obj().Name(), f.Name(), valDesc(st.Val)))
		})
	}
	r.check(len(bad) == 0 && n > 0, rule, "consistency option writers", "", fmt.Sprintf("%d writes, all by the parser or by copying literals", n), strings.Join(dedupe(bad), " || "))
}

// c20FirstHandshakeVersion: `--protocol-version` is the version the proxy offers a contact point
// first.  Simulated: the start-up connection attempt of the cluster (connect with initial=true)
// hands Handshake the configured version on every path, whatever an earlier attempt with another
// contact point left behind in the cluster object; a reconnect hands it the negotiated version.
func c20FirstHandshakeVersion(p *Prog, r *Report) {
	const rule = "C20.first-handshake-version"
	r.Rule(rule, "the first handshake with every contact point at start-up offers the configured protocol version, not a version left over from an earlier contact point; a reconnect of the control connection offers the version negotiated at start-up")
	cl := p.Named("proxycore", "Cluster")
	connect := p.methodOf(cl, "connect")
	hs := p.methodOf(p.Named("proxycore", "ClientConn"), "Handshake")
	verF := p.Field("proxycore", "ClusterConfig", "Version")
	negF := p.Field("proxycore", "Cluster", "NegotiatedVersion")
	var initPar *ssa.Parameter
	for _, par := range connect.Params {
		if b, ok := par.Type().Underlying().(*types.Basic); ok && b.Kind() == types.Bool {
			if initPar != nil {
				fatalf("anchor: Cluster.connect has two boolean parameters")
			}
			initPar = par
		}
	}
	if initPar == nil {
		// the start-up flag travels some other way (an options struct): simulate the start-up path
		// from the constructor instead; decided is that no contact point is offered the version
		// negotiated with an earlier one (an offer the simulation cannot name is left undecided)
		ctor := p.FuncOpt("proxycore", "ConnectCluster")
		if ctor == nil {
			fatalf("anchor: Cluster.connect has no `initial` parameter and ConnectCluster was not found")
		}
		s := newSim(p)
		s.Inline = func(fn *ssa.Function) bool {
			return fn != hs && recvNamed(fn) == cl && fn.Parent() == nil && len(fn.Blocks) <= 40
		}
		s.LoadVal = func(ld *ssa.UnOp) (AV, bool) {
			if x, ok := ld.X.(*ssa.FieldAddr); ok {
				switch fieldOfAddr(x) {
				case verF:
					return avSymbol("configured"), true
				case negF:
					return avSymbol("negotiated"), true
				}
			}
			return AV{}, false
		}
		offered := map[string]token.Pos{}
		s.OnInstr = func(st *State, in ssa.Instruction) {
			c, ok := in.(ssa.CallInstruction)
			if !ok || c.Common().StaticCallee() != hs {
				return
			}
			for i, a := range c.Common().Args {
				if i > 0 && types.Identical(a.Type(), hs.Params[2].Type()) {
					offered[s.eval(st, a).String()] = c.Pos()
					break
				}
			}
		}
		s.Run(ctor, newState())
		var keys, bad []string
		for k := range offered {
			keys = append(keys, k)
		}
		sort.Strings(keys)
		if pos, isNeg := offered["$negotiated"]; isNeg {
			bad = append(bad, p.Pos(pos)+": on some start-up path the handshake offers the version negotiated with an earlier contact point instead of the configured one")
		}
		if len(offered) == 0 {
			fatalf("anchor: no Handshake call reached from ConnectCluster")
		}
		r.count("sim_states", s.Nodes)
		r.check(len(bad) == 0, rule, "Cluster start-up (from ConnectCluster)", p.Pos(ctor.Pos()), "offers "+strings.Join(keys, ", ")+" (an offer shown as ? is not decided)", strings.Join(bad, " || "))
		return
	}
	for _, initial := range []bool{true, false} {
		s := newSim(p)
		s.Inline = func(fn *ssa.Function) bool {
			return fn != hs && fn != connect && recvNamed(fn) == cl && fn.Parent() == nil && len(fn.Blocks) <= 12
		}
		s.LoadVal = func(ld *ssa.UnOp) (AV, bool) {
			switch x := ld.X.(type) {
			case *ssa.FieldAddr:
				switch fieldOfAddr(x) {
				case verF:
					return avSymbol("configured"), true
				case negF:
					return avSymbol("negotiated"), true
				}
			}
			return AV{}, false
		}
		s.FieldVals = map[*types.Var]AV{verF: avSymbol("configured")}
		offered := map[string]token.Pos{}
		s.OnInstr = func(st *State, in ssa.Instruction) {
			c, ok := in.(ssa.CallInstruction)
			if !ok || c.Common().StaticCallee() != hs {
				return
			}
			for i, a := range c.Common().Args {
				if i == 0 || !types.Identical(a.Type(), hs.Params[2].Type()) {
					continue
				}
				offered[s.eval(st, a).String()] = c.Pos()
				break
			}
		}
		init := newState()
		init.vals[initPar] = avBool(initial)
		s.Run(connect, init)
		want, what := "$configured", "the start-up attempt (initial=true)"
		if !initial {
			want, what = "$negotiated", "a reconnect (initial=false)"
		}
		var bad []string
		var keys []string
		for k := range offered {
			keys = append(keys, k)
		}
		sort.Strings(keys)
		for _, k := range keys {
			if k != want {
				bad = append(bad, fmt.Sprintf("%s: on some path of %s the handshake offers %s instead of %s", p.Pos(offered[k]), what, strings.TrimPrefix(k, "$"), strings.TrimPrefix(want, "$")))
			}
		}
		if len(offered) == 0 {
			fatalf("anchor: no Handshake call reached in Cluster.connect (initial=%v)", initial)
		}
		r.count("sim_states", s.Nodes)
		r.check(len(bad) == 0, rule, fmt.Sprintf("Cluster.connect initial=%v", initial), p.Pos(connect.Pos()), "offers "+strings.Join(keys, ", "), strings.Join(bad, " || "))
	}
}
