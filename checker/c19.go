package main

// C19 — Astra bundle connections authenticate the server and identify the client.
//
//  skip-verify-paired  InsecureSkipVerify is set only where, on every path, a
//                      VerifyPeerCertificate callback is installed on the same config
//  callback            the callback can return nil only as the error result of
//                      x509.Certificate.Verify on the parsed LEAF (index 0 of the
//                      certificates parsed from rawCerts); VerifyOptions take Roots from a
//                      tls.Config's RootCAs (never from the presented chain), DNSName from
//                      the bundle host, Intermediates only from the rest of the presented
//                      chain, CurrentTime zero or time.Now() evaluated inside the callback;
//                      parse failures return an error
//  server-name         the per-node SNI is the function's serverName parameter and callers
//                      pass the contact point / the node's host id
//  bundle-config       the bundle's tls.Config has RootCAs (with the bundle CA appended and
//                      checked), the bundle's key pair and ServerName = bundle host, no
//                      InsecureSkipVerify; it is only ever Clone()d
//  handshake-first     Connect() hands the raw socket to the CQL connection only on the
//                      plain path; on the TLS path only the tls.Client whose Handshake()
//                      error was tested reaches NewConn

import (
	"fmt"
	"go/constant"
	"go/token"
	"go/types"
	"strings"

	"golang.org/x/tools/go/ssa"
)

func init() { register("C19", checkC19) }

func tlsConfigField(p *Prog, name string) *types.Var {
	pkg := p.SSA.ImportedPackage("crypto/tls")
	if pkg == nil {
		fatalf("anchor: crypto/tls not loaded")
	}
	obj := pkg.Pkg.Scope().Lookup("Config")
	st := obj.Type().Underlying().(*types.Struct)
	for i := 0; i < st.NumFields(); i++ {
		if st.Field(i).Name() == name {
			return st.Field(i)
		}
	}
	fatalf("anchor: tls.Config.%s not found", name)
	return nil
}

func checkC19(p *Prog, r *Report) {
	r.NotCov = append(r.NotCov,
		"crypto/x509 and crypto/tls themselves, the system clock, the contents of certificates",
		"that the metadata service's answer is trustworthy beyond being fetched over the verified bundle TLS config")
	c19SkipVerify(p, r)
	c19ServerName(p, r)
	c19Bundle(p, r)
	c19HandshakeFirst(p, r)
	resultThreading(p, r, "C19.result-threading", "astra")
	c19NoResumption(p, r)
}

func c19SkipVerify(p *Prog, r *Report) {
	r.Rule("C19.skip-verify-paired", "InsecureSkipVerify is set to true only in a function that installs a VerifyPeerCertificate callback on the same tls.Config on every path to its return; nowhere else in the repository")
	r.Rule("C19.callback", "the VerifyPeerCertificate callback returns nil only as the result of Verify on the parsed leaf certificate with Roots from a RootCAs pool, DNSName = bundle host, Intermediates from the presented chain, CurrentTime zero or time.Now() evaluated in the callback; parse errors are returned")
	isvF := tlsConfigField(p, "InsecureSkipVerify")
	vpcF := tlsConfigField(p, "VerifyPeerCertificate")
	rootF := tlsConfigField(p, "RootCAs")
	n := 0
	var callbacks []*ssa.Function
	for _, fn := range p.ScopedFuncs("astra", "proxycore", "proxy") {
		var sets []*ssa.Store
		eachInstr(fn, func(in ssa.Instruction) {
			if st, ok := in.(*ssa.Store); ok {
				if fa, ok := st.Addr.(*ssa.FieldAddr); ok && fieldOfAddr(fa) == isvF {
					if c, ok := st.Val.(*ssa.Const); !ok || c.Value == nil || constant.BoolVal(c.Value) {
						sets = append(sets, st)
					}
				}
			}
		})
		// composite literals &tls.Config{InsecureSkipVerify: true} are stores too (handled above)
		if len(sets) == 0 {
			continue
		}
		n++
		// simulate: on every path, after skip-verify is set a callback is installed
		s := newSim(p)
		var cb []*ssa.Function
		s.OnInstr = func(st *State, in ssa.Instruction) {
			stv, ok := in.(*ssa.Store)
			if !ok {
				return
			}
			fa, ok := stv.Addr.(*ssa.FieldAddr)
			if !ok {
				return
			}
			switch fieldOfAddr(fa) {
			case isvF:
				st.aux["skip"] = "1"
			case vpcF:
				if mc, ok := stv.Val.(*ssa.MakeClosure); ok {
					st.aux["callback"] = "1"
					cb = append(cb, mc.Fn.(*ssa.Function))
				} else if f, ok := stv.Val.(*ssa.Function); ok {
					st.aux["callback"] = "1"
					cb = append(cb, f)
				} else if c, ok := stv.Val.(*ssa.Const); ok && c.Value == nil {
					delete(st.aux, "callback")
				}
			}
		}
		var bad []string
		for _, o := range s.Run(fn, newState()) {
			if o.Panic {
				continue
			}
			if o.St.aux["skip"] == "1" && o.St.aux["callback"] != "1" {
				bad = append(bad, fmt.Sprintf("path ending at %s disables certificate verification without installing a verification callback", p.Pos(o.Pos)))
			}
		}
		r.count("sim_states", s.Nodes)
		r.check(len(bad) == 0, "C19.skip-verify-paired", fn.Name(), p.Pos(fn.Pos()), "", strings.Join(dedupe(bad), " || "))
		callbacks = append(callbacks, cb...)
	}
	if n == 0 {
		r.ok("C19.skip-verify-paired", "none", "", "InsecureSkipVerify is never set")
	}
	seen := map[*ssa.Function]bool{}
	for _, cb := range callbacks {
		if seen[cb] {
			continue
		}
		seen[cb] = true
		c19Callback(p, r, cb, rootF)
	}
	if n > 0 && len(seen) == 0 {
		r.bad("C19.callback", "none", "", "no verification callback found")
	}
}

func c19Callback(p *Prog, r *Report, cb *ssa.Function, rootF *types.Var) {
	const rule = "C19.callback"
	var bad []string
	if len(cb.Params) < 1 {
		r.bad(rule, cb.Name(), p.Pos(cb.Pos()), "callback has no rawCerts parameter")
		return
	}
	rawCerts := cb.Params[0]
	for _, par := range cb.Params {
		// the presented chain: the [][]byte parameter (a method value has its receiver first)
		if sl, ok := par.Type().Underlying().(*types.Slice); ok {
			if in, ok := sl.Elem().Underlying().(*types.Slice); ok {
				if b, ok := in.Elem().Underlying().(*types.Basic); ok && b.Kind() == types.Uint8 {
					rawCerts = par
					break
				}
			}
		}
	}
	// the callback may be a thin wrapper around a named function that is given the presented chain
	hasVerify := func(f *ssa.Function) bool {
		return callsDirectly(f, func(c ssa.CallInstruction) bool {
			g := c.Common().StaticCallee()
			return g != nil && g.String() == "(*crypto/x509.Certificate).Verify"
		})
	}
	for hops := 0; hops < 2 && !hasVerify(cb); hops++ {
		var next *ssa.Function
		var nextRaw *ssa.Parameter
		eachCall(cb, func(c ssa.CallInstruction) {
			callee := c.Common().StaticCallee()
			if callee == nil || !p.InRepo(callee) || callee.Blocks == nil {
				return
			}
			for i, a := range c.Common().Args {
				if a == ssa.Value(rawCerts) && i < len(callee.Params) {
					// and its result is what the callback returns
					returned := false
					eachInstr(cb, func(in ssa.Instruction) {
						if ret, ok := in.(*ssa.Return); ok && len(ret.Results) == 1 {
							for _, o := range origins(ret.Results[0]) {
								if o == c.(ssa.Value) {
									returned = true
								}
							}
						}
					})
					if returned {
						next, nextRaw = callee, callee.Params[i]
					}
				}
			}
		})
		if next == nil {
			break
		}
		cb, rawCerts = next, nextRaw
	}
	// the Verify call
	var verify *ssa.Call
	eachCall(cb, func(c ssa.CallInstruction) {
		if f := c.Common().StaticCallee(); f != nil && f.String() == "(*crypto/x509.Certificate).Verify" {
			verify, _ = c.(*ssa.Call)
		}
	})
	if verify == nil {
		r.bad(rule, cb.Name(), p.Pos(cb.Pos()), "the callback never calls x509.Certificate.Verify: any chain is accepted")
		return
	}
	var verr ssa.Value
	for _, ref := range *verify.Referrers() {
		if ex, ok := ref.(*ssa.Extract); ok && ex.Index == 1 {
			verr = ex
		}
	}
	// returns
	eachInstr(cb, func(in ssa.Instruction) {
		ret, ok := in.(*ssa.Return)
		if !ok {
			return
		}
		for _, o := range origins(ret.Results[0]) {
			if o == verr {
				continue
			}
			if c, ok := o.(*ssa.Call); ok && (callIsFunc(c, "errors", "New") || callIsFunc(c, "fmt", "Errorf")) {
				continue
			}
			if ex, ok := o.(*ssa.Extract); ok {
				if c, ok := ex.Tuple.(*ssa.Call); ok && c.Call.StaticCallee() != nil && strings.HasPrefix(c.Call.StaticCallee().String(), "crypto/x509.Parse") && ex.Index == 1 {
					// returning a parse error directly is fine only under err != nil
					continue
				}
			}
			// the error of a repository helper (parsing moved out of the callback), returned where it was found non-nil
			if ex, ok := o.(*ssa.Extract); ok {
				if c, ok := ex.Tuple.(*ssa.Call); ok && c.Call.StaticCallee() != nil && p.InRepo(c.Call.StaticCallee()) {
					nonNil := false
					for _, ct := range dominatingConds(ret.Block()) {
						if bo, ok := ct.Cond.(*ssa.BinOp); ok && ((bo.Op == token.NEQ && ct.Truth) || (bo.Op == token.EQL && !ct.Truth)) {
							if k, isNil := bo.Y.(*ssa.Const); isNil && k.Value == nil {
								for _, oo := range origins(bo.X) {
									if oo == o {
										nonNil = true
									}
								}
							}
						}
					}
					if nonNil {
						continue
					}
				}
			}
			bad = append(bad, p.Pos(ret.Pos())+": the callback can accept the chain without the result of Verify ("+o.String()+")")
		}
	})
	// receiver: parsed certs[0]
	leafOK := false
	var certs ssa.Value
	if ld, ok := verify.Call.Args[0].(*ssa.UnOp); ok {
		if ia, ok := ld.X.(*ssa.IndexAddr); ok {
			if c, ok := constInt(ia.Index); ok && c == 0 {
				leafOK = true
				certs = ia.X
			}
		}
	}
	if !leafOK {
		bad = append(bad, p.Pos(verify.Pos())+": Verify is not called on the leaf (first) certificate of the presented chain")
	}
	// the parsing may live in a helper that is handed the presented chain and returns the parsed one
	parseFn := cb
	if certs != nil {
		for _, o := range origins(certs) {
			ex, ok := o.(*ssa.Extract)
			if !ok || ex.Index != 0 {
				continue
			}
			hc, ok := ex.Tuple.(*ssa.Call)
			if !ok || hc.Call.StaticCallee() == nil || !p.InRepo(hc.Call.StaticCallee()) {
				continue
			}
			h := hc.Call.StaticCallee()
			for i, a := range hc.Call.Args {
				if a == ssa.Value(rawCerts) && i < len(h.Params) {
					// inside the helper: the slice it returns, and its own parameter
					eachInstr(h, func(in ssa.Instruction) {
						if ret, ok := in.(*ssa.Return); ok && len(ret.Results) > 0 {
							for _, ro := range origins(ret.Results[0]) {
								if _, isMk := ro.(*ssa.MakeSlice); isMk {
									certs, rawCerts, parseFn = ro, h.Params[i], h
								}
							}
						}
					})
				}
			}
		}
	}
	_ = parseFn
	if certs != nil {
		// elements of certs come from ParseCertificate(rawCerts[i]) with i the same index
		okParse := false
		for _, ref := range *certs.Referrers() {
			ia, ok := ref.(*ssa.IndexAddr)
			if !ok {
				continue
			}
			for _, rr := range *ia.Referrers() {
				st, ok := rr.(*ssa.Store)
				if !ok || st.Addr != ia {
					continue
				}
				ex, ok := st.Val.(*ssa.Extract)
				if !ok {
					bad = append(bad, p.Pos(st.Pos())+": a certificate that was not parsed from the presented chain is verified")
					continue
				}
				pc, ok := ex.Tuple.(*ssa.Call)
				if !ok || !callIsFunc(pc, "crypto/x509", "ParseCertificate") {
					bad = append(bad, p.Pos(st.Pos())+": verified certificate does not come from x509.ParseCertificate")
					continue
				}
				// argument rawCerts[j] with j == store index
				if ld, ok := pc.Call.Args[0].(*ssa.UnOp); ok {
					if ria, ok := ld.X.(*ssa.IndexAddr); ok && ria.X == ssa.Value(rawCerts) && ria.Index == ia.Index {
						okParse = true
					}
				}
			}
		}
		if !okParse {
			bad = append(bad, "the verified certificates are not the presented rawCerts parsed in order")
		}
	}
	// options
	var optsAlloc *ssa.Alloc
	if ld, ok := verify.Call.Args[1].(*ssa.UnOp); ok {
		optsAlloc, _ = ld.X.(*ssa.Alloc)
	}
	if optsAlloc == nil {
		bad = append(bad, "VerifyOptions are not a local literal of the callback")
	} else {
		fields := map[string]ssa.Value{}
		whole := []ssa.Value{}
		for _, ref := range *optsAlloc.Referrers() {
			switch x := ref.(type) {
			case *ssa.FieldAddr:
				for _, rr := range *x.Referrers() {
					if st, ok := rr.(*ssa.Store); ok && st.Addr == x {
						fields[fieldOfAddr(x).Name()] = st.Val
					}
				}
			case *ssa.Store:
				if x.Addr == optsAlloc {
					whole = append(whole, x.Val)
				}
			}
		}
		if len(whole) > 0 {
			bad = append(bad, "VerifyOptions are copied from outside the callback: values such as the current time are fixed when the endpoint is created, not when a handshake happens")
		}
		// Roots
		if v, ok := fields["Roots"]; ok {
			if f, _ := loadedField(v); f != rootF {
				bad = append(bad, "VerifyOptions.Roots is not a tls.Config's RootCAs pool ("+fieldPath(v)+"): the chain is not verified against the bundle's CA")
			}
		} else if len(whole) == 0 {
			bad = append(bad, "VerifyOptions.Roots is not set (system roots only / nothing from the bundle)")
		}
		// DNSName
		if v, ok := fields["DNSName"]; ok {
			if !strings.HasSuffix(fieldPath(v), ".Host") {
				bad = append(bad, "VerifyOptions.DNSName is not the bundle's host name ("+fieldPath(v)+")")
			}
		} else if len(whole) == 0 {
			bad = append(bad, "VerifyOptions.DNSName is not set: any name signed by the CA is accepted")
		}
		// CurrentTime
		if v, ok := fields["CurrentTime"]; ok {
			okTime := false
			if c, ok := v.(*ssa.Call); ok && callIsFunc(c, "time", "Now") && c.Parent() == cb {
				okTime = true
			}
			if !okTime {
				bad = append(bad, "VerifyOptions.CurrentTime is not time.Now() evaluated inside the callback (expired or not-yet-valid certificates could be accepted)")
			}
		}
		// Intermediates: a new pool, filled only from the presented chain
		if v, ok := fields["Intermediates"]; ok {
			if c, ok := v.(*ssa.Call); !ok || !callIsFunc(c, "crypto/x509", "NewCertPool") {
				bad = append(bad, "VerifyOptions.Intermediates is not a fresh pool")
			}
		}
		eachCall(cb, func(c ssa.CallInstruction) {
			f := c.Common().StaticCallee()
			if f == nil || f.String() != "(*crypto/x509.CertPool).AddCert" {
				return
			}
			// pool: opts.Intermediates ; cert: element of certs[1:]
			poolPath := fieldPath(c.Common().Args[0])
			if !strings.HasSuffix(poolPath, "Intermediates") {
				bad = append(bad, p.Pos(c.Pos())+": a presented certificate is added to a pool other than Intermediates ("+poolPath+"): it could become a trust root")
			}
		})
	}
	// parse errors are returned
	eachCall(cb, func(c ssa.CallInstruction) {
		if !callIsFunc(c, "crypto/x509", "ParseCertificate") {
			return
		}
		v := c.(ssa.Value)
		checked := false
		for _, ref := range *v.Referrers() {
			if ex, ok := ref.(*ssa.Extract); ok && ex.Index == 1 {
				for _, rr := range *ex.Referrers() {
					if bo, ok := rr.(*ssa.BinOp); ok {
						// the err != nil branch returns non-nil
						for _, blk := range cb.Blocks {
							if guardedBy(blk, bo, bo.Op.String() == "!=") {
								for _, in := range blk.Instrs {
									if ret, ok := in.(*ssa.Return); ok {
										for _, o := range origins(ret.Results[0]) {
											if cc, ok := o.(*ssa.Call); ok && (callIsFunc(cc, "errors", "New") || callIsFunc(cc, "fmt", "Errorf")) {
												checked = true
											}
											if o == ssa.Value(ex) {
												checked = true
											}
										}
									}
								}
							}
						}
					}
				}
			}
		}
		if !checked {
			bad = append(bad, p.Pos(c.Pos())+": a certificate that cannot be parsed is not rejected")
		}
	})
	r.check(len(bad) == 0, rule, cb.Name(), p.Pos(cb.Pos()), "", strings.Join(dedupe(bad), " || "))
}

func c19ServerName(p *Prog, r *Report) {
	const rule = "C19.server-name"
	r.Rule(rule, "the per-node tls.Config takes ServerName from the serverName parameter, and the callers pass the metadata contact point and the node's host id")
	fn := p.Func("astra", "copyTLSConfig")
	snF := tlsConfigField(p, "ServerName")
	var snPar *ssa.Parameter
	for _, par := range fn.Params {
		if b, ok := par.Type().Underlying().(*types.Basic); ok && b.Kind() == types.String {
			snPar = par
		}
	}
	okSN := false
	eachInstr(fn, func(in ssa.Instruction) {
		if st, ok := in.(*ssa.Store); ok {
			if fa, ok := st.Addr.(*ssa.FieldAddr); ok && fieldOfAddr(fa) == snF && st.Val == ssa.Value(snPar) {
				okSN = true
			}
		}
	})
	// it starts from a Clone of the bundle config and returns that clone
	clones := false
	eachCall(fn, func(c ssa.CallInstruction) {
		if f := c.Common().StaticCallee(); f != nil && f.String() == "(*crypto/tls.Config).Clone" && strings.HasSuffix(fieldPath(c.Common().Args[0]), "TLSConfig") {
			clones = true
		}
	})
	var bad []string
	if !okSN {
		bad = append(bad, "ServerName is not set from the serverName parameter")
	}
	if !clones {
		bad = append(bad, "the per-node config is not a Clone of the bundle's TLS config (client certificate / roots would be missing or the shared config modified)")
	}
	r.check(len(bad) == 0, rule, "astra.copyTLSConfig", p.Pos(fn.Pos()), "", strings.Join(bad, " || "))
	// callers
	idx := -1
	for i, par := range fn.Params {
		if par == snPar {
			idx = i
		}
	}
	n := 0
	for _, g := range p.ScopedFuncs("astra") {
		g := g
		eachCall(g, func(c ssa.CallInstruction) {
			if c.Common().StaticCallee() != fn || idx < 0 {
				return
			}
			arg := c.Common().Args[idx]
			okArg := true
			// (the name may reach this call through the parameter of a constructor function: it is
			// followed to the constructor's call sites, each of which counts as a caller)
			leaves := originsInter(p, arg, 2)
			for _, o := range leaves {
				okLeaf := false
				if cc, ok := o.(*ssa.Call); ok && cc.Call.StaticCallee() != nil && cc.Call.StaticCallee().Name() == "String" && strings.Contains(strings.ToLower(valDesc(cc.Call.Args[0])), "host") {
					okLeaf = true // hostId.String()
				}
				if ld, ok := o.(*ssa.UnOp); ok {
					if ia, ok := ld.X.(*ssa.IndexAddr); ok {
						for _, src := range followReturns(p, ia.X, 2) {
							if strings.HasSuffix(fieldPath(src), "ContactPoints") {
								okLeaf = true // ranged contact point
							}
						}
					}
				}
				if !okLeaf {
					okArg = false
				}
				n++
			}
			if len(leaves) == 0 {
				okArg = false
			}
			r.check(okArg, rule, "caller:"+g.Name(), p.Pos(c.Pos()), "", "SNI is neither a metadata contact point nor the node's host id ("+valDesc(arg)+")")
		})
	}
	if n < 2 {
		fatalf("rule %s: only %d callers of copyTLSConfig (2 confirmed by hand)", rule, n)
	}
}

func c19Bundle(p *Prog, r *Report) {
	const rule = "C19.bundle-config"
	r.Rule(rule, "the bundle's tls.Config carries RootCAs including the bundle CA (append checked), the bundle's client key pair (error checked) and ServerName = bundle host, never InsecureSkipVerify; Bundle.TLSConfig is only Clone()d")
	fn := p.Func("astra", "LoadBundleZip")
	var bad []string
	// LoadBundleZip and the private helpers it was split into
	var lits []map[string]ssa.Value
	litFn := map[int]*ssa.Function{}
	for _, f := range withCallees(p, fn, 2) {
		if f != fn && !(f.Parent() == nil && f.Pkg == fn.Pkg && onlyCalledFrom(p, f, fn, 3)) {
			continue
		}
		for _, l := range structLits(f, func(t types.Type) bool { return types.TypeString(t, nil) == "crypto/tls.Config" }) {
			litFn[len(lits)] = f
			lits = append(lits, l)
		}
	}
	if len(lits) != 1 {
		bad = append(bad, fmt.Sprintf("%d tls.Config literals in LoadBundleZip", len(lits)))
	}
	for li, lit := range lits {
		_ = litFn[li]
		if _, ok := lit["InsecureSkipVerify"]; ok {
			bad = append(bad, "the bundle config disables verification")
		}
		// RootCAs: the pool that AppendCertsFromPEM(ca.crt) was applied to with its result checked
		rc := lit["RootCAs"]
		if rc == nil {
			bad = append(bad, "RootCAs not set: the bundle CA is not trusted / any public CA is")
		} else {
			appended := false
			// the pool may reach the literal through a parameter of a private constructor helper
			pool := map[ssa.Value]bool{rc: true}
			for _, o := range originsInter(p, rc, 2) {
				pool[o] = true
			}
			samePool := func(v ssa.Value) bool {
				if pool[v] {
					return true
				}
				for _, o := range origins(v) {
					if pool[o] {
						return true
					}
				}
				return false
			}
			for _, af := range withCallees(p, p.Func("astra", "LoadBundleZip"), 2) {
				eachCall(af, func(c ssa.CallInstruction) {
					if f := c.Common().StaticCallee(); f != nil && f.String() == "(*crypto/x509.CertPool).AppendCertsFromPEM" && samePool(c.Common().Args[0]) {
						// result checked
						if v, ok := c.(ssa.Value); ok {
							for _, ref := range *v.Referrers() {
								if _, isIf := ref.(*ssa.If); isIf {
									appended = true
								}
							}
						}
					}
				})
			}
			if !appended {
				bad = append(bad, "the bundle's CA certificate is not appended to RootCAs with its result checked")
			}
			// the pool the bundle CA is appended to belongs to this bundle alone: a pool kept in a
			// package variable and handed to every bundle collects the CAs of all bundles loaded in
			// the process, and each of them becomes a trust root of every other bundle
			if why := sharedPool(p, rc, 3); why != "" {
				bad = append(bad, "the root pool of the bundle is shared between bundles ("+why+"): a certificate issued by another bundle's CA is accepted")
			}
		}
		// Certificates from X509KeyPair
		okCert := false
		if v := lit["Certificates"]; v != nil {
			for _, o := range origins(v) {
				if sl, ok := o.(*ssa.Slice); ok {
					if al, ok := sl.X.(*ssa.Alloc); ok {
						for _, ref := range *al.Referrers() {
							if ia, ok := ref.(*ssa.IndexAddr); ok {
								for _, rr := range *ia.Referrers() {
									if st, ok := rr.(*ssa.Store); ok {
										for _, so := range originsInter(p, st.Val, 2) {
											if ex, ok := so.(*ssa.Extract); ok {
												if c, ok := ex.Tuple.(*ssa.Call); ok && callIsFunc(c, "crypto/tls", "X509KeyPair") {
													okCert = true
												}
											}
										}
									}
								}
							}
						}
					}
				}
			}
		}
		if !okCert {
			bad = append(bad, "client certificate is not the bundle's key pair")
		}
		okHost := false
		for _, o := range originsInter(p, lit["ServerName"], 2) {
			if strings.HasSuffix(fieldPath(o), "Host") {
				okHost = true
			}
		}
		if !okHost {
			bad = append(bad, "ServerName is not the bundle host")
		}
	}
	r.check(len(bad) == 0, rule, "astra.LoadBundleZip", p.Pos(fn.Pos()), "", strings.Join(bad, " || "))
	// Bundle.TLSConfig uses
	tf := p.Field("astra", "Bundle", "TLSConfig")
	var ub []string
	n := 0
	for _, acc := range fieldAccesses(p.ScopedFuncs("astra", "proxy", "proxycore"), tf) {
		n++
		if acc.Write {
			if a, ok := acc.Base.(*ssa.Alloc); ok && a.Parent() == acc.Fn {
				continue
			}
			ub = append(ub, p.Pos(acc.Instr.Pos())+": Bundle.TLSConfig replaced in "+acc.Fn.Name())
			continue
		}
		if acc.Kind != "load" {
			continue
		}
		ld := acc.Instr.(*ssa.UnOp)
		for _, ref := range *ld.Referrers() {
			switch x := ref.(type) {
			case *ssa.Call:
				if f := x.Call.StaticCallee(); f != nil && f.String() == "(*crypto/tls.Config).Clone" {
					continue
				}
				ub = append(ub, p.Pos(x.Pos())+": the shared bundle config is used without Clone() in "+acc.Fn.Name())
			case *ssa.FieldAddr:
				for _, rr := range *x.Referrers() {
					if _, isSt := rr.(*ssa.Store); isSt {
						ub = append(ub, p.Pos(x.Pos())+": the shared bundle config is modified in place in "+acc.Fn.Name())
					}
				}
			case *ssa.DebugRef:
			default:
				ub = append(ub, p.Pos(ref.Pos())+": the shared bundle config escapes in "+acc.Fn.Name())
			}
		}
	}
	r.check(len(ub) == 0 && n >= 2, rule, "Bundle.TLSConfig uses", p.Pos(tf.Pos()), fmt.Sprintf("%d uses", n), strings.Join(dedupe(ub), " || "))
}

func c19HandshakeFirst(p *Prog, r *Report) {
	const rule = "C19.handshake-first"
	r.Rule(rule, "proxycore.Connect: with a TLS endpoint the CQL connection is created only over the tls.Client whose Handshake() returned nil; a handshake error is returned and nothing is started")
	fn := p.Func("proxycore", "Connect")
	for _, tlsOn := range []bool{true, false} {
		s := newSim(p)
		var bad []string
		// the dial and handshake phase may live in a private helper of Connect
		s.Inline = func(f *ssa.Function) bool {
			return f.Parent() == nil && recvNamed(f) == nil && pkgOfFn(f) == pkgOfFn(fn) && !f.Object().Exported() && onlyCalledFrom(p, f, fn, 2)
		}
		s.Model = func(sm *Sim, st *State, call ssa.CallInstruction, callee *ssa.Function) []*State {
			cm := call.Common()
			switch {
			case cm.IsInvoke() && cm.Method.Name() == "TLSConfig":
				if tlsOn {
					SetCallResult(st, call, AV{K: avNonNil})
				} else {
					SetCallResult(st, call, AV{K: avNil})
				}
				return []*State{st}
			case callee != nil && callee.String() == "(*net.Dialer).DialContext":
				okSt, bad := st.clone(), st.clone()
				SetCallResult(okSt, call, avTup(avSymbol("tcp"), AV{K: avNil}))
				SetCallResult(bad, call, avTup(AV{K: avNil}, AV{K: avNonNil}))
				return []*State{okSt, bad}
			case callee != nil && callee.String() == "crypto/tls.Client":
				if a := sm.eval(st, cm.Args[0]); !(a.K == avSym && a.S == "tcp") {
					st.aux["tlsOver"] = a.String()
				}
				SetCallResult(st, call, avSymbol("tls"))
				return []*State{st}
			case callee != nil && (callee.String() == "(*crypto/tls.Conn).Handshake" || callee.String() == "(*crypto/tls.Conn).HandshakeContext"):
				okSt, bad := st.clone(), st.clone()
				okSt.aux["hs"] = "ok"
				bad.aux["hs"] = "err"
				SetCallResult(okSt, call, AV{K: avNil})
				SetCallResult(bad, call, AV{K: avNonNil})
				return []*State{okSt, bad}
			case callIsFunc(call, "proxycore", "NewConn"):
				a := sm.eval(st, cm.Args[0])
				st.aux["newconn"] = a.String()
				st.addEff("newconn")
				SetCallResult(st, call, AV{K: avNonNil})
				return []*State{st}
			case callee != nil && callee.Name() == "Start" && recvNamed(callee) != nil && recvNamed(callee).Obj().Name() == "Conn":
				st.addEff("start")
				return []*State{st}
			case callIsFunc(call, "proxycore", "LookupEndpoint"):
				okSt, bad := st.clone(), st.clone()
				SetCallResult(okSt, call, avTup(top, AV{K: avNil}))
				SetCallResult(bad, call, avTup(top, AV{K: avNonNil}))
				return []*State{okSt, bad}
			}
			return nil
		}
		outs := s.Run(fn, newState())
		r.count("sim_states", s.Nodes)
		okPaths := 0
		for _, o := range outs {
			if o.Panic {
				continue
			}
			desc := fmt.Sprintf("path ending at %s {handshake=%s newconn over %s}", p.Pos(o.Pos), o.St.aux["hs"], o.St.aux["newconn"])
			if o.St.eff["newconn"] > 0 {
				okPaths++
				if tlsOn {
					if o.St.aux["hs"] != "ok" {
						bad = append(bad, "CQL connection created without a successful TLS handshake: "+desc)
					}
					if o.St.aux["newconn"] != "$tls" {
						bad = append(bad, "CQL connection runs over the raw socket although the endpoint requires TLS: "+desc)
					}
				} else if o.St.aux["newconn"] != "$tcp" {
					bad = append(bad, "plain endpoint: unexpected connection object: "+desc)
				}
			}
			if o.St.aux["hs"] == "err" && (o.St.eff["newconn"] > 0 || o.Ret.elem(1).K == avNil) {
				bad = append(bad, "a failed TLS handshake does not abort the connection attempt: "+desc)
			}
			if tlsOn && o.St.aux["tlsOver"] != "" {
				bad = append(bad, "TLS is not layered over the dialled socket")
			}
		}
		if okPaths == 0 {
			bad = append(bad, "no path creates a connection")
		}
		r.check(len(bad) == 0, rule, fmt.Sprintf("proxycore.Connect[tls=%v]", tlsOn), p.Pos(fn.Pos()), fmt.Sprintf("%d paths", len(outs)), strings.Join(dedupe(bad), " || "))
	}
}

// sharedPool: v (a *x509.CertPool) can be an object that outlives the call: it is read from a
// package-level variable (possibly inside a helper) instead of being created by
// x509.SystemCertPool(), x509.NewCertPool() or Clone() for this use.  Returns the reason, "" if not.
func sharedPool(p *Prog, v ssa.Value, depth int) string {
	for _, o := range originsInter(p, v, 2) {
		if ex, ok := o.(*ssa.Extract); ok {
			o = ex.Tuple
		}
		switch x := o.(type) {
		case *ssa.UnOp:
			if g, ok := x.X.(*ssa.Global); ok && x.Op == token.MUL {
				return "read from the package variable " + g.Name()
			}
		case *ssa.Call:
			callee := x.Call.StaticCallee()
			if callee == nil {
				continue
			}
			switch callee.String() {
			case "crypto/x509.SystemCertPool", "crypto/x509.NewCertPool", "(*crypto/x509.CertPool).Clone":
				continue
			}
			if !p.InRepo(callee) || callee.Blocks == nil || depth == 0 {
				continue
			}
			why := ""
			for _, f := range withClosures(callee) {
				eachInstr(f, func(in ssa.Instruction) {
					// a pool stored into a package variable by the helper (a process-wide cache)
					if st, ok := in.(*ssa.Store); ok {
						if g, ok := st.Addr.(*ssa.Global); ok && typeIsNamed(st.Val.Type(), "crypto/x509", "CertPool") {
							why = "kept in the package variable " + g.Name() + " by " + callee.Name()
						}
					}
				})
			}
			eachInstr(callee, func(in ssa.Instruction) {
				if ret, ok := in.(*ssa.Return); ok && len(ret.Results) > 0 && why == "" {
					why = sharedPool(p, ret.Results[0], depth-1)
				}
			})
			if why != "" {
				return why
			}
		}
	}
	return ""
}

func typeIsNamed(t types.Type, pkgPath, name string) bool {
	n := namedOf(t)
	return n != nil && n.Obj().Name() == name && n.Obj().Pkg() != nil && n.Obj().Pkg().Path() == pkgPath
}

// c19NoResumption: the node certificates are checked in VerifyPeerCertificate (with
// InsecureSkipVerify set, because the name to verify is not the dialled one).  crypto/tls calls
// that callback only in a full handshake: with a client session cache a reconnect resumes the
// session and nothing is verified at all.
func c19NoResumption(p *Prog, r *Report) {
	const rule = "C19.no-resumption"
	r.Rule(rule, "no tls.Config built in package astra enables session resumption (ClientSessionCache stays unset): the custom verification runs only in full handshakes, a resumed session would be accepted without any check of the peer's chain")
	var bad []string
	n := 0
	for _, fn := range p.ScopedFuncs("astra") {
		for _, lit := range structLits(fn, func(t types.Type) bool { return types.TypeString(t, nil) == "crypto/tls.Config" || types.TypeString(t, nil) == "*crypto/tls.Config" }) {
			n++
			if v, ok := lit["ClientSessionCache"]; ok && v != nil {
				if k, isConst := v.(*ssa.Const); !isConst || k.Value != nil || !k.IsNil() {
					bad = append(bad, p.Pos(lit["\x00pos"].Pos())+": "+fn.Name()+" builds a tls.Config with a ClientSessionCache")
				}
			}
		}
		eachInstr(fn, func(in ssa.Instruction) {
			if st, ok := in.(*ssa.Store); ok {
				if fa, ok := st.Addr.(*ssa.FieldAddr); ok && fieldOfAddr(fa).Name() == "ClientSessionCache" && types.TypeString(namedOf(fa.X.Type()), nil) == "crypto/tls.Config" {
					if _, isLit := fa.X.(*ssa.Alloc); isLit {
						return // counted with the literal
					}
					if k, isConst := st.Val.(*ssa.Const); !isConst || !k.IsNil() {
						bad = append(bad, p.Pos(st.Pos())+": "+fn.Name()+" sets ClientSessionCache of a tls.Config")
					}
				}
			}
		})
	}
	r.check(len(bad) == 0 && n > 0, rule, "tls.Config literals in astra", "", fmt.Sprintf("%d literal(s)", n), strings.Join(dedupe(bad), " || "))
}
