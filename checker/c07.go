package main

// C07 — requests run in the client's current keyspace, protocol version and compression.
//
//  keyspace-writes  the connection's keyspace is written only in the USE arm, on the
//                   path where the session for that keyspace could be created, with
//                   the statement's raw identifier text (quotes kept: the handlers
//                   rebuild the Identifier from it); a failed USE answers an error
//                   and writes nothing
//  session-args     the session used to forward a frame is selected with
//                   (frame version, connection keyspace, connection compression), and
//                   sessions are created/keyed with exactly those three values
//  pool-use         every pooled connection of a keyspace session issued USE keyspace
//                   successfully after a handshake with the session's version and
//                   compression; only such connections are published in the pool
//  use-reply        the SET_KEYSPACE reply names Identifier.ID() of the keyspace
//  session-table    the session table is read under sessionsMu and written under its
//                   exclusive mode (shared with C18)

import (
	"fmt"
	"go/token"
	"go/types"
	"strings"

	"golang.org/x/tools/go/ssa"
)

func init() { register("C07", checkC07) }

// structLitsVia is structLits plus the literals fn obtains from a constructor helper (a repo
// function whose every return is the one literal of that type it builds): fields that the helper
// fills from its parameters are reported with the arguments of fn's call.
func structLitsVia(p *Prog, fn *ssa.Function, match func(types.Type) bool) []map[string]ssa.Value {
	out := structLits(fn, match)
	eachCall(fn, func(c ssa.CallInstruction) {
		callee := c.Common().StaticCallee()
		if callee == nil || callee == fn || callee.Blocks == nil || !p.InRepo(callee) || callee.Signature.Results().Len() != 1 {
			return
		}
		rt := callee.Signature.Results().At(0).Type()
		if pt, ok := rt.Underlying().(*types.Pointer); ok {
			rt = pt.Elem()
		}
		if !match(rt) {
			return
		}
		lits := structLits(callee, match)
		if len(lits) != 1 {
			return
		}
		al, _ := lits[0]["\x00pos"].(*ssa.Alloc)
		onlyLit := true
		eachInstr(callee, func(in ssa.Instruction) {
			ret, ok := in.(*ssa.Return)
			if !ok {
				return
			}
			for _, o := range origins(ret.Results[0]) {
				if o == ssa.Value(al) {
					continue
				}
				if ld, ok := o.(*ssa.UnOp); ok && ld.X == ssa.Value(al) {
					continue
				}
				onlyLit = false
			}
		})
		if !onlyLit {
			return
		}
		m := map[string]ssa.Value{}
		for k, v := range lits[0] {
			if par, ok := v.(*ssa.Parameter); ok && par.Parent() == callee {
				for i, q := range callee.Params {
					if q == par && i < len(c.Common().Args) {
						v = c.Common().Args[i]
					}
				}
			}
			m[k] = v
		}
		out = append(out, m)
	})
	return out
}

// isLiteralConstructor: fn's every return is the one literal of the matching type it builds (its
// fields are judged at the call sites, see structLitsVia).
func isLiteralConstructor(p *Prog, fn *ssa.Function, match func(types.Type) bool) bool {
	if fn == nil || fn.Blocks == nil || fn.Signature.Results().Len() != 1 || fn.Signature.Recv() != nil {
		return false
	}
	rt := fn.Signature.Results().At(0).Type()
	if pt, ok := rt.Underlying().(*types.Pointer); ok {
		rt = pt.Elem()
	}
	if !match(rt) {
		return false
	}
	lits := structLits(fn, match)
	if len(lits) != 1 {
		return false
	}
	al, _ := lits[0]["\x00pos"].(*ssa.Alloc)
	only := true
	eachInstr(fn, func(in ssa.Instruction) {
		ret, ok := in.(*ssa.Return)
		if !ok {
			return
		}
		for _, o := range origins(ret.Results[0]) {
			if o == ssa.Value(al) {
				continue
			}
			if ld, ok := o.(*ssa.UnOp); ok && ld.X == ssa.Value(al) {
				continue
			}
			only = false
		}
	})
	sites, onlyStatic := p.staticCallSites(fn)
	return only && onlyStatic && len(sites) > 0
}

// structLits returns, for every local/heap literal of struct type t built in fn,
// the values stored into its fields.
func structLits(fn *ssa.Function, match func(types.Type) bool) []map[string]ssa.Value {
	var out []map[string]ssa.Value
	eachInstr(fn, func(in ssa.Instruction) {
		a, ok := in.(*ssa.Alloc)
		if !ok {
			return
		}
		elem := a.Type().Underlying().(*types.Pointer).Elem()
		if _, isStruct := elem.Underlying().(*types.Struct); !isStruct || !match(elem) {
			return
		}
		m := map[string]ssa.Value{}
		// a local that receives a whole struct value (a spilled parameter, a copy) is not a literal
		for _, ref := range *a.Referrers() {
			if st, ok := ref.(*ssa.Store); ok && st.Addr == ssa.Value(a) {
				return
			}
		}
		for _, ref := range *a.Referrers() {
			fa, ok := ref.(*ssa.FieldAddr)
			if !ok {
				continue
			}
			for _, rr := range *fa.Referrers() {
				if st, ok := rr.(*ssa.Store); ok && st.Addr == fa {
					m[fieldOfAddr(fa).Name()] = st.Val
				}
			}
		}
		m["\x00pos"] = a
		out = append(out, m)
	})
	return out
}

func checkC07(p *Prog, r *Report) {
	r.NotCov = append(r.NotCov,
		"what the backend does with USE; the timing of concurrent USE statements",
		"which pooled connection of the selected session a request lands on (all of them satisfy pool-use)")
	keyspaceWrites(p, r, "C07.keyspace-writes")
	sessionSelection(p, r, "C07.session-args")
	poolUse(p, r, "C07.pool-use")
	useReply(p, r, "C07.use-reply")
	useNeverForwarded(p, r, "C07.use-never-forwarded")
	guardedBy1(p, r, "C07.session-table", []guardSpec{{"proxy", "Proxy", "sessions", "sessionsMu"}})
}

// keyspaceWrites: inventory of writes to the connection's keyspace field.
func keyspaceWrites(p *Prog, r *Report, rule string) {
	r.Rule(rule, "client.keyspace is written only in the USE arm after the keyspace session was created without error, with the USE statement's raw identifier text; the failing path sends one error and writes nothing")
	cr := getClientRoles(p)
	ksF := p.Field("proxy", cr.cl.Obj().Name(), "keyspace")
	useKsF := p.Field("parser", "UseStatement", "Keyspace")
	n := 0
	for _, acc := range fieldAccesses(p.ScopedFuncs("proxy"), ksF) {
		if !acc.Write {
			if strings.HasPrefix(acc.Kind, "addr-") {
				r.bad(rule, "client.keyspace@"+acc.Fn.Name(), p.Pos(acc.Instr.Pos()), "address of the keyspace field escapes")
			}
			continue
		}
		n++
		st := acc.Instr.(*ssa.Store)
		key := "client.keyspace@" + acc.Fn.Name()
		if a, ok := acc.Base.(*ssa.Alloc); ok && a.Parent() == acc.Fn {
			r.ok(rule, key, p.Pos(st.Pos()), "construction")
			continue
		}
		var bad []string
		if !cr.inIntercept(acc.Fn) {
			bad = append(bad, "written outside the system-statement interceptor")
		}
		if len(acc.Fn.Params) == 0 || acc.Base != acc.Fn.Params[0] {
			bad = append(bad, "written on an object other than the connection that sent USE")
		}
		// value: the USE statement's Keyspace text
		for _, o := range origins(st.Val) {
			if f, _ := loadedField(o); f != useKsF {
				bad = append(bad, "stored value is not the USE statement's raw identifier text (quoting decides case sensitivity when the name is parsed again)")
			}
		}
		// guard: err == nil of a session-creating call with that keyspace
		guarded := false
		for _, ct := range dominatingConds(st.Block()) {
			bo, ok := ct.Cond.(*ssa.BinOp)
			if !ok {
				continue
			}
			isNilTest := (bo.Op == token.NEQ && !ct.Truth) || (bo.Op == token.EQL && ct.Truth)
			if !isNilTest {
				continue
			}
			for _, side := range []ssa.Value{bo.X, bo.Y} {
				ex, ok := side.(*ssa.Extract)
				if !ok {
					continue
				}
				call, ok := ex.Tuple.(*ssa.Call)
				if !ok || call.Call.StaticCallee() == nil {
					continue
				}
				callee := call.Call.StaticCallee()
				if !typeIs(callee.Signature.Recv().Type(), "proxy", "Proxy") || callee.Signature.Results().Len() != 2 {
					continue
				}
				// the keyspace argument of that call is the same USE keyspace
				for _, a := range call.Call.Args {
					if f, _ := loadedField(a); f == useKsF {
						guarded = true
					}
				}
			}
		}
		if !guarded {
			bad = append(bad, "not guarded by the successful creation of the session for that keyspace (a failed USE would change the keyspace)")
		}
		r.check(len(bad) == 0, rule, key, p.Pos(st.Pos()), "USE arm, session created, raw identifier text", strings.Join(bad, " || "))
	}
	if n < 1 {
		fatalf("rule %s: no write of client.keyspace found", rule)
	}
	// failing USE: exactly one send and no keyspace write -- by simulation of the interceptor's USE arm
	s := newSim(p)
	s.Tracked[ksF] = true
	s.Inline = func(f *ssa.Function) bool { return cr.ihelp[f] }
	s.Effect = func(call ssa.CallInstruction, callee *ssa.Function) []string {
		if callee != nil && cr.send[callee] {
			return []string{"send"}
		}
		return nil
	}
	s.OnBranch = func(st *State, cond ssa.Value, truth bool) {
		if ex, ok := cond.(*ssa.Extract); ok && truth {
			if ta, ok := ex.Tuple.(*ssa.TypeAssert); ok && ta.Parent() == cr.intercept {
				st.aux["arm"] = shortType(ta.AssertedType)
			}
		}
	}
	s.Model = func(sm *Sim, st *State, call ssa.CallInstruction, callee *ssa.Function) []*State {
		if callee != nil && callee.Signature.Recv() != nil && typeIs(callee.Signature.Recv().Type(), "proxy", "Proxy") && callee.Signature.Results().Len() == 2 {
			okSt, bad := st.clone(), st.clone()
			okSt.aux["session"] = "ok"
			SetCallResult(okSt, call, avTup(AV{K: avNonNil}, AV{K: avNil}))
			bad.aux["session"] = "err"
			SetCallResult(bad, call, avTup(AV{K: avNil}, AV{K: avNonNil}))
			return []*State{okSt, bad}
		}
		return nil
	}
	init := newState()
	init.cells[ksF] = avSymbol("oldks")
	outs := s.Run(cr.intercept, init)
	r.count("sim_states", s.Nodes)
	var bad []string
	nUse := 0
	for _, o := range outs {
		if o.Panic || o.St.aux["arm"] != "*parser.UseStatement" {
			continue
		}
		nUse++
		ks := o.St.cells[ksF]
		if o.St.eff["send"] != 1 {
			bad = append(bad, fmt.Sprintf("USE answered with %d frames (session %s)", o.St.eff["send"], o.St.aux["session"]))
		}
		if o.St.aux["session"] == "err" && !(ks.K == avSym && ks.S == "oldks") {
			bad = append(bad, "a failed USE changes the connection's keyspace")
		}
		if o.St.aux["session"] == "ok" && ks.K == avSym && ks.S == "oldks" {
			bad = append(bad, "a successful USE leaves the previous keyspace in force")
		}
		if o.St.aux["session"] == "" {
			bad = append(bad, "USE does not create/verify the backend session for the keyspace")
		}
	}
	r.check(len(bad) == 0 && nUse >= 2, rule, cr.intercept.Name()+"#USE", p.Pos(cr.intercept.Pos()), fmt.Sprintf("%d USE paths", nUse), strings.Join(dedupe(bad), " || "))
}

// sessionSelection: the (version, keyspace, compression) triple from the client to the backend handshake.
func sessionSelection(p *Prog, r *Report, rule string) {
	r.Rule(rule, "forwarding selects the session with (frame version, connection keyspace, connection compression); the session table key and the SessionConfig take version/keyspace/compression from the same parameters; pooled connections handshake with the session's version and compression")
	cr := getClientRoles(p)
	cl := cr.cl.Obj().Name()
	ksF := p.Field("proxy", cl, "keyspace")
	compF := p.Field("proxy", cl, "compression")
	verF := p.Field("frame", "Header", "Version")
	// (a) the session lookup in the forwarding function
	var bad []string
	found := 0
	eachCall(cr.forward, func(c ssa.CallInstruction) {
		callee := c.Common().StaticCallee()
		if callee == nil || callee.Signature.Recv() == nil || !typeIs(callee.Signature.Recv().Type(), "proxy", "Proxy") {
			return
		}
		res := callee.Signature.Results()
		if res.Len() != 2 || !typeIs(res.At(0).Type(), "proxycore", "Session") {
			return
		}
		found++
		args := c.Common().Args[1:]
		if len(args) != 3 {
			bad = append(bad, "session lookup does not take (version, keyspace, compression)")
			return
		}
		if f, _ := loadedField(args[0]); f != verF {
			bad = append(bad, "session selected with a version other than the frame's")
		}
		if f, base := loadedField(args[1]); f != ksF || base != ssa.Value(cr.forward.Params[0]) {
			bad = append(bad, "session selected with something other than the connection's current keyspace ("+fieldPath(args[1])+")")
		}
		if f, base := loadedField(args[2]); f != compF || base != ssa.Value(cr.forward.Params[0]) {
			bad = append(bad, "session selected with something other than the connection's compression ("+fieldPath(args[2])+")")
		}
	})
	if found != 1 {
		bad = append(bad, fmt.Sprintf("%d session lookups in the forwarding function", found))
	}
	r.check(len(bad) == 0, rule, cr.forward.Name()+":lookup", p.Pos(cr.forward.Pos()), "", strings.Join(bad, " || "))

	// (b) Proxy methods that build sessionKey / SessionConfig from (version, keyspace, compression) parameters
	px := p.Named("proxy", "Proxy")
	nlit := 0
	for _, m := range p.methodsOf(px) {
		if m.Signature.Params().Len() != 3 {
			continue
		}
		par := map[string]*ssa.Parameter{}
		for _, pp := range m.Params[1:] {
			switch {
			case typeIs(pp.Type(), "primitive", "ProtocolVersion"):
				par["version"] = pp
			case pp.Name() == "keyspace":
				par["keyspace"] = pp
			case pp.Name() == "compression":
				par["compression"] = pp
			}
		}
		if len(par) != 3 {
			// two string parameters in the order (keyspace, compression)
			var strs []*ssa.Parameter
			for _, pp := range m.Params[1:] {
				if b, ok := pp.Type().Underlying().(*types.Basic); ok && b.Kind() == types.String {
					strs = append(strs, pp)
				}
			}
			if par["version"] == nil || len(strs) != 2 {
				continue
			}
			par["keyspace"], par["compression"] = strs[0], strs[1]
		}
		var mb []string
		for _, lit := range structLits(m, func(t types.Type) bool { return typeIs(t, "proxy", "sessionKey") }) {
			nlit++
			for fld, want := range map[string]string{"version": "version", "keyspace": "keyspace", "compression": "compression"} {
				if lit[fld] != ssa.Value(par[want]) {
					mb = append(mb, fmt.Sprintf("session key field %s is not the %s parameter", fld, want))
				}
			}
		}
		for _, lit := range structLits(m, func(t types.Type) bool { return typeIs(t, "proxycore", "SessionConfig") }) {
			nlit++
			for fld, want := range map[string]string{"Version": "version", "Keyspace": "keyspace", "Compression": "compression"} {
				if lit[fld] != ssa.Value(par[want]) {
					mb = append(mb, fmt.Sprintf("SessionConfig.%s is not the %s parameter (sessions of that key would run with another %s)", fld, want, want))
				}
			}
		}
		// a helper that builds the key from the same triple: arguments passed on unchanged, and
		// the helper's literal takes its own parameters as they are (a normalised keyspace makes
		// distinct keyspaces share one session)
		eachCall(m, func(c ssa.CallInstruction) {
			callee := c.Common().StaticCallee()
			if callee == nil || callee == m || !p.InRepo(callee) || callee.Signature.Results().Len() != 1 || !typeIs(callee.Signature.Results().At(0).Type(), "proxy", "sessionKey") {
				return
			}
			args := c.Common().Args
			cpar := callee.Params
			if callee.Signature.Recv() != nil {
				args, cpar = args[1:], cpar[1:]
			}
			if len(args) != 3 || args[0] != ssa.Value(par["version"]) || args[1] != ssa.Value(par["keyspace"]) || args[2] != ssa.Value(par["compression"]) {
				mb = append(mb, p.Pos(c.Pos())+": (version, keyspace, compression) not passed on unchanged to "+callee.Name())
				return
			}
			for _, lit := range structLits(callee, func(t types.Type) bool { return typeIs(t, "proxy", "sessionKey") }) {
				nlit++
				for i, fld := range []string{"version", "keyspace", "compression"} {
					if lit[fld] != ssa.Value(cpar[i]) {
						mb = append(mb, fmt.Sprintf("%s: session key field %s is not the %s it was given but %s: sessions of different %ss would be shared", p.Pos(callee.Pos()), fld, fld, valDesc(lit[fld]), fld))
					}
				}
			}
		})
		// calls passing the triple on to another Proxy method keep the order
		eachCall(m, func(c ssa.CallInstruction) {
			callee := c.Common().StaticCallee()
			if callee == nil || callee == m || callee.Signature.Recv() == nil || !typeIs(callee.Signature.Recv().Type(), "proxy", "Proxy") || callee.Signature.Params().Len() != 3 {
				return
			}
			a := c.Common().Args[1:]
			if a[0] != ssa.Value(par["version"]) || a[1] != ssa.Value(par["keyspace"]) || a[2] != ssa.Value(par["compression"]) {
				mb = append(mb, p.Pos(c.Pos())+": (version, keyspace, compression) not passed on unchanged to "+callee.Name())
			}
		})
		r.check(len(mb) == 0, rule, "Proxy."+m.Name(), p.Pos(m.Pos()), "", strings.Join(dedupe(mb), " || "))
	}
	if nlit < 3 {
		fatalf("rule %s: only %d session key/config literals found (3 confirmed by hand)", rule, nlit)
	}
	// (b') wherever a session is put into the session table, the key's (version, keyspace,
	// compression) are the ones the session was connected with: a session filed under another
	// version is handed frames of that version although its connections speak the other one
	nput := 0
	for _, m := range p.methodsOf(px) {
		var keyLits, cfgLits []map[string]ssa.Value
		keyLits = structLitsVia(p, m, func(t types.Type) bool { return typeIs(t, "proxy", "sessionKey") })
		cfgLits = structLitsVia(p, m, func(t types.Type) bool { return typeIs(t, "proxycore", "SessionConfig") })
		puts := 0
		eachInstr(m, func(in ssa.Instruction) {
			if mu, ok := in.(*ssa.MapUpdate); ok {
				if mt, ok := mu.Map.Type().Underlying().(*types.Map); ok && typeIs(mt.Key(), "proxy", "sessionKey") {
					puts++
				}
			}
		})
		if puts == 0 {
			continue
		}
		nput += puts
		var pb []string
		if len(keyLits) == 1 && len(cfgLits) == 1 {
			same := func(a, b ssa.Value) bool {
				if a == nil || b == nil {
					// absent on both sides, or absent on one and the zero value on the other
					isZero := func(v ssa.Value) bool {
						if v == nil {
							return true
						}
						c, ok := v.(*ssa.Const)
						return ok && (c.Value == nil || c.Value.ExactString() == "0" || c.Value.ExactString() == "\"\"")
					}
					return isZero(a) && isZero(b)
				}
				if a == b || sameValue(a, b) {
					return true
				}
				pa, pb := fieldPath(a), fieldPath(b)
				return pa == pb && !strings.HasPrefix(pa, "?") && !strings.HasPrefix(pa, "phi") && strings.Contains(pa, ".")
			}
			for _, pr := range [][2]string{{"version", "Version"}, {"keyspace", "Keyspace"}, {"compression", "Compression"}} {
				if !same(keyLits[0][pr[0]], cfgLits[0][pr[1]]) {
					pb = append(pb, fmt.Sprintf("the session is filed under %s %s but connected with %s: requests selected by that key run on connections of another %s", pr[0], valDesc(keyLits[0][pr[0]]), valDesc(cfgLits[0][pr[1]]), pr[0]))
				}
			}
		}
		r.check(len(pb) == 0, rule, "Proxy."+m.Name()+":table-put", p.Pos(m.Pos()), fmt.Sprintf("%d put(s)", puts), strings.Join(dedupe(pb), " || "))
	}
	if nput < 2 {
		fatalf("rule %s: only %d writes to the session table found (2 confirmed by hand)", rule, nput)
	}
	// (c) connPool.connect: Handshake(config.Version) and COMPRESSION=config.Compression
	pool := p.Named("proxycore", "connPool")
	connect := p.methodOf(pool, "connect")
	if connect == nil {
		fatalf("anchor: connPool.connect not found")
	}
	var cb []string
	hs := 0
	fam := privateHelpersOf(p, connect)
	eachCallIn(fam, func(c ssa.CallInstruction) {
		if !callIsMethod(c, "proxycore", "ClientConn", "Handshake") {
			return
		}
		hs++
		args := c.Common().Args
		if !cfgPath(fieldPath(args[2]), "Version") {
			cb = append(cb, "handshake version is not the session's configured version ("+fieldPath(args[2])+")")
		}
		// variadic startup options: a slice whose elements include "COMPRESSION" and config.Compression
		okComp := false
		for _, o := range origins(args[len(args)-1]) {
			if sl, ok := o.(*ssa.Slice); ok {
				if al, ok := sl.X.(*ssa.Alloc); ok {
					var elems []string
					for _, ref := range *al.Referrers() {
						if ia, ok := ref.(*ssa.IndexAddr); ok {
							for _, rr := range *ia.Referrers() {
								if st, ok := rr.(*ssa.Store); ok {
									if cs, ok := constStr(st.Val); ok {
										elems = append(elems, cs)
									} else {
										elems = append(elems, fieldPath(st.Val))
									}
								}
							}
						}
					}
					j := strings.Join(elems, ",")
					if strings.Contains(j, "COMPRESSION") && strings.Contains(j, "config.") && strings.Contains(j, ".Compression") {
						okComp = true
					}
				}
			}
		}
		if !okComp {
			cb = append(cb, "STARTUP options do not carry COMPRESSION=<session compression>")
		}
	})
	if hs != 1 {
		cb = append(cb, fmt.Sprintf("%d handshakes in connPool.connect", hs))
	}
	// version check after negotiation
	verChecked := false
	eachInstrIn(fam, func(in ssa.Instruction) {
		if bo, ok := in.(*ssa.BinOp); ok && bo.Op == token.NEQ {
			if cfgPath(fieldPath(bo.Y), "Version") || cfgPath(fieldPath(bo.X), "Version") {
				verChecked = true
			}
		}
	})
	if !verChecked {
		cb = append(cb, "negotiated version is not compared with the session's version (a downgraded connection would be pooled)")
	}
	r.check(len(cb) == 0, rule, "connPool.connect:handshake", p.Pos(connect.Pos()), "", strings.Join(cb, " || "))
}

// poolUse: SetKeyspace on every pooled connection of a keyspace session.
func poolUse(p *Prog, r *Report, rule string) {
	r.Rule(rule, "connPool.connect returns a connection only after a successful handshake and, when the session has a keyspace, a successful USE of that keyspace; pool slots are filled only with connections returned by connect")
	pool := p.Named("proxycore", "connPool")
	connect := p.methodOf(pool, "connect")
	ksF := p.Field("proxycore", "SessionConfig", "Keyspace")
	s := newSim(p)
	s.OnBranch = func(st *State, cond ssa.Value, truth bool) {
		bo, ok := cond.(*ssa.BinOp)
		if !ok {
			return
		}
		isLenKs := func(v ssa.Value) bool {
			if c, ok := v.(*ssa.Call); ok {
				if b, ok := c.Call.Value.(*ssa.Builtin); ok && b.Name() == "len" {
					f, _ := fieldStep(c.Call.Args[0])
					if ld, ok := c.Call.Args[0].(*ssa.UnOp); ok {
						f, _ = fieldStep(ld.X)
					}
					return f == ksF
				}
			}
			if f, _ := loadedField(v); f == ksF {
				return true
			}
			return false
		}
		if isLenKs(bo.X) || isLenKs(bo.Y) {
			nonEmpty := (bo.Op == token.NEQ || bo.Op == token.GTR) == truth
			st.aux["ks"] = fmt.Sprint(nonEmpty)
		}
	}
	s.Model = func(sm *Sim, st *State, call ssa.CallInstruction, callee *ssa.Function) []*State {
		fork2 := func(eff string, tuple bool, first AV) []*State {
			okSt, bad := st.clone(), st.clone()
			okSt.addEff(eff)
			bad.addEff(eff + "-failed")
			if tuple {
				SetCallResult(okSt, call, avTup(first, AV{K: avNil}))
				SetCallResult(bad, call, avTup(top, AV{K: avNonNil}))
			} else {
				SetCallResult(okSt, call, AV{K: avNil})
				SetCallResult(bad, call, AV{K: avNonNil})
			}
			return []*State{okSt, bad}
		}
		switch {
		case callIsFunc(call, "proxycore", "ConnectClient"):
			return fork2("dial", true, avSymbol("conn"))
		case callIsMethod(call, "proxycore", "ClientConn", "Handshake"):
			return fork2("handshake", true, top)
		case callIsMethod(call, "proxycore", "ClientConn", "SetKeyspace"):
			// the keyspace argument is the session's
			if !cfgPath(fieldPath(call.Common().Args[3]), "Keyspace") {
				st.aux["wrongks"] = fieldPath(call.Common().Args[3])
			}
			return fork2("use", false, top)
		}
		return nil
	}
	// (phases of connect that live in private helpers are looked through)
	inFam := map[*ssa.Function]bool{}
	for _, h := range privateHelpersOf(p, connect) {
		inFam[h] = h != connect
	}
	s.Inline = func(f *ssa.Function) bool { return inFam[f] }
	outs := s.Run(connect, newState())
	r.count("sim_states", s.Nodes)
	var bad []string
	okPaths := 0
	for _, o := range outs {
		if o.Panic {
			continue
		}
		conn, err := o.Ret.elem(0), o.Ret.elem(1)
		returnsConn := conn.K == avSym || conn.K == avNonNil || conn.K == avTop
		if conn.K == avNil {
			returnsConn = false
		}
		failed := o.St.eff["dial-failed"]+o.St.eff["handshake-failed"]+o.St.eff["use-failed"] > 0
		desc := fmt.Sprintf("path ending at %s {%s ks-nonempty=%s}", p.Pos(o.Pos), effStr(o.St), o.St.aux["ks"])
		if failed && (returnsConn || err.K == avNil) {
			bad = append(bad, "a connection is returned / no error reported although a step failed: "+desc)
		}
		if returnsConn && !failed {
			okPaths++
			if o.St.eff["handshake"] != 1 {
				bad = append(bad, "connection returned without a handshake: "+desc)
			}
			if o.St.aux["ks"] != "false" && o.St.eff["use"] != 1 {
				bad = append(bad, "connection of a keyspace session returned without USE: "+desc)
			}
			if o.St.aux["wrongks"] != "" {
				bad = append(bad, "USE issued for "+o.St.aux["wrongks"]+" instead of the session's keyspace")
			}
		}
	}
	if okPaths == 0 {
		bad = append(bad, "no path returns a connection")
	}
	r.check(len(bad) == 0, rule, "connPool.connect", p.Pos(connect.Pos()), fmt.Sprintf("%d paths", len(outs)), strings.Join(dedupe(bad), " || "))

	// slots are filled only with connect() results
	connsF := p.Field("proxycore", "connPool", "conns")
	var sb []string
	n := 0
	for _, acc := range fieldAccesses(p.ScopedFuncs("proxycore"), connsF) {
		if acc.Kind != "elemstore" {
			continue
		}
		n++
		st := acc.Instr.(*ssa.Store)
		for _, o := range origins(st.Val) {
			switch x := o.(type) {
			case *ssa.Const:
				if x.Value != nil {
					sb = append(sb, p.Pos(st.Pos())+": slot filled with a constant")
				}
			case *ssa.Extract:
				if c, ok := x.Tuple.(*ssa.Call); !ok || c.Call.StaticCallee() != connect {
					sb = append(sb, p.Pos(st.Pos())+": pool slot filled with a connection that did not come from connect()")
				}
			default:
				sb = append(sb, p.Pos(st.Pos())+": pool slot filled with a connection that did not come from connect()")
			}
		}
	}
	r.check(len(sb) == 0 && n >= 3, rule, "connPool.conns[*]", p.Pos(connect.Pos()), fmt.Sprintf("%d slot writes", n), strings.Join(dedupe(sb), " || "))
}

func useReply(p *Prog, r *Report, rule string) {
	r.Rule(rule, "the SET_KEYSPACE result names Identifier.ID() of the USE statement's keyspace (unquoted, case-folded as the backend would)")
	cr := getClientRoles(p)
	useKsF := p.Field("parser", "UseStatement", "Keyspace")
	var bad []string
	n := 0
	var lits []map[string]ssa.Value
	for _, f := range cr.interceptFns() {
		lits = append(lits, structLits(f, func(t types.Type) bool { return typeIs(t, "message", "SetKeyspaceResult") })...)
	}
	if len(lits) == 0 {
		fatalf("rule %s: the interceptor (and its helpers) builds no SetKeyspaceResult", rule)
	}
	for _, lit := range lits {
		n++
		v := lit["Keyspace"]
		okID := false
		if c, ok := v.(*ssa.Call); ok && callIsMethod(c, "parser", "Identifier", "ID") {
			for _, o := range origins(c.Call.Args[0]) {
				if c2, ok := o.(*ssa.Call); ok && callIsFunc(c2, "parser", "IdentifierFromString") {
					if f, _ := loadedField(c2.Call.Args[0]); f == useKsF {
						okID = true
					}
				}
			}
		}
		if !okID {
			bad = append(bad, "reply keyspace is not IdentifierFromString(stmt.Keyspace).ID()")
		}
	}
	r.check(len(bad) == 0 && n == 1, rule, cr.intercept.Name()+":SetKeyspaceResult", p.Pos(cr.intercept.Pos()), "", strings.Join(bad, " || "))
}

// cfgPath: the field path reads <something>.config[.SessionConfig].<field>
func cfgPath(path, field string) bool {
	return strings.Contains(path, ".config.") && strings.HasSuffix(path, "."+field)
}

// useNeverForwarded: a statement that starts with USE is the proxy's business whatever follows.
// Forwarded like an ordinary query it runs on a pooled backend connection that every client of the
// same session shares, and switches the keyspace of that connection for all of them.
func useNeverForwarded(p *Prog, r *Report, rule string) {
	r.Rule(rule, "the parser entry reports every statement whose first token is USE as handled (with the statement, or with an error that is sent to the client): no path hands it back as 'not handled', which would forward it to a backend connection shared with other clients")
	hq := p.Func("parser", "IsQueryHandled")
	lex := p.Named("parser", "lexer")
	tkUse := p.constOf("parser", "tkUse")
	s := newSim(p)
	s.MaxNodes = 60000
	s.Inline = func(f *ssa.Function) bool {
		return pkgOfFn(f) == pkgOfFn(hq) && f.Parent() == nil && !isGeneratedLexer(f) && recvNamed(f) == nil && onlyCalledFrom(p, f, hq, 2) && f.Signature.Results().Len() == hq.Signature.Results().Len()
	}
	s.Model = func(sm *Sim, st *State, call ssa.CallInstruction, callee *ssa.Function) []*State {
		if callee != nil && isGeneratedLexer(callee) && recvNamed(callee) == lex {
			if st.aux["first"] == "" {
				st.aux["first"] = "1"
				SetCallResult(st, call, avC(tkUse))
			} else {
				SetCallResult(st, call, top)
			}
			return []*State{st}
		}
		return nil
	}
	var bad []string
	n := 0
	for _, o := range s.Run(hq, newState()) {
		if o.Panic {
			continue
		}
		n++
		if h, known := o.Ret.elem(0).isBool(); !known || !h {
			bad = append(bad, fmt.Sprintf("a statement that starts with USE is reported as not handled (path ending at %s): it is forwarded to a pooled backend connection and changes the keyspace of every client that shares it", p.Pos(o.Pos)))
		}
	}
	r.count("sim_states", s.Nodes)
	r.check(len(bad) == 0 && n > 0, rule, "parser.IsQueryHandled[USE]", p.Pos(hq.Pos()), fmt.Sprintf("%d paths, all handled", n), strings.Join(dedupe(bad), " || "))
}
