package main

import (
	"encoding/json"
	"flag"
	"fmt"
	"os"
	"runtime/debug"
	"sort"
	"strconv"
	"strings"
	"time"
)

// propertyFn runs the rules of one property against the loaded program.
type propertyFn func(p *Prog, r *Report)

var properties = map[string]propertyFn{}

func register(id string, f propertyFn) { properties[id] = f }

func main() {
	prop := flag.String("p", "", "property id (C01..C20)")
	repo := flag.String("repo", "/repo", "repository working tree to analyse")
	verif := flag.String("verif", "/verif", "verification directory (evidence, reports, known findings)")
	tier := flag.String("tier", "", "quick|thorough (default: $VERIF_TIER or quick)")
	list := flag.Bool("list", false, "list properties")
	dump := flag.String("dump", "", "debug: dump SSA of pkg:func (e.g. proxy:(*request).OnResult)")
	selftest := flag.String("selftest", "", "thorough tier: JSON summary of the sensitivity self-test to embed in the evidence")
	flag.Parse()
	if h, ok := debugHooks[*dump]; ok {
		h(loadProgram(loadOpts{Dir: *repo}))
		return
	}
	if *dump != "" {
		p := loadProgram(loadOpts{Dir: *repo})
		i := strings.Index(*dump, ":")
		fn := p.Func((*dump)[:i], (*dump)[i+1:])
		for _, f := range withClosures(fn) {
			f.WriteTo(os.Stdout)
		}
		return
	}
	if *list {
		var ids []string
		for id := range properties {
			ids = append(ids, id)
		}
		sort.Strings(ids)
		for _, id := range ids {
			fmt.Println(id)
		}
		return
	}
	if *tier == "" {
		*tier = os.Getenv("VERIF_TIER")
	}
	if *tier != "thorough" {
		*tier = "quick"
	}
	seed, _ := strconv.Atoi(os.Getenv("VERIF_SEED"))
	selftestFile = *selftest
	// a check must never hang: without a verdict after the time budget it is a broken check
	time.AfterFunc(8*time.Minute, func() {
		fmt.Fprintf(os.Stderr, "NO-VERDICT property=%s: analysis exceeded its time budget\n", *prop)
		os.Exit(2)
	})
	os.Exit(run(*prop, *repo, *verif, *tier, seed))
}

var selftestFile string

var debugHooks = map[string]func(p *Prog){}

func run(prop, repo, verif, tier string, seed int) (code int) {
	start := time.Now()
	defer func() {
		if e := recover(); e != nil {
			if nv, ok := e.(noVerdict); ok {
				fmt.Fprintf(os.Stderr, "NO-VERDICT property=%s: %s\n", prop, nv.msg)
			} else {
				fmt.Fprintf(os.Stderr, "NO-VERDICT property=%s: analyser panic: %v\n%s\n", prop, e, debug.Stack())
			}
			code = 2
		}
	}()
	f, ok := properties[prop]
	if !ok {
		fatalf("unknown property %q", prop)
	}
	extra := map[string]interface{}{}
	loads := []loadOpts{{Dir: repo}}
	if tier == "thorough" {
		// the build-tag/arch and test variants of the program must give the same verdict
		// (test variants are not loaded: _test.go files are out of scope by definition, and with
		// them every package exists twice, which breaks object identity across packages)
		loads = append(loads, loadOpts{Dir: repo, GOARCH: "386"}, loadOpts{Dir: repo, GOARCH: "arm64"})
	}
	var first *Report
	var variants []string
	for i, lo := range loads {
		p := loadProgram(lo)
		r := newReport(p, prop)
		f(p, r)
		name := fmt.Sprintf("GOARCH=%s tests=%v", lo.GOARCH, lo.Tests)
		nviol := 0
		for _, o := range r.Obl {
			if o.Status == "violated" {
				nviol++
			}
		}
		variants = append(variants, fmt.Sprintf("%s: %d obligations, %d violated", name, len(r.Obl), nviol))
		if i == 0 {
			first = r
		} else {
			// merge: any violation found only in a variant is added to the main report
			for _, o := range r.Obl {
				if o.Status == "violated" {
					o.Detail = "[" + name + "] " + o.Detail
					first.add(o)
				}
			}
		}
	}
	extra["program_variants"] = variants
	if selftestFile != "" {
		if b, err := os.ReadFile(selftestFile); err == nil {
			var st map[string]interface{}
			if json.Unmarshal(b, &st) == nil {
				extra["sensitivity_selftest"] = st
			}
		}
	}
	return first.finish(verif, tier, seed, start, extra)
}

func init() {
	debugHooks["shadows"] = func(p *Prog) {
		for _, rel := range []string{"proxy", "proxycore", "parser", "codecs", "astra"} {
			for _, f := range staleShadows(p, rel) {
				fmt.Printf("shadow %s %s in %s\n", f.Where, f.Name, f.Func)
			}
		}
	}
}
