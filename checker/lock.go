package main

// LOCK: lockset analysis over the repository's lock classes.
//
// A lock class is the struct field that holds the mutex (proxy.request.mu,
// proxycore.ClientConn.closingMu, ...).  For every function the analysis
// computes, per instruction, the set of classes that MUST be held (intersection
// over paths and over all call sites of the function) and the set that MAY be
// held (union over paths and over all call-graph predecessors, passing through
// library code and synchronously invoked closures).  Outputs:
//   - the lock-order graph: an edge A->B for every acquisition of B while A may
//     be held, with a witness (function, position); a cycle is a potential
//     deadlock (an R-mode acquisition counts: a queued writer blocks readers);
//   - for every instruction the must-held set with modes, used by the
//     guarded-by rules of C18/C07.

import (
	"fmt"
	"go/types"
	"sort"
	"strings"

	"golang.org/x/tools/go/ssa"
)

type lockSet map[*types.Var]string // class -> "W" | "R"

func (l lockSet) clone() lockSet {
	n := lockSet{}
	for k, v := range l {
		n[k] = v
	}
	return n
}

func (l lockSet) String() string {
	var parts []string
	for k, v := range l {
		parts = append(parts, k.Name()+":"+v)
	}
	sort.Strings(parts)
	return "{" + strings.Join(parts, ",") + "}"
}

func intersect(a, b lockSet) lockSet {
	n := lockSet{}
	for k, v := range a {
		if w, ok := b[k]; ok {
			if v == "R" || w == "R" {
				n[k] = "R"
			} else {
				n[k] = "W"
			}
		}
	}
	return n
}

func union(a, b lockSet) lockSet {
	n := a.clone()
	for k, v := range b {
		if w, ok := n[k]; !ok || (w == "R" && v == "W") {
			n[k] = v
		}
	}
	return n
}

func sameSet(a, b lockSet) bool {
	if len(a) != len(b) {
		return false
	}
	for k, v := range a {
		if b[k] != v {
			return false
		}
	}
	return true
}

type lockEdge struct {
	From, To *types.Var
	Fn       *ssa.Function
	Pos      string
	Mode     string
}

type lockAnalysis struct {
	p         *Prog
	mustEntry map[*ssa.Function]lockSet // nil = not yet known (top)
	mayEntry  map[*ssa.Function]lockSet
	mustAt    map[ssa.Instruction]lockSet
	mayAt     map[ssa.Instruction]lockSet
	Edges     []lockEdge
	Classes   map[*types.Var]bool
	Ops       int
}

var lockCache = map[*Prog]*lockAnalysis{}

func lockAnalyse(p *Prog) *lockAnalysis {
	if la, ok := lockCache[p]; ok {
		return la
	}
	la := &lockAnalysis{p: p, mustEntry: map[*ssa.Function]lockSet{}, mayEntry: map[*ssa.Function]lockSet{},
		mustAt: map[ssa.Instruction]lockSet{}, mayAt: map[ssa.Instruction]lockSet{}, Classes: map[*types.Var]bool{}}
	la.run()
	lockCache[p] = la
	return la
}

// syncHigherOrder: library functions that invoke a function argument synchronously.
func isSyncHigherOrder(fn *ssa.Function) bool {
	if fn == nil {
		return false
	}
	switch fn.String() {
	case "(*sync.Map).Range", "(*sync.Once).Do", "sort.Slice", "sort.SliceStable":
		return true
	}
	return false
}

func (la *lockAnalysis) scoped() []*ssa.Function {
	return la.p.ScopedFuncs("proxy", "proxycore", "astra", "codecs", "parser")
}

func (la *lockAnalysis) run() {
	p := la.p
	fns := la.scoped()
	inScope := map[*ssa.Function]bool{}
	for _, f := range fns {
		inScope[f] = true
	}
	// Which functions have a fully known set of synchronous callers?  Unexported
	// functions/methods that are never used as a value and never started with go.
	onlyStatic := map[*ssa.Function]bool{}
	for _, f := range fns {
		if f.Parent() != nil {
			continue
		}
		obj, _ := f.Object().(*types.Func)
		if obj == nil || obj.Exported() {
			continue
		}
		// methods implementing interfaces may be invoked dynamically
		onlyStatic[f] = true
	}
	for _, f := range fns {
		eachInstr(f, func(in ssa.Instruction) {
			for _, op := range in.Operands(nil) {
				if g, ok := (*op).(*ssa.Function); ok && onlyStatic[g] {
					if c, ok := in.(*ssa.Call); ok && c.Call.StaticCallee() == g && c.Call.Value == g {
						continue
					}
					if d, ok := in.(*ssa.Defer); ok && d.Call.StaticCallee() == g && d.Call.Value == g {
						continue
					}
					delete(onlyStatic, g) // used as value / go statement
				}
			}
		})
	}
	for f := range onlyStatic {
		if n := p.CG.Nodes[f]; n != nil {
			for _, e := range n.In {
				if e.Site == nil || e.Site.Common().StaticCallee() != f {
					delete(onlyStatic, f)
				}
			}
		}
	}
	// must analysis: iterate entry sets downwards from top
	changed := true
	for iter := 0; changed && iter < 50; iter++ {
		changed = false
		// collect call-site must sets per callee
		siteMust := map[*ssa.Function][]lockSet{}
		for _, f := range fns {
			entry := lockSet{}
			if onlyStatic[f] {
				if e, ok := la.mustEntry[f]; ok {
					entry = e
				} else if iter > 0 {
					entry = lockSet{}
				}
			} else if f.Parent() != nil {
				if e, ok := la.mustEntry[f]; ok {
					entry = e
				}
			}
			la.flow(f, entry, true, func(in ssa.Instruction, held lockSet) {
				la.mustAt[in] = held
				if c, ok := in.(*ssa.Call); ok {
					if g := c.Call.StaticCallee(); g != nil && onlyStatic[g] {
						siteMust[g] = append(siteMust[g], held)
					}
					// synchronous closure arguments
					if isSyncHigherOrder(c.Call.StaticCallee()) {
						for _, a := range c.Call.Args {
							if mc, ok := a.(*ssa.MakeClosure); ok {
								siteMust[mc.Fn.(*ssa.Function)] = append(siteMust[mc.Fn.(*ssa.Function)], held)
							}
						}
					}
				}
				if d, ok := in.(*ssa.Defer); ok {
					// deferred closure runs with whatever is held at return: approximate by the
					// set held at the defer statement minus nothing (conservative: empty)
					_ = d
				}
			})
		}
		for g, sets := range siteMust {
			var e lockSet
			for i, s := range sets {
				if i == 0 {
					e = s.clone()
				} else {
					e = intersect(e, s)
				}
			}
			if old, ok := la.mustEntry[g]; !ok || !sameSet(old, e) {
				la.mustEntry[g] = e
				changed = true
			}
		}
	}
	// may analysis: propagate over the whole call graph (library code passes through)
	mayHeldAtSite := map[ssa.CallInstruction]lockSet{}
	changed = true
	for iter := 0; changed && iter < 100; iter++ {
		changed = false
		for _, f := range fns {
			entry := la.mayEntry[f]
			if entry == nil {
				entry = lockSet{}
			}
			la.flow(f, entry, false, func(in ssa.Instruction, held lockSet) {
				la.mayAt[in] = held
				if c, ok := in.(ssa.CallInstruction); ok {
					if _, isGo := in.(*ssa.Go); isGo {
						mayHeldAtSite[c] = lockSet{}
					} else {
						mayHeldAtSite[c] = held
					}
				}
			})
		}
		// propagate to callees through CG edges
		for fn, node := range p.CG.Nodes {
			if fn == nil {
				continue
			}
			var base lockSet
			if !inScope[fn] {
				base = la.mayEntry[fn] // library / out-of-scope function: pass-through
			}
			for _, e := range node.Out {
				callee := e.Callee.Func
				if callee == nil {
					continue
				}
				var held lockSet
				if inScope[fn] {
					if e.Site == nil {
						continue
					}
					held = mayHeldAtSite[e.Site]
				} else {
					if _, isGo := e.Site.(*ssa.Go); isGo {
						continue
					}
					held = base
				}
				if len(held) == 0 {
					continue
				}
				old := la.mayEntry[callee]
				nu := union(old, held)
				if old == nil || !sameSet(old, nu) {
					la.mayEntry[callee] = nu
					changed = true
				}
			}
		}
	}
	// lock-order edges
	seen := map[string]bool{}
	for _, f := range fns {
		eachCall(f, func(c ssa.CallInstruction) {
			lo, ok := lockOp(c)
			if !ok || lo.Class == nil {
				return
			}
			if _, isDefer := c.(*ssa.Defer); isDefer {
				return
			}
			la.Ops++
			la.Classes[lo.Class] = true
			if lo.Op != "Lock" && lo.Op != "RLock" {
				return
			}
			mode := "W"
			if lo.Op == "RLock" {
				mode = "R"
			}
			for a := range la.mayAt[c.(ssa.Instruction)] {
				k := fmt.Sprintf("%p>%p@%s", a, lo.Class, f.String())
				if seen[k] {
					continue
				}
				seen[k] = true
				la.Edges = append(la.Edges, lockEdge{From: a, To: lo.Class, Fn: f, Pos: p.Pos(c.Pos()), Mode: mode})
			}
		})
	}
	sort.Slice(la.Edges, func(i, j int) bool {
		a, b := la.Edges[i], la.Edges[j]
		if a.From.Name() != b.From.Name() {
			return a.From.Name() < b.From.Name()
		}
		if a.To.Name() != b.To.Name() {
			return a.To.Name() < b.To.Name()
		}
		return a.Fn.String() < b.Fn.String()
	})
}

// flow runs the forward lockset dataflow of one function and calls visit for
// every instruction with the set held *before* it.
func (la *lockAnalysis) flow(f *ssa.Function, entry lockSet, must bool, visit func(in ssa.Instruction, held lockSet)) {
	if len(f.Blocks) == 0 {
		return
	}
	in := make([]lockSet, len(f.Blocks))
	out := make([]lockSet, len(f.Blocks))
	in[0] = entry.clone()
	transfer := func(b *ssa.BasicBlock, held lockSet, emit bool) lockSet {
		held = held.clone()
		for _, ins := range b.Instrs {
			if emit {
				visit(ins, held.clone())
			}
			c, ok := ins.(*ssa.Call)
			if !ok {
				continue
			}
			lo, ok := lockOp(c)
			if !ok || lo.Class == nil {
				continue
			}
			switch lo.Op {
			case "Lock":
				held[lo.Class] = "W"
			case "RLock":
				if held[lo.Class] != "W" {
					held[lo.Class] = "R"
				}
			case "Unlock", "RUnlock":
				delete(held, lo.Class)
			}
		}
		return held
	}
	changed := true
	for changed {
		changed = false
		for _, b := range f.Blocks {
			var cur lockSet
			if b.Index == 0 {
				cur = in[0]
			} else {
				first := true
				for _, pr := range b.Preds {
					if out[pr.Index] == nil {
						continue
					}
					if first {
						cur = out[pr.Index].clone()
						first = false
					} else if must {
						cur = intersect(cur, out[pr.Index])
					} else {
						cur = union(cur, out[pr.Index])
					}
				}
				if first {
					continue // not reached yet
				}
			}
			in[b.Index] = cur
			o := transfer(b, cur, false)
			if out[b.Index] == nil || !sameSet(out[b.Index], o) {
				out[b.Index] = o
				changed = true
			}
		}
	}
	for _, b := range f.Blocks {
		if in[b.Index] != nil {
			transfer(b, in[b.Index], true)
		}
	}
}

// cycles returns the elementary cycles of the lock-order graph over classes
// (one representative per strongly connected component plus self loops).
func (la *lockAnalysis) cycles() [][]lockEdge {
	adj := map[*types.Var][]lockEdge{}
	for _, e := range la.Edges {
		adj[e.From] = append(adj[e.From], e)
	}
	var out [][]lockEdge
	seenCycle := map[string]bool{}
	var classes []*types.Var
	for c := range la.Classes {
		classes = append(classes, c)
	}
	sort.Slice(classes, func(i, j int) bool { return classes[i].Name() < classes[j].Name() })
	for _, start := range classes {
		// BFS for the shortest cycle through start
		type item struct {
			at   *types.Var
			path []lockEdge
		}
		queue := []item{{start, nil}}
		visited := map[*types.Var]bool{}
		found := false
		for len(queue) > 0 && !found {
			it := queue[0]
			queue = queue[1:]
			for _, e := range adj[it.at] {
				np := append(append([]lockEdge(nil), it.path...), e)
				if e.To == start {
					var names []string
					for _, x := range np {
						names = append(names, x.From.Name())
					}
					// canonical rotation
					min := 0
					for i := range names {
						if names[i] < names[min] {
							min = i
						}
					}
					key := strings.Join(append(names[min:], names[:min]...), ">")
					if !seenCycle[key] {
						seenCycle[key] = true
						out = append(out, np)
					}
					found = true
					break
				}
				if !visited[e.To] {
					visited[e.To] = true
					queue = append(queue, item{e.To, np})
				}
			}
		}
	}
	return out
}

func className(v *types.Var, p *Prog) string {
	// owner struct name
	owner := "?"
	for _, pkg := range []string{"proxy", "proxycore", "astra", "codecs", "parser"} {
		sp := p.Pkg(pkg)
		sc := sp.Pkg.Scope()
		for _, n := range sc.Names() {
			if tn, ok := sc.Lookup(n).(*types.TypeName); ok {
				if st, ok := tn.Type().Underlying().(*types.Struct); ok {
					for i := 0; i < st.NumFields(); i++ {
						if st.Field(i) == v {
							owner = pkg + "." + n
						}
					}
				}
			}
		}
	}
	return owner + "." + v.Name()
}

func c01LockOrder(p *Prog, r *Report) {
	const rule = "C01.lock-order"
	r.Rule(rule, "the lock-order graph over the repository's lock classes is acyclic (an acquisition of B while A may be held gives A->B; read-mode acquisitions count)")
	la := lockAnalyse(p)
	r.count("lock_operations", la.Ops)
	r.count("lock_classes", len(la.Classes))
	r.count("lock_order_edges", len(la.Edges))
	if la.Ops < 20 || len(la.Classes) < 6 {
		fatalf("lock analysis found only %d lock operations in %d classes (48 in 9 confirmed by hand): vacuous", la.Ops, len(la.Classes))
	}
	cyc := la.cycles()
	inCycle := map[string]bool{}
	for _, c := range cyc {
		var names, wit []string
		for _, e := range c {
			names = append(names, className(e.From, p))
			wit = append(wit, fmt.Sprintf("%s -> %s acquired(%s) in %s at %s", className(e.From, p), className(e.To, p), e.Mode, e.Fn.String(), e.Pos))
		}
		min := 0
		for i := range names {
			if names[i] < names[min] {
				min = i
			}
		}
		key := strings.Join(append(append([]string(nil), names[min:]...), names[:min]...), " -> ")
		inCycle[key] = true
		r.bad(rule, "cycle:"+key, c[0].Pos, "potential deadlock: "+strings.Join(wit, " ; "))
	}
	// one discharged obligation per edge pair not in a cycle, for evidence
	pairs := map[string]lockEdge{}
	for _, e := range la.Edges {
		k := className(e.From, p) + " -> " + className(e.To, p)
		if _, ok := pairs[k]; !ok {
			pairs[k] = e
		}
	}
	var ks []string
	for k := range pairs {
		ks = append(ks, k)
	}
	sort.Strings(ks)
	for _, k := range ks {
		e := pairs[k]
		r.ok(rule, "edge:"+k, e.Pos, "ordered acquisition, witness "+e.Fn.String())
	}
}
