package main

// SIM: path-sensitive property simulation over go/ssa.
//
// The engine explores every path of one entry function over a small abstract
// state: facts about SSA registers (constants, nil/non-nil, symbolic tags),
// abstract memory cells (non-escaping locals and a rule-chosen set of struct
// fields, object-insensitively), saturating effect counters, free-form "aux"
// facts maintained by rule hooks, and the list of pending defers.  Branches on
// known facts follow one side, every other branch forks and refines.  Repo
// callees selected by the rule are summarised on demand (entry state ->
// outcomes); everything else is opaque.  Nothing is executed: values are never
// computed beyond constant folding of comparisons.

import (
	"strconv"
	"fmt"
	"go/ast"
	"go/constant"
	"go/token"
	"go/types"
	"os"
	"sort"
	"strings"

	"golang.org/x/tools/go/ssa"
)

type avKind int

const (
	avTop avKind = iota
	avConst
	avNil
	avNonNil
	avSym
	avTuple
)

// AV is an abstract value.
type AV struct {
	K avKind
	C constant.Value
	S string
	T []AV
	D string // for a non-nil value of an interface type of the repository: its dynamic type, when the path decides it
}

var top = AV{}

func avBool(b bool) AV     { return AV{K: avConst, C: constant.MakeBool(b)} }
func avInt(i int64) AV     { return AV{K: avConst, C: constant.MakeInt64(i)} }
func avSymbol(s string) AV { return AV{K: avSym, S: s} }
func avTup(xs ...AV) AV    { return AV{K: avTuple, T: xs} }

func (a AV) isBool() (val, known bool) {
	if a.K == avConst && a.C.Kind() == constant.Bool {
		return constant.BoolVal(a.C), true
	}
	return false, false
}

func (a AV) String() string {
	switch a.K {
	case avTop:
		return "?"
	case avConst:
		return a.C.ExactString()
	case avNil:
		return "nil"
	case avNonNil:
		if a.D != "" {
			return "nonnil<" + a.D + ">"
		}
		return "nonnil"
	case avSym:
		return "$" + a.S
	case avTuple:
		var parts []string
		for _, t := range a.T {
			parts = append(parts, t.String())
		}
		return "(" + strings.Join(parts, ",") + ")"
	}
	return "?"
}

func (a AV) elem(i int) AV {
	if a.K == avTuple && i < len(a.T) {
		return a.T[i]
	}
	return top
}

// State is one abstract state.
type State struct {
	vals   map[ssa.Value]AV
	cells  map[interface{}]AV // *ssa.Alloc | *types.Var | string
	eff    map[string]int
	aux    map[string]string
	defers []*ssa.Defer
	neweff map[string]bool // effects of the call just interpreted (not part of the key)
}

func newState() *State {
	return &State{vals: map[ssa.Value]AV{}, cells: map[interface{}]AV{}, eff: map[string]int{}, aux: map[string]string{}}
}

func (s *State) clone() *State {
	n := newState()
	for k, v := range s.vals {
		n.vals[k] = v
	}
	for k, v := range s.cells {
		n.cells[k] = v
	}
	for k, v := range s.eff {
		n.eff[k] = v
	}
	for k, v := range s.aux {
		n.aux[k] = v
	}
	n.defers = append([]*ssa.Defer(nil), s.defers...)
	for k := range s.neweff {
		if n.neweff == nil {
			n.neweff = map[string]bool{}
		}
		n.neweff[k] = true
	}
	return n
}

func (s *State) addEff(e string) {
	if s.eff[e] < 2 {
		s.eff[e]++
	}
}

func cellName(k interface{}) string {
	switch c := k.(type) {
	case *ssa.Alloc:
		return "alloc:" + c.Name() + "@" + fmt.Sprint(c.Pos())
	case *types.Var:
		return "field:" + c.Name()
	case string:
		return c
	}
	return fmt.Sprint(k)
}

func (s *State) key(ids map[ssa.Value]int) string {
	var parts []string
	for v, a := range s.vals {
		if a.K == avTop {
			continue
		}
		parts = append(parts, fmt.Sprintf("v%d=%s", ids[v], a))
	}
	for c, a := range s.cells {
		if a.K == avTop {
			continue
		}
		parts = append(parts, cellName(c)+"="+a.String())
	}
	for e, n := range s.eff {
		if n > 0 {
			parts = append(parts, fmt.Sprintf("e:%s=%d", e, n))
		}
	}
	for k, v := range s.aux {
		parts = append(parts, "a:"+k+"="+v)
	}
	sort.Strings(parts)
	d := ""
	for _, df := range s.defers {
		d += fmt.Sprintf("d%d,", df.Pos())
	}
	return strings.Join(parts, ";") + "|" + d
}

// Outcome is one way a function can finish.
type Outcome struct {
	Ret   AV // tuple for multi-result functions, single AV otherwise
	St    *State
	Panic bool
	Pos   token.Pos
}

// Sim is the configuration + result of one exploration.
type Sim struct {
	p       *Prog
	Tracked map[*types.Var]bool
	// Inline reports whether a statically resolved repo callee is summarised.
	Inline func(fn *ssa.Function) bool
	// Model may fully define the outcome states of a call (nil = default).
	Model func(s *Sim, st *State, call ssa.CallInstruction, callee *ssa.Function) []*State
	// Effect names the effects a call has (counted before the call runs).
	Effect func(call ssa.CallInstruction, callee *ssa.Function) []string
	// OnInstr is called before every instruction is interpreted.
	OnInstr func(st *State, in ssa.Instruction)
	// OnBranch is called when a branch is taken on cond with the given truth.
	OnBranch func(st *State, cond ssa.Value, truth bool)
	Pinned   map[ssa.Value]bool
	Progress map[string]bool // effects that count as loop progress
	// FieldVals binds reads of struct-value fields (*ssa.Field) to abstract values.
	FieldVals map[*types.Var]AV
	// TrackLens enables a three-valued length abstraction (0, 1, >=2) of local slices
	// through make/append/len.
	TrackLens bool
	MaxNodes  int

	// results of the last Run (top-level function only)
	Nodes        int
	NoProgress   []string // descriptions of non-progress cycles
	summaries    map[string][]Outcome
	inProgress   map[string]bool
	fninfo       map[*ssa.Function]*fnInfo
	modCache     map[*types.Var]map[*ssa.Function]bool
	UnknownCalls map[string]int
	// fvBind maps the free variables of an inlined closure to the locals of its parent that they
	// capture, so that the closure reads and writes the parent's cells (deferred clean-up closures).
	fvBind  map[*ssa.FreeVar]*ssa.Alloc
	parBind map[*ssa.Parameter]*ssa.Alloc
	// LoadVal may give the value read by a load an abstract value of the rule's choosing (a
	// symbolic tag for "the configured override", ...).
	LoadVal  func(load *ssa.UnOp) (AV, bool)
	dynTypes map[string]types.Type
}

type fnInfo struct {
	ids      map[ssa.Value]int
	reach    [][]bool // reach[a][b]: block b reachable from a (>=0 edges)
	useBlk   map[ssa.Value][]int
	okAllocs map[*ssa.Alloc]bool
}

func newSim(p *Prog) *Sim {
	return &Sim{p: p, Tracked: map[*types.Var]bool{}, Pinned: map[ssa.Value]bool{}, Progress: map[string]bool{},
		MaxNodes: 200000, summaries: map[string][]Outcome{}, inProgress: map[string]bool{},
		fninfo: map[*ssa.Function]*fnInfo{}, modCache: map[*types.Var]map[*ssa.Function]bool{}, UnknownCalls: map[string]int{}}
}

func (s *Sim) info(fn *ssa.Function) *fnInfo {
	if fi, ok := s.fninfo[fn]; ok {
		return fi
	}
	fi := &fnInfo{ids: map[ssa.Value]int{}, useBlk: map[ssa.Value][]int{}, okAllocs: map[*ssa.Alloc]bool{}}
	n := 0
	for _, par := range fn.Params {
		fi.ids[par] = n
		n++
	}
	for _, fv := range fn.FreeVars {
		fi.ids[fv] = n
		n++
	}
	nb := len(fn.Blocks)
	for _, b := range fn.Blocks {
		for _, in := range b.Instrs {
			if v, ok := in.(ssa.Value); ok {
				fi.ids[v] = n
				n++
			}
			for _, op := range in.Operands(nil) {
				if *op != nil {
					fi.useBlk[*op] = append(fi.useBlk[*op], b.Index)
				}
			}
		}
	}
	fi.reach = make([][]bool, nb)
	for i := range fi.reach {
		fi.reach[i] = make([]bool, nb)
		stack := []*ssa.BasicBlock{fn.Blocks[i]}
		fi.reach[i][i] = true
		for len(stack) > 0 {
			b := stack[len(stack)-1]
			stack = stack[:len(stack)-1]
			for _, sc := range b.Succs {
				if !fi.reach[i][sc.Index] {
					fi.reach[i][sc.Index] = true
					stack = append(stack, sc)
				}
			}
		}
	}
	for _, b := range fn.Blocks {
		for _, in := range b.Instrs {
			if a, ok := in.(*ssa.Alloc); ok {
				fi.okAllocs[a] = allocTrackable(a)
			}
		}
	}
	s.fninfo[fn] = fi
	return fi
}

// allocTrackable: the local's address is only used for direct loads/stores and
// for capture by closures that are only deferred.
func allocTrackable(a *ssa.Alloc) bool {
	for _, r := range *a.Referrers() {
		switch r := r.(type) {
		case *ssa.Store:
			if r.Val == a {
				return false
			}
		case *ssa.UnOp:
			if r.Op != token.MUL {
				return false
			}
		case *ssa.DebugRef:
		case *ssa.Defer, *ssa.Call:
			// the address handed to a function of the program that only reads through it (a
			// clean-up deferred with the address of the error result)
			ci := r.(ssa.CallInstruction)
			callee := ci.Common().StaticCallee()
			if callee == nil || callee.Blocks == nil || ci.Common().Value == ssa.Value(a) {
				return false
			}
			for i, arg := range ci.Common().Args {
				if arg != ssa.Value(a) {
					continue
				}
				if i >= len(callee.Params) {
					return false
				}
				for _, pr := range *callee.Params[i].Referrers() {
					if ld, ok := pr.(*ssa.UnOp); ok && ld.Op == token.MUL {
						continue
					}
					if _, ok := pr.(*ssa.DebugRef); ok {
						continue
					}
					return false
				}
			}
		case *ssa.MakeClosure:
			// a closure that only reads the captured variable cannot change the cell
			readOnly := false
			if fn, ok := r.Fn.(*ssa.Function); ok {
				for i, bnd := range r.Bindings {
					if bnd == ssa.Value(a) && i < len(fn.FreeVars) {
						readOnly = true
						for _, fr := range *fn.FreeVars[i].Referrers() {
							if ld, ok := fr.(*ssa.UnOp); ok && ld.Op == token.MUL {
								continue
							}
							if _, ok := fr.(*ssa.DebugRef); ok {
								continue
							}
							readOnly = false
						}
					}
				}
			}
			if readOnly {
				continue
			}
			for _, rr := range *r.Referrers() {
				d, ok := rr.(*ssa.Defer)
				if !ok || d.Call.Value != r {
					return false
				}
			}
		default:
			return false
		}
	}
	return true
}

func zeroAV(t types.Type) AV {
	switch u := t.Underlying().(type) {
	case *types.Basic:
		switch {
		case u.Info()&types.IsBoolean != 0:
			return avBool(false)
		case u.Info()&types.IsInteger != 0:
			return avInt(0)
		case u.Info()&types.IsString != 0:
			return AV{K: avConst, C: constant.MakeString("")}
		}
	case *types.Pointer, *types.Interface, *types.Slice, *types.Map, *types.Chan, *types.Signature:
		return AV{K: avNil}
	}
	return top
}

func (s *Sim) eval(st *State, v ssa.Value) AV {
	switch c := v.(type) {
	case *ssa.Const:
		if c.Value == nil {
			switch c.Type().Underlying().(type) {
			case *types.Pointer, *types.Interface, *types.Slice, *types.Map, *types.Chan, *types.Signature:
				return AV{K: avNil}
			}
			return zeroAV(c.Type())
		}
		return AV{K: avConst, C: c.Value}
	case *ssa.Function, *ssa.Global, *ssa.Alloc, *ssa.MakeClosure, *ssa.MakeMap, *ssa.MakeChan,
		*ssa.MakeSlice, *ssa.MakeInterface, *ssa.FieldAddr, *ssa.IndexAddr:
		if a, ok := st.vals[v]; ok {
			return a
		}
		return AV{K: avNonNil}
	}
	if a, ok := st.vals[v]; ok {
		return a
	}
	return top
}

// cellOf maps an address value to an abstract cell key (nil if untracked).
func (s *Sim) cellOf(fn *ssa.Function, addr ssa.Value) interface{} {
	switch a := addr.(type) {
	case *ssa.Alloc:
		if a.Parent() == fn && s.info(fn).okAllocs[a] {
			return a
		}
	case *ssa.FieldAddr:
		f := fieldOfAddr(a)
		if f != nil && s.Tracked[f] {
			return f
		}
	case *ssa.FreeVar:
		// a captured local of the parent: modelled when the closure was inlined from its MakeClosure
		if al := s.fvBind[a]; al != nil && s.info(al.Parent()).okAllocs[al] {
			return al
		}
	case *ssa.Parameter:
		// a pointer parameter of an inlined function that was handed the address of a local of its caller
		if al := s.parBind[a]; al != nil && s.info(al.Parent()).okAllocs[al] {
			return al
		}
	}
	return nil
}

func fieldOfAddr(a *ssa.FieldAddr) *types.Var {
	t := a.X.Type().Underlying()
	if p, ok := t.(*types.Pointer); ok {
		t = p.Elem().Underlying()
	}
	if st, ok := t.(*types.Struct); ok && a.Field < st.NumFields() {
		return st.Field(a.Field)
	}
	return nil
}

func fieldOfVal(a *ssa.Field) *types.Var {
	t := a.X.Type().Underlying()
	if st, ok := t.(*types.Struct); ok && a.Field < st.NumFields() {
		return st.Field(a.Field)
	}
	return nil
}

func foldCompare(op token.Token, x, y AV) AV {
	// the abstract integer ">= 2" against a constant
	if x.K == avSym && x.S == "int>=2" && y.K == avConst && y.C.Kind() == constant.Int {
		if c, ok := constant.Int64Val(y.C); ok {
			switch op {
			case token.GTR:
				if c <= 1 {
					return avBool(true)
				}
			case token.GEQ:
				if c <= 2 {
					return avBool(true)
				}
			case token.LSS:
				if c <= 2 {
					return avBool(false)
				}
			case token.LEQ:
				if c <= 1 {
					return avBool(false)
				}
			case token.EQL:
				if c < 2 {
					return avBool(false)
				}
			case token.NEQ:
				if c < 2 {
					return avBool(true)
				}
			}
		}
		return top
	}
	isNilish := func(a AV) (nilv, known bool) {
		switch a.K {
		case avNil:
			return true, true
		case avNonNil, avSym:
			return false, true
		}
		return false, false
	}
	if x.K == avConst && y.K == avConst {
		if x.C.Kind() == constant.Bool || y.C.Kind() == constant.Bool {
			if x.C.Kind() == y.C.Kind() {
				eq := constant.BoolVal(x.C) == constant.BoolVal(y.C)
				switch op {
				case token.EQL:
					return avBool(eq)
				case token.NEQ:
					return avBool(!eq)
				}
			}
			return top
		}
		switch op {
		case token.EQL, token.NEQ, token.LSS, token.LEQ, token.GTR, token.GEQ:
			if (x.C.Kind() == constant.String) != (y.C.Kind() == constant.String) {
				return top
			}
			return avBool(constant.Compare(x.C, op, y.C))
		}
		return top
	}
	if op == token.EQL || op == token.NEQ {
		xn, xk := isNilish(x)
		yn, yk := isNilish(y)
		if xk && yk && (xn || yn) {
			// nil==nil true; nil==nonnil false; nonnil==nonnil unknown
			eq := xn && yn
			if op == token.EQL {
				return avBool(eq)
			}
			return avBool(!eq)
		}
	}
	return top
}

type workItem struct {
	fn    *ssa.Function
	blk   *ssa.BasicBlock
	idx   int
	st    *State
	node  string          // origin node key (top-level graph)
	effs  map[string]bool // effects since origin node
	depth int
}

type runCtx struct {
	fn       *ssa.Function
	top      bool
	visited  map[string]bool
	edges    map[string][]simEdge
	outcomes []Outcome
	okeys    map[string]bool
}

type simEdge struct {
	to       string
	progress bool
}

// Run explores fn from the initial state and returns its outcomes.
func (s *Sim) Run(fn *ssa.Function, init *State) []Outcome {
	s.NoProgress = nil
	rc := s.explore(fn, init, true)
	sort.Strings(s.NoProgress)
	return rc.outcomes
}

func (s *Sim) explore(fn *ssa.Function, init *State, topLevel bool) *runCtx {
	if fn.Blocks == nil {
		fatalf("sim: function %s has no body", fn)
	}
	rc := &runCtx{fn: fn, top: topLevel, visited: map[string]bool{}, edges: map[string][]simEdge{}, okeys: map[string]bool{}}
	fi := s.info(fn)
	st := init.clone()
	entryKey := fmt.Sprintf("b0#%s", st.key(fi.ids))
	rc.visited[entryKey] = true
	work := []workItem{{fn: fn, blk: fn.Blocks[0], idx: 0, st: st, node: entryKey, effs: map[string]bool{}}}
	for len(work) > 0 {
		it := work[len(work)-1]
		work = work[:len(work)-1]
		s.Nodes++
		if s.Nodes > s.MaxNodes {
			fatalf("sim: state budget exceeded in %s", fn)
		}
		work = append(work, s.execBlock(rc, it)...)
	}
	s.findNoProgressCycles(rc)
	return rc
}

// execBlock interprets instructions from it.idx to the end of the block (or
// until a fork), returning follow-up work items.
func (s *Sim) execBlock(rc *runCtx, it workItem) []workItem {
	fn, b, st := it.fn, it.blk, it.st
	for i := it.idx; i < len(b.Instrs); i++ {
		in := b.Instrs[i]
		if s.OnInstr != nil {
			s.OnInstr(st, in)
		}
		switch x := in.(type) {
		case *ssa.Phi:
			// evaluated on the edge
		case *ssa.Alloc:
			if s.info(fn).okAllocs[x] {
				st.cells[x] = zeroAV(x.Type().Underlying().(*types.Pointer).Elem())
			}
		case *ssa.Store:
			if c := s.cellOf(fn, x.Addr); c != nil {
				st.cells[c] = s.eval(st, x.Val)
			}
		case *ssa.UnOp:
			switch x.Op {
			case token.MUL:
				if c := s.cellOf(fn, x.X); c != nil {
					if a, ok := st.cells[c]; ok && a.K != avTop {
						st.vals[x] = a
					} else {
						delete(st.vals, x)
					}
				} else if g, ok := x.X.(*ssa.Global); ok && s.sentinelError(g) {
					st.vals[x] = AV{K: avNonNil}
				} else {
					delete(st.vals, x)
				}
				if s.LoadVal != nil {
					if a, ok := s.LoadVal(x); ok {
						st.vals[x] = a
					}
				}
			case token.NOT:
				if bv, ok := s.eval(st, x.X).isBool(); ok {
					st.vals[x] = avBool(!bv)
				} else {
					delete(st.vals, x)
				}
			default:
				delete(st.vals, x)
			}
		case *ssa.BinOp:
			r := foldCompare(x.Op, s.eval(st, x.X), s.eval(st, x.Y))
			if r.K == avTop && s.p.rangeIndexOverTable(x) {
				// the index of a range loop over a package-level table of records
				if a := s.eval(st, x.X); a.K == avConst && a.C.Kind() == constant.Int {
					if k, ok := constant.Int64Val(a.C); ok {
						r = avInt(k + 1)
					}
				}
			}
			if r.K != avTop {
				st.vals[x] = r
			} else {
				delete(st.vals, x)
			}
		case *ssa.Extract:
			r := s.eval(st, x.Tuple).elem(x.Index)
			if r.K != avTop {
				st.vals[x] = r
			} else {
				delete(st.vals, x)
			}
		case *ssa.ChangeType:
			s.copyAV(st, x, x.X)
		case *ssa.ChangeInterface:
			s.copyAV(st, x, x.X)
		case *ssa.Convert:
			a := s.eval(st, x.X)
			if a.K == avConst && a.C.Kind() == constant.Int && isIntegerType(x.Type()) {
				// (a conversion to a sized integer type wraps)
				st.vals[x] = AV{K: avConst, C: wrapToType(a.C, x.Type())}
			} else {
				delete(st.vals, x)
			}
		case *ssa.MakeInterface:
			a := s.eval(st, x.X)
			if a.K == avSym {
				st.vals[x] = a
			} else {
				nv := AV{K: avNonNil}
				// an interface declared in the repository: remember which implementation this is
				if n := namedOf(x.Type()); n != nil && n.Obj().Pkg() != nil && strings.HasPrefix(n.Obj().Pkg().Path(), modPath) {
					if _, isIface := n.Underlying().(*types.Interface); isIface {
						nv.D = types.TypeString(x.X.Type(), nil)
						if s.dynTypes == nil {
							s.dynTypes = map[string]types.Type{}
						}
						s.dynTypes[nv.D] = x.X.Type()
					}
				}
				st.vals[x] = nv
			}
		case *ssa.TypeAssert:
			a := s.eval(st, x.X)
			if x.CommaOk {
				if a.K == avNil {
					st.vals[x] = avTup(AV{K: avNil}, avBool(false))
				} else {
					st.vals[x] = avTup(top, top)
				}
			} else if a.K == avSym {
				st.vals[x] = a
			} else {
				delete(st.vals, x)
			}
		case *ssa.Defer:
			st.defers = append(st.defers, x)
			// the arguments of a deferred call are evaluated now: keep their values until it runs
			for _, a := range x.Call.Args {
				if _, isAlloc := a.(*ssa.Alloc); !isAlloc {
					if s.Pinned == nil {
						s.Pinned = map[ssa.Value]bool{}
					}
					s.Pinned[a] = true
				}
			}
		case *ssa.RunDefers:
			defs := st.defers
			st.defers = nil
			states := []*State{st}
			for j := len(defs) - 1; j >= 0; j-- {
				var next []*State
				for _, cur := range states {
					next = append(next, s.doCall(rc, it, cur, defs[j])...)
				}
				states = next
			}
			return s.continueWith(rc, it, states, i+1)
		case *ssa.Call:
			states := s.doCall(rc, it, st, x)
			return s.continueWith(rc, it, states, i+1)
		case *ssa.Go:
			if s.Effect != nil {
				for _, e := range s.Effect(x, x.Common().StaticCallee()) {
					st.addEff(e)
					it.effs[e] = true
				}
			}
		case *ssa.If:
			cond := x.Cond
			if bv, ok := s.eval(st, cond).isBool(); ok {
				succ := b.Succs[0]
				if !bv {
					succ = b.Succs[1]
				}
				if s.OnBranch != nil {
					s.OnBranch(st, cond, bv)
				}
				return s.takeEdge(rc, it, st, b, succ)
			}
			var out []workItem
			for k, truth := range []bool{true, false} {
				ns := st.clone()
				s.refine(fn, b, ns, cond, truth)
				if s.OnBranch != nil {
					s.OnBranch(ns, cond, truth)
				}
				out = append(out, s.takeEdge(rc, it, ns, b, b.Succs[k])...)
			}
			return out
		case *ssa.Jump:
			return s.takeEdge(rc, it, st, b, b.Succs[0])
		case *ssa.Return:
			var ret AV
			if len(x.Results) == 1 {
				ret = s.eval(st, x.Results[0])
			} else if len(x.Results) > 1 {
				var xs []AV
				for _, r := range x.Results {
					xs = append(xs, s.eval(st, r))
				}
				ret = avTup(xs...)
			}
			s.addOutcome(rc, Outcome{Ret: ret, St: st, Pos: x.Pos()})
			return nil
		case *ssa.Panic:
			s.addOutcome(rc, Outcome{St: st, Panic: true, Pos: x.Pos()})
			return nil
		case *ssa.MakeSlice:
			if s.TrackLens {
				if c, ok := constInt(x.Len); ok && c >= 0 {
					if c > 2 {
						c = 2
					}
					st.vals[x] = avSymbol(fmt.Sprintf("len:%d", c))
				}
			}
		case *ssa.Lookup:
			delete(st.vals, x)
			// presence of a known key in a package-level dispatch table
			// (the entry is remembered by its key: the key operand may be dead by the time of the call)
			if ld, ok := x.X.(*ssa.UnOp); ok {
				if g, ok := ld.X.(*ssa.Global); ok {
					if ka := s.eval(st, x.Index); ka.K == avConst {
						if t := s.p.funcMapLiteral(g); t != nil {
							_, hit := t[ka.C.ExactString()]
							entry := avSymbol(tableEntryPrefix + ka.C.ExactString())
							if x.CommaOk {
								st.vals[x] = avTup(entry, avBool(hit))
							} else {
								st.vals[x] = entry
							}
						}
					}
				}
			}
			// a lookup with a known key in a package-level table of constants
			if ka := s.eval(st, x.Index); ka.K == avConst && ka.C.Kind() == constant.String {
				if ld, ok := x.X.(*ssa.UnOp); ok {
					if g, ok := ld.X.(*ssa.Global); ok {
						if tbl, ok := s.p.constMapLiteral(g); ok {
							v, hit := tbl[constant.StringVal(ka.C)]
							var av AV
							if hit {
								av = AV{K: avConst, C: v}
							} else if mt, isMap := g.Type().(*types.Pointer).Elem().Underlying().(*types.Map); isMap {
								av = zeroAV(mt.Elem())
							}
							if x.CommaOk {
								st.vals[x] = avTup(av, avBool(hit))
							} else if av.K != avTop {
								st.vals[x] = av
							}
						}
					}
				}
			}
		case *ssa.Slice:
			delete(st.vals, x)
			if s.TrackLens && x.Low == nil && x.High == nil {
				// a slice literal: the whole of a fresh array
				if al, ok := x.X.(*ssa.Alloc); ok {
					if arr, ok := al.Type().Underlying().(*types.Pointer).Elem().Underlying().(*types.Array); ok {
						c := arr.Len()
						if c > 2 {
							c = 2
						}
						st.vals[x] = avSymbol(fmt.Sprintf("len:%d", c))
					}
				}
			}
		case *ssa.Field:
			if a, ok := s.FieldVals[fieldOfVal(x)]; ok && a.K != avTop {
				st.vals[x] = a
			} else {
				delete(st.vals, x)
			}
		case ssa.Value:
			// every other value-producing instruction: unknown
			switch in.(type) {
			case *ssa.MakeClosure, *ssa.MakeMap, *ssa.MakeChan, *ssa.MakeSlice, *ssa.FieldAddr, *ssa.IndexAddr:
			default:
				delete(st.vals, x)
			}
		}
	}
	return nil
}

func isIntegerType(t types.Type) bool {
	b, ok := t.Underlying().(*types.Basic)
	return ok && b.Info()&types.IsInteger != 0
}

func (s *Sim) copyAV(st *State, dst, src ssa.Value) {
	a := s.eval(st, src)
	if a.K != avTop {
		st.vals[dst] = a
	} else {
		delete(st.vals, dst)
	}
}

func (s *Sim) addOutcome(rc *runCtx, o Outcome) {
	fi := s.info(rc.fn)
	// drop register facts: only return value, cells, effects, aux matter
	keep := o.St.clone()
	if !rc.top {
		keep.vals = map[ssa.Value]AV{}
	}
	for c := range keep.cells {
		if _, isAlloc := c.(*ssa.Alloc); isAlloc {
			delete(keep.cells, c)
		}
	}
	o.St = keep
	k := fmt.Sprintf("%v|%s|%s", o.Panic, o.Ret, keep.key(fi.ids))
	if !rc.top {
		if rc.okeys[k] {
			return
		}
	}
	rc.okeys[k] = true
	rc.outcomes = append(rc.outcomes, o)
}

func (s *Sim) continueWith(rc *runCtx, it workItem, states []*State, idx int) []workItem {
	var out []workItem
	for _, ns := range states {
		effs := map[string]bool{}
		for e := range it.effs {
			effs[e] = true
		}
		for e := range ns.neweff {
			effs[e] = true
		}
		ns.neweff = nil
		out = append(out, workItem{fn: it.fn, blk: it.blk, idx: idx, st: ns, node: it.node, effs: effs, depth: it.depth})
	}
	return out
}

// takeEdge evaluates the phis of succ for the edge b->succ, prunes dead facts
// and schedules succ unless the resulting node was seen.
func (s *Sim) takeEdge(rc *runCtx, it workItem, st *State, b, succ *ssa.BasicBlock) []workItem {
	fi := s.info(it.fn)
	predIdx := -1
	for i, p := range succ.Preds {
		if p == b {
			predIdx = i
			break
		}
	}
	// when b appears twice among preds (both branches to same block) either index is fine
	newv := map[ssa.Value]AV{}
	for _, in := range succ.Instrs {
		phi, ok := in.(*ssa.Phi)
		if !ok {
			break
		}
		newv[phi] = s.eval(st, phi.Edges[predIdx])
	}
	for v, a := range newv {
		if a.K == avTop {
			delete(st.vals, v)
		} else {
			st.vals[v] = a
		}
	}
	// liveness pruning
	for v := range st.vals {
		if s.Pinned[v] {
			continue
		}
		// the index of a range loop over a table of records identifies the current element for
		// as long as the loop variable may be used
		if bo, ok := v.(*ssa.BinOp); ok && s.p.rangeIndexOverTable(bo) && (bo.Block() == succ || bo.Block().Dominates(succ)) {
			continue
		}
		live := false
		for _, ub := range fi.useBlk[v] {
			if fi.reach[succ.Index][ub] {
				live = true
				break
			}
		}
		// SSA: a definition dominates its uses, so a value whose defining block does not
		// dominate succ is re-defined before any use reachable from succ (loop bodies)
		if live {
			if in, ok := v.(ssa.Instruction); ok && in.Block() != nil && in.Block() != succ && !in.Block().Dominates(succ) {
				live = false
			}
		}
		if !live {
			delete(st.vals, v)
		}
	}
	// locals captured by a deferred closure that is still pending stay live: the closure reads them
	// when the function returns
	var deferCaptured map[*ssa.Alloc]bool
	for _, df := range st.defers {
		if mc, ok := df.Call.Value.(*ssa.MakeClosure); ok {
			for _, bnd := range mc.Bindings {
				if al, ok := bnd.(*ssa.Alloc); ok {
					if deferCaptured == nil {
						deferCaptured = map[*ssa.Alloc]bool{}
					}
					deferCaptured[al] = true
				}
			}
		}
	}
	for c := range st.cells {
		if a, ok := c.(*ssa.Alloc); ok {
			if deferCaptured[a] || a.Parent() != succ.Parent() {
				continue // (a captured local of the parent, seen from inside an inlined closure)
			}
			live := false
			for _, ub := range fi.useBlk[a] {
				if fi.reach[succ.Index][ub] {
					live = true
					break
				}
			}
			if live && a.Block() != nil && a.Block() != succ && !a.Block().Dominates(succ) {
				live = false
			}
			if !live {
				delete(st.cells, c)
			}
		}
	}
	// rule hooks may accumulate traces in aux: saturate them so that a loop cannot make the
	// abstract state space unbounded
	for k, v := range st.aux {
		if len(v) > 600 {
			st.aux[k] = v[:600] + "...(saturated)"
		}
	}
	key := fmt.Sprintf("b%d#%s", succ.Index, st.key(fi.ids))
	// a range loop over a slice/map/string advances its own iterator: bounded
	prog := strings.HasPrefix(b.Comment, "rangeindex.loop") || strings.HasPrefix(b.Comment, "rangeiter.loop")
	for e := range it.effs {
		if s.Progress[e] {
			prog = true
		}
	}
	rc.edges[it.node] = append(rc.edges[it.node], simEdge{to: key, progress: prog})
	if rc.visited[key] {
		return nil
	}
	rc.visited[key] = true
	return []workItem{{fn: it.fn, blk: succ, idx: 0, st: st, node: key, effs: map[string]bool{}, depth: it.depth}}
}

// refine records what taking the branch cond==truth implies.
func (s *Sim) refine(fn *ssa.Function, b *ssa.BasicBlock, st *State, cond ssa.Value, truth bool) {
	st.vals[cond] = avBool(truth)
	switch c := cond.(type) {
	case *ssa.UnOp:
		if c.Op == token.NOT {
			s.refine(fn, b, st, c.X, !truth)
		} else if c.Op == token.MUL {
			s.refineLoad(fn, b, st, c, avBool(truth))
		}
	case *ssa.BinOp:
		if c.Op != token.EQL && c.Op != token.NEQ {
			return
		}
		eq := (c.Op == token.EQL) == truth
		x, y := s.eval(st, c.X), s.eval(st, c.Y)
		var target ssa.Value
		var other AV
		_, xConst := c.X.(*ssa.Const)
		_, yConst := c.Y.(*ssa.Const)
		switch {
		case yConst && !xConst:
			target, other = c.X, y
		case xConst && !yConst:
			target, other = c.Y, x
		case y.K == avConst || y.K == avNil:
			target, other = c.X, y
		case x.K == avConst || x.K == avNil:
			target, other = c.Y, x
		default:
			return
		}
		cur := s.eval(st, target)
		if cur.K == avConst || cur.K == avNil || cur.K == avSym {
			return // already known (a symbolic tag denotes a specific non-nil object)
		}
		var nv AV
		if eq {
			nv = other
		} else if other.K == avNil {
			nv = AV{K: avNonNil}
		} else if bv, ok := other.isBool(); ok {
			nv = avBool(!bv)
		} else {
			return
		}
		s.setVal(fn, b, st, target, nv)
	}
}

func (s *Sim) setVal(fn *ssa.Function, b *ssa.BasicBlock, st *State, v ssa.Value, a AV) {
	st.vals[v] = a
	switch x := v.(type) {
	case *ssa.UnOp:
		if x.Op == token.MUL {
			s.refineLoad(fn, b, st, x, a)
		} else if x.Op == token.NOT {
			if bv, ok := a.isBool(); ok {
				s.setVal(fn, b, st, x.X, avBool(!bv))
			}
		}
	case *ssa.ChangeType:
		s.setVal(fn, b, st, x.X, a)
	case *ssa.ChangeInterface:
		if a.K == avNil || a.K == avNonNil {
			s.setVal(fn, b, st, x.X, a)
		}
	}
}

// refineLoad pushes a refinement of a loaded value back into its cell when no
// store/call can have intervened between the load and the end of the block.
func (s *Sim) refineLoad(fn *ssa.Function, b *ssa.BasicBlock, st *State, load *ssa.UnOp, a AV) {
	c := s.cellOf(fn, load.X)
	if c == nil || load.Block() != b {
		return
	}
	after := false
	for _, in := range b.Instrs {
		if in == ssa.Instruction(load) {
			after = true
			continue
		}
		if !after {
			continue
		}
		switch in.(type) {
		case *ssa.Store, *ssa.Call, *ssa.RunDefers, *ssa.Go, *ssa.Defer:
			return
		}
	}
	st.cells[c] = a
}

// ---------------------------------------------------------------------------
// calls

func (s *Sim) doCall(rc *runCtx, it workItem, st *State, call ssa.CallInstruction) []*State {
	callee := call.Common().StaticCallee()
	if mc, ok := call.Common().Value.(*ssa.MakeClosure); ok {
		callee, _ = mc.Fn.(*ssa.Function)
	}
	if callee == nil && call.Common().IsInvoke() {
		// the receiver's dynamic type is decided on this path (an implementation of an interface
		// of the repository chosen a few instructions earlier): the method of that type
		if recv := s.eval(st, call.Common().Value); recv.K == avNonNil && recv.D != "" {
			if t := s.dynTypes[recv.D]; t != nil {
				if m := s.p.SSA.LookupMethod(t, call.Common().Method.Pkg(), call.Common().Method.Name()); m != nil && m.Blocks != nil {
					return s.doCallTo(rc, it, st, call, m)
				}
			}
		}
	}
	if callee == nil && !call.Common().IsInvoke() {
		// a function value looked up in a package-level dispatch table (map literal of functions):
		// the call is explored once per possible entry (exactly one when the key is known)
		entry := s.eval(st, call.Common().Value)
		if cands := s.p.tableCallees(call, func(v ssa.Value) AV {
			if entry.K == avSym && strings.HasPrefix(entry.S, tableEntryPrefix) {
				return AV{K: avConst, C: constant.MakeString(tableEntryKey + entry.S[len(tableEntryPrefix):])}
			}
			return s.eval(st, v)
		}); len(cands) > 0 {
			var outs []*State
			for i, c := range cands {
				ns := st
				if i < len(cands)-1 {
					ns = st.clone()
				}
				outs = append(outs, s.doCallTo(rc, it, ns, call, c)...)
			}
			return outs
		}
		if c := s.tableElemCallee(st, call.Common().Value); c != nil {
			return s.doCallTo(rc, it, st, call, c)
		}
		// a function value that is a parameter or a captured variable: the functions it is bound
		// to at the (only static) call sites of the enclosing function
		if cands := s.p.funcValueTargets(call.Common().Value, 3); len(cands) > 0 && len(cands) <= 4 {
			var outs []*State
			for i, c := range cands {
				ns := st
				if i < len(cands)-1 {
					ns = st.clone()
				}
				outs = append(outs, s.doCallTo(rc, it, ns, call, c)...)
			}
			return outs
		}
	}
	return s.doCallTo(rc, it, st, call, callee)
}

// funcValueTargets: the functions a function-typed value may be, when that is decided by the
// shape of the code: a function or closure, a captured variable bound where the closure is made,
// a parameter of a function all of whose callers are static call sites.  nil when unknown.
func (p *Prog) funcValueTargets(v ssa.Value, depth int) []*ssa.Function {
	if depth < 0 {
		return nil
	}
	switch x := v.(type) {
	case *ssa.Function:
		return []*ssa.Function{x}
	case *ssa.MakeClosure:
		if f, ok := x.Fn.(*ssa.Function); ok {
			return []*ssa.Function{f}
		}
	case *ssa.ChangeType:
		return p.funcValueTargets(x.X, depth)
	case *ssa.Call:
		// made by a factory function of the program whose every return is a closure of one function
		callee := x.Call.StaticCallee()
		if callee == nil || callee.Blocks == nil || !p.InRepo(callee) {
			return nil
		}
		var made *ssa.Function
		okAll := true
		eachInstr(callee, func(in ssa.Instruction) {
			ret, ok := in.(*ssa.Return)
			if !ok {
				return
			}
			if len(ret.Results) != 1 {
				okAll = false
				return
			}
			mc, ok := ret.Results[0].(*ssa.MakeClosure)
			if !ok {
				okAll = false
				return
			}
			f, _ := mc.Fn.(*ssa.Function)
			if f == nil || (made != nil && made != f) {
				okAll = false
				return
			}
			made = f
		})
		if okAll && made != nil {
			return []*ssa.Function{made}
		}
		return nil
	case *ssa.UnOp:
		if x.Op != token.MUL {
			return nil
		}
		// a local captured by reference: every value stored into it
		var cell *ssa.Alloc
		switch a := x.X.(type) {
		case *ssa.Alloc:
			cell = a
		case *ssa.FreeVar:
			fn := a.Parent()
			if fn.Parent() == nil {
				return nil
			}
			for i, fv := range fn.FreeVars {
				if fv != a {
					continue
				}
				eachInstr(fn.Parent(), func(in ssa.Instruction) {
					if mc, ok := in.(*ssa.MakeClosure); ok && mc.Fn == ssa.Value(fn) && i < len(mc.Bindings) {
						if al, ok := mc.Bindings[i].(*ssa.Alloc); ok {
							cell = al
						}
					}
				})
			}
		}
		if cell == nil {
			return nil
		}
		var out []*ssa.Function
		n := 0
		for _, ref := range *cell.Referrers() {
			switch r := ref.(type) {
			case *ssa.Store:
				if r.Addr != ssa.Value(cell) {
					return nil
				}
				n++
				t := p.funcValueTargets(r.Val, depth-1)
				if t == nil {
					return nil
				}
				out = append(out, t...)
			case *ssa.UnOp, *ssa.MakeClosure, *ssa.DebugRef:
			default:
				return nil
			}
		}
		// closures sharing the cell may store to it as well
		for _, ref := range *cell.Referrers() {
			if mc, ok := ref.(*ssa.MakeClosure); ok {
				if cf, ok := mc.Fn.(*ssa.Function); ok {
					for i, b := range mc.Bindings {
						if b != ssa.Value(cell) || i >= len(cf.FreeVars) {
							continue
						}
						for _, r := range *cf.FreeVars[i].Referrers() {
							if st, ok := r.(*ssa.Store); ok && st.Addr == ssa.Value(cf.FreeVars[i]) {
								return nil
							}
						}
					}
				}
			}
		}
		if n == 0 {
			return nil
		}
		return dedupeFuncs(out)
	case *ssa.FreeVar:
		fn := x.Parent()
		par := fn.Parent()
		if par == nil {
			return nil
		}
		idx := -1
		for i, fv := range fn.FreeVars {
			if fv == x {
				idx = i
			}
		}
		var out []*ssa.Function
		found := false
		bad := false
		eachInstr(par, func(in ssa.Instruction) {
			mc, ok := in.(*ssa.MakeClosure)
			if !ok || mc.Fn != ssa.Value(fn) || idx < 0 || idx >= len(mc.Bindings) {
				return
			}
			found = true
			t := p.funcValueTargets(mc.Bindings[idx], depth-1)
			if t == nil {
				bad = true
			}
			out = append(out, t...)
		})
		if !found || bad {
			return nil
		}
		return dedupeFuncs(out)
	case *ssa.Parameter:
		fn := x.Parent()
		if _, ok := x.Type().Underlying().(*types.Signature); !ok {
			return nil
		}
		sites, only := p.staticCallSites(fn)
		if !only || len(sites) == 0 {
			return nil
		}
		idx := -1
		for i, par := range fn.Params {
			if par == x {
				idx = i
			}
		}
		var out []*ssa.Function
		for _, site := range sites {
			args := site.Common().Args
			if idx < 0 || idx >= len(args) {
				return nil
			}
			t := p.funcValueTargets(args[idx], depth-1)
			if t == nil {
				return nil
			}
			out = append(out, t...)
		}
		return dedupeFuncs(out)
	}
	return nil
}

func dedupeFuncs(fs []*ssa.Function) []*ssa.Function {
	seen := map[*ssa.Function]bool{}
	var out []*ssa.Function
	for _, f := range fs {
		if !seen[f] {
			seen[f] = true
			out = append(out, f)
		}
	}
	return out
}

// unwrapThunk: a method expression ((*T).m) or bound method value used as a function value is a
// synthetic wrapper that forwards its arguments, receiver first, to the method: the method itself.
func unwrapThunk(p *Prog, fn *ssa.Function) *ssa.Function {
	if fn == nil || fn.Synthetic == "" || fn.Blocks == nil {
		return fn
	}
	if !strings.Contains(fn.Synthetic, "thunk") {
		return fn
	}
	var target *ssa.Function
	n := 0
	eachCall(fn, func(c ssa.CallInstruction) {
		if callee := c.Common().StaticCallee(); callee != nil {
			target = callee
			n++
		}
	})
	if n == 1 && target != nil {
		return target
	}
	return fn
}

func (s *Sim) doCallTo(rc *runCtx, it workItem, st *State, call ssa.CallInstruction, callee *ssa.Function) []*State {
	viaTable := callee != nil && call.Common().StaticCallee() == nil
	callee = unwrapThunk(s.p, callee)
	if simTrace {
		fmt.Fprintf(os.Stderr, "simtrace: call %s -> %v at %s\n", callDesc(call), callee, s.p.Pos(call.Pos()))
	}
	var effs []string
	if s.Effect != nil {
		effs = s.Effect(call, callee)
		for _, e := range effs {
			st.addEff(e)
			it.effs[e] = true
		}
	}
	if v, ok := call.(ssa.Value); ok {
		delete(st.vals, v)
	}
	if s.Model != nil {
		if outs := s.Model(s, st, call, callee); outs != nil {
			return outs
		}
	}
	if s.TrackLens {
		if b, ok := call.Common().Value.(*ssa.Builtin); ok {
			args := call.Common().Args
			lenOf := func(v ssa.Value) int {
				a := s.eval(st, v)
				switch {
				case a.K == avNil:
					return 0
				case a.K == avSym && strings.HasPrefix(a.S, "len:"):
					return int(a.S[4] - '0')
				}
				return -1
			}
			switch b.Name() {
			case "append":
				k := lenOf(args[0])
				n := -1
				if len(args) > 1 {
					if sl, ok := args[1].(*ssa.Slice); ok {
						if al, ok := sl.X.(*ssa.Alloc); ok {
							if arr, ok := al.Type().Underlying().(*types.Pointer).Elem().Underlying().(*types.Array); ok && sl.Low == nil && sl.High == nil {
								n = int(arr.Len())
							}
						}
					}
				}
				if k >= 0 && n >= 0 {
					t := k + n
					if t > 2 {
						t = 2
					}
					SetCallResult(st, call, avSymbol(fmt.Sprintf("len:%d", t)))
					return []*State{st}
				}
			case "len":
				if a := s.eval(st, args[0]); a.K == avConst && a.C.Kind() == constant.String {
					SetCallResult(st, call, avInt(int64(len(constant.StringVal(a.C)))))
					return []*State{st}
				}
				switch lenOf(args[0]) {
				case 0:
					SetCallResult(st, call, avInt(0))
					return []*State{st}
				case 1:
					SetCallResult(st, call, avInt(1))
					return []*State{st}
				case 2:
					SetCallResult(st, call, avSymbol("int>=2"))
					return []*State{st}
				}
			}
		}
	}
	if b, ok := call.Common().Value.(*ssa.Builtin); ok && b.Name() == "len" && len(call.Common().Args) == 1 {
		if t := s.p.tableOfSlice(call.Common().Args[0]); t != nil {
			SetCallResult(st, call, avInt(int64(t.n)))
			return []*State{st}
		}
	}
	// pure string helpers of the standard library on known arguments
	if callee != nil && !s.p.InRepo(callee) {
		if outs := s.pureLibCall(st, call, callee); outs != nil {
			return outs
		}
	}
	// membership of a known value in a package-level table of constants
	if callee != nil && len(call.Common().Args) == 2 && s.p.anyOfKind(callee) == "eq" {
		if tbl, _, ok := s.p.constTableArg(call.Common().Args[0]); ok {
			if a := s.eval(st, call.Common().Args[1]); a.K == avConst && a.C != nil {
				hit := false
				for _, e := range tbl {
					if e.Kind() == a.C.Kind() && constant.Compare(e, token.EQL, a.C) {
						hit = true
					}
				}
				SetCallResult(st, call, avBool(hit))
				return []*State{st}
			}
		}
	}
	if callee != nil && callee.Blocks != nil && s.Inline != nil && s.Inline(callee) {
		return s.inlineCall(it, st, call, callee)
	}
	// the implementation behind an interface of the repository, chosen on this path
	if viaTable && call.Common().IsInvoke() && callee != nil && callee.Blocks != nil && s.p.InRepo(callee) {
		if rn := recvNamed(callee); rn != nil && !rn.Obj().Exported() && pkgOfFn(callee) == pkgOfFn(rootFn(call.Parent())) && !s.inlining(callee) {
			return s.inlineCall(it, st, call, callee)
		}
	}
	// an anonymous adapter registered in a dispatch table (func literal of a package-level map) is
	// part of the dispatching code
	if viaTable && callee != nil && callee.Blocks != nil && callee.Parent() != nil && callee.Parent().Name() == "init" && s.p.InRepo(callee) {
		return s.inlineCall(it, st, call, callee)
	}
	// opaque
	s.clobber(st, call, callee)
	if v, ok := call.(ssa.Value); ok {
		delete(st.vals, v)
		if callee == nil {
			s.UnknownCalls[callDesc(call)]++
		} else {
			switch callee.String() {
			case "errors.New", "fmt.Errorf":
				st.vals[v] = AV{K: avNonNil} // these never return nil
			}
		}
	}
	return []*State{st}
}

const tableEntryPrefix = "table-entry:"
const tableEntryKey = "\x00entry:"

var simTrace = os.Getenv("CQLVERIF_SIMTRACE") != ""

// SetCallResult is used by models to bind the result of call in st.
func SetCallResult(st *State, call ssa.CallInstruction, a AV) {
	if v, ok := call.(ssa.Value); ok {
		if a.K == avTop {
			delete(st.vals, v)
		} else {
			st.vals[v] = a
		}
	}
}

func callDesc(call ssa.CallInstruction) string {
	c := call.Common()
	if c.IsInvoke() {
		return "invoke " + c.Method.FullName()
	}
	if f := c.StaticCallee(); f != nil {
		return f.String()
	}
	return "dynamic " + c.Value.Name()
}

// inlining: a summary of callee is being computed (a recursive call must not be inlined again).
func (s *Sim) inlining(callee *ssa.Function) bool {
	pre := callee.String() + "|"
	for k := range s.inProgress {
		if strings.HasPrefix(k, pre) {
			return true
		}
	}
	return false
}

func (s *Sim) inlineCall(it workItem, st *State, call ssa.CallInstruction, callee *ssa.Function) []*State {
	args := call.Common().Args
	if call.Common().IsInvoke() {
		args = append([]ssa.Value{call.Common().Value}, args...)
	}
	var avs []AV
	for _, a := range args {
		avs = append(avs, s.eval(st, a))
	}
	entry := newState()
	for i, p := range callee.Params {
		if i < len(avs) && avs[i].K != avTop {
			entry.vals[p] = avs[i]
		}
	}
	for c, a := range st.cells {
		if _, isAlloc := c.(*ssa.Alloc); !isAlloc {
			entry.cells[c] = a
		}
	}
	for i, a := range args {
		if al, ok := a.(*ssa.Alloc); ok && i < len(callee.Params) && s.info(al.Parent()).okAllocs[al] {
			if s.parBind == nil {
				s.parBind = map[*ssa.Parameter]*ssa.Alloc{}
			}
			s.parBind[callee.Params[i]] = al
			if av, have := st.cells[al]; have {
				entry.cells[al] = av
			}
		}
	}
	if mc, ok := call.Common().Value.(*ssa.MakeClosure); ok && mc.Fn == ssa.Value(callee) {
		if s.fvBind == nil {
			s.fvBind = map[*ssa.FreeVar]*ssa.Alloc{}
		}
		for i, b := range mc.Bindings {
			if al, ok := b.(*ssa.Alloc); ok && i < len(callee.FreeVars) {
				s.fvBind[callee.FreeVars[i]] = al
				if a, have := st.cells[al]; have {
					entry.cells[al] = a
				}
			}
		}
	}
	for k, v := range st.aux {
		entry.aux[k] = v
	}
	key := callee.String() + "|" + entry.key(s.info(callee).ids)
	outs, ok := s.summaries[key]
	if !ok {
		if s.inProgress[key] {
			fatalf("sim: recursion through inlined function %s", callee)
		}
		s.inProgress[key] = true
		rc := s.explore(callee, entry, false)
		delete(s.inProgress, key)
		outs = rc.outcomes
		s.summaries[key] = outs
	}
	var res []*State
	for _, o := range outs {
		if o.Panic {
			continue
		}
		ns := st.clone()
		for c := range ns.cells {
			if _, isAlloc := c.(*ssa.Alloc); !isAlloc {
				delete(ns.cells, c)
			}
		}
		for c, a := range o.St.cells {
			ns.cells[c] = a
		}
		for e, n := range o.St.eff {
			for k := 0; k < n; k++ {
				ns.addEff(e)
			}
			if n > 0 {
				if ns.neweff == nil {
					ns.neweff = map[string]bool{}
				}
				ns.neweff[e] = true
			}
		}
		ns.aux = map[string]string{}
		for k, v := range o.St.aux {
			ns.aux[k] = v
		}
		SetCallResult(ns, call, o.Ret)
		res = append(res, ns)
	}
	return res
}

// clobber forgets tracked field cells that the callee may store to.
func (s *Sim) clobber(st *State, call ssa.CallInstruction, callee *ssa.Function) {
	var callees []*ssa.Function
	if callee != nil {
		callees = []*ssa.Function{callee}
	} else {
		callees = s.p.Callees(call)
	}
	for c := range st.cells {
		f, ok := c.(*types.Var)
		if !ok {
			continue
		}
		mods := s.modifiers(f)
		hit := len(callees) == 0 && !isBuiltinCall(call)
		for _, cal := range callees {
			if mods[cal] {
				hit = true
			}
		}
		if hit {
			delete(st.cells, c)
		}
	}
	// closure capturing trackable locals that it stores to
	if mc, ok := call.Common().Value.(*ssa.MakeClosure); ok {
		if fn, ok := mc.Fn.(*ssa.Function); ok {
			for i, bnd := range mc.Bindings {
				if a, ok := bnd.(*ssa.Alloc); ok && i < len(fn.FreeVars) {
					fv := fn.FreeVars[i]
					for _, r := range *fv.Referrers() {
						if stv, ok := r.(*ssa.Store); ok && stv.Addr == fv {
							delete(st.cells, a)
						}
					}
				}
			}
		}
	}
}

func isBuiltinCall(call ssa.CallInstruction) bool {
	_, ok := call.Common().Value.(*ssa.Builtin)
	return ok
}

// modifiers returns the set of functions that can (transitively) store to field f.
func (s *Sim) modifiers(f *types.Var) map[*ssa.Function]bool {
	if m, ok := s.modCache[f]; ok {
		return m
	}
	m := map[*ssa.Function]bool{}
	var work []*ssa.Function
	for fn := range s.p.Funcs {
		if !s.p.InRepo(fn) {
			continue
		}
		for _, b := range fn.Blocks {
			for _, in := range b.Instrs {
				if stv, ok := in.(*ssa.Store); ok {
					if fa, ok := stv.Addr.(*ssa.FieldAddr); ok && fieldOfAddr(fa) == f {
						if !m[fn] {
							m[fn] = true
							work = append(work, fn)
						}
					}
				}
			}
		}
	}
	for len(work) > 0 {
		fn := work[len(work)-1]
		work = work[:len(work)-1]
		if n := s.p.CG.Nodes[fn]; n != nil {
			for _, e := range n.In {
				c := e.Caller.Func
				if !m[c] {
					m[c] = true
					work = append(work, c)
				}
			}
		}
	}
	s.modCache[f] = m
	return m
}

// ---------------------------------------------------------------------------
// non-progress cycles in the abstract state graph of the top-level function

func (s *Sim) findNoProgressCycles(rc *runCtx) {
	if len(s.Progress) == 0 {
		return
	}
	// graph restricted to non-progress edges; any cycle is a finding
	color := map[string]int{}
	var stack []string
	var dfs func(n string)
	found := map[string]bool{}
	dfs = func(n string) {
		color[n] = 1
		stack = append(stack, n)
		for _, e := range rc.edges[n] {
			if e.progress {
				continue
			}
			switch color[e.to] {
			case 0:
				dfs(e.to)
			case 1:
				// cycle: from e.to ... n
				var blocks []string
				on := false
				for _, x := range stack {
					if x == e.to {
						on = true
					}
					if on {
						blocks = append(blocks, x[:strings.Index(x, "#")])
					}
				}
				desc := rc.fn.Name() + ": blocks " + strings.Join(blocks, "->") + " {" + e.to[strings.Index(e.to, "#")+1:] + "}"
				if !found[desc] {
					found[desc] = true
					s.NoProgress = append(s.NoProgress, desc)
				}
			}
		}
		stack = stack[:len(stack)-1]
		color[n] = 2
	}
	var keys []string
	for k := range rc.visited {
		keys = append(keys, k)
	}
	sort.Strings(keys)
	for _, k := range keys {
		if color[k] == 0 {
			dfs(k)
		}
	}
}

func constString(s string) constant.Value { return constant.MakeString(s) }

// sentinelError reports whether g is a package-level error variable that is assigned
// exactly once, in its package initialiser, from errors.New / fmt.Errorf or a non-nil
// concrete value (a sentinel such as proxycore.Closed): loading it yields a non-nil error.
func (s *Sim) sentinelError(g *ssa.Global) bool {
	if v, ok := sentinelCache[g]; ok {
		return v
	}
	res := false
	defer func() { sentinelCache[g] = res }()
	pt, ok := g.Type().(*types.Pointer)
	if !ok {
		return false
	}
	if _, isIface := pt.Elem().Underlying().(*types.Interface); !isIface || g.Pkg == nil {
		return false
	}
	stores, nonNil := 0, 0
	for fn := range s.p.Funcs {
		if fn.Pkg != g.Pkg || fn.Blocks == nil {
			continue
		}
		for _, b := range fn.Blocks {
			for _, in := range b.Instrs {
				st, ok := in.(*ssa.Store)
				if !ok || st.Addr != ssa.Value(g) {
					continue
				}
				stores++
				if fn.Name() != "init" {
					return false
				}
				switch v := st.Val.(type) {
				case *ssa.MakeInterface:
					nonNil++
				case *ssa.Call:
					if c := v.Call.StaticCallee(); c != nil && (c.String() == "errors.New" || c.String() == "fmt.Errorf") {
						nonNil++
					}
				}
			}
		}
	}
	res = stores == 1 && nonNil == 1
	return res
}

// constSliceLiteral returns the elements of a package-level slice literal of constants (a table
// of flags, codes, names) that is never assigned or written through after initialisation.
var constSliceCache = map[*ssa.Global][]constant.Value{}

func (p *Prog) constSliceLiteral(g *ssa.Global) ([]constant.Value, bool) {
	if t, ok := constSliceCache[g]; ok {
		return t, t != nil
	}
	constSliceCache[g] = nil
	if g.Pkg == nil || !strings.HasPrefix(g.Pkg.Pkg.Path(), modPath) {
		return nil, false
	}
	rel := strings.TrimPrefix(strings.TrimPrefix(g.Pkg.Pkg.Path(), modPath), "/")
	if rel == "" {
		return nil, false
	}
	var lit *ast.CompositeLit
	info := p.TypesInfo(rel)
	for _, f := range p.Syntax(rel) {
		for _, d := range f.Decls {
			gd, ok := d.(*ast.GenDecl)
			if !ok {
				continue
			}
			for _, sp := range gd.Specs {
				vs, ok := sp.(*ast.ValueSpec)
				if !ok {
					continue
				}
				for i, n := range vs.Names {
					if n.Name == g.Name() && i < len(vs.Values) {
						lit, _ = vs.Values[i].(*ast.CompositeLit)
					}
				}
			}
		}
	}
	if lit == nil || info == nil {
		return nil, false
	}
	if _, isSlice := info.TypeOf(lit).Underlying().(*types.Slice); !isSlice {
		return nil, false
	}
	out := []constant.Value{}
	for _, el := range lit.Elts {
		if _, isKV := el.(*ast.KeyValueExpr); isKV {
			return nil, false
		}
		tv, ok := info.Types[el]
		if !ok || tv.Value == nil {
			return nil, false
		}
		out = append(out, tv.Value)
	}
	if len(out) == 0 {
		return nil, false
	}
	for fn := range p.Funcs {
		if fn.Pkg != g.Pkg || fn.Blocks == nil || fn.Name() == "init" {
			continue
		}
		written := false
		eachInstr(fn, func(in ssa.Instruction) {
			st, ok := in.(*ssa.Store)
			if !ok {
				return
			}
			if st.Addr == ssa.Value(g) {
				written = true
			}
			if ia, ok := st.Addr.(*ssa.IndexAddr); ok {
				if ld, ok := ia.X.(*ssa.UnOp); ok && ld.X == ssa.Value(g) {
					written = true
				}
			}
		})
		if written {
			return nil, false
		}
	}
	constSliceCache[g] = out
	return out, true
}

var sentinelCache = map[*ssa.Global]bool{}

// constMapLiteral returns the contents of a package-level `map[string]T{...}` literal whose keys
// and values are constants (a name table), from the syntax tree and the type checker's constant
// values; ok is false when the variable is not such a table or is assigned anywhere else.
var constMapCache = map[*ssa.Global]map[string]constant.Value{}

func (p *Prog) constMapLiteral(g *ssa.Global) (map[string]constant.Value, bool) {
	if t, ok := constMapCache[g]; ok {
		return t, t != nil
	}
	constMapCache[g] = nil
	if g.Pkg == nil || !strings.HasPrefix(g.Pkg.Pkg.Path(), modPath) {
		return nil, false
	}
	rel := strings.TrimPrefix(strings.TrimPrefix(g.Pkg.Pkg.Path(), modPath), "/")
	if rel == "" {
		return nil, false
	}
	var lit *ast.CompositeLit
	info := p.TypesInfo(rel)
	for _, f := range p.Syntax(rel) {
		for _, d := range f.Decls {
			gd, ok := d.(*ast.GenDecl)
			if !ok {
				continue
			}
			for _, sp := range gd.Specs {
				vs, ok := sp.(*ast.ValueSpec)
				if !ok {
					continue
				}
				for i, n := range vs.Names {
					if n.Name == g.Name() && i < len(vs.Values) {
						lit, _ = vs.Values[i].(*ast.CompositeLit)
					}
				}
			}
		}
	}
	if lit == nil || info == nil {
		return nil, false
	}
	out := map[string]constant.Value{}
	for _, el := range lit.Elts {
		kv, ok := el.(*ast.KeyValueExpr)
		if !ok {
			return nil, false
		}
		ktv, ok1 := info.Types[kv.Key]
		vtv, ok2 := info.Types[kv.Value]
		if !ok1 || !ok2 || ktv.Value == nil || vtv.Value == nil || ktv.Value.Kind() != constant.String {
			return nil, false
		}
		out[constant.StringVal(ktv.Value)] = vtv.Value
	}
	// never written after initialisation
	for fn := range p.Funcs {
		if fn.Pkg != g.Pkg || fn.Blocks == nil || fn.Name() == "init" {
			continue
		}
		written := false
		eachInstr(fn, func(in ssa.Instruction) {
			if mu, ok := in.(*ssa.MapUpdate); ok {
				if ld, ok := mu.Map.(*ssa.UnOp); ok && ld.X == ssa.Value(g) {
					written = true
				}
			}
			if st, ok := in.(*ssa.Store); ok && st.Addr == ssa.Value(g) {
				written = true
			}
		})
		if written {
			return nil, false
		}
	}
	constMapCache[g] = out
	return out, true
}

// funcMapLiteral returns the entries of a package-level `map[K]func(...)...{...}` literal (a
// dispatch table), keyed by the exact string of the constant key; nil when g is not such a table
// or is written outside the package initialiser.
var funcMapCache = map[*ssa.Global]map[string]*ssa.Function{}

func (p *Prog) funcMapLiteral(g *ssa.Global) map[string]*ssa.Function {
	if t, ok := funcMapCache[g]; ok {
		return t
	}
	funcMapCache[g] = nil
	if g.Pkg == nil || !strings.HasPrefix(g.Pkg.Pkg.Path(), modPath) {
		return nil
	}
	mt, ok := g.Type().Underlying().(*types.Pointer).Elem().Underlying().(*types.Map)
	if !ok {
		return nil
	}
	if _, isFn := mt.Elem().Underlying().(*types.Signature); !isFn {
		return nil
	}
	init := g.Pkg.Func("init")
	if init == nil {
		return nil
	}
	var mk ssa.Value
	eachInstr(init, func(in ssa.Instruction) {
		if st, ok := in.(*ssa.Store); ok && st.Addr == ssa.Value(g) {
			mk = st.Val
		}
	})
	if _, ok := mk.(*ssa.MakeMap); !ok {
		return nil
	}
	out := map[string]*ssa.Function{}
	bad := false
	eachInstr(init, func(in ssa.Instruction) {
		mu, ok := in.(*ssa.MapUpdate)
		if !ok || mu.Map != mk {
			return
		}
		k, ok := mu.Key.(*ssa.Const)
		if !ok || k.Value == nil {
			bad = true
			return
		}
		var f *ssa.Function
		v := mu.Value
		for {
			if ct, ok := v.(*ssa.ChangeType); ok {
				v = ct.X
				continue
			}
			break
		}
		switch x := v.(type) {
		case *ssa.Function:
			f = x
		case *ssa.MakeClosure:
			f, _ = x.Fn.(*ssa.Function)
		}
		if f == nil {
			bad = true
			return
		}
		out[k.Value.ExactString()] = f
	})
	if bad || len(out) == 0 {
		return nil
	}
	for fn := range p.Funcs {
		if fn.Pkg != g.Pkg || fn.Blocks == nil || fn == init {
			continue
		}
		eachInstr(fn, func(in ssa.Instruction) {
			if mu, ok := in.(*ssa.MapUpdate); ok {
				if ld, ok := mu.Map.(*ssa.UnOp); ok && ld.X == ssa.Value(g) {
					bad = true
				}
			}
			if st, ok := in.(*ssa.Store); ok && st.Addr == ssa.Value(g) {
				bad = true
			}
			if c, ok := in.(ssa.CallInstruction); ok {
				if b, ok := c.Common().Value.(*ssa.Builtin); ok && b.Name() == "delete" {
					if ld, ok := c.Common().Args[0].(*ssa.UnOp); ok && ld.X == ssa.Value(g) {
						bad = true
					}
				}
			}
		})
	}
	if bad {
		return nil
	}
	funcMapCache[g] = out
	return out
}

// tableLookupOf: v is (the value part of) a lookup in a package-level dispatch table; returns the
// table and the key operand.
func (p *Prog) tableLookupOf(v ssa.Value) (map[string]*ssa.Function, ssa.Value) {
	if ex, ok := v.(*ssa.Extract); ok && ex.Index == 0 {
		v = ex.Tuple
	}
	lk, ok := v.(*ssa.Lookup)
	if !ok {
		return nil, nil
	}
	ld, ok := lk.X.(*ssa.UnOp)
	if !ok || ld.Op != token.MUL {
		return nil, nil
	}
	g, ok := ld.X.(*ssa.Global)
	if !ok {
		return nil, nil
	}
	t := p.funcMapLiteral(g)
	if t == nil {
		return nil, nil
	}
	return t, lk.Index
}

// tableCallees: the functions a dynamic call may reach when its function value comes out of a
// dispatch table; eval gives the abstract value of the key (exact entry when it is a constant).
func (p *Prog) tableCallees(call ssa.CallInstruction, eval func(ssa.Value) AV) []*ssa.Function {
	t, key := p.tableLookupOf(call.Common().Value)
	if t == nil {
		return nil
	}
	if eval != nil {
		if simTrace {
			fmt.Fprintf(os.Stderr, "simtrace: table key %s = %+v\n", key, eval(key))
		}
		if a := eval(key); a.K == avConst && a.C != nil {
			k := a.C.ExactString()
			if a.C.Kind() == constant.String && strings.HasPrefix(constant.StringVal(a.C), tableEntryKey) {
				k = constant.StringVal(a.C)[len(tableEntryKey):]
			}
			if f, ok := t[k]; ok {
				return []*ssa.Function{f}
			}
			return nil
		}
	}
	var keys []string
	for k := range t {
		keys = append(keys, k)
	}
	sort.Strings(keys)
	var out []*ssa.Function
	for _, k := range keys {
		out = append(out, t[k])
	}
	return out
}

// ---------------------------------------------------------------------------
// package-level tables of records (slice literals of structs with function fields), ranged over
// by the code that applies them: the loop is unrolled (the index is a known constant in every
// iteration) and a call through a field of the current element goes to that element's function

type recordTable struct {
	n     int
	funcs []map[int]*ssa.Function // per element: field index -> function stored in the literal
}

var recordTableCache = map[*ssa.Global]*recordTable{}

// recordTableOf: g is a package-level slice literal that is never assigned or written through
// after initialisation; the functions stored in the fields of its elements.
func (p *Prog) recordTableOf(g *ssa.Global) *recordTable {
	if t, ok := recordTableCache[g]; ok {
		return t
	}
	recordTableCache[g] = nil
	if g.Pkg == nil || !strings.HasPrefix(g.Pkg.Pkg.Path(), modPath) {
		return nil
	}
	pt, ok := g.Type().(*types.Pointer)
	if !ok {
		return nil
	}
	if _, isSlice := pt.Elem().Underlying().(*types.Slice); !isSlice {
		return nil
	}
	init := g.Pkg.Func("init")
	if init == nil {
		return nil
	}
	var arr *ssa.Alloc
	stores := 0
	eachInstr(init, func(in ssa.Instruction) {
		if st, ok := in.(*ssa.Store); ok && st.Addr == ssa.Value(g) {
			stores++
			if sl, ok := st.Val.(*ssa.Slice); ok && sl.Low == nil && sl.High == nil {
				arr, _ = sl.X.(*ssa.Alloc)
			}
		}
	})
	if stores != 1 || arr == nil {
		return nil
	}
	at, ok := arr.Type().Underlying().(*types.Pointer).Elem().Underlying().(*types.Array)
	if !ok {
		return nil
	}
	t := &recordTable{n: int(at.Len())}
	for i := 0; i < t.n; i++ {
		t.funcs = append(t.funcs, map[int]*ssa.Function{})
	}
	for _, ref := range *arr.Referrers() {
		ia, ok := ref.(*ssa.IndexAddr)
		if !ok {
			continue
		}
		k, isConst := constInt(ia.Index)
		if !isConst || k < 0 || int(k) >= t.n {
			return nil
		}
		for _, r2 := range *ia.Referrers() {
			fa, ok := r2.(*ssa.FieldAddr)
			if !ok {
				continue
			}
			for _, r3 := range *fa.Referrers() {
				if st, ok := r3.(*ssa.Store); ok && st.Addr == ssa.Value(fa) {
					if fs := p.funcValueTargets(st.Val, 1); len(fs) == 1 {
						t.funcs[k][fa.Field] = fs[0]
					}
				}
			}
		}
	}
	// never written after initialisation
	for fn := range p.Funcs {
		if fn.Pkg != g.Pkg || fn.Blocks == nil || fn.Name() == "init" {
			continue
		}
		written := false
		eachInstr(fn, func(in ssa.Instruction) {
			st, ok := in.(*ssa.Store)
			if !ok {
				return
			}
			if st.Addr == ssa.Value(g) {
				written = true
			}
			addr := st.Addr
			if fa, ok := addr.(*ssa.FieldAddr); ok {
				addr = fa.X
			}
			if ia, ok := addr.(*ssa.IndexAddr); ok {
				if ld, ok := ia.X.(*ssa.UnOp); ok && ld.X == ssa.Value(g) {
					written = true
				}
			}
		})
		if written {
			return nil
		}
	}
	recordTableCache[g] = t
	return t
}

// tableOfSlice: v is the loaded value of such a table.
func (p *Prog) tableOfSlice(v ssa.Value) *recordTable {
	ld, ok := v.(*ssa.UnOp)
	if !ok || ld.Op != token.MUL {
		return nil
	}
	g, ok := ld.X.(*ssa.Global)
	if !ok {
		return nil
	}
	return p.recordTableOf(g)
}

// rangeIndexOverTable: x is the increment `i+1` of the index of a `for range` loop over a record
// table (the hidden index starts at -1 and is compared with the table's length).
var rangeIndexCacheT = map[*ssa.BinOp]bool{}

func (p *Prog) rangeIndexOverTable(x *ssa.BinOp) bool {
	if x.Op != token.ADD {
		return false
	}
	if v, ok := rangeIndexCacheT[x]; ok {
		return v
	}
	v := p.rangeIndexOverTable1(x)
	rangeIndexCacheT[x] = v
	return v
}

func (p *Prog) rangeIndexOverTable1(x *ssa.BinOp) bool {
	phi, ok := x.X.(*ssa.Phi)
	if !ok || len(phi.Edges) != 2 {
		return false
	}
	if one, ok := constInt(x.Y); !ok || one != 1 {
		return false
	}
	start, back := false, false
	for _, e := range phi.Edges {
		if c, ok := constInt(e); ok && c == -1 {
			start = true
		}
		if e == ssa.Value(x) {
			back = true
		}
	}
	if !start || !back {
		return false
	}
	for _, ref := range *x.Referrers() {
		cmp, ok := ref.(*ssa.BinOp)
		if !ok || cmp.Op != token.LSS || cmp.X != ssa.Value(x) {
			continue
		}
		if c, ok := cmp.Y.(*ssa.Call); ok {
			if b, ok := c.Call.Value.(*ssa.Builtin); ok && b.Name() == "len" && p.tableOfSlice(c.Call.Args[0]) != nil {
				return true
			}
		}
	}
	return false
}

// tableElemCallee: the called value is a function field of the current element of a record table
// (check.violated where check is configChecks[i], i known).
func (s *Sim) tableElemCallee(st *State, v ssa.Value) *ssa.Function {
	var idxAddr *ssa.IndexAddr
	field := -1
	switch x := v.(type) {
	case *ssa.Field: // field of a copy of the element
		if ld, ok := x.X.(*ssa.UnOp); ok && ld.Op == token.MUL {
			idxAddr, _ = ld.X.(*ssa.IndexAddr)
			field = x.Field
		}
	case *ssa.UnOp: // load through the element's address
		if x.Op == token.MUL {
			if fa, ok := x.X.(*ssa.FieldAddr); ok {
				idxAddr, _ = fa.X.(*ssa.IndexAddr)
				field = fa.Field
				// the loop variable: a local that holds a copy of the current element
				if al, ok := fa.X.(*ssa.Alloc); ok {
					n := 0
					for _, ref := range *al.Referrers() {
						if st, ok := ref.(*ssa.Store); ok && st.Addr == ssa.Value(al) {
							n++
							if ld, ok := st.Val.(*ssa.UnOp); ok && ld.Op == token.MUL {
								idxAddr, _ = ld.X.(*ssa.IndexAddr)
							}
						}
					}
					if n != 1 {
						idxAddr = nil
					}
				}
			}
		}
	}
	if idxAddr == nil {
		return nil
	}
	t := s.p.tableOfSlice(idxAddr.X)
	if t == nil {
		return nil
	}
	a := s.eval(st, idxAddr.Index)
	if a.K != avConst || a.C.Kind() != constant.Int {
		return nil
	}
	k, ok := constant.Int64Val(a.C)
	if !ok || k < 0 || int(k) >= t.n {
		return nil
	}
	return t.funcs[k][field]
}

// pureLibCall folds calls of side-effect free standard-library helpers whose arguments are known
// constants (strings.ToLower, TrimPrefix, HasPrefix ..., strconv.Atoi).
func (s *Sim) pureLibCall(st *State, call ssa.CallInstruction, callee *ssa.Function) []*State {
	args := call.Common().Args
	str := func(i int) (string, bool) {
		if i >= len(args) {
			return "", false
		}
		a := s.eval(st, args[i])
		if a.K == avConst && a.C != nil && a.C.Kind() == constant.String {
			return constant.StringVal(a.C), true
		}
		return "", false
	}
	setS := func(v string) []*State {
		SetCallResult(st, call, AV{K: avConst, C: constant.MakeString(v)})
		return []*State{st}
	}
	setB := func(v bool) []*State {
		SetCallResult(st, call, avBool(v))
		return []*State{st}
	}
	switch callee.String() {
	case "strings.ToLower":
		if a, ok := str(0); ok {
			return setS(strings.ToLower(a))
		}
	case "strings.ToUpper":
		if a, ok := str(0); ok {
			return setS(strings.ToUpper(a))
		}
	case "strings.TrimSpace":
		if a, ok := str(0); ok {
			return setS(strings.TrimSpace(a))
		}
	case "strings.TrimPrefix":
		if a, ok := str(0); ok {
			if b, ok := str(1); ok {
				return setS(strings.TrimPrefix(a, b))
			}
		}
	case "strings.TrimSuffix":
		if a, ok := str(0); ok {
			if b, ok := str(1); ok {
				return setS(strings.TrimSuffix(a, b))
			}
		}
	case "strings.HasPrefix":
		if a, ok := str(0); ok {
			if b, ok := str(1); ok {
				return setB(strings.HasPrefix(a, b))
			}
		}
	case "strings.HasSuffix":
		if a, ok := str(0); ok {
			if b, ok := str(1); ok {
				return setB(strings.HasSuffix(a, b))
			}
		}
	case "strings.EqualFold":
		if a, ok := str(0); ok {
			if b, ok := str(1); ok {
				return setB(strings.EqualFold(a, b))
			}
		}
	case "strconv.Atoi":
		if a, ok := str(0); ok {
			if n, err := strconv.Atoi(a); err == nil {
				SetCallResult(st, call, avTup(avInt(int64(n)), AV{K: avNil}))
			} else {
				SetCallResult(st, call, avTup(avInt(0), AV{K: avNonNil}))
			}
			return []*State{st}
		}
	}
	return nil
}

// wrapToType: the value an integer constant has after conversion to a sized integer type.
func wrapToType(c constant.Value, t types.Type) constant.Value {
	b, ok := t.Underlying().(*types.Basic)
	if !ok {
		return c
	}
	v, exact := constant.Int64Val(c)
	if !exact {
		return c
	}
	switch b.Kind() {
	case types.Uint8:
		return constant.MakeInt64(int64(uint8(v)))
	case types.Int8:
		return constant.MakeInt64(int64(int8(v)))
	case types.Uint16:
		return constant.MakeInt64(int64(uint16(v)))
	case types.Int16:
		return constant.MakeInt64(int64(int16(v)))
	case types.Uint32:
		return constant.MakeInt64(int64(uint32(v)))
	case types.Int32:
		return constant.MakeInt64(int64(int32(v)))
	}
	return c
}
