package main

// C14 — schema-change events reach every registered client exactly once, and only those.
//
//  registry        Proxy.eventClients is only added to through the REGISTER arm, under a
//                  test that the requested type is SCHEMA_CHANGE, with the registering
//                  connection; it is removed from when the connection closes and at Close
//  fan-out         Proxy.OnEvent writes only in the SchemaChangeEvent arm: one frame per
//                  ranged client, on stream -1, carrying the event's message
//  cluster-dispatch every event received from the control connection reaches the type
//                  dispatch (no path skips it); a schema change notifies every listener
//                  once with that message; topology/status events notify nobody
//  subscription    the proxy is registered as a cluster listener; control connections
//                  register for all three event kinds on both handshake paths, and backend
//                  EVENT frames go to the event handler, never to a pending request

import (
	"fmt"
	"go/ast"
	"go/constant"
	"go/token"
	"go/types"
	"sort"
	"strings"

	"golang.org/x/tools/go/ssa"
)

func init() { register("C14", checkC14) }

func checkC14(p *Prog, r *Report) {
	requireRecognisedDispatch(p)
	r.NotCov = append(r.NotCov,
		"ordering/interleaving of events with client connects and disconnects; duplicate suppression in Cluster.addListener (its loop is a no-op, irrelevant while Listen(proxy) is called once)",
		"delivery by TCP")
	c14Registry(p, r)
	c14FanOut(p, r)
	c14ClusterDispatch(p, r, "C14.cluster-dispatch")
	c14Subscription(p, r)
	c14Handoff(p, r)
	controlConnClosedOnError(p, r, "C14.rejected-conn-closed")
}

// controlConnClosedOnError: a control connection that was opened (and has registered for events
// during its handshake) but is then refused - wrong negotiated version, hosts query failed, its
// host not in the system tables - is closed on every such path.  Left open it keeps feeding events
// into the cluster: after the fail-over every schema change is delivered twice.
func controlConnClosedOnError(p *Prog, r *Report, rule string) {
	r.Rule(rule, "every path of the cluster's connect that returns an error after the connection was opened closes that connection (the deferred clean-up sees the error that is returned); a path that returns nil leaves it open")
	connClosedOnError(p, r, rule, p.Named("proxycore", "Cluster"), "connect returns an error at %s but leaves the connection it opened (already registered for events) open: it keeps delivering events to the cluster next to the connection that replaces it, and every schema change reaches the clients twice")
}

// connClosedOnError: the method of owner that opens a backend connection (ConnectClient) closes
// it on every path that returns an error afterwards.
func connClosedOnError(p *Prog, r *Report, rule string, cl *types.Named, leakMsg string) {
	var fn *ssa.Function
	for _, m := range p.methodsOf(cl) {
		if callsDirectly(m, func(c ssa.CallInstruction) bool { return callIsFunc(c, "proxycore", "ConnectClient") }) {
			fn = m
		}
	}
	if fn == nil {
		fatalf("rule %s: the method of %s that opens a backend connection was not found", rule, cl.Obj().Name())
	}
	s := newSim(p)
	helpers := map[*ssa.Function]bool{}
	for _, h := range privateHelpersOf(p, fn) {
		helpers[h] = h != fn
	}
	// (closures of the function, and the private helpers its phases were moved into)
	s.Inline = func(f *ssa.Function) bool { return f.Parent() == fn || helpers[f] }
	errPair := func(st *State, call ssa.CallInstruction, okv AV, n int) []*State {
		okSt, bad := st.clone(), st.clone()
		switch n {
		case 1:
			SetCallResult(okSt, call, AV{K: avNil})
			SetCallResult(bad, call, AV{K: avNonNil})
		case 2:
			SetCallResult(okSt, call, avTup(okv, AV{K: avNil}))
			SetCallResult(bad, call, avTup(top, AV{K: avNonNil}))
		case 3:
			SetCallResult(okSt, call, avTup(okv, top, AV{K: avNil}))
			SetCallResult(bad, call, avTup(top, top, AV{K: avNonNil}))
		}
		return []*State{okSt, bad}
	}
	s.Model = func(sm *Sim, st *State, call ssa.CallInstruction, callee *ssa.Function) []*State {
		if callIsFunc(call, "proxycore", "ConnectClient") {
			okSt, bad := st.clone(), st.clone()
			okSt.aux["opened"] = "1"
			SetCallResult(okSt, call, avTup(avSymbol("conn"), AV{K: avNil}))
			SetCallResult(bad, call, avTup(AV{K: avNil}, AV{K: avNonNil}))
			return []*State{okSt, bad}
		}
		if callee != nil && callee.Name() == "Close" && recvNamed(callee) != nil && recvNamed(callee).Obj().Name() == "ClientConn" {
			if a := sm.eval(st, call.Common().Args[0]); a.K == avSym && a.S == "conn" {
				st.addEff("close")
			}
			SetCallResult(st, call, top)
			return []*State{st}
		}
		if callee != nil && callee.Signature.Results().Len() >= 1 && p.InRepo(callee) && callee.Parent() != fn && !helpers[callee] {
			res := callee.Signature.Results()
			if types.Identical(res.At(res.Len()-1).Type(), errType) {
				return errPair(st, call, AV{K: avNonNil}, res.Len())
			}
		}
		return nil
	}
	outs := s.Run(fn, newState())
	r.count("sim_states", s.Nodes)
	var bad []string
	nerr := 0
	for _, o := range outs {
		if o.Panic || o.St.aux["opened"] != "1" {
			continue
		}
		errAV := o.Ret
		if n := fn.Signature.Results().Len(); n > 1 {
			errAV = o.Ret.elem(n - 1)
		}
		switch errAV.K {
		case avNil:
			if o.St.eff["close"] > 0 {
				bad = append(bad, fmt.Sprintf("the connection is closed although connect succeeds (path ending at %s)", p.Pos(o.Pos)))
			}
		case avNonNil:
			nerr++
			if o.St.eff["close"] == 0 {
				bad = append(bad, fmt.Sprintf(leakMsg, p.Pos(o.Pos)))
			}
		}
	}
	if nerr < 1 {
		bad = append(bad, fmt.Sprintf("only %d error paths after the connection was opened were found", nerr))
	}
	r.check(len(bad) == 0, rule, cl.Obj().Name()+"."+fn.Name(), p.Pos(fn.Pos()), fmt.Sprintf("%d error paths after open, each closes the connection", nerr), strings.Join(dedupe(bad), " || "))
}

// c14Handoff: the hand-over of an event frame from the control connection's reader to the
// cluster's control loop cannot lose the frame.
func c14Handoff(p *Prog, r *Report) {
	const rule = "C14.event-handoff"
	r.Rule(rule, "the control connection's event handler hands every event frame to the control loop: the channel send is unconditional, or one arm of a blocking select whose other arms only give up when the cluster is shutting down; no default arm, no timer, no drop when a queue is full")
	cl := p.Named("proxycore", "Cluster")
	evF := p.Field("proxycore", "Cluster", "events")
	var handlers []*ssa.Function
	for _, m := range p.methodsOf(cl) {
		// the EventHandler implementation: takes the frame and nothing else
		if len(m.Params) == 2 && typeIs(m.Params[1].Type(), "frame", "Frame") && m.Signature.Results().Len() == 0 {
			handlers = append(handlers, m)
		}
	}
	if len(handlers) == 0 {
		fatalf("rule %s: the cluster's event handler was not found", rule)
	}
	for _, h := range handlers {
		var bad []string
		sends := 0
		for _, f := range withCallees(p, h, 1) {
			if f != h && recvNamed(f) != cl {
				continue
			}
			eachInstr(f, func(in ssa.Instruction) {
				switch x := in.(type) {
				case *ssa.Send:
					if fl, _ := loadedField(x.Chan); fl == evF {
						sends++
						// unconditional within the handler?
						for _, ct := range dominatingConds(x.Block()) {
							_ = ct
							bad = append(bad, p.Pos(x.Pos())+": the event is handed over only under a condition")
							break
						}
					}
				case *ssa.Select:
					for _, st := range x.States {
						if fl, _ := loadedField(st.Chan); fl != evF || st.Dir != types.SendOnly {
							continue
						}
						sends++
						if !x.Blocking {
							bad = append(bad, p.Pos(x.Pos())+": the event is handed over with a non-blocking send (select with default): when the control loop is busy and the queue is full the frame is dropped and no client ever sees that schema change")
						}
						for _, o := range x.States {
							if o == st {
								continue
							}
							okAlt := false
							if o.Dir == types.RecvOnly {
								for _, oo := range origins(o.Chan) {
									if c, ok := oo.(*ssa.Call); ok && (c.Call.IsInvoke() && c.Call.Method.Name() == "Done") {
										okAlt = true // ctx.Done()
									}
									if fl, _ := loadedField(oo); fl != nil && (strings.Contains(strings.ToLower(fl.Name()), "clos") || strings.Contains(strings.ToLower(fl.Name()), "done")) {
										okAlt = true
									}
								}
							}
							if !okAlt {
								bad = append(bad, p.Pos(x.Pos())+": the hand-over competes with an arm that is not a shutdown signal: the frame can be dropped while the cluster is running")
							}
						}
					}
				}
			})
		}
		if sends == 0 {
			bad = append(bad, "the handler does not hand the frame to the control loop's channel")
		}
		r.check(len(bad) == 0, rule, "Cluster."+h.Name(), p.Pos(h.Pos()), fmt.Sprintf("%d hand-over site(s)", sends), strings.Join(dedupe(bad), " || "))
	}
}

func c14Registry(p *Prog, r *Report) {
	const rule = "C14.registry"
	r.Rule(rule, "clients are added to the event registry only from the REGISTER arm under `type == SCHEMA_CHANGE`, with the registering connection itself; they are deleted when their connection closes and when the proxy closes")
	ecF := p.Field("proxy", "Proxy", "eventClients")
	cr := getClientRoles(p)
	recv := p.methodOf(cr.cl, "Receive")
	schema := p.constOf("primitive", "EventTypeSchemaChange").ExactString()
	var adders, deleters []*ssa.Function
	var bad []string
	for _, fn := range p.ScopedFuncs("proxy") {
		eachCall(fn, func(c ssa.CallInstruction) {
			args := c.Common().Args
			isEC := func() bool {
				if len(args) == 0 {
					return false
				}
				fa, ok := args[0].(*ssa.FieldAddr)
				return ok && fieldOfAddr(fa) == ecF
			}
			switch {
			case (callIsMethod(c, "sync", "Map", "Store") || callIsMethod(c, "sync", "Map", "LoadOrStore")) && isEC():
				adders = append(adders, fn)
				// key is the function's client parameter
				if _, isPar := args[1].(*ssa.MakeInterface); isPar {
					if mi := args[1].(*ssa.MakeInterface); true {
						if _, ok := mi.X.(*ssa.Parameter); !ok {
							bad = append(bad, p.Pos(c.Pos())+": something other than the registering connection is stored")
						}
					}
				}
			case (callIsMethod(c, "sync", "Map", "Delete") || callIsMethod(c, "sync", "Map", "LoadAndDelete")) && isEC():
				deleters = append(deleters, fn)
			}
		})
	}
	if len(adders) != 1 {
		bad = append(bad, fmt.Sprintf("%d functions add to the event registry (1 expected)", len(adders)))
	}
	// call sites of the adder
	for _, add := range adders {
		sites := 0
		for _, fn := range p.ScopedFuncs("proxy") {
			eachCall(fn, func(c ssa.CallInstruction) {
				if c.Common().StaticCallee() != add {
					return
				}
				sites++
				if !onlyCalledFrom(p, fn, recv, 3) {
					bad = append(bad, p.Pos(c.Pos())+": client registered for events outside the frame handler ("+fn.Name()+")")
					return
				}
				// argument: the receiving connection (the receiver of the client method)
				okArg := false
				for _, a := range c.Common().Args {
					if len(fn.Params) > 0 && a == ssa.Value(fn.Params[0]) && recvNamed(fn) == cr.cl {
						okArg = true
					}
				}
				if !okArg {
					bad = append(bad, p.Pos(c.Pos())+": a connection other than the one that sent REGISTER is registered")
				}
				inRegister := guardHolds(p, c.Block(), func(ct condTruth) bool {
					if ex, ok := ct.Cond.(*ssa.Extract); ok && ct.Truth {
						if ta, ok := ex.Tuple.(*ssa.TypeAssert); ok && typeIs(ta.AssertedType, "message", "Register") {
							return true
						}
					}
					return false
				}, 3)
				schemaTest := guardHolds(p, c.Block(), func(ct condTruth) bool {
					if bo, ok := ct.Cond.(*ssa.BinOp); ok && bo.Op == token.EQL && ct.Truth {
						for _, side := range []ssa.Value{bo.X, bo.Y} {
							if k, ok := side.(*ssa.Const); ok && k.Value != nil && k.Value.Kind() == constant.String && k.Value.ExactString() == schema {
								return true
							}
						}
					}
					return false
				}, 3)
				if !inRegister {
					bad = append(bad, p.Pos(c.Pos())+": registration outside the REGISTER arm")
				}
				if !schemaTest {
					bad = append(bad, p.Pos(c.Pos())+": registration is not conditional on SCHEMA_CHANGE being requested (clients registered only for topology/status events would receive schema events)")
				}
			})
		}
		if sites == 0 {
			bad = append(bad, "nobody calls "+add.Name()+": no client can ever be registered")
		}
	}
	// deletion when a connection closes: Closing -> ... -> Delete
	closing := p.methodOf(cr.cl, "Closing")
	reach := reachableFrom(p, []*ssa.Function{closing}, func(f *ssa.Function) bool { return p.InRepo(f) })
	okClose := false
	for _, d := range deleters {
		if _, ok := reach[d]; ok {
			okClose = true
		}
	}
	if !okClose {
		bad = append(bad, "a closing client connection is not removed from the event registry")
	}
	r.check(len(bad) == 0, rule, "Proxy.eventClients", p.Pos(ecF.Pos()), fmt.Sprintf("%d adder, %d deleters", len(adders), len(deleters)), strings.Join(dedupe(bad), " || "))
}

func c14FanOut(p *Prog, r *Report) {
	const rule = "C14.fan-out"
	r.Rule(rule, "Proxy.OnEvent writes to clients only for SchemaChangeEvent: exactly one Write per ranged registry entry, the frame is NewFrame(version, -1, event.Message), one frame object per client, encoded with that client's codec")
	px := p.Named("proxy", "Proxy")
	fn := p.methodOf(px, "OnEvent")
	ecF := p.Field("proxy", "Proxy", "eventClients")
	var bad []string
	// writes only under the SchemaChangeEvent arm
	var rangeCall *ssa.Call
	inSchemaArm := func(b *ssa.BasicBlock) bool {
		for _, ct := range dominatingConds(b) {
			if ex, ok := ct.Cond.(*ssa.Extract); ok && ct.Truth {
				if ta, ok := ex.Tuple.(*ssa.TypeAssert); ok && typeIs(ta.AssertedType, "proxycore", "SchemaChangeEvent") {
					return true
				}
			}
		}
		return false
	}
	// OnEvent, its closures, and private helpers the fan-out was split into (with their sender objects)
	var fanFns []*ssa.Function
	{
		seenF := map[*ssa.Function]bool{}
		add := func(f *ssa.Function) {
			for _, g := range withSenders(p, f) {
				if !seenF[g] {
					seenF[g] = true
					fanFns = append(fanFns, g)
				}
			}
		}
		add(fn)
		for _, h := range withCallees(p, fn, 2) {
			if h != fn && h.Pkg == fn.Pkg && h.Parent() == nil && onlyCalledFrom(p, h, fn, 3) {
				add(h)
			}
		}
	}
	helperOf := map[*ssa.Function]bool{}
	for _, f := range fanFns {
		helperOf[rootFn(f)] = true
	}
	for _, f := range withClosures(fn) {
		eachCall(f, func(c ssa.CallInstruction) {
			if callIsMethod(c, "sync", "Map", "Range") {
				if fa, ok := c.Common().Args[0].(*ssa.FieldAddr); ok && fieldOfAddr(fa) == ecF {
					if !inSchemaArm(c.Block()) {
						bad = append(bad, p.Pos(c.Pos())+": registered clients are written to for an event that is not a schema change (backend topology would leak to clients)")
					} else {
						rangeCall, _ = c.(*ssa.Call)
					}
				}
			}
			if isConnWrite(c) && f == fn {
				bad = append(bad, p.Pos(c.Pos())+": a client is written to outside the registry iteration")
			}
		})
	}
	if rangeCall == nil {
		r.bad(rule, "Proxy.OnEvent", p.Pos(fn.Pos()), "the event is not fanned out over the event registry")
		return
	}
	inSchema := false
	for _, ct := range dominatingConds(rangeCall.Block()) {
		if ex, ok := ct.Cond.(*ssa.Extract); ok && ct.Truth {
			if ta, ok := ex.Tuple.(*ssa.TypeAssert); ok && typeIs(ta.AssertedType, "proxycore", "SchemaChangeEvent") {
				inSchema = true
			}
		}
	}
	if !inSchema {
		bad = append(bad, "fan-out is not restricted to SchemaChangeEvent (topology/status events would be forwarded to clients)")
	}
	// frame: NewFrame(_, -1, evt.Message)
	okFrame := false
	for _, f := range fanFns {
		eachCall(f, func(c ssa.CallInstruction) {
			if callIsFunc(c, "frame", "NewFrame") {
				a := c.Common().Args
				if k, ok := constInt(a[1]); ok && k == -1 {
					for _, o := range originsInter(p, a[2], 2) {
						if fld, _ := loadedField(o); fld != nil && fld.Name() == "Message" {
							okFrame = true
						}
					}
				}
			}
		})
	}
	if !okFrame {
		bad = append(bad, "the forwarded frame is not NewFrame(version, -1, event.Message)")
	}
	// each client gets a frame object of its own: the encoder writes into the frame's header
	// (body length, flags) and runs on each client's writer goroutine
	for _, f := range withClosures(fn) {
		eachCall(f, func(c ssa.CallInstruction) {
			cm := c.Common()
			if !cm.IsInvoke() || cm.Method.Name() != "EncodeFrame" {
				return
			}
			for _, o := range origins(cm.Args[0]) {
				fv, ok := o.(*ssa.FreeVar)
				if !ok {
					continue
				}
				// where was the captured frame built?  it must be inside the per-client callback
				enc := f
				for enc != nil && enc.Parent() != nil {
					idx := -1
					for i, v := range enc.FreeVars {
						if v == fv {
							idx = i
						}
					}
					if idx < 0 {
						break
					}
					// find the binding in the parent
					var bound ssa.Value
					eachInstr(enc.Parent(), func(in ssa.Instruction) {
						if mc, ok := in.(*ssa.MakeClosure); ok && mc.Fn == ssa.Value(enc) && idx < len(mc.Bindings) {
							bound = mc.Bindings[idx]
						}
					})
					if bound == nil {
						break
					}
					shared := false
					for _, bo := range origins(bound) {
						if pfv, ok := bo.(*ssa.FreeVar); ok {
							fv = pfv
							shared = true
						}
					}
					if !shared {
						// built in enc.Parent(): fine if that is the Range callback (or deeper), not OnEvent itself
						if enc.Parent() == fn {
							bad = append(bad, p.Pos(c.Pos())+": one frame object is built per event and encoded by every registered client's writer goroutine: the encoder writes the frame's header (body length), concurrently for all clients")
						}
						break
					}
					enc = enc.Parent()
					if enc == fn {
						bad = append(bad, p.Pos(c.Pos())+": one frame object is built per event and encoded by every registered client's writer goroutine: the encoder writes the frame's header (body length), concurrently for all clients")
						break
					}
				}
			}
		})
	}
	// callback: exactly one Write per entry, iteration continues
	if mc, ok := rangeCall.Call.Args[1].(*ssa.MakeClosure); ok {
		cb := mc.Fn.(*ssa.Function)
		s := newSim(p)
		s.Inline = func(f *ssa.Function) bool { return f != fn && helperOf[f] && f.Parent() == nil }
		s.Effect = func(call ssa.CallInstruction, callee *ssa.Function) []string {
			if isConnWrite(call) {
				return []string{"write"}
			}
			return nil
		}
		for _, o := range s.Run(cb, newState()) {
			if o.Panic {
				continue
			}
			if o.St.eff["write"] != 1 {
				bad = append(bad, fmt.Sprintf("%d frames written to one registered client per event", o.St.eff["write"]))
			}
			if b, ok := o.Ret.isBool(); !ok || !b {
				bad = append(bad, "the fan-out may stop before every registered client was written to")
			}
		}
		r.count("sim_states", s.Nodes)
		// written connection: the ranged key's conn
		eachCall(cb, func(c ssa.CallInstruction) {
			if isConnWrite(c) {
				okConn := false
				for _, o := range origins(c.Common().Args[0]) {
					_ = o
				}
				if strings.HasSuffix(fieldPath(c.Common().Args[0]), ".conn") {
					okConn = true
				}
				if !okConn {
					bad = append(bad, "the event is written to something other than the registered client's connection")
				}
			}
		})
	} else {
		bad = append(bad, "fan-out callback is not a closure literal")
	}
	r.check(len(bad) == 0, rule, "Proxy.OnEvent", p.Pos(fn.Pos()), "", strings.Join(dedupe(bad), " || "))
}

// selectCase describes the control loop's select over its channels.
type loopSelect struct {
	sel   *ssa.Select
	cases map[string]int // name -> index
}

func findLoopSelect(p *Prog, fn *ssa.Function, want string, isCase func(st *ssa.SelectState) string) *loopSelect {
	var out *loopSelect
	eachInstr(fn, func(in ssa.Instruction) {
		sel, ok := in.(*ssa.Select)
		if !ok {
			return
		}
		ls := &loopSelect{sel: sel, cases: map[string]int{}}
		for i, st := range sel.States {
			if n := isCase(st); n != "" {
				ls.cases[n] = i
			}
		}
		if _, ok := ls.cases[want]; ok {
			out = ls
		}
	})
	return out
}

// c14ClusterDispatch: Cluster.stayConnected event handling.
func c14ClusterDispatch(p *Prog, r *Report, rule string) {
	r.Rule(rule, "in the cluster's control loop every event taken from the control connection reaches the dispatch on its message type on every path; a SchemaChangeEvent notifies each listener once with that message; topology and status events never notify listeners")
	cl := p.Named("proxycore", "Cluster")
	fn := p.methodOf(cl, "stayConnected")
	evF := p.Field("proxycore", "Cluster", "events")
	lsF := p.Field("proxycore", "Cluster", "listeners")
	isEvCase := func(st *ssa.SelectState) string {
		if f, _ := loadedField(st.Chan); f == evF {
			return "events"
		}
		return ""
	}
	ls := findLoopSelect(p, fn, "events", isEvCase)
	// the loop state may live in a struct whose methods hold the selects
	keeperFns := keeperFuncs(p, fn, keeperType(p, fn))
	if ls == nil {
		for _, kf := range keeperFns {
			if l2 := findLoopSelect(p, kf, "events", isEvCase); l2 != nil {
				ls = l2
			}
		}
	}
	if ls == nil {
		for _, h := range withCallees(p, fn, 2) {
			if h != fn && h.Parent() == nil && recvNamed(h) == cl && onlyCalledFrom(p, h, fn, 3) {
				if l2 := findLoopSelect(p, h, "events", isEvCase); l2 != nil {
					ls = l2
				}
			}
		}
	}
	if ls == nil {
		r.bad(rule, "Cluster.stayConnected", p.Pos(fn.Pos()), "the control loop does not receive from the events channel")
		return
	}
	var idxVal ssa.Value
	for _, ref := range *ls.sel.Referrers() {
		if ex, ok := ref.(*ssa.Extract); ok && ex.Index == 0 {
			idxVal = ex
		}
	}
	evIdx := int64(ls.cases["events"])
	var problems []string
	// private helpers the loop's arms were moved into
	helpers := map[*ssa.Function]bool{}
	for _, h := range withCallees(p, fn, 2) {
		if h != fn && h.Parent() == nil && recvNamed(h) == cl && onlyCalledFrom(p, h, fn, 3) && h.Name() != "reconnect" {
			helpers[h] = true
		}
	}
	for _, kf := range keeperFns {
		helpers[kf] = true
		for _, h := range withCallees(p, kf, 1) {
			if h != fn && h.Parent() == nil && recvNamed(h) == cl && h.Name() != "reconnect" && onlyCalledFrom(p, h, fn, 4) {
				helpers[h] = true
			}
		}
	}
	// the loop's header: the loop header of the function with the most ways back to it
	var mainHeader *ssa.BasicBlock
	for _, b := range fn.Blocks {
		if isLoopHeader(b) && (mainHeader == nil || len(b.Preds) > len(mainHeader.Preds)) {
			mainHeader = b
		}
	}
	scan := []*ssa.Function{fn}
	for h := range helpers {
		scan = append(scan, h)
	}
	sort.Slice(scan[1:], func(i, j int) bool { return scan[1+i].String() < scan[1+j].String() })
	s := newSim(p)
	s.Inline = func(f *ssa.Function) bool { return helpers[f] }
	s.OnBranch = func(st *State, cond ssa.Value, truth bool) {
		if bo, ok := cond.(*ssa.BinOp); ok && bo.Op == token.EQL && bo.X == idxVal && truth {
			if k, ok := constInt(bo.Y); ok && k == evIdx {
				st.aux["gotEvent"] = "1"
			}
		}
		if ex, ok := cond.(*ssa.Extract); ok {
			if ta, ok := ex.Tuple.(*ssa.TypeAssert); ok && (ta.Parent() == fn || helpers[ta.Parent()]) &&
				(typeIs(ta.AssertedType, "message", "SchemaChangeEvent") || typeIs(ta.AssertedType, "message", "TopologyChangeEvent") || typeIs(ta.AssertedType, "message", "StatusChangeEvent")) {
				// the dispatch on the event's message type has been reached
				if f, _ := loadedField(ta.X); f != nil && f.Name() == "Message" {
					st.aux["dispatched"] = "1"
				}
			}
		}
	}
	s.OnInstr = func(st *State, in ssa.Instruction) {
		b := in.Block()
		if in == b.Instrs[0] && b == mainHeader {
			if st.aux["gotEvent"] == "1" && st.aux["dispatched"] != "1" {
				problems = append(problems, "an event received from the control connection can be dropped without looking at its type (schema changes arriving on that path never reach the clients)")
			}
			delete(st.aux, "gotEvent")
			delete(st.aux, "dispatched")
		}
	}
	s.Model = func(sm *Sim, st *State, call ssa.CallInstruction, callee *ssa.Function) []*State {
		if callee != nil && callee.Name() == "reconnect" {
			t, f := st.clone(), st.clone()
			SetCallResult(t, call, avBool(true))
			SetCallResult(f, call, avBool(false))
			return []*State{t, f}
		}
		return nil
	}
	s.Run(fn, newState())
	r.count("sim_states", s.Nodes)
	// structure of the arms
	var schemaTA *ssa.TypeAssert
	var otherTAs []*ssa.TypeAssert
	for _, sf := range scan {
		eachInstr(sf, func(in ssa.Instruction) {
			if ta, ok := in.(*ssa.TypeAssert); ok && ta.CommaOk {
				switch {
				case typeIs(ta.AssertedType, "message", "SchemaChangeEvent"):
					schemaTA = ta
				case typeIs(ta.AssertedType, "message", "TopologyChangeEvent"), typeIs(ta.AssertedType, "message", "StatusChangeEvent"):
					otherTAs = append(otherTAs, ta)
				}
			}
		})
	}
	okExtract := func(ta *ssa.TypeAssert, idx int) ssa.Value {
		for _, ref := range *ta.Referrers() {
			if ex, ok := ref.(*ssa.Extract); ok && ex.Index == idx {
				return ex
			}
		}
		return nil
	}
	if schemaTA == nil {
		problems = append(problems, "no arm for SchemaChangeEvent")
	} else {
		okV, msgV := okExtract(schemaTA, 1), okExtract(schemaTA, 0)
		notified := 0
		afn := schemaTA.Parent() // the function holding the arms (the loop itself or a helper)
		eachCall(afn, func(c ssa.CallInstruction) {
			cm := c.Common()
			if !cm.IsInvoke() || cm.Method.Name() != "OnEvent" || !recvNamedIs(cm.Method, "proxycore", "ClusterListener") {
				return
			}
			if okV == nil || !guardedBy(c.Block(), okV, true) {
				return
			}
			notified++
			// receiver: element of c.listeners in a range loop
			okRecv := false
			if ld, ok := cm.Value.(*ssa.UnOp); ok {
				if ia, ok := ld.X.(*ssa.IndexAddr); ok {
					if f, _ := loadedField(ia.X); f == lsF {
						// the index is the loop variable of a range over the listener list
						if add, ok := ia.Index.(*ssa.BinOp); ok && add.Op == token.ADD {
							if phi, ok := add.X.(*ssa.Phi); ok && phi.Comment == "rangeindex" {
								okRecv = true
							}
						}
					}
				}
			}
			if !okRecv {
				problems = append(problems, p.Pos(c.Pos())+": schema change is not sent to each element of the listener list")
			}
			// argument: &SchemaChangeEvent{Message: msg}
			okArg := false
			for _, o := range origins(cm.Args[0]) {
				if al, ok := o.(*ssa.Alloc); ok && typeIs(al.Type(), "proxycore", "SchemaChangeEvent") {
					for _, ref := range *al.Referrers() {
						if fa, ok := ref.(*ssa.FieldAddr); ok && fieldOfAddr(fa).Name() == "Message" {
							for _, rr := range *fa.Referrers() {
								if st, ok := rr.(*ssa.Store); ok && st.Val == msgV {
									okArg = true
								}
							}
						}
					}
				}
			}
			if !okArg {
				problems = append(problems, p.Pos(c.Pos())+": listeners are not given the received schema-change message")
			}
		})
		// alternatively the arm calls a Cluster helper that ranges over the listeners and
		// invokes OnEvent on each with its argument (sendEvent)
		if notified == 0 {
			eachCall(afn, func(c ssa.CallInstruction) {
				callee := c.Common().StaticCallee()
				if callee == nil || recvNamed(callee) != cl || okV == nil || !guardedBy(c.Block(), okV, true) {
					return
				}
				// helper: for each element of c.listeners: elem.OnEvent(param)
				fans := false
				eachCall(callee, func(hc ssa.CallInstruction) {
					hm := hc.Common()
					if !hm.IsInvoke() || hm.Method.Name() != "OnEvent" || !recvNamedIs(hm.Method, "proxycore", "ClusterListener") {
						return
					}
					if ld, ok := hm.Value.(*ssa.UnOp); ok {
						if ia, ok := ld.X.(*ssa.IndexAddr); ok {
							if f, _ := loadedField(ia.X); f == lsF {
								if add, ok := ia.Index.(*ssa.BinOp); ok && add.Op == token.ADD {
									if phi, ok := add.X.(*ssa.Phi); ok && phi.Comment == "rangeindex" {
										if _, isPar := hm.Args[0].(*ssa.Parameter); isPar {
											fans = true
										}
									}
								}
							}
						}
					}
				})
				if !fans {
					return
				}
				// the argument is &SchemaChangeEvent{Message: msg}
				for _, a := range c.Common().Args {
					for _, o := range origins(a) {
						if al, ok := o.(*ssa.Alloc); ok && typeIs(al.Type(), "proxycore", "SchemaChangeEvent") {
							for _, ref := range *al.Referrers() {
								if fa, ok := ref.(*ssa.FieldAddr); ok && fieldOfAddr(fa).Name() == "Message" {
									for _, rr := range *fa.Referrers() {
										if st, ok := rr.(*ssa.Store); ok && st.Val == msgV {
											notified++
										}
									}
								}
							}
						}
					}
				}
			})
		}
		if notified != 1 {
			problems = append(problems, fmt.Sprintf("%d notification sites in the SchemaChangeEvent arm (one per listener expected)", notified))
		}
	}
	for _, ta := range otherTAs {
		okV := okExtract(ta, 1)
		eachCall(ta.Parent(), func(c ssa.CallInstruction) {
			cm := c.Common()
			if cm.IsInvoke() && cm.Method.Name() == "OnEvent" && okV != nil && guardedBy(c.Block(), okV, true) {
				problems = append(problems, p.Pos(c.Pos())+": "+shortType(ta.AssertedType)+" is forwarded to listeners")
			}
		})
	}
	r.check(len(problems) == 0, rule, "Cluster.stayConnected", p.Pos(fn.Pos()), "", strings.Join(dedupe(problems), " || "))
}

func c14Subscription(p *Prog, r *Report) {
	const rule = "C14.subscription"
	r.Rule(rule, "the proxy registers itself as a listener of the cluster; control connections are created with the cluster as event handler and register for all three event kinds after READY and after successful authentication; backend EVENT frames are given to the event handler and never matched against pending requests")
	px := p.Named("proxy", "Proxy")
	connect := p.methodOf(px, "Connect")
	var bad []string
	// Listen(p) with error check
	listens := 0
	eachCall(connect, func(c ssa.CallInstruction) {
		if callIsMethod(c, "proxycore", "Cluster", "Listen") {
			for _, o := range origins(c.Common().Args[1]) {
				if o == ssa.Value(connect.Params[0]) {
					listens++
				}
			}
		}
	})
	if listens != 1 {
		bad = append(bad, fmt.Sprintf("the proxy registers itself as cluster listener %d times (exactly once expected: twice would duplicate every event)", listens))
	}
	// Cluster.connect passes Handler: c
	cl := p.Named("proxycore", "Cluster")
	cconn := p.methodOf(cl, "connect")
	okHandler := false
	for _, lit := range structLits(cconn, func(t types.Type) bool { return typeIs(t, "proxycore", "ClientConnConfig") }) {
		for _, o := range origins(lit["Handler"]) {
			if o == ssa.Value(cconn.Params[0]) {
				okHandler = true
			}
		}
	}
	if !okHandler {
		bad = append(bad, "control connections are created without the cluster as event handler")
	}
	// allEvents has the three kinds
	e, info := p.astGlobalInit("proxycore", "allEvents")
	kinds := map[string]bool{}
	if lit, ok := e.(*ast.CompositeLit); ok {
		for _, el := range lit.Elts {
			if tv, ok := info.Types[el]; ok && tv.Value != nil {
				kinds[constant.StringVal(tv.Value)] = true
			}
		}
	}
	for _, k := range []string{"EventTypeSchemaChange", "EventTypeTopologyChange", "EventTypeStatusChange"} {
		if !kinds[constant.StringVal(p.constOf("primitive", k))] {
			bad = append(bad, "control connections do not register for "+k)
		}
	}
	// Handshake: registerForEvents on READY and on AUTH success when a handler exists
	cc := p.Named("proxycore", "ClientConn")
	hs := p.methodOf(cc, "Handshake")
	// by role: the function that sends REGISTER with allEvents, wherever the handshake code keeps it
	g := p.Global("proxycore", "allEvents")
	var reg *ssa.Function
	for _, f := range p.ScopedFuncs("proxycore") {
		if f.Parent() != nil || strings.Contains(p.fileOf(f), "mock") {
			continue
		}
		eachInstr(f, func(in ssa.Instruction) {
			if ld, ok := in.(*ssa.UnOp); ok && sameGlobal(ld.X, g) {
				reg = f
			}
		})
	}
	if reg == nil {
		bad = append(bad, "no function of the backend handshake registers for allEvents")
	} else {
		// the handshake and the functions only it reaches (helpers, methods of a handshake state struct)
		fam := map[*ssa.Function]bool{hs: true}
		for _, f := range withCallees(p, hs, 3) {
			if f.Pkg == hs.Pkg && f.Parent() == nil && f != reg {
				fam[f] = true
			}
		}
		// a private wrapper (register if there is a handler) takes the role of the function it wraps
		for i := 0; i < 2; i++ {
			cs, only := p.staticCallSites(reg)
			if !only || len(cs) != 1 || cs[0].Parent() == hs || !fam[cs[0].Parent()] {
				break
			}
			reg = cs[0].Parent()
			delete(fam, reg)
		}
		sites := 0
		for f := range fam {
			eachCall(f, func(c ssa.CallInstruction) {
				if c.Common().StaticCallee() == reg {
					sites++
				}
			})
		}
		if sites < 2 {
			bad = append(bad, fmt.Sprintf("Handshake registers for events on %d of its 2 success paths (READY, AUTH_SUCCESS)", sites))
		}
		// every successful way through the handshake of a connection that has an event handler
		// (READY, AUTH_SUCCESS at once, AUTH_SUCCESS after any number of challenges) registers
		bad = append(bad, c14RegisterOnSuccess(p, r, hs, reg, fam)...)
	}
	// ClientConn.Receive: EVENT -> handler
	recv := p.methodOf(cc, "Receive")
	opF := p.Field("frame", "Header", "OpCode")
	s := newSim(p)
	s.Tracked[opF] = true
	s.Tracked[p.Field("proxycore", "ClientConn", "eventHandler")] = true
	s.Effect = func(call ssa.CallInstruction, callee *ssa.Function) []string {
		cm := call.Common()
		if cm.IsInvoke() && cm.Method.Name() == "OnEvent" && recvNamedIs(cm.Method, "proxycore", "EventHandler") {
			return []string{"handler"}
		}
		if callee != nil && callee == getPendingRoles(p).loadAndDelete {
			return []string{"pending"}
		}
		return nil
	}
	s.Model = func(sm *Sim, st *State, call ssa.CallInstruction, callee *ssa.Function) []*State {
		if libDecodeKind(p, call) == "ConvertFromRawFrame" {
			okSt, bad := st.clone(), st.clone()
			SetCallResult(okSt, call, avTup(AV{K: avNonNil}, AV{K: avNil}))
			SetCallResult(bad, call, avTup(AV{K: avNil}, AV{K: avNonNil}))
			return []*State{okSt, bad}
		}
		return nil
	}
	init := newState()
	init.cells[opF] = avC(p.constOf("primitive", "OpCodeEvent"))
	init.cells[p.Field("proxycore", "ClientConn", "eventHandler")] = AV{K: avNonNil}
	for _, o := range s.Run(recv, init) {
		if o.Panic {
			continue
		}
		if o.St.eff["pending"] > 0 {
			bad = append(bad, "an EVENT frame is matched against pending requests")
		}
		if o.Ret.K == avNil && o.St.eff["handler"] != 1 {
			bad = append(bad, fmt.Sprintf("an EVENT frame is given to the event handler %d times", o.St.eff["handler"]))
		}
	}
	r.count("sim_states", s.Nodes)
	r.check(len(bad) == 0, rule, "subscription chain", p.Pos(connect.Pos()), "", strings.Join(dedupe(bad), " || "))
}

// c14RegisterOnSuccess simulates the backend handshake of a connection that has an event handler:
// every path on which Handshake returns a nil error has sent REGISTER (reg) exactly once.  The
// handshake steps (functions of the handshake family that exchange frames with the server or lead
// to reg) are followed; the exchange itself and the authenticator are opaque and may answer anything.
func c14RegisterOnSuccess(p *Prog, r *Report, hs, reg *ssa.Function, fam map[*ssa.Function]bool) []string {
	cc := p.Named("proxycore", "ClientConn")
	sar := p.methodOf(cc, "SendAndReceive")
	calls := func(f, g *ssa.Function) bool {
		found := false
		eachCall(f, func(c ssa.CallInstruction) {
			if c.Common().StaticCallee() == g {
				found = true
			}
		})
		return found
	}
	step := map[*ssa.Function]bool{}
	for f := range fam {
		if f != sar && (calls(f, sar) || calls(f, reg)) {
			step[f] = true
		}
	}
	for changed := true; changed; {
		changed = false
		for f := range fam {
			if step[f] || f == sar {
				continue
			}
			for g := range step {
				if calls(f, g) {
					step[f] = true
					changed = true
					break
				}
			}
		}
	}
	step[hs] = true
	ehF := p.Field("proxycore", "ClientConn", "eventHandler")
	s := newSim(p)
	s.Tracked[ehF] = true
	errT := types.Universe.Lookup("error").Type()
	s.Inline = func(fn *ssa.Function) bool {
		if step[fn] && fn != reg {
			return true
		}
		// a small constructor of an error value (straight-line code returning one error)
		res := fn.Signature.Results()
		return fn != reg && fn.Pkg == hs.Pkg && fn.Parent() == nil && len(fn.Blocks) == 1 && res.Len() == 1 && types.Identical(res.At(0).Type(), errT)
	}
	s.Effect = func(call ssa.CallInstruction, callee *ssa.Function) []string {
		if callee == reg {
			return []string{"register"}
		}
		return nil
	}
	s.Progress["register"] = true
	// a package-level error value (errors.New at initialisation) is not nil
	s.LoadVal = func(load *ssa.UnOp) (AV, bool) {
		if g, ok := load.X.(*ssa.Global); ok && types.Identical(load.Type(), types.Universe.Lookup("error").Type()) && g.Pkg != nil && strings.HasPrefix(g.Pkg.Pkg.Path(), modPath) {
			return AV{K: avNonNil}, true
		}
		return AV{}, false
	}
	init := newState()
	init.cells[ehF] = AV{K: avNonNil}
	var bad []string
	n := 0
	for _, o := range s.Run(hs, init) {
		if o.Panic {
			continue
		}
		n++
		if o.Ret.elem(1).K != avNonNil && o.St.eff["register"] != 1 {
			bad = append(bad, fmt.Sprintf("the handshake of a connection with an event handler can succeed (return at %s) having sent REGISTER %d times: a control connection that took that path receives no events (or every event twice), on start-up and after every reconnect", p.Pos(o.Pos), o.St.eff["register"]))
		}
	}
	if n == 0 {
		fatalf("anchor: the simulation of the backend handshake produced no outcome")
	}
	r.count("sim_states", s.Nodes)
	r.count("handshake_outcomes", n)
	return bad
}
