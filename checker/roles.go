package main

// Anchors resolved by role (see DESIGN.md §3): the analysis finds the constructs
// it reasons about through the types and interfaces of the program, so that a
// rename or a split of a function does not change what is checked.

import (
	"go/token"
	"go/types"
	"sort"
	"strings"

	"golang.org/x/tools/go/ssa"
)

// implsOf returns the named types declared in package pkg whose pointer (or
// value) type implements the interface ifacePkg.ifaceName.
func (p *Prog) implsOf(pkg, ifacePkg, ifaceName string) []*types.Named {
	in := p.Named(ifacePkg, ifaceName)
	iface, ok := in.Underlying().(*types.Interface)
	if !ok {
		fatalf("anchor: %s.%s is not an interface", ifacePkg, ifaceName)
	}
	sp := p.Pkg(pkg)
	var out []*types.Named
	sc := sp.Pkg.Scope()
	for _, name := range sc.Names() {
		tn, ok := sc.Lookup(name).(*types.TypeName)
		if !ok || tn.IsAlias() {
			continue
		}
		n, ok := tn.Type().(*types.Named)
		if !ok || n == in {
			continue
		}
		if _, isIface := n.Underlying().(*types.Interface); isIface {
			continue
		}
		if types.Implements(types.NewPointer(n), iface) || types.Implements(n, iface) {
			out = append(out, n)
		}
	}
	sort.Slice(out, func(i, j int) bool { return out[i].Obj().Name() < out[j].Obj().Name() })
	return out
}

// methodOf returns the ssa function of method name on *T (or T).
func (p *Prog) methodOf(n *types.Named, name string) *ssa.Function {
	for i := 0; i < n.NumMethods(); i++ {
		if n.Method(i).Name() == name {
			if f := p.SSA.FuncValue(n.Method(i)); f != nil && f.Blocks != nil {
				return f
			}
		}
	}
	for _, T := range []types.Type{types.NewPointer(n), n} {
		if sel := p.SSA.MethodSets.MethodSet(T).Lookup(n.Obj().Pkg(), name); sel != nil {
			if f := p.SSA.MethodValue(sel); f != nil && f.Blocks != nil {
				return f
			}
			// wrapper for promoted/value method: fall through to the declared one
			if fn, ok := sel.Obj().(*types.Func); ok {
				if f := p.SSA.FuncValue(fn); f != nil {
					return f
				}
			}
		}
	}
	// renamed? (see anchors.go)
	if n.Obj().Pkg() != nil {
		rel := strings.TrimPrefix(strings.TrimPrefix(n.Obj().Pkg().Path(), modPath), "/")
		return renamedAnchor(rel+"."+n.Obj().Name()+"."+name, p.methodsOf(n))
	}
	return nil
}

// methodsOf returns all declared methods (pointer and value receivers) of n.
func (p *Prog) methodsOf(n *types.Named) []*ssa.Function {
	var out []*ssa.Function
	for i := 0; i < n.NumMethods(); i++ {
		if f := p.SSA.FuncValue(n.Method(i)); f != nil && f.Blocks != nil {
			out = append(out, f)
		}
	}
	sort.Slice(out, func(i, j int) bool { return out[i].Name() < out[j].Name() })
	return out
}

// recvNamed returns the named receiver type of a method (nil for functions).
func recvNamed(fn *ssa.Function) *types.Named {
	if fn == nil || fn.Signature.Recv() == nil {
		if fn != nil && fn.Parent() != nil {
			return recvNamed(fn.Parent())
		}
		return nil
	}
	return namedOf(fn.Signature.Recv().Type())
}

// the proxy's client-request type: the type in package proxy implementing proxycore.Request
func (p *Prog) proxyRequestType() *types.Named {
	ts := p.implsOf("proxy", "proxycore", "Request")
	if len(ts) != 1 {
		fatalf("anchor: expected exactly one implementation of proxycore.Request in package proxy, found %d", len(ts))
	}
	return ts[0]
}

// the proxy's client-connection type: the type in package proxy implementing proxycore.Receiver
func (p *Prog) proxyClientType() *types.Named {
	ts := p.implsOf("proxy", "proxycore", "Receiver")
	if len(ts) != 1 {
		fatalf("anchor: expected exactly one implementation of proxycore.Receiver in package proxy, found %d", len(ts))
	}
	return ts[0]
}

// callsDirectly reports whether fn contains a call (in its own body or its
// closures) matching pred.
func callsDirectly(fn *ssa.Function, pred func(call ssa.CallInstruction) bool) bool {
	found := false
	for _, f := range withClosures(fn) {
		eachCall(f, func(c ssa.CallInstruction) {
			if pred(c) {
				found = true
			}
		})
	}
	return found
}

// lockOp classifies a call as a mutex operation and returns the lock class
// (the struct field holding the mutex) when it can be determined.
type lockOpInfo struct {
	Op    string // Lock | Unlock | RLock | RUnlock
	Class *types.Var
}

func lockOp(call ssa.CallInstruction) (lockOpInfo, bool) {
	c := call.Common()
	f := c.StaticCallee()
	if f == nil || f.Signature.Recv() == nil || len(c.Args) == 0 {
		return lockOpInfo{}, false
	}
	rn := namedOf(f.Signature.Recv().Type())
	if rn == nil || rn.Obj().Pkg() == nil || rn.Obj().Pkg().Path() != "sync" {
		return lockOpInfo{}, false
	}
	if rn.Obj().Name() != "Mutex" && rn.Obj().Name() != "RWMutex" {
		return lockOpInfo{}, false
	}
	switch f.Name() {
	case "Lock", "Unlock", "RLock", "RUnlock":
	default:
		return lockOpInfo{}, false
	}
	return lockOpInfo{Op: f.Name(), Class: lockClassOf(c.Args[0])}, true
}

// lockClassOf finds the struct field a mutex pointer comes from: &x.mu, or the
// value loaded from x.mu when the field itself is a *sync.Mutex.
func lockClassOf(v ssa.Value) *types.Var {
	switch x := v.(type) {
	case *ssa.FieldAddr:
		return fieldOfAddr(x)
	case *ssa.UnOp:
		if fa, ok := x.X.(*ssa.FieldAddr); ok {
			return fieldOfAddr(fa)
		}
	case *ssa.Phi:
		var cls *types.Var
		for _, e := range x.Edges {
			c := lockClassOf(e)
			if cls != nil && c != cls {
				return nil
			}
			cls = c
		}
		return cls
	}
	return nil
}

// pendingRequests methods by role (renames must not matter)
type pendingRoleSet struct {
	typ                           *types.Named
	store, loadAndDelete, closing *ssa.Function
	rangeFn                       *ssa.Function // the method that iterates the table (closing itself, or a callback-taking helper of it)
	register                      *ssa.Function // the ClientConn method that registers a request (calls store)
}

var pendingRoleCache = map[*Prog]*pendingRoleSet{}

func getPendingRoles(p *Prog) *pendingRoleSet {
	if pr, ok := pendingRoleCache[p]; ok {
		return pr
	}
	pr := &pendingRoleSet{typ: p.Named("proxycore", "pendingRequests")}
	for _, m := range p.methodsOf(pr.typ) {
		m := m
		has := func(name string) bool {
			return callsDirectly(m, func(c ssa.CallInstruction) bool { return callIsMethod(c, "sync", "Map", name) })
		}
		switch {
		case has("Range"):
			pr.closing = m
		case has("LoadAndDelete") || (has("Load") && has("Delete")) || (has("Load") && !has("Store")):
			pr.loadAndDelete = m
		case has("Store") || has("LoadOrStore"):
			pr.store = m
		}
	}
	if pr.store == nil || pr.loadAndDelete == nil || pr.closing == nil {
		fatalf("anchor: could not resolve the store / remove / notify-all methods of pendingRequests by role")
	}
	// the iteration may sit in a private helper that takes what to do with each entry as a
	// callback: the notify-all role belongs to the method that supplies the callback
	pr.rangeFn = pr.closing
	for i := 0; i < 2; i++ {
		hasCb := false
		for _, par := range pr.closing.Params[1:] {
			if _, ok := par.Type().Underlying().(*types.Signature); ok {
				hasCb = true
			}
		}
		sites, only := p.staticCallSites(pr.closing)
		if !hasCb || !only || len(sites) != 1 || recvNamed(rootFn(sites[0].Parent())) != pr.typ {
			break
		}
		pr.closing = rootFn(sites[0].Parent())
	}
	cc := p.Named("proxycore", "ClientConn")
	for _, m := range p.methodsOf(cc) {
		if callsDirectly(m, func(c ssa.CallInstruction) bool { return c.Common().StaticCallee() == pr.store }) {
			pr.register = m
		}
	}
	pendingRoleCache[p] = pr
	return pr
}

// fieldByType returns the unique field of struct pkg.typ whose type satisfies pred.
func (p *Prog) fieldByType(pkg, typ string, pred func(types.Type) bool) *types.Var {
	n := p.NamedOpt(pkg, typ)
	if n == nil {
		return nil
	}
	st, ok := n.Underlying().(*types.Struct)
	if !ok {
		return nil
	}
	var found *types.Var
	for i := 0; i < st.NumFields(); i++ {
		if pred(st.Field(i).Type()) {
			if found != nil {
				return nil
			}
			found = st.Field(i)
		}
	}
	return found
}

// the client connection's codec: a plain field in older trees, an atomic.Value with a getter
// and a setter since it was found to be replaced while other goroutines encode with it
type codecWrite struct {
	Instr ssa.Instruction
	Fn    *ssa.Function
	Base  ssa.Value // the client object written to
	Val   ssa.Value // the codec stored
}

type clientCodecRoleSet struct {
	field   *types.Var
	getters map[*ssa.Function]bool
	setters map[*ssa.Function]int // parameter index of the stored codec
}

var clientCodecCache = map[*Prog]*clientCodecRoleSet{}

func clientCodecRoles(p *Prog) *clientCodecRoleSet {
	if c, ok := clientCodecCache[p]; ok {
		return c
	}
	cl := p.proxyClientType()
	cr := &clientCodecRoleSet{field: p.Field("proxy", cl.Obj().Name(), "codec"), getters: map[*ssa.Function]bool{}, setters: map[*ssa.Function]int{}}
	for _, m := range p.methodsOf(cl) {
		m := m
		eachCall(m, func(c ssa.CallInstruction) {
			fa, ok := firstArgField(c)
			if !ok || fa != cr.field {
				return
			}
			switch {
			case callIsMethod(c, "sync/atomic", "Value", "Load"):
				if m.Signature.Results().Len() == 1 && m.Signature.Params().Len() == 0 {
					cr.getters[m] = true
				}
			case callIsMethod(c, "sync/atomic", "Value", "Store"):
				inner := holderInner(c.Common().Args[1])
				for i, par := range m.Params {
					if i > 0 && inner == ssa.Value(par) {
						cr.setters[m] = i
					}
				}
			}
		})
	}
	clientCodecCache[p] = cr
	return cr
}

func firstArgField(c ssa.CallInstruction) (*types.Var, bool) {
	args := c.Common().Args
	if len(args) == 0 {
		return nil, false
	}
	if fa, ok := args[0].(*ssa.FieldAddr); ok {
		return fieldOfAddr(fa), true
	}
	return nil, false
}

// holderInner unwraps interface{}(holder{x}) to x (the single field of a wrapper struct).
func holderInner(v ssa.Value) ssa.Value {
	if mi, ok := v.(*ssa.MakeInterface); ok {
		v = mi.X
	}
	if ld, ok := v.(*ssa.UnOp); ok && ld.Op == token.MUL {
		if al, ok := ld.X.(*ssa.Alloc); ok {
			for _, ref := range *al.Referrers() {
				if fa, ok := ref.(*ssa.FieldAddr); ok {
					for _, rr := range *fa.Referrers() {
						if st, ok := rr.(*ssa.Store); ok && st.Addr == ssa.Value(fa) {
							return st.Val
						}
					}
				}
			}
		}
	}
	return v
}

// isValue reports whether v is the client's current codec (field load or getter call).
func (cr *clientCodecRoleSet) isValue(v ssa.Value) bool {
	for _, o := range origins(v) {
		if f, _ := loadedField(o); f == cr.field {
			return true
		}
		if c, ok := o.(*ssa.Call); ok && c.Call.StaticCallee() != nil && cr.getters[c.Call.StaticCallee()] {
			return true
		}
	}
	return false
}

// writes lists every place a codec is installed on a client object.
func (cr *clientCodecRoleSet) writes(p *Prog) []codecWrite {
	var out []codecWrite
	for _, fn := range p.ScopedFuncs("proxy") {
		eachInstr(fn, func(in ssa.Instruction) {
			switch x := in.(type) {
			case *ssa.Store:
				if fa, ok := x.Addr.(*ssa.FieldAddr); ok && fieldOfAddr(fa) == cr.field {
					out = append(out, codecWrite{x, fn, fa.X, x.Val})
				}
			case *ssa.Call:
				if callee := x.Call.StaticCallee(); callee != nil {
					if idx, ok := cr.setters[callee]; ok {
						out = append(out, codecWrite{x, fn, x.Call.Args[0], x.Call.Args[idx]})
						return
					}
				}
				if callIsMethod(x, "sync/atomic", "Value", "Store") {
					if f, ok := firstArgField(x); ok && f == cr.field {
						if _, isSetter := cr.setters[fn]; !isSetter {
							out = append(out, codecWrite{x, fn, x.Call.Args[0].(*ssa.FieldAddr).X, holderInner(x.Call.Args[1])})
						}
					}
				}
			}
		})
	}
	return out
}

// FieldRole resolves a struct field by name, or, when it was renamed, as the only field of
// the struct whose type satisfies pred.
func (p *Prog) FieldRole(pkg, typ, name string, pred func(types.Type) bool) *types.Var {
	if f := p.FieldOpt(pkg, typ, name); f != nil {
		return f
	}
	if f := p.fieldByType(pkg, typ, pred); f != nil {
		return f
	}
	fatalf("anchor: field %s.%s.%s not found (by name or by type)", pkg, typ, name)
	return nil
}

func isRequestIface(t types.Type) bool { return typeIs(t, "proxycore", "Request") }
func isRawFramePtr(t types.Type) bool  { return typeIs(t, "frame", "RawFrame") }
func isSyncMap(t types.Type) bool {
	s := types.TypeString(t, nil)
	return s == "sync.Map" || s == "*sync.Map"
}
func isInt16Chan(t types.Type) bool {
	c, ok := t.Underlying().(*types.Chan)
	if !ok {
		return false
	}
	b, ok := c.Elem().Underlying().(*types.Basic)
	return ok && b.Kind() == types.Int16
}

// requireRecognisedDispatch: the rules about the client frame handler find "the arm that handles
// message type T" in a type switch (or comma-ok type assertions) inside the handler and the
// private helpers it is split into.  When the handler picks its code another way (for example a
// table keyed by reflect.Type with unchecked assertions in the entries) the arms cannot be told
// apart: the property is left without a verdict instead of being decided on a misreading.
func requireRecognisedDispatch(p *Prog) {
	cl := p.proxyClientType()
	recv := p.methodOf(cl, "Receive")
	if recv == nil {
		fatalf("anchor: %s.Receive not found", cl.Obj().Name())
	}
	seen := map[string]bool{}
	for _, f := range withCallees(p, recv, 3) {
		if rootFn(f) != recv && !(recvNamed(rootFn(f)) == cl && onlyCalledFrom(p, rootFn(f), recv, 3)) {
			continue
		}
		eachInstr(f, func(in ssa.Instruction) {
			ta, ok := in.(*ssa.TypeAssert)
			if !ok || !ta.CommaOk {
				return
			}
			if n := namedOf(ta.AssertedType); n != nil && n.Obj().Pkg() != nil {
				path := n.Obj().Pkg().Path()
				if strings.HasSuffix(path, "/message") || path == pkgPath("codecs") {
					seen[n.Obj().Name()] = true
				}
			}
		})
	}
	if len(seen) < 5 {
		fatalf("anchor: the dispatch of the client frame handler on the message type is not a type switch in %s.Receive or its private helpers (%d typed arms found): the arms cannot be identified", cl.Obj().Name(), len(seen))
	}
}

// requestFrameField: the field of the proxy's request type that holds the frame handed to the
// backend writer: what its Frame() method (proxycore.Request) returns.  By role, not by name.
func requestFrameField(p *Prog, req *types.Named) *types.Var {
	fn := p.methodOf(req, "Frame")
	if fn == nil {
		fatalf("anchor: the request type has no Frame method")
	}
	var found *types.Var
	eachInstr(fn, func(in ssa.Instruction) {
		ret, ok := in.(*ssa.Return)
		if !ok || len(ret.Results) != 1 {
			return
		}
		for _, o := range origins(ret.Results[0]) {
			if f, base := loadedField(o); f != nil && base != nil && namedOf(base.Type()) == req {
				found = f
			}
		}
	})
	if found == nil {
		fatalf("anchor: the field that %s.Frame returns was not found", req.Obj().Name())
	}
	return found
}

// clientDispatchFn: the function that holds the type switch of the client frame handler on the
// message type: Receive itself, or the private helper (called from nowhere else) that holds the
// most typed arms.
func clientDispatchFn(p *Prog) *ssa.Function {
	cl := p.proxyClientType()
	recv := p.methodOf(cl, "Receive")
	if recv == nil {
		fatalf("anchor: %s.Receive not found", cl.Obj().Name())
	}
	best, bestN := recv, 0
	for _, f := range withCallees(p, recv, 3) {
		if f != recv && !(f.Parent() == nil && recvNamed(f) == cl && onlyCalledFrom(p, f, recv, 3)) {
			continue
		}
		seen := map[string]bool{}
		eachInstr(f, func(in ssa.Instruction) {
			ta, ok := in.(*ssa.TypeAssert)
			if !ok || !ta.CommaOk {
				return
			}
			if n := namedOf(ta.AssertedType); n != nil && n.Obj().Pkg() != nil {
				path := n.Obj().Pkg().Path()
				if strings.HasSuffix(path, "/message") || path == pkgPath("codecs") {
					seen[n.Obj().Name()] = true
				}
			}
		})
		if len(seen) > bestN || (len(seen) == bestN && f == recv) {
			best, bestN = f, len(seen)
		}
	}
	return best
}
