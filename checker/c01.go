package main

// C01 — exactly one response per client request.
//
// Structural clauses decided (DESIGN.md §4 C01):
//  activation   every activation of a client request (Execute / OnResult / OnClose)
//               that finds it not yet answered ends in exactly one of: one reply
//               written to the client with the done flag set, or one successful
//               hand-over to a backend connection; an activation that finds it
//               answered does nothing.  All under the request mutex.
//  local        every path of the client frame handler that keeps the connection
//               answers the frame exactly once (one locally built reply or one
//               request execution).
//  handoff      a backend reply that matched a pending request is delivered to
//               that request exactly once (OnResult, or a successfully registered
//               re-prepare wrapping the same request); a dying backend connection
//               notifies every pending request; wrappers forward exactly once.
//  progress     the host-walking loop has no cycle without advancing the plan.
//  lock-order   see lock.go (acyclic lock-order graph).

import (
	"fmt"
	"go/token"
	"go/types"
	"sort"
	"strings"

	"golang.org/x/tools/go/ssa"
)

func init() { register("C01", checkC01) }

// isConnWrite: call of (*proxycore.Conn).Write
func isConnWrite(call ssa.CallInstruction) bool {
	return callIsMethod(call, "proxycore", "Conn", "Write")
}

// replyFuncs: methods of the request type that write a frame to the client.
func replyFuncs(p *Prog, req *types.Named) map[*ssa.Function]bool {
	out := map[*ssa.Function]bool{}
	for _, m := range p.methodsOf(req) {
		if !callsDirectly(m, isConnWrite) {
			continue
		}
		// a transport helper: it queues a sender that calls an encoder it was handed as a func
		// value; the reply functions are then the methods of the request that hand it a func literal
		// (they decide what is encoded: the frame, its stream id, the codec call)
		hasEncoderParam := false
		for i, par := range m.Params {
			if _, isSig := par.Type().Underlying().(*types.Signature); isSig && i > 0 {
				hasEncoderParam = true
			}
		}
		var wrappers []*ssa.Function
		if hasEncoderParam {
			for _, w := range p.methodsOf(req) {
				if w == m {
					continue
				}
				passesLiteral := false
				eachCall(w, func(c ssa.CallInstruction) {
					if c.Common().StaticCallee() != m {
						return
					}
					for _, a := range c.Common().Args {
						if ct, ok := a.(*ssa.ChangeType); ok {
							a = ct.X // converted to a named func type
						}
						switch a.(type) {
						case *ssa.MakeClosure:
							passesLiteral = true
						case *ssa.Function:
							passesLiteral = a.(*ssa.Function).Parent() == w
						}
					}
				})
				if passesLiteral {
					wrappers = append(wrappers, w)
				}
			}
		}
		if len(wrappers) > 0 {
			for _, w := range wrappers {
				out[w] = true
			}
			continue
		}
		out[m] = true
	}
	return out
}

func lockCell(cls *types.Var) string { return "lock:" + cls.Name() }

// requestSim builds the simulation shared by C01/C04/C05 over the request type.
type reqSim struct {
	*Sim
	req      *types.Named
	doneF    *types.Var
	muF      *types.Var
	reply    map[*ssa.Function]bool
	problems map[string]string // key -> detail (position independent key)
	ppos     map[string]string
}

func newRequestSim(p *Prog) *reqSim {
	req := p.proxyRequestType()
	rs := &reqSim{Sim: newSim(p), req: req, problems: map[string]string{}, ppos: map[string]string{}}
	rs.doneF = p.Field("proxy", req.Obj().Name(), "done")
	rs.muF = p.Field("proxy", req.Obj().Name(), "mu")
	rs.reply = replyFuncs(p, req)
	if len(rs.reply) == 0 {
		fatalf("anchor: no method of %s writes to the client connection", req.Obj().Name())
	}
	rs.Tracked[rs.doneF] = true
	rs.Progress["next"] = true
	rs.Inline = func(fn *ssa.Function) bool {
		return recvNamed(fn) == req && !rs.reply[fn] && fn.Parent() == nil
	}
	rs.Effect = func(call ssa.CallInstruction, callee *ssa.Function) []string {
		if callee != nil && rs.reply[callee] {
			return []string{"reply"}
		}
		if callIsMethod(call, "proxycore", "QueryPlan", "Next") {
			return []string{"next"}
		}
		return nil
	}
	rs.Model = func(s *Sim, st *State, call ssa.CallInstruction, callee *ssa.Function) []*State {
		if lo, ok := lockOp(call); ok && lo.Class == rs.muF {
			cell := lockCell(rs.muF)
			held, known := st.cells[cell].isBool()
			switch lo.Op {
			case "Lock":
				if known && held {
					rs.problem("relock:"+call.Parent().Name(), p.Pos(call.Pos()), "request mutex acquired while already held (self-deadlock)")
				}
				st.cells[cell] = avBool(true)
			case "Unlock":
				st.cells[cell] = avBool(false)
			}
			return []*State{st}
		}
		if callIsMethod(call, "proxycore", "Session", "Send") {
			okSt := st.clone()
			okSt.addEff("handoff")
			SetCallResult(okSt, call, AV{K: avNil})
			failSt := st.clone()
			failSt.addEff("sendfail")
			SetCallResult(failSt, call, AV{K: avNonNil})
			return []*State{okSt, failSt}
		}
		if callee != nil && rs.reply[callee] {
			if held, known := st.cells[lockCell(rs.muF)].isBool(); !known || !held {
				rs.problem("reply-unlocked:"+call.Parent().Name(), p.Pos(call.Pos()), "reply written to the client without holding the request mutex")
			}
		}
		return nil
	}
	rs.OnInstr = func(st *State, in ssa.Instruction) {
		if stv, ok := in.(*ssa.Store); ok {
			if fa, ok := stv.Addr.(*ssa.FieldAddr); ok && fieldOfAddr(fa) == rs.doneF {
				if held, known := st.cells[lockCell(rs.muF)].isBool(); !known || !held {
					rs.problem("done-unlocked:"+in.Parent().Name(), p.Pos(in.Pos()), "done flag written without holding the request mutex")
				}
			}
			// a per-request budget is consumed: a counter of the request is incremented, or a
			// marker field of the request is set under a test of that same field (test-and-set)
			if fa, ok := stv.Addr.(*ssa.FieldAddr); ok && namedOf(fa.X.Type()) == req {
				f := fieldOfAddr(fa)
				if f != rs.doneF && consumesBudget(stv, f) && counterBounds(p, req, f) {
					st.addEff("budget")
				}
			}
		}
	}
	return rs
}

// consumesBudget: the store increments field f, or sets it on a path that tested f.
func consumesBudget(stv *ssa.Store, f *types.Var) bool {
	if bo, ok := stv.Val.(*ssa.BinOp); ok && bo.Op == token.ADD {
		if lf, _ := loadedField(bo.X); lf == f {
			if _, isConst := bo.Y.(*ssa.Const); isConst {
				return true
			}
		}
	}
	for _, ct := range dominatingConds(stv.Block()) {
		bo, ok := ct.Cond.(*ssa.BinOp)
		if !ok || (bo.Op != token.EQL && bo.Op != token.NEQ) {
			continue
		}
		for _, side := range []ssa.Value{bo.X, bo.Y} {
			for _, o := range origins(side) {
				if lf, _ := loadedField(o); lf == f {
					return true
				}
			}
		}
	}
	return false
}

// counterBounds: the field limits something: a method of the request compares it (with a
// constant, a limit or another field), or hands it to the retry policy, which decides on it.  A
// counter that is only incremented is not a budget.
var counterBoundsCache = map[*types.Var]bool{}

func counterBounds(p *Prog, req *types.Named, f *types.Var) bool {
	if v, ok := counterBoundsCache[f]; ok {
		return v
	}
	res := false
	for _, m := range p.methodsOf(req) {
		for _, fn := range withClosures(m) {
			eachInstr(fn, func(in ssa.Instruction) {
				switch x := in.(type) {
				case *ssa.BinOp:
					switch x.Op {
					case token.EQL, token.NEQ, token.LSS, token.LEQ, token.GTR, token.GEQ:
						for _, side := range []ssa.Value{x.X, x.Y} {
							for _, o := range origins(side) {
								if lf, _ := loadedField(o); lf == f {
									res = true
								}
							}
						}
					}
				case ssa.CallInstruction:
					if _, ok := isPolicyInvoke(x); ok {
						for _, a := range x.Common().Args {
							if lf, _ := loadedField(a); lf == f {
								res = true
							}
						}
					}
				}
			})
		}
	}
	counterBoundsCache[f] = res
	return res
}

func (rs *reqSim) problem(key, pos, detail string) {
	rs.problems[key] = detail
	rs.ppos[key] = pos
}

func effStr(st *State) string {
	var parts []string
	for e, n := range st.eff {
		if n > 0 {
			c := fmt.Sprint(n)
			if n >= 2 {
				c = ">=2"
			}
			parts = append(parts, e+"="+c)
		}
	}
	sort.Strings(parts)
	return strings.Join(parts, " ")
}

func checkC01(p *Prog, r *Report) {
	requireRecognisedDispatch(p)
	r.NotCov = append(r.NotCov,
		"goroutine scheduling, TCP delivery and backend behaviour (whether an attempt is answered or dropped)",
		"a client that stays connected but stops reading (the recorded C17 finding): its replies are queued, not delivered",
		"memory-model visibility (C18's lock discipline)")
	c01Activation(p, r)
	c01Local(p, r)
	c01Handoff(p, r)
	c01LockOrder(p, r)
	sendResult(p, r, "C01.send-result", requestRoles(p))
	c01ReplyWrite(p, r)
	resultThreading(p, r, "C01.result-threading", "proxy", "proxycore")
}

// ---------------------------------------------------------------------------

func c01Activation(p *Prog, r *Report) {
	const rule = "C01.activation"
	r.Rule(rule, "an activation of an unanswered request ends in exactly one reply (done set, mutex held) or exactly one successful hand-over to a backend; an answered request is never answered again")
	r.Rule("C01.progress", "the host-walking loop of the request has no cycle that does not advance the query plan")
	r.Rule("C01.bounded-resend", "an activation that sends the request to the same host again (no QueryPlan.Next) first consumes a per-request budget (retry counter incremented, or a per-host marker tested and set): re-sends across activations (retry-same, re-execution after a re-prepare) are bounded, so the request is eventually answered")
	r.Rule("C01.mutex", "replies and writes of the done flag happen with the request mutex held; the mutex is released on return and never re-acquired while held")
	req := p.proxyRequestType()
	type entry struct {
		m    string
		args map[int]AV // parameter index (incl. receiver) -> value
		desc string
	}
	entries := []entry{
		{"Execute", map[int]AV{1: avBool(true)}, "next=true"},
		{"Execute", map[int]AV{1: avBool(false)}, "next=false"},
		{"OnClose", nil, ""},
		{"OnResult", nil, ""},
	}
	for _, e := range entries {
		fn := p.methodOf(req, e.m)
		if fn == nil {
			fatalf("anchor: method %s.%s not found", req.Obj().Name(), e.m)
		}
		for _, doneIn := range []bool{false, true} {
			rs := newRequestSim(p)
			init := newState()
			init.cells[rs.doneF] = avBool(doneIn)
			init.cells[lockCell(rs.muF)] = avBool(false)
			for i, a := range e.args {
				init.vals[fn.Params[i]] = a
			}
			outs := rs.Run(fn, init)
			r.count("sim_states", rs.Nodes)
			r.count("entry_points", 1)
			name := fmt.Sprintf("%s.%s(%s)[done=%v]", req.Obj().Name(), e.m, e.desc, doneIn)
			var bad, resend []string
			nout := 0
			for _, o := range outs {
				if o.Panic {
					continue
				}
				nout++
				rep, ho := o.St.eff["reply"], o.St.eff["handoff"]
				doneOut, dk := o.St.cells[rs.doneF].isBool()
				held, hk := o.St.cells[lockCell(rs.muF)].isBool()
				desc := fmt.Sprintf("path ending at %s {%s done_out=%v}", p.Pos(o.Pos), effStr(o.St), o.St.cells[rs.doneF])
				if !hk || held {
					bad = append(bad, "mutex not released: "+desc)
				}
				if doneIn {
					if rep != 0 || ho != 0 {
						bad = append(bad, "already answered request is answered/sent again: "+desc)
					}
					continue
				}
				switch {
				case rep+ho == 0:
					bad = append(bad, "request neither answered nor handed to a backend (dropped): "+desc)
				case rep+ho >= 2:
					bad = append(bad, "more than one reply/hand-over in one activation: "+desc)
				case rep == 1 && (!dk || !doneOut):
					bad = append(bad, "reply written but done flag not set: "+desc)
				case ho == 1 && (!dk || doneOut):
					bad = append(bad, "handed to a backend but marked done (its answer would be discarded): "+desc)
				}
				if ho == 1 && o.St.eff["next"] == 0 && o.St.eff["budget"] == 0 {
					resend = append(resend, "re-sent to the same host without consuming any per-request budget (no counter incremented, no marker tested and set): a backend that keeps provoking this activation keeps the request going forever and the client is never answered: "+desc)
				}
			}
			if nout == 0 {
				bad = append(bad, "no terminating path found")
			}
			r.check(len(bad) == 0, rule, name, p.Pos(fn.Pos()),
				fmt.Sprintf("%d outcomes, each exactly one reply or one hand-over", nout), strings.Join(dedupe(bad), " || "))
			r.check(len(rs.NoProgress) == 0, "C01.progress", name, p.Pos(fn.Pos()), "every cycle calls QueryPlan.Next",
				"cycle(s) without QueryPlan.Next: "+strings.Join(rs.NoProgress, " ; "))
			if !doneIn {
				r.check(len(resend) == 0, "C01.bounded-resend", name, p.Pos(fn.Pos()), "a same-host re-send consumes a budget", strings.Join(dedupe(resend), " || "))
			}
			var mk []string
			for k := range rs.problems {
				mk = append(mk, k)
			}
			sort.Strings(mk)
			var md []string
			for _, k := range mk {
				md = append(md, rs.ppos[k]+": "+rs.problems[k])
			}
			r.check(len(md) == 0, "C01.mutex", name, p.Pos(fn.Pos()), "", strings.Join(md, " || "))
		}
	}
	r.Floor(rule, 8, "request activation entry points x done state")
}

func dedupe(xs []string) []string {
	seen := map[string]bool{}
	var out []string
	for _, x := range xs {
		if !seen[x] {
			seen[x] = true
			out = append(out, x)
		}
	}
	return out
}

// ---------------------------------------------------------------------------

// clientSim: simulation of the client frame handler.
func newClientSim(p *Prog) (*Sim, *types.Named) {
	cl := p.proxyClientType()
	req := p.proxyRequestType()
	s := newSim(p)
	// the leaf "answer" effects: a method of the client type that writes a frame
	// to the client connection directly, and the start of a request execution.
	sendFns := map[*ssa.Function]bool{}
	for _, m := range p.methodsOf(cl) {
		if callsDirectly(m, isConnWrite) {
			sendFns[m] = true
		}
	}
	if len(sendFns) == 0 {
		fatalf("anchor: no method of %s writes to the client connection", cl.Obj().Name())
	}
	execFn := p.methodOf(req, "Execute")
	s.Inline = func(fn *ssa.Function) bool {
		return recvNamed(fn) == cl && fn.Parent() == nil && !sendFns[fn]
	}
	s.Effect = func(call ssa.CallInstruction, callee *ssa.Function) []string {
		if callee != nil && sendFns[callee] {
			return []string{"send"}
		}
		if callee != nil && callee == execFn {
			return []string{"exec"}
		}
		if callIsMethod(call, "proxycore", "Session", "Send") || callIsMethod(call, "proxycore", "ClientConn", "Send") {
			return []string{"backend"}
		}
		return nil
	}
	return s, cl
}

func shortType(t types.Type) string {
	s := types.TypeString(t, func(p *types.Package) string { return p.Name() })
	return s
}

func c01Local(p *Prog, r *Report) {
	const rule = "C01.local"
	r.Rule(rule, "every path of the client frame handler that keeps the connection open answers the frame exactly once: one locally built reply or one request execution")
	s, cl := newClientSim(p)
	fn := p.methodOf(cl, "Receive")
	if fn == nil {
		fatalf("anchor: %s.Receive not found", cl.Obj().Name())
	}
	dispatch := clientDispatchFn(p)
	s.OnBranch = func(st *State, cond ssa.Value, truth bool) {
		if ex, ok := cond.(*ssa.Extract); ok {
			if ta, ok := ex.Tuple.(*ssa.TypeAssert); ok && ta.Parent() == dispatch {
				if truth {
					st.aux["arm"] = shortType(ta.AssertedType)
				} else {
					st.aux["arm"] = "default"
				}
			}
		}
	}
	outs := s.Run(fn, newState())
	r.count("sim_states", s.Nodes)
	r.count("entry_points", 1)
	arms := map[string][]string{}
	armN := map[string]int{}
	for _, o := range outs {
		if o.Panic {
			continue
		}
		arm := o.St.aux["arm"]
		if arm == "" {
			arm = "pre-dispatch"
		}
		if _, ok := arms[arm]; !ok {
			arms[arm] = nil
		}
		armN[arm]++
		n := o.St.eff["send"] + o.St.eff["exec"]
		desc := fmt.Sprintf("path ending at %s {%s ret=%s}", p.Pos(o.Pos), effStr(o.St), o.Ret)
		if o.Ret.K == avNil {
			if n == 0 {
				arms[arm] = append(arms[arm], "frame not answered: "+desc)
			} else if n >= 2 {
				arms[arm] = append(arms[arm], "frame answered more than once: "+desc)
			}
		} else if n >= 2 {
			arms[arm] = append(arms[arm], "frame answered more than once before closing: "+desc)
		}
	}
	var names []string
	for a := range arms {
		names = append(names, a)
	}
	sort.Strings(names)
	for _, a := range names {
		r.check(len(arms[a]) == 0, rule, cl.Obj().Name()+".Receive#"+a, p.Pos(fn.Pos()),
			fmt.Sprintf("%d paths, one answer each", armN[a]), strings.Join(dedupe(arms[a]), " || "))
	}
	r.Floor(rule, 9, "dispatch arms of the client frame handler")
}

// ---------------------------------------------------------------------------

func c01Handoff(p *Prog, r *Report) {
	const rule = "C01.handoff"
	r.Rule(rule, "a backend reply matched to a pending request is delivered to exactly that request exactly once (OnResult, a successfully registered re-prepare wrapping it, or Execute(true) when the re-prepare cannot be sent); wrappers forward exactly once")
	r.Rule("C01.closing", "a dying backend connection marks itself closing before notifying, notifies every pending request, and no request is registered after the mark")
	cc := p.Named("proxycore", "ClientConn")
	recv := p.methodOf(cc, "Receive")
	sendFn := p.methodOf(cc, "Send")
	if recv == nil || sendFn == nil {
		fatalf("anchor: ClientConn.Receive/Send not found")
	}
	prepReq := p.Named("proxycore", "prepareRequest")
	origF := p.FieldRole("proxycore", "prepareRequest", "origRequest", isRequestIface)

	s := newSim(p)
	isPrepCtor := func(fn *ssa.Function) bool {
		// a constructor helper of the re-prepare wrapper
		return fn != nil && fn.Blocks != nil && p.InRepo(fn) && fn.Signature.Recv() == nil && fn.Signature.Results().Len() == 1 && namedOf(fn.Signature.Results().At(0).Type()) == prepReq
	}
	s.Inline = func(fn *ssa.Function) bool {
		return (recvNamed(fn) == cc && fn.Parent() == nil && fn != sendFn) || isPrepCtor(fn)
	}
	s.OnInstr = func(st *State, in ssa.Instruction) {
		if stv, ok := in.(*ssa.Store); ok {
			if fa, ok := stv.Addr.(*ssa.FieldAddr); ok && fieldOfAddr(fa) == origF {
				if a := s.eval(st, stv.Val); a.K == avSym && a.S == "req" {
					st.aux["wrapped"] = "req"
				} else {
					st.aux["wrapped"] = "other"
				}
			}
		}
	}
	s.Model = func(sm *Sim, st *State, call ssa.CallInstruction, callee *ssa.Function) []*State {
		switch {
		case callee != nil && callee == getPendingRoles(p).loadAndDelete:
			hit := st.clone()
			hit.addEff("loaded")
			SetCallResult(hit, call, avSymbol("req"))
			miss := st.clone()
			SetCallResult(miss, call, AV{K: avNil})
			return []*State{hit, miss}
		case callee == sendFn:
			// is the argument a fresh prepareRequest wrapping the request?
			wraps := false
			if len(call.Common().Args) >= 2 {
				for _, o := range origins(call.Common().Args[1]) {
					if a, ok := o.(*ssa.Alloc); ok && namedOf(a.Type()) == prepReq {
						wraps = true
					}
					if c, ok := o.(*ssa.Call); ok && isPrepCtor(c.Call.StaticCallee()) {
						wraps = true
					}
				}
			}
			okSt := st.clone()
			if wraps && st.aux["wrapped"] == "req" {
				okSt.addEff("reprepare")
				if st.aux["not-a-reprepare"] != "1" {
					// the matched request may itself be a re-prepare: wrapping it again has no bound
					okSt.addEff("rewrap")
				}
			} else {
				okSt.addEff("othersend")
			}
			SetCallResult(okSt, call, AV{K: avNil})
			fail := st.clone()
			SetCallResult(fail, call, AV{K: avNonNil})
			return []*State{okSt, fail}
		case call.Common().IsInvoke() && call.Common().Method.Name() == "OnResult" && recvNamedIs(call.Common().Method, "proxycore", "Request"):
			if a := sm.eval(st, call.Common().Value); a.K == avSym && a.S == "req" {
				st.addEff("onresult")
			} else {
				st.addEff("onresult-other")
			}
			return []*State{st}
		case call.Common().IsInvoke() && call.Common().Method.Name() == "Execute" && recvNamedIs(call.Common().Method, "proxycore", "Request"):
			// Execute(true) on the matched request hands it to the next host (the re-prepare could not
			// even be sent here): the request goes on, exactly once
			a := sm.eval(st, call.Common().Value)
			nb, known := sm.eval(st, call.Common().Args[0]).isBool()
			if a.K == avSym && a.S == "req" && known && nb {
				st.addEff("moved-on")
			} else {
				st.addEff("other-callback")
			}
			return []*State{st}
		case call.Common().IsInvoke() && call.Common().Method.Name() == "OnClose" && recvNamedIs(call.Common().Method, "proxycore", "Request"):
			st.addEff("other-callback")
			return []*State{st}
		}
		return nil
	}
	// the path has established that the matched request is not itself a re-prepare: a failed
	// type assertion to the wrapper type, or IsPrepareRequest() answering false
	s.OnBranch = func(st *State, cond ssa.Value, truth bool) {
		c, neg := stripNot(cond)
		want := neg // the fact "is a re-prepare" must be false on this edge
		isReq := func(v ssa.Value) bool { a := s.eval(st, v); return a.K == avSym && a.S == "req" }
		switch x := c.(type) {
		case *ssa.Extract:
			if ta, ok := x.Tuple.(*ssa.TypeAssert); ok && x.Index == 1 && ta.CommaOk && namedOf(ta.AssertedType) == prepReq && isReq(ta.X) && truth == want {
				st.aux["not-a-reprepare"] = "1"
			}
		case *ssa.Call:
			if x.Call.IsInvoke() && x.Call.Method.Name() == "IsPrepareRequest" && isReq(x.Call.Value) && truth == want {
				st.aux["not-a-reprepare"] = "1"
			}
		}
	}
	outs := s.Run(recv, newState())
	r.count("sim_states", s.Nodes)
	r.count("entry_points", 1)
	var bad []string
	n := 0
	for _, o := range outs {
		if o.Panic || o.St.eff["loaded"] == 0 {
			continue
		}
		n++
		k := o.St.eff["onresult"] + o.St.eff["reprepare"] + o.St.eff["moved-on"]
		desc := fmt.Sprintf("path ending at %s {%s ret=%s}", p.Pos(o.Pos), effStr(o.St), o.Ret)
		if k == 0 {
			bad = append(bad, "matched request is dropped (neither OnResult nor a registered re-prepare): "+desc)
		} else if k >= 2 {
			bad = append(bad, "matched request is delivered more than once: "+desc)
		}
		if o.St.eff["rewrap"] > 0 {
			bad = append(bad, "a matched request that may itself be a re-prepare is wrapped in a new re-prepare (no test that it is not one on this path): a backend that answers the proxy's own PREPARE with UNPREPARED is re-prepared without bound and the original request never gets a response: "+desc)
		}
		if o.St.eff["onresult-other"]+o.St.eff["other-callback"]+o.St.eff["othersend"] > 0 {
			bad = append(bad, "reply delivered to something other than the matched request: "+desc)
		}
	}
	if n == 0 {
		bad = append(bad, "no path on which a pending request is matched")
	}
	r.check(len(bad) == 0, rule, "ClientConn.Receive", p.Pos(recv.Pos()), fmt.Sprintf("%d matched-request paths", n), strings.Join(dedupe(bad), " || "))

	// wrappers forward exactly once
	// (a lost connection during the re-prepare hands the original request on with Execute as well:
	// it was answered UNPREPARED, so it is not in flight and moves to the next host)
	for _, w := range []struct{ m, to string }{{"OnResult", "Execute"}, {"OnClose", "Execute"}} {
		fn := p.methodOf(prepReq, w.m)
		if fn == nil {
			fatalf("anchor: prepareRequest.%s not found", w.m)
		}
		ws := newSim(p)
		ws.Effect = func(call ssa.CallInstruction, callee *ssa.Function) []string {
			c := call.Common()
			if c.IsInvoke() && recvNamedIs(c.Method, "proxycore", "Request") {
				if f, _ := loadedField(c.Value); f == origF && c.Method.Name() == w.to {
					return []string{"fwd"}
				}
				return []string{"other"}
			}
			return nil
		}
		wouts := ws.Run(fn, newState())
		r.count("sim_states", ws.Nodes)
		var wb []string
		for _, o := range wouts {
			if o.Panic {
				continue
			}
			if o.St.eff["fwd"] != 1 || o.St.eff["other"] != 0 {
				wb = append(wb, fmt.Sprintf("path ending at %s {%s}", p.Pos(o.Pos), effStr(o.St)))
			}
		}
		r.check(len(wb) == 0 && len(wouts) > 0, rule, "prepareRequest."+w.m, p.Pos(fn.Pos()),
			"forwards to origRequest."+w.to+" exactly once", "does not forward to origRequest."+w.to+" exactly once: "+strings.Join(wb, " || "))
	}

	// re-prepare outcome decides the host: error -> next host, otherwise same host
	c01ReprepareDecision(p, r, prepReq, origF)

	c01Closing(p, r, cc)
	r.Floor(rule, 3, "hand-off sites")
}

// prepareRequest.OnResult: Execute(next) with next == (opcode == ERROR)
func c01ReprepareDecision(p *Prog, r *Report, prepReq *types.Named, origF *types.Var) {
	// shared with C08; recorded there
}

func c01Closing(p *Prog, r *Report, cc *types.Named) {
	const rule = "C01.closing"
	closingF := p.Field("proxycore", "ClientConn", "closing")
	muF := p.Field("proxycore", "ClientConn", "closingMu")
	closing := p.methodOf(cc, "Closing")
	add := getPendingRoles(p).register
	if closing == nil {
		fatalf("anchor: ClientConn.Closing not found")
	}
	// (a) Closing: closing=true stored under the exclusive lock before pending.closing is called; called on every path
	{
		s := newSim(p)
		s.Tracked[closingF] = true
		var probs []string
		s.Model = func(sm *Sim, st *State, call ssa.CallInstruction, callee *ssa.Function) []*State {
			if lo, ok := lockOp(call); ok && lo.Class == muF {
				switch lo.Op {
				case "Lock":
					st.cells["mode"] = AV{K: avConst, C: constString("W")}
				case "RLock":
					st.cells["mode"] = AV{K: avConst, C: constString("R")}
				default:
					st.cells["mode"] = AV{K: avConst, C: constString("-")}
				}
				return []*State{st}
			}
			if callee != nil && callee == getPendingRoles(p).closing {
				st.addEff("notify")
				if b, ok := st.cells[closingF].isBool(); !ok || !b {
					probs = append(probs, p.Pos(call.Pos())+": pending requests notified before the connection is marked closing (a request registered in between is never notified)")
				}
				return []*State{st}
			}
			return nil
		}
		s.OnInstr = func(st *State, in ssa.Instruction) {
			if stv, ok := in.(*ssa.Store); ok {
				if fa, ok := stv.Addr.(*ssa.FieldAddr); ok && fieldOfAddr(fa) == closingF {
					if m := st.cells["mode"]; m.K != avConst || m.C.ExactString() != `"W"` {
						probs = append(probs, p.Pos(in.Pos())+": closing flag written without the exclusive closingMu")
					}
				}
			}
		}
		init := newState()
		init.cells[closingF] = avBool(false)
		init.cells["mode"] = AV{K: avConst, C: constString("-")}
		outs := s.Run(closing, init)
		r.count("sim_states", s.Nodes)
		for _, o := range outs {
			if o.Panic {
				continue
			}
			if o.St.eff["notify"] != 1 {
				probs = append(probs, fmt.Sprintf("path ending at %s notifies pending requests %d times", p.Pos(o.Pos), o.St.eff["notify"]))
			}
			if b, ok := o.St.cells[closingF].isBool(); !ok || !b {
				probs = append(probs, fmt.Sprintf("path ending at %s leaves the connection not marked closing", p.Pos(o.Pos)))
			}
			if m := o.St.cells["mode"]; m.K != avConst || m.C.ExactString() != `"-"` {
				probs = append(probs, fmt.Sprintf("path ending at %s returns with closingMu held", p.Pos(o.Pos)))
			}
		}
		r.check(len(probs) == 0, rule, "ClientConn.Closing", p.Pos(closing.Pos()), "marks closing under the exclusive lock, then notifies once", strings.Join(dedupe(probs), " || "))
	}
	// (b) registration: pending.store only with closing==false observed under closingMu
	{
		var storeSites []ssa.CallInstruction
		for _, fn := range p.ScopedFuncs("proxycore") {
			eachCall(fn, func(c ssa.CallInstruction) {
				if c.Common().StaticCallee() == getPendingRoles(p).store {
					storeSites = append(storeSites, c)
				}
			})
		}
		if len(storeSites) == 0 {
			fatalf("anchor: no call of pendingRequests.store")
		}
		for _, site := range storeSites {
			fn := site.Parent()
			s := newSim(p)
			s.Tracked[closingF] = true
			var probs []string
			s.Model = func(sm *Sim, st *State, call ssa.CallInstruction, callee *ssa.Function) []*State {
				if lo, ok := lockOp(call); ok && lo.Class == muF {
					if lo.Op == "Lock" || lo.Op == "RLock" {
						st.cells["held"] = avBool(true)
					} else {
						st.cells["held"] = avBool(false)
					}
					return []*State{st}
				}
				if call == site {
					if h, ok := st.cells["held"].isBool(); !ok || !h {
						probs = append(probs, p.Pos(call.Pos())+": request registered without holding closingMu")
					}
					if b, ok := st.cells[closingF].isBool(); !ok || b {
						probs = append(probs, p.Pos(call.Pos())+": request registered without having observed closing==false")
					}
				}
				return nil
			}
			init := newState()
			init.cells["held"] = avBool(false)
			s.Run(fn, init)
			r.count("sim_states", s.Nodes)
			r.check(len(probs) == 0, rule, "register:"+fn.Name(), p.Pos(site.Pos()), "registers only after observing closing==false under closingMu", strings.Join(dedupe(probs), " || "))
		}
		_ = add
	}
	// (c) pendingRequests.closing notifies every ranged entry and keeps iterating
	{
		fn := getPendingRoles(p).rangeFn
		var probs []string
		ranged := 0
		eachCall(fn, func(c ssa.CallInstruction) {
			if !callIsMethod(c, "sync", "Map", "Range") {
				return
			}
			ranged++
			cb := rangeCallbackFn(p, c)
			if cb == nil {
				probs = append(probs, p.Pos(c.Pos())+": the Range callback could not be resolved")
				return
			}
			s := newSim(p)
			s.Effect = func(call ssa.CallInstruction, callee *ssa.Function) []string {
				cm := call.Common()
				if cm.IsInvoke() && cm.Method.Name() == "OnClose" && recvNamedIs(cm.Method, "proxycore", "Request") {
					return []string{"onclose"}
				}
				return nil
			}
			// does a sender take its request back on failure?  (a function that registers and also removes)
			takesBack, takeBackFn := false, ""
			if sites, _ := p.staticCallSites(getPendingRoles(p).loadAndDelete); true {
				for _, cs := range sites {
					f := cs.Parent()
					if callsDirectly(f, func(c ssa.CallInstruction) bool {
						return c.Common().StaticCallee() == getPendingRoles(p).register || c.Common().StaticCallee() == getPendingRoles(p).store
					}) {
						takesBack, takeBackFn = true, f.Name()
					}
				}
			}
			// the callback may first claim the entry (remove it from the table): when the claim
			// is lost to a sender taking its request back, that sender reports the failure and the
			// entry must not be notified here as well
			claim := getPendingRoles(p).loadAndDelete
			// what is done with an entry may be a callback handed to the iterating helper
			s.Inline = func(f *ssa.Function) bool {
				return f.Parent() != nil && recvNamed(rootFn(f)) == getPendingRoles(p).typ
			}
			s.Model = func(sm *Sim, st *State, call ssa.CallInstruction, callee *ssa.Function) []*State {
				if callee == nil || callee != claim {
					return nil
				}
				won, lost := st.clone(), st.clone()
				SetCallResult(won, call, AV{K: avNonNil})
				won.aux["claim"] = "won"
				SetCallResult(lost, call, AV{K: avNil})
				lost.aux["claim"] = "lost"
				return []*State{won, lost}
			}
			for _, o := range s.Run(cb, newState()) {
				if o.Panic {
					continue
				}
				want := 1
				if o.St.aux["claim"] == "lost" {
					want = 0
				}
				if takesBack && o.St.aux["claim"] == "" {
					probs = append(probs, fmt.Sprintf("%s: the entry is notified without being claimed (removed) first although %s takes a request back out of the table when its write fails: both may act on the same request", p.Pos(o.Pos), takeBackFn))
				}
				if o.St.eff["onclose"] != want {
					probs = append(probs, fmt.Sprintf("%s: callback path (claim %q) notifies the entry %d times, expected %d", p.Pos(o.Pos), o.St.aux["claim"], o.St.eff["onclose"], want))
				}
				if b, ok := o.Ret.isBool(); !ok || !b {
					probs = append(probs, fmt.Sprintf("%s: callback may stop the iteration (returns %s), later entries are never notified", p.Pos(o.Pos), o.Ret))
				}
			}
			r.count("sim_states", s.Nodes)
		})
		if ranged != 1 {
			probs = append(probs, fmt.Sprintf("expected one Range over the pending map, found %d", ranged))
		}
		r.check(len(probs) == 0, rule, "pendingRequests.closing", p.Pos(fn.Pos()), "OnClose once per entry, iteration continues", strings.Join(dedupe(probs), " || "))
	}
	// (d) Conn.read: recv.Closing called exactly once on every exit; the write loop never calls it
	{
		conn := p.Named("proxycore", "Conn")
		var fn *ssa.Function
		for _, m := range p.methodsOf(conn) {
			if callsDirectly(m, func(c ssa.CallInstruction) bool {
				cm := c.Common()
				return cm.IsInvoke() && cm.Method.Name() == "Receive" && recvNamedIs(cm.Method, "proxycore", "Receiver")
			}) {
				fn = m
			}
		}
		if fn == nil {
			fatalf("anchor: no method of Conn invokes Receiver.Receive (the connection reader)")
		}
		s := newSim(p)
		s.Effect = func(call ssa.CallInstruction, callee *ssa.Function) []string {
			cm := call.Common()
			if cm.IsInvoke() && recvNamedIs(cm.Method, "proxycore", "Receiver") {
				return []string{strings.ToLower(cm.Method.Name())}
			}
			return nil
		}
		var probs []string
		outs := s.Run(fn, newState())
		r.count("sim_states", s.Nodes)
		for _, o := range outs {
			if o.Panic {
				continue
			}
			if o.St.eff["closing"] != 1 {
				probs = append(probs, fmt.Sprintf("%s: reader exits having called Receiver.Closing %d times", p.Pos(o.Pos), o.St.eff["closing"]))
			}
		}
		if len(outs) == 0 {
			probs = append(probs, "reader loop has no exit")
		}
		r.check(len(probs) == 0, rule, "Conn.read", p.Pos(fn.Pos()), "Receiver.Closing exactly once on exit", strings.Join(dedupe(probs), " || "))
		// the reader must be started for every connection: Start launches read
		launched := false
		for _, f := range p.ScopedFuncs("proxycore") {
			eachInstr(f, func(in ssa.Instruction) {
				if g, ok := in.(*ssa.Go); ok && g.Call.StaticCallee() == fn {
					launched = true
				}
			})
		}
		r.check(launched, rule, "Conn.Start", p.Pos(fn.Pos()), "starts the reader goroutine", "Conn.Start does not launch the reader goroutine (Closing would never run)")
	}
}

// c01ReplyWrite: replies are written with the client connection's Write and its result
// is discarded (the done flag is already set), so Write must not give up on an open
// connection: either the sender is queued or the connection was seen closed.
func c01ReplyWrite(p *Prog, r *Report) {
	const rule = "C01.reply-write"
	r.Rule(rule, "the connection write used for replies either queues the sender or has observed the connection closed; it has no other way to fail or return (reply functions discard its result, so any other failure silently loses the one reply a request gets)")
	req := p.proxyRequestType()
	cl := p.proxyClientType()
	var write *ssa.Function
	ignored, used := 0, 0
	for _, t := range []*types.Named{req, cl} {
		for _, m := range p.methodsOf(t) {
			eachCall(m, func(c ssa.CallInstruction) {
				if !isConnWrite(c) {
					return
				}
				write = c.Common().StaticCallee()
				if v, ok := c.(ssa.Value); ok && v.Referrers() != nil {
					n := 0
					for _, ref := range *v.Referrers() {
						if _, dbg := ref.(*ssa.DebugRef); !dbg {
							n++
						}
					}
					if n == 0 {
						ignored++
					} else {
						used++
					}
				}
			})
		}
	}
	if write == nil {
		fatalf("anchor: no reply function writes to the client connection")
	}
	s := newSim(p)
	isClosedChan := func(ch ssa.Value) bool {
		ct, ok := ch.Type().Underlying().(*types.Chan)
		if !ok {
			return false
		}
		st, ok := ct.Elem().Underlying().(*types.Struct)
		return ok && st.NumFields() == 0
	}
	s.OnInstr = func(st *State, in ssa.Instruction) {
		if _, ok := in.(*ssa.Send); ok {
			st.addEff("queued")
		}
	}
	s.OnBranch = func(st *State, cond ssa.Value, truth bool) {
		bo, ok := cond.(*ssa.BinOp)
		if !ok || bo.Op != token.EQL || !truth {
			return
		}
		ex, ok := bo.X.(*ssa.Extract)
		if !ok || ex.Index != 0 {
			return
		}
		sel, ok := ex.Tuple.(*ssa.Select)
		if !ok {
			return
		}
		k, ok := constInt(bo.Y)
		if !ok || int(k) >= len(sel.States) {
			return
		}
		switch stt := sel.States[k]; {
		case stt.Dir == types.SendOnly:
			st.addEff("queued")
		case stt.Dir == types.RecvOnly && isClosedChan(stt.Chan):
			st.addEff("closed-seen")
		}
	}
	outs := s.Run(write, newState())
	r.count("sim_states", s.Nodes)
	var bad []string
	for _, o := range outs {
		if o.Panic {
			continue // the impossible fall-through of a blocking select
		}
		q, c := o.St.eff["queued"], o.St.eff["closed-seen"]
		switch {
		case q == 0 && c == 0:
			bad = append(bad, fmt.Sprintf("path ending at %s returns %s without having queued the sender and without having seen the connection closed", p.Pos(o.Pos), o.Ret))
		case q > 1:
			bad = append(bad, fmt.Sprintf("path ending at %s queues the sender more than once", p.Pos(o.Pos)))
		case q == 1 && o.Ret.K != avNil:
			bad = append(bad, fmt.Sprintf("path ending at %s queues the sender but does not report success (returns %s)", p.Pos(o.Pos), o.Ret))
		}
	}
	if len(outs) == 0 {
		bad = append(bad, "no terminating path")
	}
	r.check(len(bad) == 0, rule, relName(write), p.Pos(write.Pos()), fmt.Sprintf("%d paths; %d reply sites discard the result, %d use it", len(outs), ignored, used), strings.Join(dedupe(bad), " || "))
}
