package main

// C02 — a response is delivered only to the request (stream, client) that caused it.
//
// Decided: the ownership discipline that makes mis-routing impossible.
//  pending-ownership  the pending table and the free list of backend stream ids are
//                     touched only by the pendingRequests methods
//  stream-alloc       a stream id taken from the free list becomes the key of the
//                     stored request and the returned id (-1 on exhaustion); an id is
//                     returned to the free list only when LoadAndDelete removed its
//                     entry; the list is filled once with 0..max-1 at capacity max
//  stream-at-write    the backend stream id is written into the frame by the sender
//                     object on the connection's writer, immediately before encoding,
//                     from the id allocated for this send on this connection; nothing
//                     else writes stream ids into frames obtained from a Request
//  reply-stream       replies to the client carry the stream id and version captured
//                     from the client's frame when the request was built, and go to
//                     the connection that received it
//  private-frames     a frame handed to the writer by a Request is not shared with
//                     the prepared cache (each re-prepare sends its own header copy)

import (
	"fmt"
	"go/token"
	"go/types"
	"strings"

	"golang.org/x/tools/go/ssa"
)

func init() { register("C02", checkC02) }

func checkC02(p *Prog, r *Report) {
	r.NotCov = append(r.NotCov,
		"actual interleavings and response reordering (only the ownership discipline is decided)",
		"sync.Map and channel semantics (trusted)")
	c02Ownership(p, r)
	c02StreamAlloc(p, r)
	c02StreamAtWrite(p, r, "C02.stream-at-write")
	c02ReplyStream(p, r)
	privateFrames(p, r, "C02.private-frames")
	c02StreamRelease(p, r)
	// a second frame on a stream is taken by the client as the answer to whatever request it
	// sends next on that stream id: at most one frame per request is part of C02 as well
	r.borrow("C01", "C02", func() { c01Activation(p, r) })
	// the frame a request hands to a backend writer stays its own until it is written (and on every retry)
	r.borrow("C03", "C02", func() { c03FrameOwnership(p, r) })
}

func c02Ownership(p *Prog, r *Report) {
	const rule = "C02.pending-ownership"
	r.Rule(rule, "pendingRequests.pending and pendingRequests.streams are accessed only by methods of pendingRequests and its constructor")
	pr := p.Named("proxycore", "pendingRequests")
	for _, fname := range []string{"pending", "streams"} {
		pred := isSyncMap
		if fname == "streams" {
			pred = isInt16Chan
		}
		f := p.FieldRole("proxycore", "pendingRequests", fname, pred)
		var bad []string
		n := 0
		for _, acc := range fieldAccesses(p.ScopedFuncs("proxycore", "proxy"), f) {
			n++
			if recvNamed(acc.Fn) == pr {
				continue
			}
			if a, ok := acc.Base.(*ssa.Alloc); ok && a.Parent() == acc.Fn {
				continue
			}
			bad = append(bad, fmt.Sprintf("%s: %s in %s", p.Pos(acc.Instr.Pos()), acc.Kind, acc.Fn.Name()))
		}
		r.check(len(bad) == 0 && n > 0, rule, "pendingRequests."+fname, p.Pos(f.Pos()), fmt.Sprintf("%d accesses", n), "accessed outside its owner: "+strings.Join(bad, " || "))
	}
}

func c02StreamAlloc(p *Prog, r *Report) {
	const rule = "C02.stream-alloc"
	r.Rule(rule, "store(): the id received from the free list is the key of pending.Store and the result, -1 when the list is empty; loadAndDelete(): the id goes back to the free list, and the request is returned, only when LoadAndDelete removed the entry for that same id; the free list is created with capacity max and filled with 0..max-1")
	streamsF := p.FieldRole("proxycore", "pendingRequests", "streams", isInt16Chan)
	pendingF := p.FieldRole("proxycore", "pendingRequests", "pending", isSyncMap)
	// ---- store
	{
		fn := getPendingRoles(p).store
		var bad []string
		var sel *ssa.Select
		eachInstr(fn, func(in ssa.Instruction) {
			if s, ok := in.(*ssa.Select); ok {
				sel = s
			}
		})
		var recvVal ssa.Value
		if sel == nil || sel.Blocking || len(sel.States) != 1 || sel.States[0].Dir != types.RecvOnly {
			bad = append(bad, "ids are not taken with a non-blocking receive from the free list")
		} else {
			if f, _ := loadedField(sel.States[0].Chan); f != streamsF {
				bad = append(bad, "id received from something other than the free list")
			}
			for _, ref := range *sel.Referrers() {
				if ex, ok := ref.(*ssa.Extract); ok && ex.Index == 2 {
					recvVal = ex
				}
			}
		}
		stores := 0
		eachCall(fn, func(c ssa.CallInstruction) {
			if callIsMethod(c, "sync", "Map", "Store") {
				stores++
				if f, _ := loadedField(c.Common().Args[0]); f != pendingF {
					bad = append(bad, "request stored somewhere other than the pending table")
				}
				keyOK, valOK := false, false
				for _, o := range origins(c.Common().Args[1]) {
					if o == recvVal {
						keyOK = true
					}
				}
				for _, o := range origins(c.Common().Args[2]) {
					if o == ssa.Value(fn.Params[1]) {
						valOK = true
					}
				}
				if !keyOK {
					bad = append(bad, "pending entry is not keyed by the id just taken from the free list")
				}
				if !valOK {
					bad = append(bad, "pending entry does not hold the request being registered")
				}
			}
		})
		if stores != 1 {
			bad = append(bad, fmt.Sprintf("%d stores into the pending table", stores))
		}
		eachInstr(fn, func(in ssa.Instruction) {
			if ret, ok := in.(*ssa.Return); ok {
				for _, o := range origins(ret.Results[0]) {
					if o == recvVal {
						continue
					}
					if c, ok := constInt(o); ok && c == -1 {
						continue
					}
					bad = append(bad, p.Pos(ret.Pos())+": returns something other than the allocated id or -1")
				}
			}
		})
		r.check(len(bad) == 0, rule, "pendingRequests.store", p.Pos(fn.Pos()), "", strings.Join(dedupe(bad), " || "))
	}
	// ---- loadAndDelete
	{
		fn := getPendingRoles(p).loadAndDelete
		var bad []string
		var lad *ssa.Call
		eachCall(fn, func(c ssa.CallInstruction) {
			if callIsMethod(c, "sync", "Map", "LoadAndDelete") {
				lad, _ = c.(*ssa.Call)
			}
			if callIsMethod(c, "sync", "Map", "Load") || callIsMethod(c, "sync", "Map", "LoadOrStore") {
				bad = append(bad, p.Pos(c.Pos())+": pending entry is looked up without being removed (a duplicate backend reply would be delivered twice)")
			}
		})
		var okV, valV ssa.Value
		if lad == nil {
			bad = append(bad, "pending entry is not removed atomically with LoadAndDelete")
		} else {
			keyOK := false
			for _, o := range origins(lad.Call.Args[1]) {
				if o == ssa.Value(fn.Params[1]) {
					keyOK = true
				}
			}
			if !keyOK {
				bad = append(bad, "entry looked up with a key other than the reply's stream id")
			}
			for _, ref := range *lad.Referrers() {
				if ex, ok := ref.(*ssa.Extract); ok {
					if ex.Index == 1 {
						okV = ex
					} else {
						valV = ex
					}
				}
			}
		}
		sends := 0
		eachInstr(fn, func(in ssa.Instruction) {
			switch x := in.(type) {
			case *ssa.Send:
				sends++
				if f, _ := loadedField(x.Chan); f != streamsF {
					bad = append(bad, "id returned to something other than the free list")
				}
				if x.X != ssa.Value(fn.Params[1]) {
					bad = append(bad, "an id other than the removed entry's is returned to the free list")
				}
				if okV == nil || !guardedBy(x.Block(), okV, true) {
					bad = append(bad, p.Pos(x.Pos())+": id returned to the free list although no entry was removed (the id could be handed out twice)")
				}
			case *ssa.Return:
				for _, o := range origins(x.Results[0]) {
					if c, ok := o.(*ssa.Const); ok && c.Value == nil {
						continue
					}
					if o != valV || okV == nil || !guardedBy(x.Block(), okV, true) {
						bad = append(bad, p.Pos(x.Pos())+": returns something other than the removed entry")
					}
				}
			}
		})
		if sends != 1 {
			bad = append(bad, fmt.Sprintf("id returned to the free list %d times", sends))
		}
		r.check(len(bad) == 0, rule, "pendingRequests.loadAndDelete", p.Pos(fn.Pos()), "", strings.Join(dedupe(bad), " || "))
	}
	// ---- constructor
	{
		fn := p.Func("proxycore", "newPendingRequests")
		var bad []string
		var mk *ssa.MakeChan
		eachInstr(fn, func(in ssa.Instruction) {
			if m, ok := in.(*ssa.MakeChan); ok {
				mk = m
			}
		})
		if mk == nil || mk.Size != ssa.Value(fn.Params[0]) {
			bad = append(bad, "free list capacity is not the maximum number of streams")
		}
		sends := 0
		eachInstr(fn, func(in ssa.Instruction) {
			sd, ok := in.(*ssa.Send)
			if !ok {
				return
			}
			sends++
			phi, ok := sd.X.(*ssa.Phi)
			okLoop := false
			if ok && len(phi.Edges) == 2 {
				c0, isC := constInt(phi.Edges[0])
				inc, isInc := phi.Edges[1].(*ssa.BinOp)
				if isC && c0 == 0 && isInc && inc.Op == token.ADD && inc.X == ssa.Value(phi) {
					if one, ok := constInt(inc.Y); ok && one == 1 {
						// bounded by i < max
						for _, ct := range dominatingConds(sd.Block()) {
							if bo, ok := ct.Cond.(*ssa.BinOp); ok && bo.Op == token.LSS && ct.Truth && bo.X == ssa.Value(phi) && bo.Y == ssa.Value(fn.Params[0]) {
								okLoop = true
							}
						}
					}
				}
			}
			if !okLoop {
				bad = append(bad, "free list is not filled with exactly the ids 0..max-1 (an id present twice is handed to two requests)")
			}
		})
		if sends != 1 {
			bad = append(bad, fmt.Sprintf("%d fill sites", sends))
		}
		r.check(len(bad) == 0, rule, "newPendingRequests", p.Pos(fn.Pos()), "", strings.Join(dedupe(bad), " || "))
	}
	// ---- the allocated id reaches the sender object
	{
		cc := p.Named("proxycore", "ClientConn")
		add := getPendingRoles(p).register
		// the function that registers the request and builds its sender (by role, it may be a helper of Send)
		send := p.methodOf(cc, "Send")
		for _, m := range p.methodsOf(cc) {
			if add != nil && callsDirectly(m, func(c ssa.CallInstruction) bool { return c.Common().StaticCallee() == add }) {
				send = m
			}
		}
		if send == nil {
			fatalf("anchor: the ClientConn method that registers and sends a request was not found")
		}
		var reqParam ssa.Value
		for _, pp := range send.Params[1:] {
			if typeIs(pp.Type(), "proxycore", "Request") {
				reqParam = pp
			}
		}
		var bad []string
		lits := structLitsVia(p, send, func(t types.Type) bool { return typeIs(t, "proxycore", "requestSender") })
		if len(lits) != 1 {
			bad = append(bad, fmt.Sprintf("%d sender objects built in ClientConn.%s", len(lits), send.Name()))
		}
		for _, lit := range lits {
			okS := false
			streamFld, reqFld, connFld := "stream", "request", "conn"
			if f := p.fieldByType("proxycore", "requestSender", func(t types.Type) bool { b, ok := t.Underlying().(*types.Basic); return ok && b.Kind() == types.Int16 }); f != nil {
				streamFld = f.Name()
			}
			if f := p.fieldByType("proxycore", "requestSender", func(t types.Type) bool { return typeIs(t, "proxycore", "Request") }); f != nil {
				reqFld = f.Name()
			}
			// (the connection may be held through a narrow interface it implements)
			if f := p.fieldByType("proxycore", "requestSender", func(t types.Type) bool {
				if typeIs(t, "proxycore", "ClientConn") {
					return true
				}
				it, isIface := t.Underlying().(*types.Interface)
				return isIface && !typeIs(t, "proxycore", "Request") && it.NumMethods() > 0 && types.Implements(types.NewPointer(cc), it)
			}); f != nil {
				connFld = f.Name()
			}
			if ex, ok := lit[streamFld].(*ssa.Extract); ok && ex.Index == 0 {
				if c, ok := ex.Tuple.(*ssa.Call); ok && c.Call.StaticCallee() == add && add != nil {
					okS = true
				}
			}
			if !okS {
				bad = append(bad, "the sender's stream is not the id allocated by addToPending for this send")
			}
			if reqParam == nil || lit[reqFld] != reqParam {
				bad = append(bad, "the sender does not carry the request that was registered")
			}
			bound := lit[connFld]
			if mi, ok := bound.(*ssa.MakeInterface); ok {
				bound = mi.X
			}
			if bound != ssa.Value(send.Params[0]) {
				bad = append(bad, "the sender is bound to another connection")
			}
		}
		if add != nil {
			// addToPending returns the id from pending.store
			okRet := false
			eachInstr(add, func(in ssa.Instruction) {
				if ret, ok := in.(*ssa.Return); ok {
					for _, o := range origins(ret.Results[0]) {
						if c, ok := o.(*ssa.Call); ok && c.Call.StaticCallee() == getPendingRoles(p).store {
							okRet = true
						}
					}
				}
			})
			if !okRet {
				bad = append(bad, "addToPending does not return the id allocated by pending.store")
			}
		} else {
			bad = append(bad, "addToPending not found")
		}
		// stores to requestSender.stream elsewhere
		if sf := p.fieldByType("proxycore", "requestSender", func(t types.Type) bool { b, ok := t.Underlying().(*types.Basic); return ok && b.Kind() == types.Int16 }); sf != nil {
			for _, acc := range fieldAccesses(p.ScopedFuncs("proxycore"), sf) {
				if acc.Write {
					if a, ok := acc.Base.(*ssa.Alloc); !ok || a.Parent() != acc.Fn {
						// (a store into a literal under construction, here or in a constructor, makes a new sender)
						bad = append(bad, p.Pos(acc.Instr.Pos())+": sender stream rewritten in "+acc.Fn.Name())
					}
				}
			}
		} else {
			bad = append(bad, "the sender object no longer carries the stream allocated for its send")
		}
		r.check(len(bad) == 0, rule, "ClientConn.Send:sender", p.Pos(send.Pos()), "", strings.Join(dedupe(bad), " || "))
	}
}

// freshHeader: v is a header object of its own: the result of DeepCopy()/Clone(), a header
// literal, or what a repo helper returns when all its returns are such.
func freshHeader(p *Prog, v ssa.Value, depth int) bool {
	switch h := v.(type) {
	case *ssa.Alloc:
		return true
	case *ssa.Call:
		c := h.Call.StaticCallee()
		if c == nil {
			return false
		}
		if c.Name() == "DeepCopy" || c.Name() == "Clone" {
			return true
		}
		if depth == 0 || !p.InRepo(c) || c.Blocks == nil {
			return false
		}
		ok, n := true, 0
		eachInstr(c, func(in ssa.Instruction) {
			if ret, isRet := in.(*ssa.Return); isRet && len(ret.Results) == 1 {
				n++
				for _, o := range origins(ret.Results[0]) {
					if !freshHeader(p, o, depth-1) {
						ok = false
					}
				}
			}
		})
		return ok && n > 0
	}
	return false
}

// headerHelperSetsStream: v is the result of a repo helper that stores the sender's stream field
// into the StreamId of the header it returns, before returning it.
func headerHelperSetsStream(p *Prog, v ssa.Value, streamIdF, senderStream *types.Var) bool {
	for _, o := range origins(v) {
		call, ok := o.(*ssa.Call)
		if !ok {
			return false
		}
		g := call.Call.StaticCallee()
		if g == nil || !p.InRepo(g) || g.Blocks == nil {
			return false
		}
		okAll, n := true, 0
		eachInstr(g, func(in ssa.Instruction) {
			ret, isRet := in.(*ssa.Return)
			if !isRet || len(ret.Results) != 1 {
				return
			}
			n++
			set := false
			eachInstr(g, func(in2 ssa.Instruction) {
				st, ok := in2.(*ssa.Store)
				if !ok {
					return
				}
				fa, ok := st.Addr.(*ssa.FieldAddr)
				if !ok || fieldOfAddr(fa) != streamIdF {
					return
				}
				same := false
				for _, a := range origins(fa.X) {
					for _, b := range origins(ret.Results[0]) {
						if a == b {
							same = true
						}
					}
				}
				if !same || !(st.Block() == ret.Block() || st.Block().Dominates(ret.Block())) {
					return
				}
				if f, base := loadedField(st.Val); f != nil && ((senderStream != nil && f == senderStream) || (senderStream == nil && len(g.Params) > 0 && base == ssa.Value(g.Params[0]))) {
					set = true
				}
			})
			if !set {
				okAll = false
			}
		})
		if !okAll || n == 0 {
			return false
		}
	}
	return true
}

// c02StreamAtWrite: who writes Header.StreamId of frames obtained from a Request.
func c02StreamAtWrite(p *Prog, r *Report, rule string) {
	r.Rule(rule, "no code writes into the frame object a Request hands out (it is shared by all attempts of the request, possibly on several connections at once); the sender encodes a private copy with its own header, carrying the stream id allocated for this send")
	streamIdF := p.Field("frame", "Header", "StreamId")
	senderStream := p.fieldByType("proxycore", "requestSender", func(t types.Type) bool { b, ok := t.Underlying().(*types.Basic); return ok && b.Kind() == types.Int16 }) // may be refactored away: then every store is judged by where it happens
	fromRequestFrame := func(v ssa.Value) bool {
		// header := frm.Header where frm derives from an invoke of Request.Frame()
		for depth := 0; depth < 6; depth++ {
			f, base := loadedField(v)
			if f != nil {
				v = base
				continue
			}
			break
		}
		for _, o := range origins(v) {
			if c, ok := o.(*ssa.Call); ok && c.Call.IsInvoke() && c.Call.Method.Name() == "Frame" && recvNamedIs(c.Call.Method, "proxycore", "Request") {
				return true
			}
		}
		return false
	}
	// privateCopy: v is a frame object built here (or by a helper) with a header of its own:
	// a literal whose Header is the result of Header.DeepCopy()/Clone() of the request's frame.
	var privateCopy func(v ssa.Value, depth int) bool
	privateCopy = func(v ssa.Value, depth int) bool {
		os := origins(v)
		if len(os) == 0 {
			return false
		}
		for _, o := range os {
			switch x := o.(type) {
			case *ssa.Alloc:
				okHdr := false
				for _, ref := range *x.Referrers() {
					fa, ok := ref.(*ssa.FieldAddr)
					if !ok || fieldOfAddr(fa).Name() != "Header" {
						continue
					}
					for _, rr := range *fa.Referrers() {
						if st, ok := rr.(*ssa.Store); ok && st.Addr == ssa.Value(fa) {
							for _, ho := range origins(st.Val) {
								if freshHeader(p, ho, 2) {
									okHdr = true
								}
							}
						}
					}
				}
				if !okHdr {
					return false
				}
			case *ssa.Call:
				callee := x.Call.StaticCallee()
				if callee == nil || !p.InRepo(callee) || depth == 0 {
					return false
				}
				okRet := true
				nret := 0
				eachInstr(callee, func(in ssa.Instruction) {
					if ret, ok := in.(*ssa.Return); ok && len(ret.Results) > 0 {
						nret++
						if !privateCopy(ret.Results[0], depth-1) {
							okRet = false
						}
					}
				})
				if !okRet || nret == 0 {
					return false
				}
			default:
				return false
			}
		}
		return true
	}
	var bad []string
	nStores, nEnc := 0, 0
	for _, fn := range p.ScopedFuncs("proxycore") {
		// (1) nobody writes into the request's own frame: it is shared by every attempt of the
		// request, and the writer goroutine of another connection may be encoding it right now
		eachInstr(fn, func(in ssa.Instruction) {
			st, ok := in.(*ssa.Store)
			if !ok {
				return
			}
			fa, ok := st.Addr.(*ssa.FieldAddr)
			if !ok || namedOf(fa.X.Type()) == nil || namedOf(fa.X.Type()).Obj().Name() != "Header" || !fromRequestFrame(fa.X) {
				return
			}
			nStores++
			bad = append(bad, fmt.Sprintf("%s: %s writes %s into the header of the request's own frame: the frame is shared by every attempt of the request (a retry on another connection encodes the same object concurrently), so a frame can leave with a stream id its connection never allocated for it", p.Pos(st.Pos()), fn.Name(), fieldOfAddr(fa).Name()))
		})
		// (2) what the writer encodes for a request is a private copy carrying this send's stream id
		isSenderFn := false
		if senderStream != nil {
			eachInstr(fn, func(in ssa.Instruction) {
				if ld, ok := in.(*ssa.UnOp); ok {
					if f, _ := loadedField(ld); f == senderStream {
						isSenderFn = true
					}
				}
			})
		}
		callsFrame := false
		eachCall(fn, func(c ssa.CallInstruction) {
			if cm := c.Common(); cm.IsInvoke() && cm.Method.Name() == "Frame" && recvNamedIs(cm.Method, "proxycore", "Request") {
				callsFrame = true
			}
		})
		if !callsFrame {
			continue
		}
		eachCall(fn, func(c ssa.CallInstruction) {
			cm := c.Common()
			if !cm.IsInvoke() || (cm.Method.Name() != "EncodeFrame" && cm.Method.Name() != "EncodeRawFrame") {
				return
			}
			nEnc++
			if fromRequestFrame(cm.Args[0]) {
				bad = append(bad, fmt.Sprintf("%s: %s encodes the request's own frame object (the encoder writes stream id and body length into it) instead of a private copy", p.Pos(c.Pos()), fn.Name()))
				return
			}
			if !privateCopy(cm.Args[0], 2) {
				bad = append(bad, fmt.Sprintf("%s: the frame encoded in %s is not a copy with a header of its own (%s)", p.Pos(c.Pos()), fn.Name(), valDesc(cm.Args[0])))
				return
			}
			// the copy carries the sender's own stream id, written before the encode
			okStore := false
			eachInstr(fn, func(in ssa.Instruction) {
				st, ok := in.(*ssa.Store)
				if !ok {
					return
				}
				fa, ok := st.Addr.(*ssa.FieldAddr)
				if !ok || fieldOfAddr(fa) != streamIdF {
					return
				}
				_, hdrBase := loadedField(fa.X)
				same := false
				for _, o := range origins(hdrBase) {
					for _, o2 := range origins(cm.Args[0]) {
						if o == o2 {
							same = true
						}
					}
				}
				if !same || !(st.Block() == c.Block() || st.Block().Dominates(c.Block())) {
					return
				}
				if f, base := loadedField(st.Val); f != nil && ((senderStream != nil && f == senderStream) || (senderStream == nil && len(fn.Params) > 0 && base == ssa.Value(fn.Params[0]))) {
					okStore = true
				}
			})
			if !okStore {
				// the header may come ready-made from a helper of the sender (r.header(orig)): the helper
				// stores the sender's stream into the fresh header it returns
				for _, o := range origins(cm.Args[0]) {
					al, ok := o.(*ssa.Alloc)
					if !ok {
						continue
					}
					for _, ref := range *al.Referrers() {
						fa, ok := ref.(*ssa.FieldAddr)
						if !ok || fieldOfAddr(fa).Name() != "Header" {
							continue
						}
						for _, rr := range *fa.Referrers() {
							if st, ok := rr.(*ssa.Store); ok && st.Addr == ssa.Value(fa) {
								if headerHelperSetsStream(p, st.Val, streamIdF, senderStream) {
									okStore = true
								}
							}
						}
					}
				}
			}
			if !okStore {
				bad = append(bad, fmt.Sprintf("%s: the copy encoded in %s does not carry the sender object's own allocated stream id", p.Pos(c.Pos()), fn.Name()))
			}
		})
		_ = isSenderFn
	}
	if nEnc < 2 {
		bad = append(bad, fmt.Sprintf("only %d encode sites of Request frames found (2 confirmed by hand)", nEnc))
	}
	r.count("request_frame_encode_sites", nEnc)
	r.check(len(bad) == 0, rule, "proxycore:request-frame-stream", "", fmt.Sprintf("%d encode sites, %d stores into request frames", nEnc, nStores), strings.Join(dedupe(bad), " || "))
}

func c02ReplyStream(p *Prog, r *Report) {
	const rule = "C02.reply-stream"
	r.Rule(rule, "a request remembers the client, stream id and version of the frame it was built from (written once, from that frame and the receiving connection); every reply it writes carries that stream id and goes to that client's connection")
	req := p.proxyRequestType()
	cr := getClientRoles(p)
	name := req.Obj().Name()
	streamIdF := p.Field("frame", "Header", "StreamId")
	verF := p.Field("frame", "Header", "Version")
	// construction literal
	var bad []string
	lits := structLitsVia(p, cr.forward, func(t types.Type) bool { return namedOf(t) == req })
	if len(lits) != 1 {
		bad = append(bad, fmt.Sprintf("%d request literals in %s", len(lits), cr.forward.Name()))
	}
	for _, lit := range lits {
		if lit["client"] != ssa.Value(cr.forward.Params[0]) {
			bad = append(bad, "request.client is not the connection that received the frame")
		}
		if f, _ := loadedField(lit["stream"]); f != streamIdF {
			bad = append(bad, "request.stream is not the client frame's stream id")
		}
		if f, _ := loadedField(lit["version"]); f != verF {
			bad = append(bad, "request.version is not the client frame's version")
		}
		// both from the same raw parameter
		for _, k := range []string{"stream", "version"} {
			if v, ok := lit[k]; ok {
				_, hdr := loadedField(v)
				if hdr != nil {
					if _, rawv := loadedField(hdr); rawv == nil {
						continue
					} else if _, isPar := rawv.(*ssa.Parameter); !isPar {
						bad = append(bad, "request."+k+" is not taken from the frame being forwarded")
					}
				}
			}
		}
	}
	r.check(len(bad) == 0, rule, name+" literal", p.Pos(cr.forward.Pos()), "", strings.Join(dedupe(bad), " || "))

	// reply functions of the request
	rstream := p.Field("proxy", name, "stream")
	rclient := p.Field("proxy", name, "client")
	for fn := range replyFuncs(p, req) {
		var rb []string
		// the connection written to is r.client.conn
		eachCall(fn, func(c ssa.CallInstruction) {
			if !isConnWrite(c) {
				return
			}
			path := fieldPath(c.Common().Args[0])
			if !strings.Contains(path, "."+rclient.Name()+".") {
				rb = append(rb, "reply written to a connection other than the request's client ("+path+")")
			}
		})
		// the frame carries r.stream
		okStream := false
		for _, f := range withSenders(p, fn) {
			eachInstr(f, func(in ssa.Instruction) {
				switch x := in.(type) {
				case *ssa.Store:
					if fa, ok := x.Addr.(*ssa.FieldAddr); ok && fieldOfAddr(fa) == streamIdF {
						if sf, _ := loadedField(x.Val); sf == rstream {
							okStream = true
						} else {
							rb = append(rb, p.Pos(x.Pos())+": reply stream id is not the request's client stream")
						}
					}
				case *ssa.Call:
					if callIsFunc(x, "frame", "NewFrame") {
						if sf, _ := loadedField(x.Call.Args[1]); sf == rstream {
							okStream = true
						} else {
							rb = append(rb, p.Pos(x.Pos())+": reply frame is not built with the request's client stream")
						}
					}
				}
			})
		}
		if !okStream {
			rb = append(rb, "reply does not set the client's stream id")
		}
		r.check(len(rb) == 0, rule, name+"."+fn.Name(), p.Pos(fn.Pos()), "", strings.Join(dedupe(rb), " || "))
	}
	// client.send: NewFrame(hdr.Version, hdr.StreamId, msg) with hdr the parameter
	for fn := range cr.send {
		var sb []string
		found := false
		for _, f := range withSenders(p, fn) {
			eachCall(f, func(c ssa.CallInstruction) {
				if !callIsFunc(c, "frame", "NewFrame") {
					return
				}
				found = true
				a := c.Common().Args
				if f, _ := loadedField(a[0]); f != verF {
					sb = append(sb, "local reply version is not the request header's")
				}
				if f, _ := loadedField(a[1]); f != streamIdF {
					sb = append(sb, "local reply stream id is not the request header's")
				}
			})
		}
		if !found {
			sb = append(sb, "no frame built from the request header")
		}
		r.check(len(sb) == 0, rule, cr.cl.Obj().Name()+"."+fn.Name(), p.Pos(fn.Pos()), "", strings.Join(dedupe(sb), " || "))
	}
}

// privateFrames: frames sent for a re-prepare are private copies.
func privateFrames(p *Prog, r *Report, rule string) {
	r.Rule(rule, "a prepareRequest's frame, and the frame put into the prepared cache, are fresh copies with their own header (the writer rewrites stream id and length of whatever frame it sends)")
	prepF := p.FieldRole("proxycore", "prepareRequest", "prepare", isRawFramePtr)
	entryF := p.Field("proxycore", "PreparedEntry", "PreparedFrame")
	isFreshCopy := func(v ssa.Value) (bool, string) {
		// (a value handed to a constructor helper is judged where the helper is called)
		for _, o := range originsInter(p, v, 2) {
			if ex, ok := o.(*ssa.Extract); ok && ex.Index == 0 {
				if cc, ok := ex.Tuple.(*ssa.Call); ok {
					o = cc
				}
			}
			c, ok := o.(*ssa.Call)
			if !ok || c.Call.StaticCallee() == nil || !p.InRepo(c.Call.StaticCallee()) {
				return false, "value is not produced by a copying function (" + fieldPath(o) + ")"
			}
			callee := c.Call.StaticCallee()
			fresh := true
			eachInstr(callee, func(in ssa.Instruction) {
				ret, ok := in.(*ssa.Return)
				if !ok {
					return
				}
				for _, ro := range origins(ret.Results[0]) {
					if k, ok := ro.(*ssa.Const); ok && k.Value == nil {
						continue // the error path returns no frame
					}
					// the frame codec's conversion produces a new raw frame
					if ex, ok := ro.(*ssa.Extract); ok && ex.Index == 0 {
						if cc, ok := ex.Tuple.(*ssa.Call); ok && cc.Call.IsInvoke() && cc.Call.Method.Name() == "ConvertToRawFrame" {
							continue
						}
					}
					a, ok := ro.(*ssa.Alloc)
					if !ok {
						fresh = false
						continue
					}
					// its Header must come from DeepCopy/Clone of the source header
					hdrOK := false
					for _, ref := range *a.Referrers() {
						if fa, ok := ref.(*ssa.FieldAddr); ok && fieldOfAddr(fa).Name() == "Header" {
							for _, rr := range *fa.Referrers() {
								if st, ok := rr.(*ssa.Store); ok {
									if hc, ok := st.Val.(*ssa.Call); ok && hc.Call.StaticCallee() != nil &&
										(hc.Call.StaticCallee().Name() == "DeepCopy" || hc.Call.StaticCallee().Name() == "Clone") {
										hdrOK = true
									}
									if al, ok := st.Val.(*ssa.Alloc); ok && al.Parent() == callee {
										hdrOK = true
									}
								}
							}
						}
					}
					if !hdrOK {
						fresh = false
					}
				}
			})
			if !fresh {
				return false, callee.Name() + " does not return a new frame with a copied header"
			}
		}
		return true, ""
	}
	n := 0
	for _, fn := range p.ScopedFuncs("proxycore") {
		for _, spec := range []struct {
			f    *types.Var
			what string
		}{{prepF, "prepareRequest.prepare"}, {entryF, "PreparedEntry.PreparedFrame"}} {
			eachInstr(fn, func(in ssa.Instruction) {
				st, ok := in.(*ssa.Store)
				if !ok {
					return
				}
				fa, ok := st.Addr.(*ssa.FieldAddr)
				if !ok || fieldOfAddr(fa) != spec.f {
					return
				}
				n++
				ok2, why := isFreshCopy(st.Val)
				r.check(ok2, rule, spec.what+"@"+fn.Name(), p.Pos(st.Pos()), "fresh copy", "shared frame object reaches the writer: "+why)
			})
		}
	}
	if n < 2 {
		fatalf("rule %s: only %d stores of re-prepare frames found (2 confirmed by hand)", rule, n)
	}
}

// c02StreamRelease: a backend stream id may go back to the free list only when no answer
// carrying it can still arrive on the connection.
func c02StreamRelease(p *Prog, r *Report) {
	const rule = "C02.stream-release"
	r.Rule(rule, "a backend stream id is released (its pending entry removed) only (a) for the stream id of a frame just received, (b) by the function that registered it when the write failed, i.e. the id never reached the wire, or (c) while notifying the requests of a dead connection; releasing it anywhere else (a timeout, a cancellation) lets the id be reused while the old answer is still in flight, which is then delivered to the new owner")
	pr := getPendingRoles(p)
	streamIdF := p.Field("frame", "Header", "StreamId")
	sites, _ := p.staticCallSites(pr.loadAndDelete)
	n := 0
	for _, cs := range sites {
		fn := cs.Parent()
		n++
		arg := cs.Common().Args[len(cs.Common().Args)-1]
		failedWrite := func(ct condTruth) bool {
			bo, ok := ct.Cond.(*ssa.BinOp)
			if !ok || (bo.Op != token.NEQ && bo.Op != token.EQL) {
				return false
			}
			isNil := func(v ssa.Value) bool { c, ok := v.(*ssa.Const); return ok && c.Value == nil }
			var other ssa.Value
			switch {
			case isNil(bo.Y):
				other = bo.X
			case isNil(bo.X):
				other = bo.Y
			default:
				return false
			}
			if (bo.Op == token.NEQ) != ct.Truth {
				return false
			}
			for _, o := range origins(other) {
				if c, ok := o.(*ssa.Call); ok && isConnWrite(c) {
					return true
				}
			}
			return false
		}
		why := ""
		switch {
		case rootFn(fn) == pr.closing || rootFn(fn) == pr.rangeFn || func() bool {
			for _, rc := range rangeCallsOf(p, rootFn(fn)) {
				if rootFn(rc.Parent()) == pr.closing || rootFn(rc.Parent()) == pr.rangeFn {
					return true
				}
			}
			return false
		}():
			why = "notification of a dead connection"
		case func() bool {
			for _, o := range origins(arg) {
				if f, _ := loadedField(o); f == streamIdF {
					return true
				}
			}
			return false
		}():
			why = "stream id of a received frame"
		case callsDirectly(fn, func(c ssa.CallInstruction) bool {
			return c.Common().StaticCallee() == pr.register || c.Common().StaticCallee() == pr.store
		}):
			// the registering function: only under a failed write
			if guardHolds(p, cs.Block(), failedWrite, 1) {
				why = "the write of this registration failed"
			}
		case func() bool {
			// a private helper of the registering function(s), called only under a failed write
			hsites, only := p.staticCallSites(fn)
			if !only || len(hsites) == 0 || fn.Parent() != nil {
				return false
			}
			for _, site := range hsites {
				caller := site.Parent()
				registers := callsDirectly(caller, func(c ssa.CallInstruction) bool {
					return c.Common().StaticCallee() == pr.register || c.Common().StaticCallee() == pr.store
				})
				if !registers || !guardHolds(p, site.Block(), failedWrite, 1) {
					return false
				}
			}
			return true
		}():
			why = "the write of this registration failed (helper called only under a failed write by the registering function)"
		}
		key := fmt.Sprintf("release@%s", strings.TrimPrefix(fn.String(), modPath+"/"))
		r.check(why != "", rule, key, p.Pos(cs.Pos()), why, "the pending entry (and its stream id) is released here although an answer carrying that id may still arrive on this connection: the id is handed to a later request, which then receives the old answer")
	}
	if n < 2 {
		fatalf("rule %s: only %d release sites found (2 confirmed by hand)", rule, n)
	}
}
