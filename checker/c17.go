package main

// C17 — hostile or malformed peers cannot crash or wedge the proxy.
//
//  panic-free       PANIC inventory over everything reachable from the network-facing
//                   entry points (client frames, backend frames and events, connection
//                   loss, topology events); sites are discharged by the bound/typed-
//                   container analysis or listed in a frozen table with a reason
//  error-opcode     the unchecked message.Error assertion is only reached for frames
//                   whose opcode is ERROR
//  nil-result       a function that can return (nil, nil) obliges its callers to test
//                   the result before using it
//  nil-store        only successfully created pools are stored in Session.pools
//  offender-only    an error from a connection's receiver closes that connection only
//  blocking-send    a send on a channel field is non-blocking, paired with a
//                   closed/done alternative, or reasoned in a frozen table (a peer
//                   that stops reading must not park goroutines serving others forever)

import (
	"fmt"
	"go/token"
	"go/types"
	"os"
	"sort"
	"strings"

	"golang.org/x/tools/go/ssa"
)

func init() {
	register("C17", checkC17)
	// ---- frozen table of reviewed panic sites (function:kind:expression -> reason)
	allowPanic("(*proxy.client).localIP:panic:\"unhandled local address type\"", "listeners are created by resolveAndListen with network \"tcp\" only, so LocalAddr() is always *net.TCPAddr: configuration, not peer input")
	allowPanic("(*proxy.request).handleErrorResult:typeassert:github.com/datastax/cql-proxy/codecs.ConvertFromRawFrame#0.Body.Message.(message.Error)",
		"only reached for opcode ERROR (rule C17.error-opcode); the library's error codec returns only types implementing message.Error")
	allowPanic("(*codecs.FrameBodyReader).BytesSince:slice:r.Body[pos:(*github.com/datastax/cql-proxy/codecs.FrameBodyReader).Position()]", "pos is an earlier Position() of the same reader and the position of a bytes.Reader only grows up to len(Body) as long as nothing seeks it: rule C17.reader-position decides that no code moves the reader with Seek")
	allowPanic("(*codecs.FrameBodyReader).RemainingBytes:slice:r.Body[(*github.com/datastax/cql-proxy/codecs.FrameBodyReader).Position():]", "0 <= Position() <= len(Body) for a bytes.Reader that is only read from (C17.reader-position)")
	allowPanic("(*proxycore.ClientConn).Handshake:index:startupKeysAndValues[(i+1)]", "i steps by 2 below len and the even length is checked at entry; the slice is built by the proxy, not by a peer")
	allowPanic("(*proxycore.ClientConn).maybeCachePrepared:typeassert:invoke (proxycore.Request).Frame().(*frame.RawFrame)",
		"only for requests with IsPrepareRequest()==true: client PREPAREs are forwarded as the raw frame and prepareRequest holds a raw copy; internal requests never send PREPARE")
	allowPanic("(*proxycore.Cluster).reconnect:div:(c.currentHostIndex+1)%len(c.hosts)", "c.hosts is only replaced by mergeHosts with a list queryHosts proved non-empty, and stayConnected starts after the first successful connect")
	allowPanic("(*proxycore.Cluster).reconnect:index:c.hosts[c.currentHostIndex]", "index is reduced modulo len(c.hosts) on the line before")
	allowPanic("(*proxycore.ResultSet).Row:index:rs.result.Data[i]", "callers index below RowCount() (= len(Data)) or Row(0) after RowCount() > 0")
	allowPanic("(*proxycore.connPool).leastBusyConn:index:p.conns[idx]", "idx is 0 or a range index over p.conns, read under connsMu with len(p.conns) > 1")
	allowPanicN("(*proxycore.connPool).stayConnected:index:p.conns[idx]", 3, "idx < NumConns by construction of the start-up loop; conns has NumConns elements and is never resized")
	allowPanic("(*proxycore.internalRequest).OnClose:panic:\"attempted to close request multiple times\"", "a registration is delivered at most one OnClose (C01.closing) into a channel of capacity 1")
	allowPanic("(*proxycore.internalRequest).OnResult:panic:\"attempted to set result multiple times\"", "a registration is delivered at most one OnResult (C01.handoff: LoadAndDelete) into a channel of capacity 1")
	allowPanic("(proxycore.Row).ByPos:index:r.resultSet.result.Metadata.Columns[i]", "i comes from columnIndexes, built by ranging over that same Columns slice")
	allowPanic("(proxycore.Row).ByPos:index:r.row[i]", "the library decodes exactly ColumnCount values per row and ColumnCount column specs")
	allowPanic("astra.copyTLSConfig$1:index:make([]*x509.Certificate)[0]", "crypto/tls invokes VerifyPeerCertificate only with at least one certificate (a server without certificate fails the handshake earlier)")
	allowPanic("astra.copyTLSConfig$1:slice:make([]*x509.Certificate)[1:]", "same: at least one certificate")
	allowPanic("codecs.codecFromDataType:typeassert:dt.(*datatype.List)", "guarded by dt.Code()==List; in the library's datatype package code and concrete type agree")
	allowPanic("codecs.codecFromDataType:typeassert:dt.(*datatype.Map)", "guarded by dt.Code()==Map")
	allowPanic("codecs.codecFromDataType:typeassert:dt.(*datatype.Set)", "guarded by dt.Code()==Set")
	allowPanic("proxy.nameBasedUUID:index:invoke (hash.Hash).Sum()[i]", "an MD5 digest has 16 bytes and i < 16")
	allowPanic("proxycore.LookupEndpoint:index:net.LookupHost()#0[math/rand.Intn()]", "LookupHost returns at least one address when err == nil; Intn(n) < n")
	allowPanic("proxycore.connectPool$1:index:*<*[]*proxycore.ClientConn>[idx]", "idx < NumConns, the slice was made with NumConns elements")
	allowPanic("proxycore.connectPool$1:index:*errs[idx]", "idx < NumConns, the slice was made with NumConns elements")
}

func c17Roots(p *Prog) []*ssa.Function {
	var roots []*ssa.Function
	add := func(pkg, name string) {
		if f := p.FuncOpt(pkg, name); f != nil {
			roots = append(roots, f)
		} else {
			fatalf("anchor: root %s.%s not found", pkg, name)
		}
	}
	cl := p.proxyClientType().Obj().Name()
	req := p.proxyRequestType().Obj().Name()
	add("proxy", "(*"+cl+").Receive")
	add("proxy", "(*"+cl+").Closing")
	add("proxy", "(*"+req+").OnResult")
	add("proxy", "(*"+req+").OnClose")
	add("proxy", "(*"+req+").Execute")
	add("proxy", "(*Proxy).OnEvent")
	add("proxy", "(*Proxy).handle")
	add("proxycore", "(*ClientConn).Receive")
	add("proxycore", "(*ClientConn).Closing")
	add("proxycore", "(*ClientConn).Heartbeats")
	add("proxycore", "(*Conn).read")
	add("proxycore", "(*Conn).write")
	add("proxycore", "(*Cluster).OnEvent")
	add("proxycore", "(*Cluster).stayConnected")
	add("proxycore", "(*Session).OnEvent")
	add("proxycore", "(*connPool).stayConnected")
	add("proxycore", "(*roundRobinLoadBalancer).OnEvent")
	return roots
}

func c17Scope(p *Prog) func(fn *ssa.Function) bool {
	return func(fn *ssa.Function) bool {
		if !p.InRepo(fn) || isGeneratedLexer(fn) {
			return false
		}
		if _, ex := excludedFiles[p.fileOf(fn)]; ex {
			return false
		}
		return true
	}
}

func checkC17(p *Prog, r *Report) {
	requireRecognisedDispatch(p)
	r.NotCov = append(r.NotCov,
		"memory exhaustion (no frame size limit is enforced; out of scope per the property), the generated scanner's internals, panics inside library decoders",
		"liveness beyond the structural rules here (progress of the retry loop is C01/C05)")
	panicFree(p, r, "C17.panic-free", c17Roots(p), c17Scope(p))
	c17ErrorOpcode(p, r)
	c17NilResult(p, r)
	c17DecodeGuard(p, r)
	{
		r.Rule("C17.reencode-error-path", "a request that decodes but cannot be re-encoded after the consistency override is forwarded as received: the nil frame of the failed conversion never reaches the backend connection's writer")
		for _, fn := range getOverrideRoles(p).reencode {
			bad := reencodeErrorPath(p, fn)
			r.check(len(bad) == 0, "C17.reencode-error-path", fn.Name(), p.Pos(fn.Pos()), "", strings.Join(dedupe(bad), " || "))
		}
	}
	c17ListenServiced(p, r)
	c17AcceptLoop(p, r)
	r.Rule("C17.selector-inputs", "the values of a virtual system row are produced from the table's columns, not from the selected ones: the size of the answer is linear in the length of the select list (a few kilobytes of ',*' cannot make the proxy build gigabytes)")
	selectorInputs(p, r, "C17.selector-inputs")
	c17NilStore(p, r)
	c17OffenderOnly(p, r)
	c17BlockingSend(p, r)
	c17CrossWrites(p, r)
	readerPosition(p, r, "C17.reader-position")
	boundedRecursion(p, r, "C17.bounded-recursion")
	rr := requestRoles(p)
	c05Progress17(p, r, rr)
	// a pooled connection whose set-up fails is closed: a client can make the proxy try again and
	// again (USE of a keyspace that does not exist), and every leaked socket and its two goroutines
	// stay until the process runs out of descriptors and stops accepting anybody
	r.Rule("C17.failed-connect-closed", "every path of the connection pool's connect that returns an error after the connection was opened closes that connection (the clean-up must see the connection even when the results are set to nil, err)")
	connClosedOnError(p, r, "C17.failed-connect-closed", p.Named("proxycore", "connPool"), "connect returns an error at %s but leaves the connection it opened open (socket, reader and writer goroutine): a client can repeat the failing set-up at will")
	// a backend endpoint that stays silent in the TLS handshake must not park the control loop
	r.borrow("C16", "C17", func() { connectBounded(p, r, "C16.connect-bounded") })
}

// the host walk cannot spin (shared with C01/C05)
func c05Progress17(p *Prog, r *Report, rr *reqRoles) {
	saved := len(r.Obl)
	c05Progress(p, r, rr)
	for i := saved; i < len(r.Obl); i++ {
		r.Obl[i].Rule = "C17.no-spin"
	}
	r.Rules["C17.no-spin"] = r.Rules["C05.progress"]
	delete(r.Rules, "C05.progress")
	for i, id := range r.ruleOrder {
		if id == "C05.progress" {
			r.ruleOrder[i] = "C17.no-spin"
		}
	}
}

func c17ErrorOpcode(p *Prog, r *Report) {
	const rule = "C17.error-opcode"
	r.Rule(rule, "functions that assert message.Error on a decoded frame are called only under a test that the frame's opcode is ERROR")
	opF := p.Field("frame", "Header", "OpCode")
	errOp := p.constOf("primitive", "OpCodeError").ExactString()
	n := 0
	for _, fn := range p.ScopedFuncs("proxy", "proxycore") {
		has := false
		eachInstr(fn, func(in ssa.Instruction) {
			if ta, ok := in.(*ssa.TypeAssert); ok && !ta.CommaOk && typeIs(ta.AssertedType, "message", "Error") {
				has = true
			}
		})
		if !has {
			continue
		}
		n++
		var bad []string
		callers := 0
		for _, g := range p.ScopedFuncs("proxy", "proxycore") {
			eachCall(g, func(c ssa.CallInstruction) {
				if c.Common().StaticCallee() != fn {
					return
				}
				callers++
				guarded := false
				for _, ct := range dominatingConds(c.Block()) {
					bo, ok := ct.Cond.(*ssa.BinOp)
					if !ok {
						continue
					}
					for _, pair := range [][2]ssa.Value{{bo.X, bo.Y}, {bo.Y, bo.X}} {
						if f, _ := loadedField(pair[0]); f == opF {
							if k, ok := pair[1].(*ssa.Const); ok && k.Value != nil && k.Value.ExactString() == errOp {
								if (bo.Op == token.EQL && ct.Truth) || (bo.Op == token.NEQ && !ct.Truth) {
									guarded = true
								}
							}
						}
					}
				}
				if !guarded {
					bad = append(bad, p.Pos(c.Pos())+": called from "+g.Name()+" without a test that the opcode is ERROR (a RESULT frame would panic the assertion)")
				}
			})
		}
		if callers == 0 {
			bad = append(bad, "no static caller found")
		}
		r.check(len(bad) == 0, rule, fn.Name(), p.Pos(fn.Pos()), fmt.Sprintf("%d guarded callers", callers), strings.Join(bad, " || "))
	}
	if n == 0 {
		r.ok(rule, "none", "", "no unchecked message.Error assertion left")
	}
}

// c17NilResult: N1
func c17NilResult(p *Prog, r *Report) {
	const rule = "C17.nil-result"
	r.Rule(rule, "a repo function with a pointer result that has a path returning (nil, nil) is only used by callers that test the result for nil before any other use")
	fns := p.ScopedFuncs("proxy", "proxycore", "astra", "codecs")
	nilnil := map[*ssa.Function]bool{}
	for iter := 0; iter < 3; iter++ {
		for _, fn := range fns {
			res := fn.Signature.Results()
			if res.Len() != 2 || !types.Identical(res.At(1).Type(), errType) {
				continue
			}
			if _, isPtr := res.At(0).Type().Underlying().(*types.Pointer); !isPtr {
				continue
			}
			eachInstr(fn, func(in ssa.Instruction) {
				ret, ok := in.(*ssa.Return)
				if !ok || len(ret.Results) != 2 {
					return
				}
				isNil := func(v ssa.Value) bool {
					c, ok := v.(*ssa.Const)
					return ok && c.Value == nil
				}
				if isNil(ret.Results[0]) && isNil(ret.Results[1]) {
					nilnil[fn] = true
				}
				// returns the results of another nil,nil function unchanged
				if ex0, ok := ret.Results[0].(*ssa.Extract); ok {
					if c, ok := ex0.Tuple.(*ssa.Call); ok && nilnil[c.Call.StaticCallee()] {
						if ex1, ok := ret.Results[1].(*ssa.Extract); ok && ex1.Tuple == ex0.Tuple {
							nilnil[fn] = true
						}
					}
				}
				// return f(...) directly
				if c, ok := ret.Results[0].(*ssa.Call); ok && nilnil[c.Call.StaticCallee()] {
					nilnil[fn] = true
				}
			})
			// `return c.QueryFrame(...)` appears as a single call whose tuple is returned via extracts
		}
	}
	if len(nilnil) == 0 {
		r.ok(rule, "none", "", "no function returns (nil, nil)")
		return
	}
	for fn := range nilnil {
		var bad []string
		uses := 0
		for _, g := range fns {
			if nilnil[g] {
				// pass-through callers are themselves nil,nil functions; their callers are checked
				isPass := false
				eachInstr(g, func(in ssa.Instruction) {
					if ret, ok := in.(*ssa.Return); ok && len(ret.Results) == 2 {
						if ex0, ok := ret.Results[0].(*ssa.Extract); ok {
							if c, ok := ex0.Tuple.(*ssa.Call); ok && c.Call.StaticCallee() == fn {
								isPass = true
							}
						}
					}
				})
				if isPass {
					continue
				}
			}
			eachCall(g, func(c ssa.CallInstruction) {
				if c.Common().StaticCallee() != fn {
					return
				}
				v, ok := c.(ssa.Value)
				if !ok {
					return
				}
				for _, ref := range *v.Referrers() {
					ex, ok := ref.(*ssa.Extract)
					if !ok || ex.Index != 0 {
						continue
					}
					// the result may be stored to a local first (named results, defers): follow it
					vals := []ssa.Value{ex}
					for _, er := range *ex.Referrers() {
						if st, ok := er.(*ssa.Store); ok {
							if al, ok := st.Addr.(*ssa.Alloc); ok {
								for _, lr := range *al.Referrers() {
									if ld, ok := lr.(*ssa.UnOp); ok && ld.Op == token.MUL {
										vals = append(vals, ld)
									}
								}
							}
						}
					}
					for _, val := range vals {
						for _, ur := range *val.Referrers() {
							if !isDerefUse(ur, val) {
								continue
							}
							uses++
							if !nonNilGuarded(ur.Block(), val, vals) {
								bad = append(bad, fmt.Sprintf("%s: result of %s used in %s without a nil test (it returns nil, nil for non-rows results)", p.Pos(ur.Pos()), fn.Name(), g.Name()))
							}
						}
					}
				}
			})
		}
		r.check(len(bad) == 0, rule, fn.Name(), p.Pos(fn.Pos()), fmt.Sprintf("%d guarded uses", uses), strings.Join(dedupe(bad), " || "))
	}
}

// isDerefUse: does instruction in use pointer v in a way that needs it to be non-nil?
func isDerefUse(in ssa.Instruction, v ssa.Value) bool {
	switch x := in.(type) {
	case *ssa.UnOp:
		return x.Op == token.MUL && x.X == v
	case *ssa.FieldAddr:
		return x.X == v
	case *ssa.Call:
		for _, a := range x.Call.Args {
			if a == v {
				return true // passed on: the callee dereferences it
			}
		}
	case *ssa.Store:
		return false
	}
	return false
}

func nonNilGuarded(blk *ssa.BasicBlock, v ssa.Value, aliases []ssa.Value) bool {
	for _, ct := range dominatingConds(blk) {
		bo, ok := ct.Cond.(*ssa.BinOp)
		if !ok {
			continue
		}
		for _, a := range aliases {
			isV := func(x ssa.Value) bool {
				if x == a {
					return true
				}
				// another load of the same local
				if la, ok := a.(*ssa.UnOp); ok {
					if lx, ok := x.(*ssa.UnOp); ok && la.X == lx.X {
						return true
					}
				}
				return false
			}
			isNil := func(x ssa.Value) bool { c, ok := x.(*ssa.Const); return ok && c.Value == nil }
			if (isV(bo.X) && isNil(bo.Y)) || (isV(bo.Y) && isNil(bo.X)) {
				if (bo.Op == token.NEQ && ct.Truth) || (bo.Op == token.EQL && !ct.Truth) {
					return true
				}
			}
		}
	}
	return false
}

func c17NilStore(p *Prog, r *Report) {
	const rule = "C17.nil-store"
	r.Rule(rule, "a pool is stored into Session.pools only if it was created successfully: the result of connectPool under err == nil, or of the constructor that cannot fail (later loads dereference it without a test)")
	poolsF := p.Field("proxycore", "Session", "pools")
	n := 0
	for _, op := range p.syncMapOps(poolsF, p.ScopedFuncs("proxycore")) {
		{
			if op.Kind != "Store" && op.Kind != "LoadOrStore" {
				continue
			}
			c, fn := op.Call, op.Fn
			n++
			if op.Val == nil {
				r.bad(rule, fmt.Sprintf("Session.pools store #%d@%s", n, fn.Name()), p.Pos(c.Pos()), "stored pool of unknown origin")
				continue
			}
			var bad []string
			for _, o := range origins(op.Val) {
				switch x := o.(type) {
				case *ssa.Call:
					callee := x.Call.StaticCallee()
					if callee == nil || !returnsFreshOnly(callee) {
						bad = append(bad, "stored pool comes from a call that may return nil")
					}
				case *ssa.Extract:
					call, ok := x.Tuple.(*ssa.Call)
					if !ok {
						bad = append(bad, "stored pool of unknown origin")
						continue
					}
					// must be guarded by err == nil of that call
					guarded := false
					for _, ref := range *call.Referrers() {
						if ee, ok := ref.(*ssa.Extract); ok && ee.Index == 1 {
							for _, ct := range dominatingConds(c.Block()) {
								if bo, ok := ct.Cond.(*ssa.BinOp); ok && (bo.X == ssa.Value(ee) || bo.Y == ssa.Value(ee)) {
									if (bo.Op == token.NEQ && !ct.Truth) || (bo.Op == token.EQL && ct.Truth) {
										guarded = true
									}
								}
							}
						}
					}
					if !guarded {
						bad = append(bad, "pool stored although its creation may have failed (nil pool: a later Load/Remove dereferences it and crashes the proxy)")
					}
				default:
					bad = append(bad, "stored pool of unknown origin")
				}
			}
			r.check(len(bad) == 0, rule, fmt.Sprintf("Session.pools store #%d@%s", n, fn.Name()), p.Pos(c.Pos()), "", strings.Join(dedupe(bad), " || "))
		}
	}
	if n < 2 {
		fatalf("rule %s: only %d stores into Session.pools found (2 confirmed by hand)", rule, n)
	}
}

func returnsFreshOnly(fn *ssa.Function) bool { return returnsFreshDepth(fn, 3) }

func returnsFreshDepth(fn *ssa.Function, depth int) bool {
	ok := fn.Blocks != nil
	eachInstr(fn, func(in ssa.Instruction) {
		if ret, isRet := in.(*ssa.Return); isRet && len(ret.Results) >= 1 {
			for _, o := range origins(ret.Results[0]) {
				switch x := o.(type) {
				case *ssa.Alloc:
				case *ssa.Call:
					// a helper constructor that itself only returns fresh objects
					if callee := x.Call.StaticCallee(); callee == nil || depth <= 0 || !returnsFreshDepth(callee, depth-1) {
						ok = false
					}
				default:
					ok = false
				}
			}
		}
	})
	return ok
}

func c17OffenderOnly(p *Prog, r *Report) {
	const rule = "C17.offender-only"
	r.Rule(rule, "an error returned by a connection's receiver reaches only that connection's own error handler, which closes only its own socket and channel; the reader then notifies its own receiver")
	conn := p.Named("proxycore", "Conn")
	// the reader: the Conn method that invokes Receiver.Receive; the error handler: the Conn
	// method that is given Receive's result
	var read, check *ssa.Function
	for _, m := range p.methodsOf(conn) {
		if callsDirectly(m, func(c ssa.CallInstruction) bool {
			cm := c.Common()
			return cm.IsInvoke() && cm.Method.Name() == "Receive" && recvNamedIs(cm.Method, "proxycore", "Receiver")
		}) {
			read = m
		}
	}
	if read != nil {
		eachCall(read, func(c ssa.CallInstruction) {
			cm := c.Common()
			if cm.IsInvoke() && cm.Method.Name() == "Receive" {
				for _, ref := range *c.(ssa.Value).Referrers() {
					if cc, ok := ref.(*ssa.Call); ok && cc.Call.StaticCallee() != nil && recvNamed(cc.Call.StaticCallee()) == conn {
						check = cc.Call.StaticCallee()
					}
				}
			}
		})
	}
	if read == nil || check == nil {
		r.bad(rule, "Conn.read/checkErr", "", "the connection reader does not hand the receiver's error to an error handler of the same connection")
		return
	}
	var bad []string
	// the Receive result flows only into checkErr of the same receiver
	eachCall(read, func(c ssa.CallInstruction) {
		cm := c.Common()
		if cm.IsInvoke() && cm.Method.Name() == "Receive" {
			v := c.(ssa.Value)
			for _, ref := range *v.Referrers() {
				cc, ok := ref.(*ssa.Call)
				if !ok || cc.Call.StaticCallee() != check || cc.Call.Args[0] != ssa.Value(read.Params[0]) {
					bad = append(bad, p.Pos(ref.Pos())+": receiver error is used by something other than this connection's checkErr")
				}
			}
		}
	})
	// checkErr closes only c.conn / c.closed
	connF := p.Field("proxycore", "Conn", "conn")
	closedF := p.Field("proxycore", "Conn", "closed")
	eachCall(check, func(c ssa.CallInstruction) {
		cm := c.Common()
		if cm.IsInvoke() && cm.Method.Name() == "Close" {
			if f, base := loadedField(cm.Value); f != connF || base != ssa.Value(check.Params[0]) {
				bad = append(bad, p.Pos(c.Pos())+": error handler closes something other than its own socket")
			}
		}
		if b, ok := cm.Value.(*ssa.Builtin); ok && b.Name() == "close" {
			if f, base := loadedField(cm.Args[0]); f != closedF || base != ssa.Value(check.Params[0]) {
				bad = append(bad, p.Pos(c.Pos())+": error handler closes a channel other than its own")
			}
		}
		if f := cm.StaticCallee(); f != nil && (f.String() == "os.Exit" || strings.Contains(f.String(), "Fatal")) {
			bad = append(bad, p.Pos(c.Pos())+": error handler terminates the process")
		}
	})
	r.check(len(bad) == 0, rule, "Conn.read/checkErr", p.Pos(read.Pos()), "", strings.Join(dedupe(bad), " || "))
	// client.Receive: decode errors are returned (connection closed), never swallowed while continuing with the frame
	cl := p.proxyClientType()
	recv := p.methodOf(cl, "Receive")
	var rb []string
	eachCall(recv, func(c ssa.CallInstruction) {
		cm := c.Common()
		if (cm.IsInvoke() && cm.Method.Name() == "DecodeRawFrame") || libDecodeKind(p, c) == "DecodeBody" {
			v := c.(ssa.Value)
			var errV ssa.Value
			for _, ref := range *v.Referrers() {
				if ex, ok := ref.(*ssa.Extract); ok && ex.Index == 1 {
					errV = ex
				}
			}
			if errV == nil {
				rb = append(rb, p.Pos(c.Pos())+": decode error ignored")
				return
			}
			returned := false
			eachInstr(recv, func(in ssa.Instruction) {
				if ret, ok := in.(*ssa.Return); ok {
					for _, o := range origins(ret.Results[0]) {
						if o == errV {
							returned = true
						}
					}
				}
			})
			if !returned {
				rb = append(rb, p.Pos(c.Pos())+": decode error of "+callDesc(c)+" is not returned (the connection would continue with an undecoded frame)")
			}
		}
	})
	r.check(len(rb) == 0, rule, cl.Obj().Name()+".Receive:decode-errors", p.Pos(recv.Pos()), "", strings.Join(dedupe(rb), " || "))
}

// frozen table of blocking sends that are safe, keyed by function:channel-field
var blockingSendAllow = map[string]string{
	"Cluster:chan *Frame":        "only the control connection's reader sends here and Cluster.stayConnected always returns to its select; no client-serving goroutine is involved",
	"pendingRequests:chan int16": "the free list has capacity max and ids are conserved (C02.stream-alloc): the send never blocks (filling it at construction and giving an id back)",
}

// drainedByMain: the channel of a send is made, and ranged over until it is closed, by code that
// runs synchronously below proxy.Run (the process's main function); its senders report a
// server's terminal error to Run.  A sender parked there has no connection left to serve, and
// the process ends when Run returns.  The channel is identified by where it is made (a local
// shared with closures, or a field of a helper object), not by names.
func drainedByMain(p *Prog, ch ssa.Value) bool {
	run := p.FuncOpt("proxy", "Run")
	if run == nil {
		return false
	}
	id := chanIdentity(p, ch)
	if id == nil {
		return false
	}
	mk, ok := id.(*ssa.MakeChan)
	var fld *types.Var
	if !ok {
		fld, _ = id.(*types.Var)
		if fld == nil {
			return false
		}
		// the one place the field is given a channel
		n := 0
		for _, fn := range p.ScopedFuncs("proxy", "proxycore") {
			eachInstr(fn, func(in ssa.Instruction) {
				if st, ok := in.(*ssa.Store); ok {
					if fa, ok := st.Addr.(*ssa.FieldAddr); ok && fieldOfAddr(fa) == fld {
						n++
						mk, _ = st.Val.(*ssa.MakeChan)
					}
				}
			})
		}
		if n != 1 || mk == nil {
			return false
		}
	}
	if !syncBelow(p, rootFn(mk.Parent()), run, 3) {
		return false
	}
	// ranged over (received from until closed) by code that runs synchronously below Run
	ranged := false
	for _, fn := range p.ScopedFuncs("proxy", "proxycore") {
		eachInstr(fn, func(in ssa.Instruction) {
			rv, ok := in.(*ssa.UnOp)
			if !ok || rv.Op != token.ARROW || !rv.CommaOk || !strings.HasPrefix(rv.Block().Comment, "rangechan") {
				return
			}
			rid := chanIdentity(p, rv.X)
			same := rid != nil && (rid == id || (fld != nil && rid == interface{}(fld)))
			if same && fn.Parent() == nil && syncBelow(p, fn, run, 4) {
				ranged = true
			}
		})
	}
	return ranged
}

// syncBelow: fn is root or is reached from it by plain (synchronous) static calls only.
func syncBelow(p *Prog, fn, root *ssa.Function, depth int) bool {
	if fn == root {
		return true
	}
	if depth <= 0 || fn.Parent() != nil {
		return false
	}
	sites, only := p.staticCallSites(fn)
	if !only || len(sites) == 0 {
		return false
	}
	for _, s := range sites {
		if _, isCall := s.(*ssa.Call); !isCall {
			return false
		}
		if !syncBelow(p, s.Parent(), root, depth-1) {
			return false
		}
	}
	return true
}

// chanIdentity: what a channel operand stands for: the struct field it is loaded from, or the
// make(chan) it was created by when it is a local (possibly captured by closures).
func chanIdentity(p *Prog, v ssa.Value) interface{} {
	for i := 0; i < 6; i++ {
		switch x := v.(type) {
		case *ssa.MakeChan:
			return x
		case *ssa.ChangeType:
			v = x.X
			continue
		case *ssa.UnOp:
			if x.Op != token.MUL {
				return nil
			}
			switch a := x.X.(type) {
			case *ssa.FieldAddr:
				return fieldOfAddr(a)
			case *ssa.Alloc:
				var val ssa.Value
				n := 0
				for _, ref := range *a.Referrers() {
					if st, ok := ref.(*ssa.Store); ok && st.Addr == ssa.Value(a) {
						n++
						val = st.Val
					}
				}
				if n != 1 {
					return nil
				}
				v = val
				continue
			case *ssa.FreeVar:
				b := freeVarBinding(a)
				if b == nil {
					return nil
				}
				// the captured variable itself: look at what is stored in it
				if al, ok := b.(*ssa.Alloc); ok {
					var val ssa.Value
					n := 0
					for _, ref := range *al.Referrers() {
						if st, ok := ref.(*ssa.Store); ok && st.Addr == ssa.Value(al) {
							n++
							val = st.Val
						}
					}
					if n != 1 {
						return nil
					}
					v = val
					continue
				}
				return nil
			}
			return nil
		case *ssa.FreeVar:
			b := freeVarBinding(x)
			if b == nil {
				return nil
			}
			v = b
			continue
		}
		return nil
	}
	return nil
}

// freeVarBinding: the value bound to a free variable where its closure is made (nil unless there
// is exactly one such place).
func freeVarBinding(fv *ssa.FreeVar) ssa.Value {
	fn := fv.Parent()
	if fn.Parent() == nil {
		return nil
	}
	idx := -1
	for i, x := range fn.FreeVars {
		if x == fv {
			idx = i
		}
	}
	var out ssa.Value
	n := 0
	eachInstr(fn.Parent(), func(in ssa.Instruction) {
		if mc, ok := in.(*ssa.MakeClosure); ok && mc.Fn == ssa.Value(fn) && idx >= 0 && idx < len(mc.Bindings) {
			out = mc.Bindings[idx]
			n++
		}
	})
	if n != 1 {
		return nil
	}
	return out
}

// blockingSendKey identifies a blocking send by the type that owns the sending code and the
// channel's type, not by function or field names.
func blockingSendKey(fn *ssa.Function, ch ssa.Value) string {
	owner := "func"
	root := rootFn(fn)
	if n := recvNamed(root); n != nil {
		owner = canonTypeName(n)
	} else if res := root.Signature.Results(); res.Len() > 0 {
		if n := namedOf(res.At(0).Type()); n != nil {
			owner = canonTypeName(n) // a constructor
		}
	}
	local := ""
	if f, _ := loadedField(ch); f == nil {
		local = "local "
	}
	return owner + ":" + local + types.TypeString(ch.Type(), func(*types.Package) string { return "" })
}

func c17BlockingSend(p *Prog, r *Report) {
	const rule = "C17.blocking-send"
	r.Rule(rule, "every channel send in proxy/proxycore is non-blocking (select with default), or in a select with a receive on a closed/done channel, or listed with a reason: a peer that stops reading must not park, forever, goroutines that also serve other connections")
	n := 0
	for _, fn := range p.ScopedFuncs("proxy", "proxycore") {
		short := strings.Replace(strings.Replace(fn.String(), modPath+"/", "", -1), "github.com/datastax/cql-proxy/", "", -1)
		chanName := func(v ssa.Value) string {
			if f, _ := loadedField(v); f != nil {
				return f.Name()
			}
			return "local"
		}
		eachInstr(fn, func(in ssa.Instruction) {
			switch x := in.(type) {
			case *ssa.Send:
				n++
				key := short + ":" + chanName(x.Chan)
				akey := blockingSendKey(fn, x.Chan)
				if strings.HasPrefix(akey, "pendingRequests:") {
					akey = "pendingRequests:chan int16"
				}
				if os.Getenv("CQLVERIF_DEBUG") != "" {
					fmt.Fprintln(os.Stderr, "blocking-send key:", akey)
				}
				if reason, ok := blockingSendAllow[akey]; ok {
					r.ok(rule, key, p.Pos(x.Pos()), "reviewed: "+reason)
				} else if drainedByMain(p, x.Chan) {
					r.ok(rule, key, p.Pos(x.Pos()), "reports a server's terminal error to Run, which made the channel and ranges over it until it is closed; the sender has nothing left to serve")
				} else {
					r.bad(rule, key, p.Pos(x.Pos()), "unconditional blocking send: if the receiving goroutine is gone or stalled (peer stopped reading, connection closed) the sender is parked forever")
				}
			case *ssa.Select:
				hasSend := false
				var sendChan ssa.Value
				escape := !x.Blocking
				for _, st := range x.States {
					if st.Dir == types.SendOnly {
						hasSend = true
						sendChan = st.Chan
					} else {
						// a receive alternative from a closed/done style channel
						if f, _ := loadedField(st.Chan); f != nil && (strings.Contains(strings.ToLower(f.Name()), "closed") || strings.Contains(strings.ToLower(f.Name()), "done")) {
							escape = true
						}
						if c, ok := st.Chan.(*ssa.Call); ok {
							cm := c.Common()
							if (cm.IsInvoke() && cm.Method.Name() == "Done") || (cm.StaticCallee() != nil && (cm.StaticCallee().Name() == "IsClosed" || cm.StaticCallee().Name() == "Done")) {
								escape = true
							}
						}
					}
				}
				if !hasSend {
					return
				}
				n++
				key := short + ":" + chanName(sendChan)
				r.check(escape, rule, key, p.Pos(x.Pos()), "select with an escape alternative",
					"blocking send in a select without a closed/done alternative: the sender cannot be released when the connection goes away")
			}
		})
	}
	if n < 5 {
		fatalf("rule %s: only %d channel sends found (7 confirmed by hand)", rule, n)
	}
}

// readerPosition: the frame body reader is only ever read from; Seek is used to ask for the
// current position and for nothing else.  The slices taken of the body (BytesSince,
// RemainingBytes) rely on 0 <= position <= len(body), which a Seek with a computed offset breaks
// (bytes.Reader allows seeking past the end).
func readerPosition(p *Prog, r *Report, rule string) {
	r.Rule(rule, "the reader over a frame body is moved only by reading: every Seek on it is Seek(0, io.SeekCurrent), the position query (a computed seek can leave the position beyond the body, and the body slices taken afterwards panic or expose stale bytes)")
	var bad []string
	n := 0
	for _, fn := range p.ScopedFuncs("codecs", "proxy", "proxycore") {
		eachCall(fn, func(c ssa.CallInstruction) {
			cm := c.Common()
			name := ""
			var args []ssa.Value
			switch {
			case cm.IsInvoke() && cm.Method.Name() == "Seek":
				name, args = "Seek", cm.Args
			case cm.StaticCallee() != nil && cm.StaticCallee().Name() == "Seek" && cm.StaticCallee().Signature.Recv() != nil:
				name, args = "Seek", cm.Args[1:]
			}
			if name == "" || len(args) != 2 {
				return
			}
			n++
			off, ok1 := constInt(args[0])
			wh, ok2 := constInt(args[1])
			if !ok1 || !ok2 || off != 0 || wh != 1 {
				bad = append(bad, fmt.Sprintf("%s: %s moves a reader with Seek(%s, %s)", p.Pos(c.Pos()), fn.Name(), valDesc(args[0]), valDesc(args[1])))
			}
		})
	}
	r.check(len(bad) == 0 && n > 0, rule, "Seek call sites", "", fmt.Sprintf("%d position queries", n), strings.Join(dedupe(bad), " || "))
	// the start of a slice of the body (BytesSince) is a position the same reader reported earlier:
	// positions count from the start of the body, which is not where the message being decoded
	// starts when something precedes it in the body (a custom payload, warnings, a tracing id), so a
	// start computed any other way (lengths, differences of remaining bytes) selects other bytes
	var bad2 []string
	m := 0
	for _, fn := range p.ScopedFuncs("codecs", "proxy", "proxycore") {
		eachCall(fn, func(c ssa.CallInstruction) {
			cm := c.Common()
			callee := cm.StaticCallee()
			if callee == nil || callee.Name() != "BytesSince" || recvNamed(callee) == nil || recvNamed(callee).Obj().Name() != "FrameBodyReader" || len(cm.Args) != 2 {
				return
			}
			m++
			// the reader itself, whether the methods take it by pointer or by value (a load of it)
			base := func(v ssa.Value) []ssa.Value {
				var out []ssa.Value
				for _, o := range origins(v) {
					if ld, ok := o.(*ssa.UnOp); ok && ld.Op == token.MUL {
						out = append(out, origins(ld.X)...)
					} else {
						out = append(out, o)
					}
				}
				return out
			}
			rdr := base(cm.Args[0])
			for _, o := range origins(cm.Args[1]) {
				ok := false
				if pc, isCall := o.(*ssa.Call); isCall {
					pcal := pc.Call.StaticCallee()
					if pcal != nil && pcal.Name() == "Position" && recvNamed(pcal) == recvNamed(callee) && len(pc.Call.Args) == 1 {
						for _, a := range base(pc.Call.Args[0]) {
							for _, b := range rdr {
								if a == b {
									ok = true
								}
							}
						}
					}
				}
				if !ok {
					bad2 = append(bad2, fmt.Sprintf("%s: %s takes the bytes of the body since %s, which is not a position reported by the same reader: offsets into the body are absolute, and anything computed from lengths is relative to where this message starts (they differ as soon as the body has a custom payload, warnings or a tracing id in front of the message)", p.Pos(c.Pos()), fn.Name(), valDesc(o)))
				}
			}
		})
	}
	r.check(len(bad2) == 0 && m > 0, rule, "BytesSince start positions", "", fmt.Sprintf("%d slices of the body start at a position the reader reported", m), strings.Join(dedupe(bad2), " || "))
}

// c17CrossWrites: writes to a client's connection made by goroutines that serve other
// connections as well (a backend connection's reader delivers the responses of every client
// multiplexed on it; the cluster's control loop fans events out).  Conn.Write blocks while the
// client's write queue is full and only gives up when that connection is closed, so such a
// goroutine is released only if a client that stopped reading is eventually disconnected:
// the connection's writer must bound its socket writes with a deadline.
func c17CrossWrites(p *Prog, r *Report) {
	const rule = "C17.blocking-send"
	cl := p.proxyClientType()
	connF := p.FieldOpt("proxy", cl.Obj().Name(), "conn")
	if connF == nil {
		fatalf("anchor: the client type has no conn field")
	}
	// does the connection's writer bound its writes?
	bounded := false
	for _, fn := range p.ScopedFuncs("proxycore") {
		if recvNamed(fn) == nil || recvNamed(fn).Obj().Name() != "Conn" {
			continue
		}
		eachCall(fn, func(c ssa.CallInstruction) {
			cm := c.Common()
			if (cm.IsInvoke() && (cm.Method.Name() == "SetWriteDeadline" || cm.Method.Name() == "SetDeadline")) ||
				(cm.StaticCallee() != nil && (cm.StaticCallee().Name() == "SetWriteDeadline" || cm.StaticCallee().Name() == "SetDeadline")) {
				bounded = true
			}
		})
	}
	// goroutines that serve more than the client being written to
	var roots []*ssa.Function
	for _, n := range []string{"(*ClientConn).Receive", "(*ClientConn).Closing", "(*Cluster).stayConnected"} {
		if f := p.FuncOpt("proxycore", n); f != nil {
			roots = append(roots, f)
		}
	}
	// reachability over static calls and over dispatch on the repository's own callback
	// interfaces (Request, ClusterListener): VTA's edges through library interfaces would
	// connect everything with everything here
	reach := map[*ssa.Function][]*ssa.Function{}
	var work []*ssa.Function
	for _, f := range roots {
		reach[f] = nil
		work = append(work, f)
	}
	scope := c17Scope(p)
	for len(work) > 0 {
		fn := work[len(work)-1]
		work = work[:len(work)-1]
		node := p.CG.Nodes[fn]
		var next []*ssa.Function
		if node != nil {
			for _, e := range node.Out {
				if e.Site == nil || e.Callee.Func == nil {
					continue
				}
				cm := e.Site.Common()
				switch {
				case cm.StaticCallee() != nil:
					next = append(next, e.Callee.Func)
				case cm.IsInvoke() && (recvNamedIs(cm.Method, "proxycore", "Request") || recvNamedIs(cm.Method, "proxycore", "ClusterListener")):
					next = append(next, e.Callee.Func)
				}
			}
		}
		next = append(next, fn.AnonFuncs...)
		for _, c := range next {
			if c == nil || c.Blocks == nil || !scope(c) {
				continue
			}
			if _, ok := reach[c]; ok {
				continue
			}
			reach[c] = append(append([]*ssa.Function(nil), reach[fn]...), fn)
			work = append(work, c)
		}
	}
	n := 0
	var fns []*ssa.Function
	for fn := range reach {
		fns = append(fns, fn)
	}
	sort.Slice(fns, func(i, j int) bool { return fns[i].String() < fns[j].String() })
	seen := map[string]bool{}
	for _, fn := range fns {
		eachCall(fn, func(c ssa.CallInstruction) {
			if !isConnWrite(c) {
				return
			}
			isClientConn := false
			for _, o := range origins(c.Common().Args[0]) {
				if f, _ := loadedField(o); f == connF {
					isClientConn = true
				}
			}
			if !isClientConn {
				return
			}
			// the finding is identified by what is written and on whose behalf, not by the name of
			// the function the write happens to sit in: a backend reply passed on, a reply built by
			// the proxy for a request, or a cluster event fanned out to the registered clients
			kind := "request-reply-local"
			for _, g := range withSenders(p, rootFn(fn)) {
				eachCall(g, func(cc ssa.CallInstruction) {
					if cm := cc.Common(); cm.IsInvoke() && cm.Method.Name() == "EncodeRawFrame" {
						kind = "request-reply-raw"
					}
				})
			}
			onEventPath := false
			for _, pf := range append(append([]*ssa.Function(nil), reach[fn]...), fn) {
				if pf.Name() == "OnEvent" && recvNamed(pf) != nil && recvNamed(pf).Obj().Name() == "Proxy" {
					onEventPath = true
				}
			}
			if onEventPath {
				kind = "event-fan-out"
			}
			key := "cross-write:" + kind
			if seen[key] {
				return
			}
			seen[key] = true
			n++
			path := reach[fn]
			via := ""
			if len(path) > 0 {
				via = " (reached from " + path[0].Name() + ")"
			}
			r.check(bounded, rule, key, p.Pos(c.Pos()), "the connection's writer bounds its socket writes with a deadline",
				"a goroutine that serves other connections too"+via+" writes to a client's connection here; Conn.Write blocks while that client's write queue is full and is released only when the connection closes, and nothing closes the connection of a client that stays connected but stops reading (no write deadline): every request multiplexed on that backend connection, or every later cluster event, waits on that one client")
		})
	}
	r.count("cross_connection_write_sites", n)
}

// c17DecodeGuard: the library's value codecs panic on some malformed values (a collection with a
// negative element count reaches reflect.MakeSlice); values and their declared types come from
// the other end of a connection.
func c17DecodeGuard(p *Prog, r *Report) {
	const rule = "C17.decode-guard"
	r.Rule(rule, "every call into the library's decoders for bytes received from a peer (a value codec's Decode, the frame codec's ConvertFromRawFrame / DecodeBody / DecodeFrame, which run the message codecs) happens in a function that recovers from a panic of the decoder and returns it as an error: the library allocates from counts read off the wire without checking their sign (row, column and element counts), and a panic in a reader goroutine ends the process")
	n := 0
	var bad []string
	for _, fn := range p.ScopedFuncs("codecs", "proxy", "proxycore", "astra") {
		eachCall(fn, func(c ssa.CallInstruction) {
			cm := c.Common()
			if !cm.IsInvoke() {
				return
			}
			rn := namedOf(cm.Value.Type())
			if rn == nil || rn.Obj().Pkg() == nil {
				return
			}
			switch {
			case cm.Method.Name() == "Decode" && rn.Obj().Name() == "Codec" && strings.HasSuffix(rn.Obj().Pkg().Path(), "/datacodec"):
				// a value codec
			case (cm.Method.Name() == "ConvertFromRawFrame" || cm.Method.Name() == "DecodeBody" || cm.Method.Name() == "DecodeFrame") && strings.HasSuffix(rn.Obj().Pkg().Path(), "/frame"):
				// the message codecs behind the frame codec (row and column counts, reason maps)
			default:
				return
			}
			n++
			guarded := false
			eachInstr(fn, func(in ssa.Instruction) {
				d, ok := in.(*ssa.Defer)
				if !ok {
					return
				}
				var df *ssa.Function
				if mc, ok := d.Call.Value.(*ssa.MakeClosure); ok {
					df, _ = mc.Fn.(*ssa.Function)
				} else {
					df = d.Call.StaticCallee()
				}
				if df == nil || df.Blocks == nil {
					return
				}
				recovers, setsErr := false, false
				eachInstr(df, func(in2 ssa.Instruction) {
					if cc, ok := in2.(*ssa.Call); ok {
						if b, ok := cc.Call.Value.(*ssa.Builtin); ok && b.Name() == "recover" {
							recovers = true
						}
					}
					if st, ok := in2.(*ssa.Store); ok {
						if fv, ok := st.Addr.(*ssa.FreeVar); ok {
							if _, isErr := fv.Type().Underlying().(*types.Pointer).Elem().Underlying().(*types.Interface); isErr {
								setsErr = true
							}
						}
						// a named function deferred directly with the address of the error result
						if par, ok := st.Addr.(*ssa.Parameter); ok {
							if pt, ok := par.Type().Underlying().(*types.Pointer); ok && types.Identical(pt.Elem(), errType) {
								for i, q := range df.Params {
									if q == par && i < len(d.Call.Args) {
										if _, isLocal := d.Call.Args[i].(*ssa.Alloc); isLocal {
											setsErr = true
										}
									}
								}
							}
						}
					}
				})
				// the deferred function must dominate the call: it is registered before the decode runs
				if recovers && setsErr && (d.Block() == c.Block() || d.Block().Dominates(c.Block())) {
					guarded = true
				}
			})
			if !guarded {
				bad = append(bad, fmt.Sprintf("%s: %s calls %s on bytes received from a peer without recovering from a panic of the decoder (a count of -1 where the library allocates - rows, columns, collection elements - panics and ends the process)", p.Pos(c.Pos()), fn.Name(), cm.Method.Name()))
			}
		})
	}
	r.count("value_decode_sites", n)
	r.check(len(bad) == 0 && n > 2, rule, "library decode sites", "", fmt.Sprintf("%d site(s), each under a recover", n), strings.Join(dedupe(bad), " || "))
}

// c17ListenServiced: Cluster.Listen hands a new listener to the control loop with a blocking send,
// and its callers hold the proxy's session lock.  Every state in which the loop waits must take it.
func c17ListenServiced(p *Prog, r *Report) {
	const rule = "C17.listen-serviced"
	r.Rule(rule, "every blocking select of the cluster's control loop (with and without a control connection) receives from the channel on which Listen() registers listeners: a session created while the control connection is down does not block, with the session lock held, until the backend lets the control connection back")
	cl := p.Named("proxycore", "Cluster")
	loop := p.methodOf(cl, "stayConnected")
	if loop == nil {
		fatalf("rule %s: Cluster.stayConnected not found", rule)
	}
	// the registration channel: a channel field of Cluster whose element type is the listener interface
	var regF *types.Var
	if st, ok := cl.Underlying().(*types.Struct); ok {
		for i := 0; i < st.NumFields(); i++ {
			if ch, ok := st.Field(i).Type().Underlying().(*types.Chan); ok && typeIs(ch.Elem(), "proxycore", "ClusterListener") {
				regF = st.Field(i)
			}
		}
	}
	if regF == nil {
		fatalf("rule %s: the listener registration channel of Cluster was not found", rule)
	}
	var bad []string
	n := 0
	scope := []*ssa.Function{loop}
	for _, h := range withCallees(p, loop, 2) {
		if h != loop && h.Parent() == nil && recvNamed(h) == cl && onlyCalledFrom(p, h, loop, 3) {
			scope = append(scope, h)
		}
	}
	scope = append(scope, keeperFuncs(p, loop, keeperType(p, loop))...) // loop state kept in a struct: its methods hold the waits
	for _, f := range scope {
		eachInstr(f, func(in ssa.Instruction) {
			sel, ok := in.(*ssa.Select)
			if !ok || !sel.Blocking {
				return
			}
			// a wait of the loop itself: it has a shutdown arm (ctx.Done())
			isWait := false
			takes := false
			for _, st := range sel.States {
				if st.Dir != types.RecvOnly {
					continue
				}
				for _, o := range origins(st.Chan) {
					if c, ok := o.(*ssa.Call); ok && c.Call.IsInvoke() && c.Call.Method.Name() == "Done" {
						isWait = true
					}
				}
				if fl, _ := loadedField(st.Chan); fl == regF {
					takes = true
				}
			}
			if !isWait {
				return
			}
			n++
			if !takes {
				bad = append(bad, fmt.Sprintf("%s: this wait of the control loop does not receive from %s: Listen() blocks for as long as the loop stays here (while the control connection is down), and its caller holds the proxy's session lock, so every forwarded request of every client waits too", p.Pos(sel.Pos()), regF.Name()))
			}
		})
	}
	r.check(len(bad) == 0 && n >= 2, rule, "Cluster.stayConnected", p.Pos(loop.Pos()), fmt.Sprintf("%d waits of the loop, each takes new listeners", n), strings.Join(dedupe(bad), " || "))
}

// c17AcceptLoop: the loop that accepts client connections serves every client; nothing in it may
// wait for one peer.
func c17AcceptLoop(p *Prog, r *Report) {
	const rule = "C17.accept-loop"
	r.Rule(rule, "the accept loop and the functions it calls synchronously never wait for bytes from the connection just accepted (no TLS handshake, no read): a peer that connects and sends nothing must not keep later clients from being accepted; per-connection work runs in the connection's own goroutines")
	var loops []*ssa.Function
	for _, fn := range p.ScopedFuncs("proxy", "proxycore") {
		if callsDirectly(fn, func(c ssa.CallInstruction) bool {
			cm := c.Common()
			if !cm.IsInvoke() || cm.Method.Name() != "Accept" {
				return false
			}
			n := namedOf(cm.Value.Type())
			return n != nil && n.Obj().Name() == "Listener" && n.Obj().Pkg() != nil && n.Obj().Pkg().Path() == "net"
		}) && fn.Parent() == nil && recvNamed(fn) != nil && !strings.Contains(p.fileOf(fn), "mock") {
			// (wrappers of net.Listener that forward Accept are not loops)
			hasLoop := false
			for _, b := range fn.Blocks {
				if isLoopHeader(b) {
					hasLoop = true
				}
			}
			if hasLoop {
				loops = append(loops, fn)
			}
		}
	}
	if len(loops) == 0 {
		fatalf("rule %s: no accept loop found", rule)
	}
	for _, lp := range loops {
		var bad []string
		// synchronous callees: Call instructions only (not `go`), repo functions, a few levels deep
		seen := map[*ssa.Function]bool{lp: true}
		work := []*ssa.Function{lp}
		depth := map[*ssa.Function]int{lp: 0}
		for len(work) > 0 {
			fn := work[0]
			work = work[1:]
			eachInstr(fn, func(in ssa.Instruction) {
				call, ok := in.(*ssa.Call)
				if !ok {
					return
				}
				cm := call.Common()
				name := ""
				var recvT types.Type
				if cm.IsInvoke() {
					name, recvT = cm.Method.Name(), cm.Value.Type()
				} else if callee := cm.StaticCallee(); callee != nil {
					name = callee.Name()
					if callee.Signature.Recv() != nil {
						recvT = callee.Signature.Recv().Type()
					}
					if p.InRepo(callee) && callee.Blocks != nil && !seen[callee] && depth[fn] < 4 {
						seen[callee] = true
						depth[callee] = depth[fn] + 1
						work = append(work, callee)
					}
					if callee.Pkg != nil && callee.Pkg.Pkg.Path() == "io" && (name == "ReadFull" || name == "ReadAll" || name == "ReadAtLeast") {
						bad = append(bad, fmt.Sprintf("%s: %s waits for bytes from a peer (io.%s) inside the accept loop", p.Pos(call.Pos()), fn.Name(), name))
					}
				}
				if recvT == nil {
					return
				}
				n := namedOf(recvT)
				if n == nil || n.Obj().Pkg() == nil {
					return
				}
				pkg := n.Obj().Pkg().Path()
				isConn := (pkg == "crypto/tls" && n.Obj().Name() == "Conn") || (pkg == "net" && (n.Obj().Name() == "Conn" || n.Obj().Name() == "TCPConn")) || (pkg == "bufio" && n.Obj().Name() == "Reader")
				if !isConn {
					return
				}
				switch name {
				case "Handshake", "HandshakeContext", "Read", "ReadByte", "ReadString", "ReadBytes", "Peek", "ConnectionState":
					if name == "ConnectionState" {
						return
					}
					bad = append(bad, fmt.Sprintf("%s: %s calls %s.%s on the accepted connection inside the accept loop: it waits for the peer (no deadline), and while it waits no other client is accepted", p.Pos(call.Pos()), fn.Name(), n.Obj().Name(), name))
				}
			})
		}
		r.check(len(bad) == 0, rule, recvNamed(lp).Obj().Name()+"."+lp.Name(), p.Pos(lp.Pos()), fmt.Sprintf("%d function(s) run synchronously in the loop", len(seen)), strings.Join(dedupe(bad), " || "))
	}
}
