package main

// C10 — virtual system.local / system.peers present a correct, mutually consistent ring.
//
// Token arithmetic, distinctness/ordering of tokens, equality of values with the
// configuration and agreement between separately started proxies are numeric /
// run-time facts and are NOT decided.  Decided structural clauses:
//  column-producers  every advertised column of system.local / system.peers (DSE and
//                    non-DSE) has a value producer whose encoded datatype is wire-
//                    compatible with the advertised type
//  canonical-table   the parsed statement's table name is the case-folded identifier,
//                    compared with lower-case constants; its keyspace is "system"
//  selector-cardinality each selector returns as many values as columns
//  rows              system.local is answered with exactly one row, system.peers with
//                    one row per node other than the local node, count = nodes-1
//  host-id           host ids are name-based (MD5) UUIDs of the node address with the
//                    version-3 / RFC-4122 variant bits forced
//  tokens-assigned   every node presented in the ring has tokens: when tokens are
//                    calculated, the assignment loop runs whenever a peer was added

import (
	"fmt"
	"go/ast"
	"go/constant"
	"go/token"
	"go/types"
	"sort"
	"strings"

	"golang.org/x/tools/go/ssa"
)

func init() { register("C10", checkC10) }

func checkC10(p *Prog, r *Report) {
	r.NotCov = append(r.NotCov,
		"token arithmetic (even spacing, distinctness, ordering by address), equality of the values with the configuration / backend facts, agreement between independently started proxies, count() values: numeric and run-time facts",
		"decodability of every value under the advertised type beyond datatype agreement of producer and metadata")
	c10Producers(p, r)
	c10Canonical(p, r)
	c10Selectors(p, r)
	c10Rows(p, r)
	c10HostID(p, r)
	c10Tokens(p, r)
	c10MetadataImmutable(p, r)
	c10PrepareAgrees(p, r)
	c10PeerDC(p, r)
	c10AddressOrder(p, r)
	c10LocalFacts(p, r)
}

// c10LocalFacts: the backend-derived facts the local row falls back on, and the address a
// connection without a configured rpc-address is shown.
func c10LocalFacts(p *Prog, r *Report) {
	const rule = "C10.local-facts"
	r.Rule(rule, "the backend data center the proxy falls back on is read from the host built from the system.local row alone (before the peers are appended and the list is sorted); without a configured rpc-address the address of the local row is the one the asking connection was accepted on, per connection, never a value kept in the shared proxy")
	// (a) ClusterInfo.LocalDC
	var bad []string
	n := 0
	for _, fn := range p.ScopedFuncs("proxycore") {
		for _, lit := range structLits(fn, func(t types.Type) bool { return typeIs(t, "proxycore", "ClusterInfo") }) {
			v, ok := lit["LocalDC"]
			if !ok {
				continue
			}
			n++
			okSrc := false
			why := "it is " + valDesc(v)
			// (handed to a private helper that builds the literal: judged at the helper's call site)
			if par, isPar := v.(*ssa.Parameter); isPar {
				if os := originsInter(p, par, 2); len(os) == 1 {
					v = os[0]
				}
			}
			if f, hostV := loadedField(v); f != nil && f.Name() == "DC" && hostV != nil {
				// hostV = *(&S[0])
				if ld, ok := hostV.(*ssa.UnOp); ok {
					if ia, ok := ld.X.(*ssa.IndexAddr); ok {
						if k, isK := constInt(ia.Index); isK && k == 0 {
							srcs := origins(ia.X)
							if sl, isLd := ia.X.(*ssa.UnOp); isLd {
								// a variable assigned several times (captured by the sort callback): the store this load sees
								if rs := reachingStore(sl); rs != nil {
									srcs = origins(rs.Val)
								}
							}
							okSrc = len(srcs) > 0
							for _, o := range srcs {
								call, isCall := o.(*ssa.Call)
								if !isCall {
									okSrc = false
									why = "the list indexed is " + valDesc(o)
									continue
								}
								for _, a := range call.Call.Args {
									if _, isSlice := a.Type().Underlying().(*types.Slice); !isSlice {
										continue
									}
									if c, isC := a.(*ssa.Const); !isC || c.Value != nil {
										// a list that already holds other hosts was passed in: element 0 is no longer the local host
										allNil := true
										aos := origins(a)
										if al, isLd := a.(*ssa.UnOp); isLd {
											if zeroAtLoad(al) {
												aos = nil // the variable still has its zero value here
											} else if rs := reachingStore(al); rs != nil {
												aos = origins(rs.Val)
											}
										}
										for _, ao := range aos {
											if c2, isC2 := ao.(*ssa.Const); !isC2 || c2.Value != nil {
												allNil = false
											}
										}
										if !allNil {
											okSrc = false
											why = "element 0 of a list that other hosts were appended to (and that is sorted by key)"
										}
									}
								}
							}
						}
					}
				}
			}
			if !okSrc {
				bad = append(bad, fmt.Sprintf("%s: ClusterInfo.LocalDC is not the data center of the host built from the system.local row alone (%s): with more than one backend data center the proxy presents itself (and peers without a data center) in the data center of whichever host sorts first", p.Pos(lit["\x00pos"].Pos()), why))
			}
		}
	}
	r.check(len(bad) == 0 && n > 0, rule, "ClusterInfo.LocalDC", "", fmt.Sprintf("%d literal(s)", n), strings.Join(dedupe(bad), " || "))

	// (b) the local address without rpc-address: per connection
	cr := getClientRoles(p)
	var ipFns []*ssa.Function
	for _, m := range p.methodsOf(cr.cl) {
		res := m.Signature.Results()
		if res.Len() == 1 && len(m.Params) == 1 {
			if n := namedOf(res.At(0).Type()); n != nil && n.Obj().Name() == "IP" && n.Obj().Pkg() != nil && n.Obj().Pkg().Path() == "net" {
				ipFns = append(ipFns, m)
			}
		}
	}
	var ib []string
	for _, fn := range ipFns {
		for _, f := range withClosures(fn) {
			eachInstr(f, func(in ssa.Instruction) {
				// a store of an address into the shared proxy object from the per-connection accessor
				if st, ok := in.(*ssa.Store); ok {
					if fa, ok := st.Addr.(*ssa.FieldAddr); ok && typeIs(fa.X.Type(), "proxy", "Proxy") {
						ib = append(ib, fmt.Sprintf("%s: %s keeps the address in Proxy.%s: the first connection's local address is then shown to clients that reached the proxy through another address", p.Pos(st.Pos()), fn.Name(), fieldOfAddr(fa).Name()))
					}
				}
			})
		}
		eachInstr(fn, func(in ssa.Instruction) {
			ret, ok := in.(*ssa.Return)
			if !ok {
				return
			}
			for _, o := range origins(ret.Results[0]) {
				path := fieldPath(o)
				switch {
				case strings.Contains(path, "localNode"):
					// the configured rpc-address
				case strings.Contains(path, "LocalAddr"):
					// this connection's own local address
				default:
					if f, base := loadedField(o); f != nil && base != nil && typeIs(base.Type(), "proxy", "Proxy") {
						ib = append(ib, fmt.Sprintf("%s: %s returns Proxy.%s, a value shared by all connections", p.Pos(ret.Pos()), fn.Name(), f.Name()))
					}
				}
			}
		})
	}
	r.check(len(ib) == 0 && len(ipFns) > 0, rule, "local address accessor", "", fmt.Sprintf("%d accessor(s)", len(ipFns)), strings.Join(dedupe(ib), " || "))
}

// c10PeerDC: a peer entry without a data center gets this proxy's own effective data center (the
// one its local node is presented with), so that proxies sharing one peer list and started with
// the same data center present the same ring.
func c10PeerDC(p *Prog, r *Report) {
	const rule = "C10.peer-dc-default"
	r.Rule(rule, "a peer without a configured data center is presented in the data center of the local node (the configured one, else the backend's): the fallback value of a peer node's dc is the very value the local node's dc is built from")
	dcF := p.Field("proxy", "node", "dc")
	isNode := func(t types.Type) bool { return typeIs(t, "proxy", "node") }
	// the node literals, wherever they are built (one function, or a builder and its helpers)
	var lits []map[string]ssa.Value
	var builder *ssa.Function
	for _, fn := range p.ScopedFuncs("proxy") {
		if ls := structLits(fn, isNode); len(ls) > 0 {
			lits = append(lits, ls...)
			if builder == nil || fn.Pos() < builder.Pos() {
				builder = fn
			}
		}
	}
	if len(lits) < 2 {
		fatalf("rule %s: the literals of the local and the peer nodes were not found (%d node literals)", rule, len(lits))
	}
	// the local node: the literal stored into a *node field of the proxy
	var local map[string]ssa.Value
	for _, l := range lits {
		al := l["\x00pos"]
		for _, ref := range *al.Referrers() {
			if st, ok := ref.(*ssa.Store); ok && st.Val == al {
				if fa, ok := st.Addr.(*ssa.FieldAddr); ok && typeIs(fieldOfAddr(fa).Type(), "proxy", "node") {
					local = l
				}
			}
		}
	}
	var bad []string
	if local == nil {
		bad = append(bad, "no node literal is kept as the proxy's local node")
	}
	npeer := 0
	for _, l := range lits {
		if local == nil || l["\x00pos"] == local["\x00pos"] {
			continue
		}
		npeer++
		dc := l[dcF.Name()]
		if dc == nil {
			bad = append(bad, "a peer node is built without a data center")
			continue
		}
		phi, isPhi := dc.(*ssa.Phi)
		if !isPhi {
			continue // always the configured value: nothing defaulted here
		}
		for _, e := range phi.Edges {
			// the configured value of the peer entry
			if strings.HasSuffix(fieldPath(e), ".DC") && !strings.Contains(fieldPath(e), "config") {
				continue
			}
			if f, _ := loadedField(e); f != nil && f.Name() == "DC" {
				if _, base := loadedField(e); base != nil && !strings.Contains(fieldPath(base), "config") {
					continue
				}
			}
			ok := e == local[dcF.Name()] || sameValue(e, local[dcF.Name()])
			if f, _ := loadedField(e); f == dcF {
				ok = true // read back from the local node
			}
			if !ok {
				bad = append(bad, fmt.Sprintf("%s: a peer without a data center defaults to %s, not to the local node's data center (%s): with an explicit --data-center the peers are presented in another data center than this proxy, and proxies sharing the list disagree about the ring", p.Pos(phi.Pos()), valDesc(e), valDesc(local[dcF.Name()])))
			}
		}
	}
	if npeer == 0 {
		bad = append(bad, "no peer node literal found")
	}
	r.check(len(bad) == 0, rule, "peer node data center", p.Pos(builder.Pos()), fmt.Sprintf("%d peer literal(s)", npeer), strings.Join(dedupe(bad), " || "))
}

// c10AddressOrder: the address comparison that decides "is this peer me" and the order in which
// tokens are assigned must distinguish all addresses of the quantifier, IPv6 included.
func c10AddressOrder(p *Prog, r *Report) {
	const rule = "C10.address-order"
	r.Rule(rule, "the comparison of two node addresses compares the address bytes as they are (or in 16-byte form): a lossy conversion such as To4(), which is nil for every IPv6 address, makes distinct addresses equal")
	isIPAddr := func(t types.Type) bool {
		n := namedOf(t)
		return n != nil && n.Obj().Name() == "IPAddr" && n.Obj().Pkg() != nil && n.Obj().Pkg().Path() == "net"
	}
	var cmps []*ssa.Function
	for _, fn := range p.ScopedFuncs("proxy") {
		n := 0
		for _, par := range fn.Params {
			if isIPAddr(par.Type()) {
				n++
			}
		}
		if n >= 2 && fn.Parent() == nil {
			cmps = append(cmps, fn)
		}
	}
	if len(cmps) == 0 {
		fatalf("rule %s: no function compares two *net.IPAddr", rule)
	}
	for _, fn := range cmps {
		var bad []string
		nb := 0
		for _, f := range withCallees(p, fn, 1) {
			eachCall(f, func(c ssa.CallInstruction) {
				callee := c.Common().StaticCallee()
				if callee == nil {
					return
				}
				switch callee.String() {
				case "bytes.Compare", "bytes.Equal", "(net.IP).Equal":
				default:
					return
				}
				nb++
				for _, a := range c.Common().Args {
					for _, o := range origins(a) {
						if cc, ok := o.(*ssa.Call); ok && cc.Call.StaticCallee() != nil && cc.Call.StaticCallee().String() == "(net.IP).To4" {
							bad = append(bad, p.Pos(c.Pos())+": addresses are compared in their To4() form, which is nil for every IPv6 address: all IPv6 nodes compare equal (peers dropped as 'the local address', tokens not assigned in address order)")
						}
					}
				}
			})
		}
		if nb == 0 {
			bad = append(bad, "the address bytes are not compared")
		}
		r.check(len(bad) == 0, rule, "proxy."+fn.Name(), p.Pos(fn.Pos()), fmt.Sprintf("%d byte comparison(s)", nb), strings.Join(dedupe(bad), " || "))
	}
}

func exprString(e ast.Expr) string {
	switch x := e.(type) {
	case *ast.SelectorExpr:
		return exprString(x.X) + "." + x.Sel.Name
	case *ast.Ident:
		return x.Name
	case *ast.CallExpr:
		var as []string
		for _, a := range x.Args {
			as = append(as, exprString(a))
		}
		return exprString(x.Fun) + "(" + strings.Join(as, ",") + ")"
	case *ast.BasicLit:
		return x.Value
	}
	return fmt.Sprintf("%T", e)
}

// wireType normalises a datatype expression: list and set share the wire format.
func wireType(s string) string {
	s = strings.Replace(s, "datatype.NewSet(", "datatype.NewList(", -1)
	return s
}

// columnTable extracts (name -> type expr) of a []*message.ColumnMetadata literal.
func columnTable(p *Prog, name string) map[string]string {
	e, info := p.astGlobalInit("parser", name)
	lit, ok := e.(*ast.CompositeLit)
	if !ok {
		fatalf("anchor: parser.%s is not a literal", name)
	}
	out := map[string]string{}
	for _, el := range lit.Elts {
		cl, ok := el.(*ast.CompositeLit)
		if !ok {
			continue
		}
		var n, t string
		for _, kv := range cl.Elts {
			k, ok := kv.(*ast.KeyValueExpr)
			if !ok {
				continue
			}
			switch exprString(k.Key) {
			case "Name":
				if tv, ok := info.Types[k.Value]; ok && tv.Value != nil {
					n = constant.StringVal(tv.Value)
				}
			case "Type":
				t = exprString(k.Value)
			}
		}
		if n != "" {
			out[n] = t
		}
	}
	return out
}

// producersIn extracts (name -> datatype expr) from a function body: map literal
// entries `"name": p.encodeTypeFatal(dt, ...)` and if-chains `name == "x"` whose
// body returns codecs.EncodeType(dt, ...).
func producersIn(p *Prog, pkg string, fnName string) map[string]string {
	out := map[string]string{}
	info := p.TypesInfo(pkg)
	var body *ast.BlockStmt
	for _, f := range p.Syntax(pkg) {
		for _, d := range f.Decls {
			if fd, ok := d.(*ast.FuncDecl); ok && fd.Name.Name == fnName {
				body = fd.Body
			}
		}
	}
	if body == nil {
		return out
	}
	// local encoding helpers: name := func(v T) []byte { return <encode>(datatype.X, v) }
	localEnc := map[string]string{}
	var dtOfCall func(e ast.Expr) string
	dtOfCall = func(e ast.Expr) string {
		c, ok := e.(*ast.CallExpr)
		if !ok {
			return ""
		}
		fun := exprString(c.Fun)
		if dt, ok := localEnc[fun]; ok {
			return dt
		}
		if len(c.Args) == 0 {
			return ""
		}
		if strings.HasSuffix(fun, "EncodeType") || strings.HasSuffix(fun, "encodeTypeFatal") {
			return exprString(c.Args[0])
		}
		return ""
	}
	ast.Inspect(body, func(n ast.Node) bool {
		as, ok := n.(*ast.AssignStmt)
		if !ok || len(as.Lhs) != 1 || len(as.Rhs) != 1 {
			return true
		}
		fl, ok := as.Rhs[0].(*ast.FuncLit)
		if !ok || len(fl.Body.List) != 1 {
			return true
		}
		if rs, ok := fl.Body.List[0].(*ast.ReturnStmt); ok && len(rs.Results) == 1 {
			if dt := dtOfCall(rs.Results[0]); dt != "" && strings.HasPrefix(dt, "datatype.") {
				localEnc[exprString(as.Lhs[0])] = dt
			}
		}
		return true
	})
	strConst := func(e ast.Expr) (string, bool) {
		if tv, ok := info.Types[e]; ok && tv.Value != nil && tv.Value.Kind() == constant.String {
			return constant.StringVal(tv.Value), true
		}
		return "", false
	}
	ast.Inspect(body, func(n ast.Node) bool {
		switch x := n.(type) {
		case *ast.KeyValueExpr:
			if k, ok := strConst(x.Key); ok {
				if dt := dtOfCall(x.Value); dt != "" {
					out[k] = dt
				}
			}
		case *ast.IfStmt:
			be, ok := x.Cond.(*ast.BinaryExpr)
			if !ok || be.Op != token.EQL {
				return true
			}
			k, ok := strConst(be.Y)
			if !ok {
				k, ok = strConst(be.X)
			}
			if !ok {
				return true
			}
			for _, st := range x.Body.List {
				if rs, ok := st.(*ast.ReturnStmt); ok && len(rs.Results) > 0 {
					if dt := dtOfCall(rs.Results[0]); dt != "" {
						out[k] = dt
					} else {
						out[k] = "(precomputed)"
					}
				}
			}
		}
		return true
	})
	return out
}

// isDataType: the cassandra-protocol datatype.DataType interface.
func isDataType(t types.Type) bool {
	n := namedOf(t)
	return n != nil && n.Obj().Name() == "DataType" && n.Obj().Pkg() != nil && strings.HasSuffix(n.Obj().Pkg().Path(), "/datatype")
}

func isByteSlice(t types.Type) bool {
	sl, ok := t.Underlying().(*types.Slice)
	if !ok {
		return false
	}
	b, ok := sl.Elem().Underlying().(*types.Basic)
	return ok && b.Kind() == types.Byte
}

// dtString renders a datatype value the way the column tables spell it (datatype.Inet,
// datatype.NewList(datatype.Varchar)).
func dtString(v ssa.Value) string {
	switch x := v.(type) {
	case *ssa.MakeInterface:
		return dtString(x.X)
	case *ssa.ChangeInterface:
		return dtString(x.X)
	case *ssa.ChangeType:
		return dtString(x.X)
	case *ssa.UnOp:
		if g, ok := x.X.(*ssa.Global); ok && x.Op == token.MUL && g.Pkg != nil && strings.HasSuffix(g.Pkg.Pkg.Path(), "/datatype") {
			return "datatype." + g.Name()
		}
	case *ssa.Call:
		if f := x.Call.StaticCallee(); f != nil && f.Pkg != nil && strings.HasSuffix(f.Pkg.Pkg.Path(), "/datatype") {
			var as []string
			for _, a := range x.Call.Args {
				as = append(as, dtString(a))
			}
			return "datatype." + f.Name() + "(" + strings.Join(as, ",") + ")"
		}
	}
	return "?"
}

// encodedWith: v is the result of an encoding call (directly, as the first result of a tuple, or
// through a small local/private helper that fixes the datatype); returns the datatype spelling.
func encodedWith(p *Prog, v ssa.Value, depth int) string {
	for _, o := range origins(v) {
		if ex, ok := o.(*ssa.Extract); ok {
			o = ex.Tuple
		}
		c, ok := o.(*ssa.Call)
		if !ok {
			continue
		}
		for _, a := range c.Call.Args {
			if isDataType(a.Type()) {
				if dt := dtString(a); dt != "?" {
					return dt
				}
			}
		}
		if depth <= 0 {
			continue
		}
		callee := c.Call.StaticCallee()
		if mc, ok := c.Call.Value.(*ssa.MakeClosure); ok {
			callee, _ = mc.Fn.(*ssa.Function)
		}
		if callee == nil {
			// a local `enc := func(v T) []byte {...}` read back from its variable
			for _, oo := range origins(c.Call.Value) {
				if mc, ok := oo.(*ssa.MakeClosure); ok {
					callee, _ = mc.Fn.(*ssa.Function)
				}
				if f, ok := oo.(*ssa.Function); ok {
					callee = f
				}
			}
		}
		if callee == nil || callee.Blocks == nil || !p.InRepo(callee) {
			continue
		}
		dt := ""
		eachInstr(callee, func(in ssa.Instruction) {
			if ret, ok := in.(*ssa.Return); ok && len(ret.Results) > 0 {
				if d := encodedWith(p, ret.Results[0], depth-1); d != "" {
					dt = d
				}
			}
		})
		if dt != "" {
			return dt
		}
	}
	return ""
}

// caseBody: every way into block t is the true edge of a comparison with a constant (the body of
// `if x == "a"` or of `case "a", "b":`).
func caseBody(t *ssa.BasicBlock) bool {
	if len(t.Preds) == 0 {
		return false
	}
	for _, pr := range t.Preds {
		ifi, ok := lastIf(pr)
		if !ok || pr.Succs[0] != t || pr.Succs[1] == t {
			return false
		}
		bo, ok := ifi.Cond.(*ssa.BinOp)
		if !ok || bo.Op != token.EQL {
			return false
		}
		_, cx := bo.X.(*ssa.Const)
		_, cy := bo.Y.(*ssa.Const)
		if !cx && !cy {
			return false
		}
	}
	return true
}

// lookupProducers: for a value-lookup function (name -> value), the column names it answers by
// comparing the name with a constant, and the datatype each answer is encoded with
// ("(precomputed)" when the answer is not an encoding call).
func lookupProducers(p *Prog, fn *ssa.Function) map[string]string {
	out := map[string]string{}
	eachInstr(fn, func(in ssa.Instruction) {
		bo, ok := in.(*ssa.BinOp)
		if !ok || bo.Op != token.EQL {
			return
		}
		k, ok := constStr(bo.Y)
		if !ok {
			k, ok = constStr(bo.X)
		}
		if !ok {
			return
		}
		for _, ref := range *bo.Referrers() {
			ifi, ok := ref.(*ssa.If)
			if !ok {
				continue
			}
			t := ifi.Block().Succs[0]
			if !caseBody(t) {
				continue
			}
			for _, b := range fn.Blocks {
				if !t.Dominates(b) {
					continue
				}
				for _, bi := range b.Instrs {
					ret, ok := bi.(*ssa.Return)
					if !ok || len(ret.Results) == 0 {
						continue
					}
					if dt := encodedWith(p, ret.Results[0], 2); dt != "" {
						out[k] = dt
					} else if _, have := out[k]; !have {
						out[k] = "(precomputed)"
					}
				}
			}
		}
	})
	return out
}

// c10ProducerSets finds the value producers by role: the functions handed to parser.FilterValues
// as value lookup (the one answering a column that only system.peers has is the peers producer),
// and every constant-keyed entry written into a map of encoded columns (the precomputed local row).
func c10ProducerSets(p *Prog) (local, localExtra, peerExtra map[string]string, lookups []*ssa.Function) {
	local, localExtra, peerExtra = map[string]string{}, map[string]string{}, map[string]string{}
	peersOnly := map[string]bool{}
	lc := columnTable(p, "SystemLocalColumns")
	for n := range columnTable(p, "SystemPeersColumns") {
		if _, both := lc[n]; !both {
			peersOnly[n] = true
		}
	}
	seen := map[*ssa.Function]bool{}
	for _, fn := range p.ScopedFuncs("proxy") {
		eachCall(fn, func(c ssa.CallInstruction) {
			if !callIsFunc(c, "parser", "FilterValues") || len(c.Common().Args) < 3 {
				return
			}
			if cb := callbackFnOf(p, c.Common().Args[2]); cb != nil && !seen[cb] {
				seen[cb] = true
				lookups = append(lookups, cb)
			}
		})
		eachInstr(fn, func(in ssa.Instruction) {
			mu, ok := in.(*ssa.MapUpdate)
			if !ok {
				return
			}
			mt, ok := mu.Map.Type().Underlying().(*types.Map)
			if !ok || !isByteSlice(mt.Elem()) {
				return // message.Column is an alias of []byte
			}
			if k, ok := constStr(mu.Key); ok {
				if dt := encodedWith(p, mu.Value, 2); dt != "" {
					local[k] = dt
				} else {
					local[k] = "(precomputed)"
				}
			}
		})
	}
	sort.Slice(lookups, func(i, j int) bool { return lookups[i].Pos() < lookups[j].Pos() })
	for _, cb := range lookups {
		pr := lookupProducers(p, cb)
		isPeers := false
		for k := range pr {
			if peersOnly[k] {
				isPeers = true
			}
		}
		dst := localExtra
		if isPeers {
			dst = peerExtra
		}
		for k, v := range pr {
			dst[k] = v
		}
	}
	return
}

func c10Producers(p *Prog, r *Report) {
	const rule = "C10.column-producers"
	r.Rule(rule, "every column advertised for system.local and system.peers (plain and DSE) has a value producer, and the datatype the producer encodes with is wire-compatible with the advertised column type (list and set share a wire format)")
	local, localExtra, peerExtra, lookups := c10ProducerSets(p)
	if len(local) < 8 || len(lookups) < 2 {
		fatalf("rule %s: producers not found (precomputed local row %d entries, %d value lookups handed to FilterValues)", rule, len(local), len(lookups))
	}
	check := func(table string, extra map[string]string) {
		cols := columnTable(p, table)
		if len(cols) < 8 {
			fatalf("rule %s: only %d columns in parser.%s", rule, len(cols), table)
		}
		var bad []string
		var names []string
		for n := range cols {
			names = append(names, n)
		}
		sort.Strings(names)
		for _, n := range names {
			dt, ok := extra[n]
			if !ok {
				dt, ok = local[n]
			}
			if !ok {
				bad = append(bad, fmt.Sprintf("column %q is advertised but no value is produced for it (a SELECT * fails with 'no column value')", n))
				continue
			}
			if dt == "(precomputed)" {
				continue
			}
			if wireType(dt) != wireType(cols[n]) {
				bad = append(bad, fmt.Sprintf("column %q is advertised as %s but encoded as %s", n, cols[n], dt))
			}
		}
		r.check(len(bad) == 0, rule, "parser."+table, p.Pos(p.Global("parser", table).Pos()), fmt.Sprintf("%d columns", len(cols)), strings.Join(bad, " || "))
	}
	check("SystemLocalColumns", localExtra)
	check("DseSystemLocalColumns", localExtra)
	check("SystemPeersColumns", peerExtra)
	check("DseSystemPeersColumns", peerExtra)
	// count(*) producers
	var cb []string
	cvn := constant.StringVal(p.constOf("parser", "CountValueName"))
	if _, ok := localExtra[cvn]; !ok {
		cb = append(cb, "no value for count(...) on system.local")
	}
	if _, ok := peerExtra[cvn]; !ok {
		cb = append(cb, "no value for count(...) on system.peers")
	}
	r.check(len(cb) == 0, rule, "count(*)", "", "", strings.Join(cb, " || "))
}

func c10Canonical(p *Prog, r *Report) {
	const rule = "C10.canonical-table"
	r.Rule(rule, "a handled SELECT carries keyspace \"system\" and the case-folded table identifier (Identifier.ID()); the interceptor and the column tables are keyed by lower-case names")
	fn := p.Func("parser", "isHandledSelectStmt")
	var bad []string
	lits := structLits(fn, func(t types.Type) bool { return typeIs(t, "parser", "SelectStatement") })
	if len(lits) != 1 {
		bad = append(bad, fmt.Sprintf("%d SelectStatement literals", len(lits)))
	}
	for _, lit := range lits {
		if s, ok := constStr(lit["Keyspace"]); !ok || s != "system" {
			bad = append(bad, "statement keyspace is not the constant \"system\"")
		}
		okT := false
		if c, ok := lit["Table"].(*ssa.Call); ok && callIsMethod(c, "parser", "Identifier", "ID") {
			// of the table identifier (result #1 of parseQualifiedIdentifier)
			for _, o := range origins(c.Call.Args[0]) {
				if ex, ok := o.(*ssa.Extract); ok && ex.Index == 1 {
					if cc, ok := ex.Tuple.(*ssa.Call); ok && callIsFunc(cc, "parser", "parseQualifiedIdentifier") {
						okT = true
					}
				}
			}
		}
		if !okT {
			bad = append(bad, "statement table is not Identifier.ID() of the parsed table name (system.LOCAL / \"local\" would not be recognised by the interceptor)")
		}
	}
	r.check(len(bad) == 0, rule, "parser.isHandledSelectStmt", p.Pos(fn.Pos()), "", strings.Join(bad, " || "))
	// SystemColumnsByName keys lower-case and cover local + peers
	e, info := p.astGlobalInit("parser", "SystemColumnsByName")
	keys, ok := stringElems(e, info, true)
	var kb []string
	if !ok {
		kb = append(kb, "not a literal map with constant keys")
	}
	have := map[string]bool{}
	for _, k := range keys {
		have[k] = true
		if k != strings.ToLower(k) {
			kb = append(kb, fmt.Sprintf("key %q is not lower case", k))
		}
	}
	for _, need := range []string{"local", "peers"} {
		if !have[need] {
			kb = append(kb, "no column metadata for system."+need)
		}
	}
	r.check(len(kb) == 0, rule, "parser.SystemColumnsByName", p.Pos(p.Global("parser", "SystemColumnsByName").Pos()), strings.Join(keys, ","), strings.Join(kb, " || "))
	// interceptor compares s.Table with "local" and "peers"
	cr := getClientRoles(p)
	tblF := p.Field("parser", "SelectStatement", "Table")
	cmp := map[string]bool{}
	for _, ifn := range cr.interceptFns() {
		eachInstr(ifn, func(in ssa.Instruction) {
			if bo, ok := in.(*ssa.BinOp); ok && bo.Op == token.EQL {
				if f, _ := loadedField(bo.X); f == tblF {
					if s, ok := constStr(bo.Y); ok {
						cmp[s] = true
					}
				}
			}
		})
	}
	var ib []string
	for _, need := range []string{"local", "peers"} {
		if !cmp[need] {
			ib = append(ib, "the interceptor has no arm for table "+need)
		}
	}
	for k := range cmp {
		if k != strings.ToLower(k) {
			ib = append(ib, fmt.Sprintf("arm %q can never match a case-folded table name", k))
		}
	}
	r.check(len(ib) == 0, rule, cr.intercept.Name(), p.Pos(cr.intercept.Pos()), "", strings.Join(ib, " || "))
}

// lenDesc describes the length of a returned slice: "k" (literal of k elements),
// "in" (the columns parameter / one element per ranged column) or "delegate".
func lenDesc(fn *ssa.Function, v ssa.Value) string {
	return lenDescSeen(fn, v, map[ssa.Value]bool{})
}

func lenDescSeen(fn *ssa.Function, v ssa.Value, seen map[ssa.Value]bool) string {
	descs := map[string]bool{}
	if seen[v] {
		return ""
	}
	seen[v] = true
	for _, o := range origins(v) {
		switch x := o.(type) {
		case *ssa.Const:
			if x.Value == nil {
				descs["nil"] = true
			}
		case *ssa.Slice:
			if al, ok := x.X.(*ssa.Alloc); ok {
				if arr, ok := al.Type().Underlying().(*types.Pointer).Elem().Underlying().(*types.Array); ok {
					descs[fmt.Sprint(arr.Len())] = true
					continue
				}
			}
			descs["?"] = true
		case *ssa.Parameter:
			descs["in"] = true
		case *ssa.Call:
			if b, ok := x.Call.Value.(*ssa.Builtin); ok && b.Name() == "append" {
				// appended inside a range loop over X: one per element of X; outside a loop: +n
				first := lenDescSeen(fn, x.Call.Args[0], seen)
				inLoop := false
				for _, pr := range x.Block().Preds {
					_ = pr
				}
				if strings.HasPrefix(x.Block().Comment, "rangeindex") || loopDepthOf(x.Block()) > 0 {
					inLoop = true
				}
				if inLoop {
					// which slice is ranged? the one indexed by the loop variable
					src := "per-element"
					eachInstr(fn, func(in ssa.Instruction) {
						ia, ok := in.(*ssa.IndexAddr)
						if !ok {
							return
						}
						if add, ok := ia.Index.(*ssa.BinOp); ok && add.Op == token.ADD {
							if phi, ok := add.X.(*ssa.Phi); ok && phi.Comment == "rangeindex" {
								for _, o := range origins(ia.X) {
									switch y := o.(type) {
									case *ssa.Parameter:
										src = "in"
									case *ssa.Extract:
										if cc, ok := y.Tuple.(*ssa.Call); ok && cc.Call.IsInvoke() {
											src = "delegate"
										}
									case *ssa.UnOp:
										src = "per-element"
									}
								}
							}
						}
					})
					// the append must happen on every iteration: a condition inside the loop whose other
					// branch continues the loop makes the number of elements data dependent
					for _, ct := range dominatingConds(x.Block()) {
						ci, ok := ct.Cond.(ssa.Instruction)
						if !ok || loopDepthOf(ci.Block()) == 0 {
							continue
						}
						ifb := ci.Block()
						if ifi, ok := lastIf(ifb); !ok || ifi.Cond != ct.Cond {
							// the If may be in a later block of the same chain
							for _, b := range fn.Blocks {
								if i2, ok := lastIf(b); ok && i2.Cond == ct.Cond {
									ifb = b
								}
							}
						}
						if ifi, ok := lastIf(ifb); ok {
							other := ifb.Succs[1]
							if !ct.Truth {
								other = ifb.Succs[0]
							}
							_ = ifi
							if strings.HasPrefix(ifb.Comment, "rangeindex.loop") || strings.HasPrefix(ifb.Comment, "for.loop") {
								continue // the loop condition itself
							}
							// does the other branch come back into the loop?
							seen2 := map[*ssa.BasicBlock]bool{}
							stack := []*ssa.BasicBlock{other}
							for len(stack) > 0 {
								b := stack[len(stack)-1]
								stack = stack[:len(stack)-1]
								if seen2[b] {
									continue
								}
								seen2[b] = true
								if isLoopHeader(b) && b.Dominates(x.Block()) {
									src = "conditional"
								}
								stack = append(stack, b.Succs...)
							}
						}
					}
					descs[src] = true
				} else {
					n := "?"
					if len(x.Call.Args) > 1 {
						if sl, ok := x.Call.Args[1].(*ssa.Slice); ok {
							if al, ok := sl.X.(*ssa.Alloc); ok {
								if arr, ok := al.Type().Underlying().(*types.Pointer).Elem().Underlying().(*types.Array); ok {
									n = fmt.Sprint(arr.Len())
								}
							}
						}
					}
					if first == "nil" || first == "" {
						descs[n] = true
					} else {
						descs[first+"+"+n] = true
					}
				}
			} else if x.Call.IsInvoke() {
				descs["delegate"] = true
			} else if callee := x.Call.StaticCallee(); callee != nil && callee.Blocks != nil && callee.Pkg == fn.Pkg {
				for _, d := range calleeLenDescs(callee, 0, seen) {
					descs[d] = true
				}
			} else {
				descs["call"] = true
			}
		case *ssa.Extract:
			if c, ok := x.Tuple.(*ssa.Call); ok && c.Call.IsInvoke() {
				descs["delegate"] = true
			} else if c, ok := x.Tuple.(*ssa.Call); ok && c.Call.StaticCallee() != nil && c.Call.StaticCallee().Blocks != nil && c.Call.StaticCallee().Pkg == fn.Pkg {
				for _, d := range calleeLenDescs(c.Call.StaticCallee(), x.Index, seen) {
					descs[d] = true
				}
			} else {
				descs["?"] = true
			}
		default:
			descs["?"] = true
		}
	}
	delete(descs, "nil")
	return strings.Join(sortedKeys(descs), "|")
}

// calleeLenDescs: length descriptions of result #idx of a same-package helper
func calleeLenDescs(callee *ssa.Function, idx int, seen map[ssa.Value]bool) []string {
	set := map[string]bool{}
	eachInstr(callee, func(in ssa.Instruction) {
		ret, ok := in.(*ssa.Return)
		if !ok || idx >= len(ret.Results) {
			return
		}
		if d := lenDescSeen(callee, ret.Results[idx], seen); d != "" {
			for _, x := range strings.Split(d, "|") {
				set[x] = true
			}
		}
	})
	return sortedKeys(set)
}

func loopDepthOf(b *ssa.BasicBlock) int {
	fn := b.Parent()
	d := 0
	for _, h := range fn.Blocks {
		if !isLoopHeader(h) {
			continue
		}
		// b is in the loop of h if h dominates b and b can reach h
		if h.Dominates(b) {
			seen := map[*ssa.BasicBlock]bool{}
			stack := []*ssa.BasicBlock{b}
			reach := false
			for len(stack) > 0 && !reach {
				x := stack[len(stack)-1]
				stack = stack[:len(stack)-1]
				for _, s := range x.Succs {
					if s == h {
						reach = true
					}
					if !seen[s] {
						seen[s] = true
						stack = append(stack, s)
					}
				}
			}
			if reach {
				d++
			}
		}
	}
	return d
}

func c10Selectors(p *Prog, r *Report) {
	const rule = "C10.selector-cardinality"
	r.Rule(rule, "each Selector implementation yields as many values as columns (one/one, one per input column / the input columns, or both delegated to the wrapped selector)")
	for _, n := range p.implsOf("parser", "parser", "Selector") {
		cols, vals := p.methodOf(n, "Columns"), p.methodOf(n, "Values")
		if cols == nil || vals == nil {
			continue
		}
		desc := func(fn *ssa.Function) string {
			set := map[string]bool{}
			eachInstr(fn, func(in ssa.Instruction) {
				ret, ok := in.(*ssa.Return)
				if !ok {
					return
				}
				// success returns only: error result nil
				if c, ok := ret.Results[1].(*ssa.Const); !ok || c.Value != nil {
					if _, isPhi := ret.Results[1].(*ssa.Phi); !isPhi {
						if len(origins(ret.Results[1])) == 1 {
							if cc, ok := origins(ret.Results[1])[0].(*ssa.Const); !ok || cc.Value != nil {
								// error path (non-constant error): skip if the slice is nil
								if lenDesc(fn, ret.Results[0]) == "" {
									return
								}
							}
						}
					}
				}
				if d := lenDesc(fn, ret.Results[0]); d != "" {
					for _, x := range strings.Split(d, "|") {
						set[x] = true
					}
				}
			})
			return strings.Join(sortedKeys(set), "|")
		}
		dc, dv := desc(cols), desc(vals)
		norm := func(s string) string {
			s = strings.Replace(s, "per-element", "in", -1)
			parts := map[string]bool{}
			for _, x := range strings.Split(s, "|") {
				parts[x] = true
			}
			return strings.Join(sortedKeys(parts), "|")
		}
		r.check(norm(dc) == norm(dv) && dc != "" && !strings.Contains(dc+dv, "?"), rule, n.Obj().Name(), p.Pos(cols.Pos()),
			fmt.Sprintf("columns:%s values:%s", dc, dv), fmt.Sprintf("Columns yields [%s] but Values yields [%s]: rows would not match their metadata", dc, dv))
	}
	r.Floor(rule, 5, "Selector implementations")
	selectorInputs(p, r, rule)
}

// selectorInputs: Columns() and Values() of the selectors agree only when both are given the same
// column list.  The values of a row must be produced from the table's columns: produced from the
// already selected columns, every '*' yields one value per SELECTED column (rows with more values
// than columns, and a response quadratic in the number of stars of the select list).
func selectorInputs(p *Prog, r *Report, rule string) {
	var bad []string
	n := 0
	for _, fn := range p.ScopedFuncs("proxy") {
		eachCall(fn, func(c ssa.CallInstruction) {
			if !callIsFunc(c, "parser", "FilterValues") || len(c.Common().Args) < 2 {
				return
			}
			n++
			for _, o := range originsInter(p, c.Common().Args[1], 3) {
				if ex, ok := o.(*ssa.Extract); ok {
					if cc, ok := ex.Tuple.(*ssa.Call); ok && callIsFunc(cc, "parser", "FilterColumns") {
						bad = append(bad, fmt.Sprintf("%s: the row values are produced from the selected columns (the result of FilterColumns) instead of the table's columns: each '*' then stands for every selected column again (more values than columns; k stars give k*k*N values)", p.Pos(c.Pos())))
					}
				}
			}
		})
	}
	r.check(len(bad) == 0 && n >= 2, rule, "selector inputs", "", fmt.Sprintf("%d FilterValues call(s) fed with the table's columns", n), strings.Join(dedupe(bad), " || "))
}

func c10Rows(p *Prog, r *Report) {
	const rule = "C10.rows"
	r.Rule(rule, "system.local is answered with exactly one row; system.peers with one row per configured node other than the local node, and count(...) over peers is the number of nodes minus one")
	cr := getClientRoles(p)
	fn := cr.intercept
	tblF := p.Field("parser", "SelectStatement", "Table")
	nodesF := p.Field("proxy", "Proxy", "nodes")
	localF := p.Field("proxy", "Proxy", "localNode")
	var bad []string
	// local arm: Data is a one-element slice literal
	armOf := func(b *ssa.BasicBlock) string {
		for _, ct := range dominatingConds(b) {
			if bo, ok := ct.Cond.(*ssa.BinOp); ok && bo.Op == token.EQL && ct.Truth {
				if f, _ := loadedField(bo.X); f == tblF {
					if s, ok := constStr(bo.Y); ok {
						return s
					}
				}
			}
		}
		return ""
	}
	_ = armOf
	// row counts by simulation of the interceptor with its helpers looked through: which table
	// arm a path took, and the length (0 / 1 / more) of the slice stored as the result's Data
	sm := newSim(p)
	sm.TrackLens = true
	sm.Inline = func(f *ssa.Function) bool { return cr.ihelp[f] }
	sm.OnBranch = func(st *State, cond ssa.Value, truth bool) {
		if bo, ok := cond.(*ssa.BinOp); ok && bo.Op == token.EQL && truth {
			if f, _ := loadedField(bo.X); f == tblF {
				if k, ok := constStr(bo.Y); ok {
					st.aux["table"] = k
				}
			}
		}
	}
	sm.OnInstr = func(st *State, in ssa.Instruction) {
		stv, ok := in.(*ssa.Store)
		if !ok {
			return
		}
		fa, ok := stv.Addr.(*ssa.FieldAddr)
		if !ok || fieldOfAddr(fa).Name() != "Data" || !typeIs(fa.X.Type(), "message", "RowsResult") {
			return
		}
		d := "?"
		a := sm.eval(st, stv.Val)
		if sl, ok := stv.Val.(*ssa.Slice); ok && sl.Low == nil && sl.High == nil {
			if al, ok := sl.X.(*ssa.Alloc); ok {
				if arr, ok := al.Type().Underlying().(*types.Pointer).Elem().Underlying().(*types.Array); ok {
					a = avSymbol(fmt.Sprintf("len:%d", arr.Len()))
				}
			}
		}
		switch {
		case a.K == avNil:
			d = "0"
		case a.K == avSym && strings.HasPrefix(a.S, "len:"):
			d = a.S[4:]
		}
		st.aux["rows"] = d
	}
	localRows, peerRows := map[string]bool{}, map[string]bool{}
	for _, o := range sm.Run(fn, newState()) {
		if o.Panic {
			continue
		}
		rows, has := o.St.aux["rows"]
		if !has {
			continue
		}
		switch o.St.aux["table"] {
		case "local":
			localRows[rows] = true
		case "peers":
			peerRows[rows] = true
		}
	}
	r.count("sim_states", sm.Nodes)
	if len(localRows) == 0 || len(peerRows) == 0 {
		fatalf("rule %s: the rows written for system.local / system.peers could not be located in the interceptor", rule)
	}
	if len(localRows) != 1 || !localRows["1"] {
		bad = append(bad, fmt.Sprintf("system.local is answered with %v rows instead of exactly one", sortedKeys(localRows)))
	}
	// peers: the rows are accumulated in a loop (the length is not one fixed number)
	if len(peerRows) < 2 && !peerRows["?"] {
		bad = append(bad, fmt.Sprintf("system.peers rows are not built one per node (always %v rows)", sortedKeys(peerRows)))
	}
	// the peers loop ranges over proxy.nodes and skips exactly the local node
	skipOK, countOK := false, false
	for _, sf := range withCallees(p, fn, 4) {
		eachInstr(sf, func(in ssa.Instruction) {
			if bo, ok := in.(*ssa.BinOp); ok && (bo.Op == token.NEQ || bo.Op == token.EQL) {
				fx, _ := loadedField(bo.Y)
				if fx == localF {
					// the other side is an element of nodes
					if ld, ok := bo.X.(*ssa.UnOp); ok {
						if ia, ok := ld.X.(*ssa.IndexAddr); ok {
							if f, _ := loadedField(ia.X); f == nodesF {
								skipOK = true
							}
						}
					}
					// ... or the element handed to the predicate of a filter over nodes whose result is
					// what the rows are built from
					if par, ok := bo.X.(*ssa.Parameter); ok && bo.Op == token.NEQ && par.Parent().Parent() != nil {
						cf := par.Parent()
						eachCall(cf.Parent(), func(fc ssa.CallInstruction) {
							if !p.filterShape(fc.Common().StaticCallee()) || len(fc.Common().Args) != 2 {
								return
							}
							if f, _ := loadedField(fc.Common().Args[0]); f != nodesF {
								return
							}
							if ts := p.funcValueTargets(fc.Common().Args[1], 1); len(ts) == 1 && ts[0] == cf && len(predReturnConds(p, fc.Common().Args[1])) == 1 {
								skipOK = true
							}
						})
					}
				}
			}
			if bo, ok := in.(*ssa.BinOp); ok && bo.Op == token.SUB {
				if one, ok := constInt(bo.Y); ok && one == 1 {
					if la := lenArg(bo.X); la != nil {
						if f, _ := loadedField(la); f == nodesF {
							countOK = true
						}
					}
				}
			}
		})
	}
	if !skipOK {
		bad = append(bad, "the peers rows are not `every node except the local node`")
	}
	if !countOK {
		bad = append(bad, "the peer count is not len(nodes)-1")
	}
	r.check(len(bad) == 0, rule, fn.Name(), p.Pos(fn.Pos()), "", strings.Join(bad, " || "))
	// buildNodes drops peers equal to the local address
	px := p.Named("proxy", "Proxy")
	bn := p.methodOf(px, "buildNodes")
	drops := false
	var bnFns []*ssa.Function
	for _, f := range withCallees(p, bn, 2) {
		if f == bn || (f.Parent() == nil && f.Pkg == bn.Pkg && onlyCalledFrom(p, f, bn, 3)) {
			bnFns = append(bnFns, f)
		}
	}
	for _, bf := range bnFns {
		eachCall(bf, func(c ssa.CallInstruction) {
			if callIsFunc(c, "proxy", "compareIPAddr") {
				v := c.(ssa.Value)
				for _, ref := range *v.Referrers() {
					if bo, ok := ref.(*ssa.BinOp); ok && bo.Op == token.EQL {
						if k, ok := constInt(bo.Y); ok && k == 0 {
							drops = true
						}
					}
				}
			}
		})
	}
	r.check(drops, rule, "Proxy.buildNodes:self-peer", p.Pos(bn.Pos()), "", "a peer entry equal to the proxy's own address is not dropped (the proxy would list itself as a peer)")
}

func c10HostID(p *Prog, r *Report) {
	const rule = "C10.host-id"
	r.Rule(rule, "host ids are MD5 name-based UUIDs of the node address with byte 6 forced to version 3 and byte 8 to the RFC 4122 variant; the local row uses the local address, each peer row its own address")
	fn := p.Func("proxy", "nameBasedUUID")
	var bad []string
	md5 := false
	eachInstr(fn, func(in ssa.Instruction) {
		if c, ok := in.(*ssa.Call); ok {
			if f := c.Call.StaticCallee(); f != nil && (f.String() == "(crypto.Hash).New" || strings.Contains(f.String(), "md5")) {
				if k, ok := c.Call.Args[0].(*ssa.Const); ok && k.Value != nil {
					if v, _ := constant.Int64Val(k.Value); v == 2 { // crypto.MD5
						md5 = true
					}
				} else if strings.Contains(f.String(), "md5") {
					md5 = true
				}
			}
		}
	})
	if !md5 {
		bad = append(bad, "the id is not derived with MD5 (not a version-3 UUID)")
	}
	masks := map[int64][2]int64{}
	eachInstr(fn, func(in ssa.Instruction) {
		st, ok := in.(*ssa.Store)
		if !ok {
			return
		}
		ia, ok := st.Addr.(*ssa.IndexAddr)
		if !ok {
			return
		}
		idx, ok := constInt(ia.Index)
		if !ok {
			return
		}
		bo, ok := st.Val.(*ssa.BinOp)
		if !ok {
			return
		}
		k, ok := constInt(bo.Y)
		if !ok {
			return
		}
		m := masks[idx]
		switch bo.Op {
		case token.AND:
			m[0] = k
		case token.OR:
			m[1] = k
		}
		masks[idx] = m
	})
	if masks[6] != [2]int64{0x0F, 0x30} {
		bad = append(bad, fmt.Sprintf("byte 6 is not masked to version 3 (&0x0F |0x30), found &%#x |%#x", masks[6][0], masks[6][1]))
	}
	if masks[8] != [2]int64{0x3F, 0x80} {
		bad = append(bad, fmt.Sprintf("byte 8 is not masked to the RFC 4122 variant (&0x3F |0x80), found &%#x |%#x", masks[8][0], masks[8][1]))
	}
	r.check(len(bad) == 0, rule, "proxy.nameBasedUUID", p.Pos(fn.Pos()), "", strings.Join(bad, " || "))
	// call sites, by role: the value lookup of the local row derives the id from the local address,
	// the lookup of the peers rows from that peer's address, and both spell the address the same
	// way (the same String method): the same node must get the same id in every proxy's view
	var cb []string
	n := 0
	_, _, _, lookups := c10ProducerSets(p)
	peersOnly := map[string]bool{}
	lc := columnTable(p, "SystemLocalColumns")
	for cn := range columnTable(p, "SystemPeersColumns") {
		if _, both := lc[cn]; !both {
			peersOnly[cn] = true
		}
	}
	spell := map[string]string{}
	for _, g := range lookups {
		isPeers := false
		for k := range lookupProducers(p, g) {
			if peersOnly[k] {
				isPeers = true
			}
		}
		eachCall(g, func(c ssa.CallInstruction) {
			if c.Common().StaticCallee() != fn {
				return
			}
			n++
			arg := c.Common().Args[0]
			desc := valDesc(arg)
			cc, ok := arg.(*ssa.Call)
			if !ok || cc.Call.StaticCallee() == nil || cc.Call.StaticCallee().Name() != "String" {
				cb = append(cb, "host id is not derived from the textual form of an address ("+desc+")")
				return
			}
			recv := cc.Call.Args[0]
			if isPeers {
				spell["peers"] = cc.Call.StaticCallee().String()
				if !strings.Contains(fieldPath(recv), ".addr") {
					cb = append(cb, "peer host id is not derived from that peer's address ("+desc+")")
				}
			} else {
				spell["local"] = cc.Call.StaticCallee().String()
				okLocal := false
				for _, o := range origins(recv) {
					if lc, ok := o.(*ssa.Call); ok && lc.Call.StaticCallee() != nil && p.InRepo(lc.Call.StaticCallee()) {
						okLocal = true // the connection's local address helper
					}
					if strings.Contains(fieldPath(o), "localNode") {
						okLocal = true
					}
				}
				if !okLocal {
					cb = append(cb, "local host id is not derived from the local address ("+desc+")")
				}
			}
		})
	}
	if spell["local"] != "" && spell["peers"] != "" && spell["local"] != spell["peers"] {
		cb = append(cb, fmt.Sprintf("the local row spells the address with %s, the peers rows with %s: for an address with a zone (fe80::1%%eth0) the two texts differ, so a node's own host_id is not the host_id its peers present for it", spell["local"], spell["peers"]))
	}
	r.check(len(cb) == 0 && n >= 2, rule, "host_id producers", "", fmt.Sprintf("%d sites", n), strings.Join(cb, " || "))
}

func c10Tokens(p *Prog, r *Report) {
	const rule = "C10.tokens-assigned"
	r.Rule(rule, "when tokens are calculated (none configured), every path of buildNodes that added a peer node also runs the token assignment over all nodes: no node is presented without tokens")
	px := p.Named("proxy", "Proxy")
	bn := p.methodOf(px, "buildNodes")
	tokF := p.Field("proxy", "node", "tokens")
	// the assignment: a store to node.tokens of an existing node, directly in buildNodes or in a
	// helper it calls; the "event" is entering the guarded region (direct) or the call (helper)
	hasTokenStore := func(fn *ssa.Function) []*ssa.Store {
		var out []*ssa.Store
		eachInstr(fn, func(in ssa.Instruction) {
			st, ok := in.(*ssa.Store)
			if !ok {
				return
			}
			fa, ok := st.Addr.(*ssa.FieldAddr)
			if !ok || fieldOfAddr(fa) != tokF {
				return
			}
			if _, fresh := fa.X.(*ssa.Alloc); fresh {
				return
			}
			out = append(out, st)
		})
		return out
	}
	var eventInstr ssa.Instruction
	var eventBlk *ssa.BasicBlock
	if direct := hasTokenStore(bn); len(direct) > 0 {
		eventBlk = direct[0].Block()
	} else {
		eachCall(bn, func(c ssa.CallInstruction) {
			callee := c.Common().StaticCallee()
			if callee == nil || !p.InRepo(callee) {
				return
			}
			for _, f := range withCallees(p, callee, 1) {
				if len(hasTokenStore(f)) > 0 {
					eventInstr = c.(ssa.Instruction)
					eventBlk = c.Block()
				}
			}
		})
	}
	if eventBlk == nil {
		r.bad(rule, "Proxy.buildNodes", p.Pos(bn.Pos()), "no token assignment over the node list")
		return
	}
	// the bool flag guarding it (calculateTokens): a bool phi among the dominating conditions
	var flag ssa.Value
	for _, ct := range dominatingConds(eventBlk) {
		if !ct.Truth {
			continue
		}
		if phi, ok := ct.Cond.(*ssa.Phi); ok {
			if b, ok := phi.Type().Underlying().(*types.Basic); ok && b.Kind() == types.Bool {
				flag = phi
			}
		}
		// or the test itself: no tokens configured for this proxy (len(<...Tokens>) == 0)
		if bo, ok := ct.Cond.(*ssa.BinOp); ok && flag == nil && bo.Op == token.EQL {
			if la := lenArg(bo.X); la != nil {
				for _, o := range origins(la) {
					if f, _ := loadedField(o); f != nil && f.Name() == "Tokens" {
						flag = bo
					}
				}
			}
		}
	}
	if flag == nil {
		r.bad(rule, "Proxy.buildNodes", p.Pos(bn.Pos()), "the token assignment is not conditional on tokens being calculated")
		return
	}
	if eventInstr == nil {
		// the region guarded by (tokens are calculated && more than one node)
		for _, b := range bn.Blocks {
			if eventInstr == nil && len(b.Preds) == 1 && b.Dominates(eventBlk) && loopDepthOf(b.Preds[0]) == 0 {
				if ifi, ok := lastIf(b.Preds[0]); ok && b.Preds[0].Succs[0] == b {
					if bo, ok := ifi.Cond.(*ssa.BinOp); ok && (lenArg(bo.X) != nil || lenArg(bo.Y) != nil) {
						eventInstr = b.Instrs[0]
					}
				}
			}
		}
		if eventInstr == nil {
			eventInstr = eventBlk.Instrs[0]
		}
	}
	nodeT := p.Named("proxy", "node")
	s := newSim(p)
	s.TrackLens = true
	s.Pinned[flag] = true
	s.Inline = func(f *ssa.Function) bool {
		return f != bn && f.Parent() == nil && f.Pkg == bn.Pkg && onlyCalledFrom(p, f, bn, 3)
	}
	s.OnInstr = func(st *State, in ssa.Instruction) {
		if in == eventInstr {
			st.aux["assigned"] = "1"
		}
		switch x := in.(type) {
		case *ssa.Call:
			if b, ok := x.Call.Value.(*ssa.Builtin); ok && b.Name() == "append" && loopDepthOf(x.Block()) > 0 {
				// appending a node built from a peer entry
				isNode := false
				if sl, ok := x.Call.Args[1].(*ssa.Slice); ok {
					if al, ok := sl.X.(*ssa.Alloc); ok {
						for _, ref := range *al.Referrers() {
							if ia, ok := ref.(*ssa.IndexAddr); ok {
								for _, rr := range *ia.Referrers() {
									if stv, ok := rr.(*ssa.Store); ok {
										if a2, ok := stv.Val.(*ssa.Alloc); ok && namedOf(a2.Type()) == nodeT {
											isNode = true
										}
									}
								}
							}
						}
					}
				}
				if isNode {
					st.aux["peerAdded"] = "1"
				}
			}
		}
	}
	var bad []string
	n := 0
	for _, o := range s.Run(bn, newState()) {
		if o.Panic || o.Ret.K != avNil {
			continue
		}
		n++
		calc, known := o.St.vals[flag].isBool()
		if o.St.aux["peerAdded"] == "1" && o.St.aux["assigned"] != "1" && (!known || calc) {
			bad = append(bad, fmt.Sprintf("a path ending at %s adds a peer while tokens are calculated but skips the token assignment: that peer (and this proxy's view of the ring) has no tokens", p.Pos(o.Pos)))
		}
	}
	r.count("sim_states", s.Nodes)
	r.check(len(bad) == 0 && n > 0, rule, "Proxy.buildNodes", p.Pos(bn.Pos()), fmt.Sprintf("%d successful paths", n), strings.Join(dedupe(bad), " || "))

	// inside the assignment loop every node gets its slot: the store is not conditional on
	// anything tested within an iteration (a node keeping an earlier token shares it with the
	// node whose position owns that slot, and disagrees with the other proxies of the list)
	var cond []string
	nst := 0
	for _, fn := range withCallees(p, bn, 2) {
		for _, st := range hasTokenStore(fn) {
			d := loopDepthOf(st.Block())
			if d == 0 {
				continue
			}
			nst++
			for _, b := range fn.Blocks {
				ifi, ok := lastIf(b)
				if !ok || isLoopHeader(b) || loopDepthOf(b) < d || b.Succs[0] == b.Succs[1] {
					continue
				}
				for _, succ := range b.Succs {
					if len(succ.Preds) == 1 && succ.Dominates(st.Block()) {
						cond = append(cond, fmt.Sprintf("%s: the token of a node is assigned only under a per-node test (%s at %s): nodes that fail it keep whatever token they had, which does not match their position in address order", p.Pos(st.Pos()), valDesc(ifi.Cond), p.Pos(ifi.Pos())))
					}
				}
			}
		}
	}
	r.check(len(cond) == 0 && nst > 0, rule, "Proxy.buildNodes:every-node", p.Pos(bn.Pos()), fmt.Sprintf("%d assignment(s) in a loop over the nodes", nst), strings.Join(dedupe(cond), " || "))
}

// c10MetadataImmutable: the advertised column tables are process-wide values shared by
// every connection; a selector that renames or edits a column must work on a copy.
func c10MetadataImmutable(p *Prog, r *Report) {
	const rule = "C10.metadata-immutable"
	r.Rule(rule, "column metadata reachable from the advertised column tables is never written through: stores to fields of a ColumnMetadata go to a local copy only, and no element of a column table is replaced (a write would change what every later read of the table advertises, on every connection)")
	var bad []string
	nst := 0
	for _, fn := range p.ScopedFuncs("parser", "proxy") {
		eachInstr(fn, func(in ssa.Instruction) {
			st, ok := in.(*ssa.Store)
			if !ok {
				return
			}
			switch a := st.Addr.(type) {
			case *ssa.FieldAddr:
				n := namedOf(a.X.Type())
				if n == nil || n.Obj().Name() != "ColumnMetadata" || n.Obj().Pkg() == nil || !strings.HasSuffix(n.Obj().Pkg().Path(), "/message") {
					return
				}
				nst++
				for _, o := range origins(a.X) {
					if al, ok := o.(*ssa.Alloc); ok && al.Parent() == fn {
						continue
					}
					bad = append(bad, fmt.Sprintf("%s: %s writes %s of a ColumnMetadata it did not copy (%s)", p.Pos(st.Pos()), fn.Name(), fieldOfAddr(a).Name(), valDesc(a.X)))
				}
			case *ssa.IndexAddr:
				for _, o := range origins(a.X) {
					if ld, ok := o.(*ssa.UnOp); ok {
						if g, ok := ld.X.(*ssa.Global); ok && strings.HasSuffix(g.Name(), "Columns") {
							bad = append(bad, fmt.Sprintf("%s: %s replaces an element of the column table %s", p.Pos(st.Pos()), fn.Name(), g.Name()))
						}
					}
				}
			}
		})
	}
	r.check(len(bad) == 0, rule, "ColumnMetadata writers", "", fmt.Sprintf("%d field stores, all into local copies", nst), strings.Join(dedupe(bad), " || "))
}

// c10PrepareAgrees: the columns a handled SELECT is prepared with (the metadata the client keeps)
// and the columns it is answered with are chosen among the same column tables.
func c10PrepareAgrees(p *Prog, r *Report) {
	const rule = "C10.prepare-agrees"
	r.Rule(rule, "the set of column tables a handled SELECT can be resolved against when it is prepared equals the set it can be resolved against when it is answered (QUERY / EXECUTE): the result metadata a client was given at PREPARE is the metadata of the rows it gets later, for plain and DSE backends alike")
	// column tables held by the name map
	mapVals := map[string]bool{}
	if e, _ := p.astGlobalInit("parser", "SystemColumnsByName"); e != nil {
		if cl, ok := e.(*ast.CompositeLit); ok {
			for _, el := range cl.Elts {
				if kv, ok := el.(*ast.KeyValueExpr); ok {
					mapVals[exprString(kv.Value)] = true
				}
			}
		}
	}
	isTableGlobal := func(g *ssa.Global) bool {
		pt, ok := g.Type().(*types.Pointer)
		if !ok {
			return false
		}
		switch pt.Elem().Underlying().(type) {
		case *types.Slice, *types.Map:
			return strings.Contains(g.Name(), "Columns") || strings.HasPrefix(g.Name(), "System")
		}
		return false
	}
	var tablesOfFn func(fn *ssa.Function, depth int, into map[string]bool)
	addGlobal := func(g *ssa.Global, into map[string]bool) {
		if !isTableGlobal(g) {
			return
		}
		if g.Name() == "SystemColumnsByName" {
			for k := range mapVals {
				into[k] = true
			}
			return
		}
		into[g.Name()] = true
	}
	tablesOfFn = func(fn *ssa.Function, depth int, into map[string]bool) {
		eachInstr(fn, func(in ssa.Instruction) {
			if ld, ok := in.(*ssa.UnOp); ok {
				if g, ok := ld.X.(*ssa.Global); ok {
					addGlobal(g, into)
				}
			}
			if c, ok := in.(*ssa.Call); ok && depth > 0 {
				if callee := c.Call.StaticCallee(); callee != nil && p.InRepo(callee) && callee.Blocks != nil {
					tablesOfFn(callee, depth-1, into)
				}
			}
		})
	}
	tablesOf := func(v ssa.Value, into map[string]bool) {
		for _, o := range origins(v) {
			switch x := o.(type) {
			case *ssa.Extract:
				if call, ok := x.Tuple.(*ssa.Call); ok && call.Call.StaticCallee() != nil {
					tablesOfFn(call.Call.StaticCallee(), 2, into)
				} else if lk, ok := x.Tuple.(*ssa.Lookup); ok {
					for _, mo := range origins(lk.X) {
						if ld, ok := mo.(*ssa.UnOp); ok {
							if g, ok := ld.X.(*ssa.Global); ok {
								addGlobal(g, into)
							}
						}
					}
				}
			case *ssa.Call:
				if x.Call.StaticCallee() != nil {
					tablesOfFn(x.Call.StaticCallee(), 2, into)
				}
			case *ssa.Lookup:
				for _, mo := range origins(x.X) {
					if ld, ok := mo.(*ssa.UnOp); ok {
						if g, ok := ld.X.(*ssa.Global); ok {
							addGlobal(g, into)
						}
					}
				}
			case *ssa.UnOp:
				if g, ok := x.X.(*ssa.Global); ok {
					addGlobal(g, into)
				}
			}
		}
	}
	prep, answer := map[string]bool{}, map[string]bool{}
	nprep, nans := 0, 0
	for _, fn := range p.ScopedFuncs("proxy") {
		// a PREPARE site: the function also builds the PreparedResult sent to the client
		buildsPrepared := len(structLits(rootFn(fn), func(t types.Type) bool { return typeIs(t, "message", "PreparedResult") })) > 0
		eachCall(fn, func(c ssa.CallInstruction) {
			if !callIsFunc(c, "parser", "FilterColumns") {
				return
			}
			if buildsPrepared {
				nprep++
				tablesOf(c.Common().Args[1], prep)
			} else {
				nans++
				tablesOf(c.Common().Args[1], answer)
			}
		})
	}
	if nprep == 0 || nans == 0 {
		fatalf("rule %s: %d prepare and %d answer sites resolve selectors (1 and 2 confirmed by hand)", rule, nprep, nans)
	}
	// the answer path's other tables (legacy schema_* tables answered without selector resolution) are not compared:
	// compare on the tables the answer sites can use
	var bad []string
	for t := range answer {
		if !prep[t] {
			bad = append(bad, "rows can be produced with the columns of "+t+" but a statement is never prepared against that table: the metadata returned by PREPARE does not describe the rows of EXECUTE")
		}
	}
	sort.Strings(bad)
	r.check(len(bad) == 0, rule, "prepare vs answer column tables", "", fmt.Sprintf("%d prepare site(s) over %v; %d answer site(s) over %v", nprep, sortedKeys(prep), nans, sortedKeys(answer)), strings.Join(bad, " || "))
}
