package main

// C15 — query plans visit each live host exactly once, in round-robin rotation.
//
//  plan-next     Next(): a host is returned only under index < len(hosts); every
//                path returning a host increments index exactly once, the
//                exhaustion path not at all; the element is hosts[(offset+index) % len]
//  plan-new      NewQueryPlan snapshots the published slice, takes the offset with an
//                atomic add on the balancer's counter, and starts at index 0
//  cow           the published host slice is never written through: writers build a
//                fresh slice and publish it with atomic.Value.Store under the mutex;
//                the Remove arm drops exactly the host with the matching key
//  atomics       the rotating counter is only touched through sync/atomic

import (
	"fmt"
	"go/token"
	"go/types"
	"strings"

	"golang.org/x/tools/go/ssa"
)

func init() { register("C15", checkC15) }

func checkC15(p *Prog, r *Report) {
	r.NotCov = append(r.NotCov,
		"fairness counts over runs of plans; consecutive plans at the 2^32 boundary of the plan counter (numeric; the wrap within one traversal is decided)",
		"concurrent behaviour beyond the copy-on-write / atomic discipline decided here")
	c15PlanNext(p, r, "C15.plan-next")
	c15PlanNew(p, r)
	c15Cow(p, r, "C15")
}

func lbTypes(p *Prog) (lb, plan *types.Named) {
	lbs := p.implsOf("proxycore", "proxycore", "LoadBalancer")
	plans := p.implsOf("proxycore", "proxycore", "QueryPlan")
	if len(lbs) != 1 || len(plans) != 1 {
		fatalf("anchor: expected one LoadBalancer and one QueryPlan implementation in proxycore, found %d and %d", len(lbs), len(plans))
	}
	return lbs[0], plans[0]
}

// sliceField/uintFields find the plan's fields by type: the []*Host slice and the uint32 counters.
func planFields(p *Prog, plan *types.Named) (hosts, offset, index *types.Var) {
	st := plan.Underlying().(*types.Struct)
	for i := 0; i < st.NumFields(); i++ {
		f := st.Field(i)
		if _, ok := f.Type().Underlying().(*types.Slice); ok {
			hosts = f
		}
	}
	hosts2 := p.FieldOpt("proxycore", plan.Obj().Name(), "hosts")
	offset = p.FieldOpt("proxycore", plan.Obj().Name(), "offset")
	index = p.FieldOpt("proxycore", plan.Obj().Name(), "index")
	if hosts2 != nil {
		hosts = hosts2
	}
	if offset == nil || index == nil {
		fatalf("anchor: fields offset/index of %s not found", plan.Obj().Name())
	}
	// (a plan without a host list of its own is not an anchor problem but the violation itself:
	// the callers report it)
	return
}

const noSnapshotMsg = "the query plan keeps no host list of its own: it reads a list that changes while the plan is being traversed, so a host can be yielded twice or skipped when hosts come and go between two Next() calls"


func c15PlanNext(p *Prog, r *Report, rule string) {
	r.Rule(rule, "QueryPlan.Next returns a host only under index < len(hosts), increments index exactly once per returned host and never on exhaustion, and picks hosts[(offset+index) % len(hosts)] with the sum computed in a type wider than the counters (no wrap within a traversal)")
	_, plan := lbTypes(p)
	hostsF, offsetF, indexF := planFields(p, plan)
	if hostsF == nil {
		r.bad(rule, plan.Obj().Name()+".Next", p.Pos(plan.Obj().Pos()), noSnapshotMsg)
		return
	}
	fn := p.methodOf(plan, "Next")
	if fn == nil {
		fatalf("anchor: %s.Next not found", plan.Obj().Name())
	}
	name := plan.Obj().Name() + ".Next"
	// (b) increment counting along paths
	s := newSim(p)
	s.OnInstr = func(st *State, in ssa.Instruction) {
		if stv, ok := in.(*ssa.Store); ok {
			if fa, ok := stv.Addr.(*ssa.FieldAddr); ok && fieldOfAddr(fa) == indexF {
				isInc := false
				if bo, ok := stv.Val.(*ssa.BinOp); ok && bo.Op == token.ADD {
					if c, ok := constInt(bo.Y); ok && c == 1 {
						if f, _ := loadedField(bo.X); f == indexF {
							isInc = true
						}
					}
				}
				if isInc {
					st.addEff("inc")
				} else {
					st.addEff("badstore")
				}
			}
		}
	}
	outs := s.Run(fn, newState())
	r.count("sim_states", s.Nodes)
	var bad []string
	hostPaths := 0
	for _, o := range outs {
		if o.Panic {
			continue
		}
		if o.St.eff["badstore"] > 0 {
			bad = append(bad, "index is written with something other than index+1 (path ending at "+p.Pos(o.Pos)+")")
		}
		if o.Ret.K == avNil {
			if o.St.eff["inc"] != 0 {
				bad = append(bad, "index advanced on the exhaustion path ending at "+p.Pos(o.Pos))
			}
		} else {
			hostPaths++
			if o.St.eff["inc"] != 1 {
				bad = append(bad, fmt.Sprintf("a host is returned with index advanced %d times (path ending at %s): the host would be yielded again or another skipped", o.St.eff["inc"], p.Pos(o.Pos)))
			}
		}
	}
	if hostPaths == 0 {
		bad = append(bad, "no path returns a host")
	}
	// (a) guard and (c) element expression, on every return of a non-constant-nil value
	eachInstr(fn, func(in ssa.Instruction) {
		ret, ok := in.(*ssa.Return)
		if !ok || len(ret.Results) != 1 {
			return
		}
		for _, o := range origins(ret.Results[0]) {
			if c, ok := o.(*ssa.Const); ok && c.Value == nil {
				continue
			}
			ld, ok := o.(*ssa.UnOp)
			var ia *ssa.IndexAddr
			if ok && ld.Op == token.MUL {
				ia, _ = ld.X.(*ssa.IndexAddr)
			}
			if ia == nil {
				bad = append(bad, p.Pos(ret.Pos())+": returned host is not an element of the plan's host slice")
				continue
			}
			if f, _ := loadedField(ia.X); f != hostsF {
				bad = append(bad, p.Pos(ret.Pos())+": returned host is not taken from the plan's host slice")
			}
			if !isOffsetPlusIndexModLen(ia.Index, hostsF, offsetF, indexF) {
				bad = append(bad, p.Pos(ia.Pos())+": element index is not (offset + index) % len(hosts)")
			} else if !sumCannotWrap(p, ia.Index, offsetF, indexF) {
				bad = append(bad, p.Pos(ia.Pos())+": offset + index is summed in the counters' own width: when the free-running plan counter is within len(hosts) of its maximum the sum wraps in the middle of a traversal, so one host is yielded twice and another never (unless the host count is a power of two)")
			}
			// guard: dominated by index < len(hosts)
			guarded := false
			blk := ld.Block()
			for _, ct := range dominatingConds(blk) {
				bo, ok := ct.Cond.(*ssa.BinOp)
				if !ok {
					continue
				}
				xi, _ := loadedField(bo.X)
				yi, _ := loadedField(bo.Y)
				xl, yl := isLenOf(bo.X, hostsF), isLenOf(bo.Y, hostsF)
				switch {
				case xi == indexF && yl && ((bo.Op == token.GEQ && !ct.Truth) || (bo.Op == token.LSS && ct.Truth)):
					guarded = true
				case yi == indexF && xl && ((bo.Op == token.LEQ && !ct.Truth) || (bo.Op == token.GTR && ct.Truth)):
					guarded = true
				}
			}
			if !guarded {
				bad = append(bad, p.Pos(ld.Pos())+": host returned without the guard index < len(hosts) (no exhaustion / out of range)")
			}
		}
	})
	r.check(len(bad) == 0, rule, name, p.Pos(fn.Pos()), fmt.Sprintf("%d paths", len(outs)), strings.Join(dedupe(bad), " || "))
}

func stripConv(v ssa.Value) ssa.Value {
	for {
		switch x := v.(type) {
		case *ssa.Convert:
			v = x.X
		case *ssa.ChangeType:
			v = x.X
		default:
			return v
		}
	}
}

func isLenOf(v ssa.Value, f *types.Var) bool {
	v = stripConv(v)
	c, ok := v.(*ssa.Call)
	if !ok {
		return false
	}
	b, ok := c.Call.Value.(*ssa.Builtin)
	if !ok || b.Name() != "len" || len(c.Call.Args) != 1 {
		return false
	}
	lf, _ := loadedField(c.Call.Args[0])
	return lf == f
}

func isOffsetPlusIndexModLen(v ssa.Value, hostsF, offsetF, indexF *types.Var) bool {
	v = stripConv(v)
	rem, ok := v.(*ssa.BinOp)
	if !ok || rem.Op != token.REM || !isLenOf(rem.Y, hostsF) {
		return false
	}
	add, ok := stripConv(rem.X).(*ssa.BinOp)
	if !ok || add.Op != token.ADD {
		return false
	}
	a, _ := loadedField(stripConv(add.X))
	b, _ := loadedField(stripConv(add.Y))
	return (a == offsetF && b == indexF) || (a == indexF && b == offsetF)
}

// sumCannotWrap: the addition feeding the modulo is carried out in a type strictly
// wider than both counters (offset is a free-running counter: a sum in its own width
// wraps in the middle of a traversal every 2^32 plans and, unless the host count is a
// power of two, yields one host twice and skips another).
func sumCannotWrap(p *Prog, v ssa.Value, offsetF, indexF *types.Var) bool {
	rem, ok := stripConv(v).(*ssa.BinOp)
	if !ok {
		return false
	}
	add, ok := stripConvKeepWidth(rem.X).(*ssa.BinOp)
	if !ok || add.Op != token.ADD {
		return false
	}
	sizes := p.Pkgs[0].TypesSizes
	w := sizes.Sizeof(add.Type().Underlying())
	return w > sizes.Sizeof(offsetF.Type().Underlying()) && w > sizes.Sizeof(indexF.Type().Underlying())
}

// stripConvKeepWidth removes conversions applied to the result of the sum only when
// they do not matter for where the sum was computed (we want the BinOp itself).
func stripConvKeepWidth(v ssa.Value) ssa.Value { return stripConv(v) }

func c15PlanNew(p *Prog, r *Report) {
	const rule = "C15.plan-new"
	r.Rule(rule, "NewQueryPlan snapshots the published host slice, takes its offset from an atomic add of 1 on the balancer's counter (minus 1), and starts at index 0")
	lb, plan := lbTypes(p)
	hostsF, offsetF, indexF := planFields(p, plan)
	if hostsF == nil {
		r.bad(rule, lb.Obj().Name()+".NewQueryPlan", p.Pos(plan.Obj().Pos()), noSnapshotMsg)
		return
	}
	fn := p.methodOf(lb, "NewQueryPlan")
	if fn == nil {
		fatalf("anchor: NewQueryPlan not found")
	}
	lbHosts := p.Field("proxycore", lb.Obj().Name(), "hosts")
	lbIndex := p.Field("proxycore", lb.Obj().Name(), "index")
	var bad []string
	seen := map[*types.Var]bool{}
	// the plan literal, built here or in a constructor function that is handed the values
	type fieldVal struct {
		f   *types.Var
		Val ssa.Value
		at  token.Pos
	}
	var stores []fieldVal
	for _, lit := range structLitsVia(p, fn, func(t types.Type) bool { return namedOf(t) == plan }) {
		for _, f := range []*types.Var{hostsF, offsetF, indexF} {
			if v, ok := lit[f.Name()]; ok && v != nil {
				stores = append(stores, fieldVal{f, v, lit["\x00pos"].Pos()})
			}
		}
	}
	for _, st := range stores {
		f := st.f
		seen[f] = true
		switch f {
		case hostsF:
			okSrc := false
			var isPublished func(v ssa.Value, depth int) bool
			isPublished = func(v ssa.Value, depth int) bool {
				for _, o := range origins(v) {
					c, ok := o.(*ssa.Call)
					if !ok {
						continue
					}
					if callIsMethod(c, "sync/atomic", "Value", "Load") {
						if lfa, ok := c.Call.Args[0].(*ssa.FieldAddr); ok && fieldOfAddr(lfa) == lbHosts {
							return true
						}
					}
					// an accessor that returns the published slice as it is
					if callee := c.Call.StaticCallee(); callee != nil && p.InRepo(callee) && depth > 0 {
						all, n := true, 0
						eachInstr(callee, func(in ssa.Instruction) {
							if ret, ok := in.(*ssa.Return); ok && len(ret.Results) == 1 {
								n++
								if !isPublished(ret.Results[0], depth-1) {
									all = false
								}
							}
						})
						if all && n > 0 {
							return true
						}
					}
				}
				return false
			}
			okSrc = isPublished(st.Val, 2)
			if !okSrc {
				bad = append(bad, p.Pos(st.at)+": plan hosts are not a snapshot of the published slice")
			}
		case offsetF:
			okSrc := false
			if sub, ok := stripConv(st.Val).(*ssa.BinOp); ok && sub.Op == token.SUB {
				if c, ok := constInt(sub.Y); ok && c == 1 {
					if call, ok := sub.X.(*ssa.Call); ok && callIsFunc(call, "sync/atomic", "AddUint32") {
						if lfa, ok := call.Call.Args[0].(*ssa.FieldAddr); ok && fieldOfAddr(lfa) == lbIndex {
							if d, ok := constInt(call.Call.Args[1]); ok && d == 1 {
								okSrc = true
							}
						}
					}
				}
			}
			if !okSrc {
				bad = append(bad, p.Pos(st.at)+": plan offset is not atomic.AddUint32(&index, 1) - 1 (consecutive plans would not start at consecutive hosts)")
			}
		case indexF:
			if c, ok := constInt(st.Val); !ok || c != 0 {
				bad = append(bad, p.Pos(st.at)+": plan does not start at index 0")
			}
		}
	}
	if !seen[hostsF] || !seen[offsetF] {
		bad = append(bad, "plan literal does not initialise hosts and offset")
	}
	r.check(len(bad) == 0, rule, lb.Obj().Name()+".NewQueryPlan", p.Pos(fn.Pos()), "", strings.Join(dedupe(bad), " || "))
}

func c15Cow(p *Prog, r *Report, prefix string) {
	rule := prefix + ".cow"
	atomicsRule := prefix + ".atomics"
	r.Rule(rule, "the published host slice is never written through (no element store, no append or copy into it); writers publish fresh slices with atomic.Value.Store while holding the balancer mutex; Remove drops the host with the matching key")
	r.Rule(atomicsRule, "the balancer's rotating counter is accessed only through sync/atomic and only ever advanced by one (never reset, swapped or stored); the published slice only through atomic.Value")
	lb, plan := lbTypes(p)
	lbHosts := p.Field("proxycore", lb.Obj().Name(), "hosts")
	lbIndex := p.Field("proxycore", lb.Obj().Name(), "index")
	lbMu := p.Field("proxycore", lb.Obj().Name(), "mu")
	planHosts, _, _ := planFields(p, plan)
	fns := p.ScopedFuncs("proxycore")

	// slices handed to listeners inside an event (the cluster's own host list in the bootstrap
	// notification): the listeners keep them, so they are published as well
	published := map[*types.Var]bool{}
	for _, fn := range fns {
		for _, lit := range structLits(fn, func(t types.Type) bool {
			n := namedOf(t)
			return n != nil && n.Obj().Pkg() != nil && n.Obj().Pkg().Path() == pkgPath("proxycore") && strings.HasSuffix(n.Obj().Name(), "Event")
		}) {
			for k, v := range lit {
				if strings.HasPrefix(k, "\x00") || v == nil {
					continue
				}
				if _, isSlice := v.Type().Underlying().(*types.Slice); !isSlice {
					continue
				}
				for _, o := range origins(v) {
					if f, base := loadedField(o); f != nil && base != nil {
						if n := namedOf(base.Type()); n != nil && n.Obj().Pkg() != nil && n.Obj().Pkg().Path() == pkgPath("proxycore") {
							published[f] = true
						}
					}
				}
			}
		}
	}
	r.count("published_slice_fields", len(published))
	// shared-slice taint: values loaded from the published atomic.Value or from a plan's hosts field
	returnsShared := map[*ssa.Function]bool{}
	isSharedRoot := func(v ssa.Value) bool {
		switch x := v.(type) {
		case *ssa.Call:
			if callIsMethod(x, "sync/atomic", "Value", "Load") {
				if fa, ok := x.Call.Args[0].(*ssa.FieldAddr); ok && fieldOfAddr(fa) == lbHosts {
					return true
				}
			}
			if f := x.Call.StaticCallee(); f != nil && returnsShared[f] {
				return true
			}
		case *ssa.UnOp:
			if f, _ := loadedField(x); f == planHosts {
				return true
			}
		}
		return false
	}
	// a field handed out in an event: writing into its backing array below its length (an element
	// store, an append or copy to a re-slice of it) is seen by whoever kept the event's slice
	isPublishedField := func(v ssa.Value) bool {
		for _, o := range origins(v) {
			if f, _ := loadedField(o); f != nil && published[f] {
				return true
			}
		}
		return false
	}
	var shared func(v ssa.Value, depth int) bool
	shared = func(v ssa.Value, depth int) bool {
		if depth > 8 {
			return false
		}
		for _, o := range origins(v) {
			if isSharedRoot(o) {
				return true
			}
			if sl, ok := o.(*ssa.Slice); ok && shared(sl.X, depth+1) {
				return true
			}
		}
		return false
	}
	for iter := 0; iter < 3; iter++ {
		for _, fn := range fns {
			if recvNamed(fn) != lb && recvNamed(fn) != plan {
				continue
			}
			eachInstr(fn, func(in ssa.Instruction) {
				if ret, ok := in.(*ssa.Return); ok {
					for _, rv := range ret.Results {
						if _, isSlice := rv.Type().Underlying().(*types.Slice); isSlice && shared(rv, 0) {
							returnsShared[fn] = true
						}
					}
				}
			})
		}
	}
	var bad []string
	sites := 0
	for _, fn := range fns {
		eachInstr(fn, func(in ssa.Instruction) {
			switch x := in.(type) {
			case *ssa.Store:
				if ia, ok := x.Addr.(*ssa.IndexAddr); ok && shared(ia.X, 0) {
					bad = append(bad, p.Pos(x.Pos())+": element of the published host slice is overwritten in "+fn.Name())
				}
				if ia, ok := x.Addr.(*ssa.IndexAddr); ok && isPublishedField(ia.X) {
					bad = append(bad, p.Pos(x.Pos())+": element of a host list that was handed to listeners in an event is overwritten in "+fn.Name())
				}
			case *ssa.Call:
				if b, ok := x.Call.Value.(*ssa.Builtin); ok {
					switch b.Name() {
					case "append":
						sites++
						if shared(x.Call.Args[0], 0) {
							bad = append(bad, p.Pos(x.Pos())+": append to the published host slice in "+fn.Name()+" (may write into the shared backing array)")
						}
						for _, o := range origins(x.Call.Args[0]) {
							if sl, ok := o.(*ssa.Slice); ok && isPublishedField(sl.X) {
								bad = append(bad, p.Pos(x.Pos())+": append to a re-slice of a host list that was handed to listeners in an event ("+fn.Name()+"): it overwrites the backing array the listeners, and the query plans made from it, still read")
							}
						}
					case "copy":
						sites++
						if shared(x.Call.Args[0], 0) {
							bad = append(bad, p.Pos(x.Pos())+": copy into the published host slice in "+fn.Name())
						}
						if isPublishedField(x.Call.Args[0]) {
							bad = append(bad, p.Pos(x.Pos())+": copy into a host list that was handed to listeners in an event ("+fn.Name()+")")
						}
					}
				}
			}
		})
	}
	r.count("slice_write_sites", sites)
	r.check(len(bad) == 0, rule, "no-write-through", p.Pos(p.methodOf(lb, "OnEvent").Pos()), fmt.Sprintf("%d append/copy sites inspected", sites), strings.Join(dedupe(bad), " || "))

	// publication under the mutex
	la := lockAnalyse(p)
	onEvent := p.methodOf(lb, "OnEvent")
	stores := 0
	var pb []string
	for _, fn := range fns {
		eachCall(fn, func(c ssa.CallInstruction) {
			if !callIsMethod(c, "sync/atomic", "Value", "Store") {
				return
			}
			fa, ok := c.Common().Args[0].(*ssa.FieldAddr)
			if !ok || fieldOfAddr(fa) != lbHosts {
				return
			}
			// constructor: the balancer is freshly allocated in this function
			if a, ok := fa.X.(*ssa.Alloc); ok && a.Parent() == fn {
				return
			}
			stores++
			if la.mustAt[c.(ssa.Instruction)][lbMu] != "W" {
				pb = append(pb, p.Pos(c.Pos())+": host slice published without holding the balancer mutex in "+fn.Name())
			}
		})
	}
	if stores < 3 {
		pb = append(pb, fmt.Sprintf("only %d publications of the host slice found (3 confirmed by hand)", stores))
	}
	r.check(len(pb) == 0, rule, "publish-under-mutex", p.Pos(onEvent.Pos()), fmt.Sprintf("%d publications", stores), strings.Join(dedupe(pb), " || "))

	// Remove arm: the publication is guarded by a key comparison between the ranged host and the event's host
	{
		var rb []string
		removeFound := false
		eachInstr(onEvent, func(in ssa.Instruction) {
			ta, ok := in.(*ssa.TypeAssert)
			if !ok || !typeIs(ta.AssertedType, "proxycore", "RemoveEvent") {
				return
			}
			removeFound = true
		})
		if !removeFound {
			rb = append(rb, "no RemoveEvent arm")
		}
		guarded := false
		for _, oef := range withCallees(p, onEvent, 2) {
			eachCall(oef, func(c ssa.CallInstruction) {
				if !callIsMethod(c, "sync/atomic", "Value", "Store") {
					return
				}
				for _, ct := range dominatingConds(c.Block()) {
					bo, ok := ct.Cond.(*ssa.BinOp)
					if !ok {
						continue
					}
					// `i >= 0` with i the result of a helper that searches the list for the host's key
					if sc, isCall := bo.X.(*ssa.Call); isCall && sc.Call.StaticCallee() != nil && (isKeySearch(p, sc.Call.StaticCallee()) || isLibKeySearch(p, sc)) {
						k, isK := constInt(bo.Y)
						found := isK && ((bo.Op == token.GEQ && k == 0 && ct.Truth) || (bo.Op == token.LSS && k == 0 && !ct.Truth) ||
							(bo.Op == token.NEQ && k == -1 && ct.Truth) || (bo.Op == token.EQL && k == -1 && !ct.Truth) || (bo.Op == token.GTR && k == -1 && ct.Truth))
						if found {
							guarded = true
							// the published slice omits exactly the found index
							okShape := false
							for _, o := range origins(c.Common().Args[1]) {
								if ap, ok := o.(*ssa.Call); ok {
									if b, ok := ap.Call.Value.(*ssa.Builtin); ok && b.Name() == "append" {
										lo, ok1 := ap.Call.Args[0].(*ssa.Slice)
										hi, ok2 := ap.Call.Args[1].(*ssa.Slice)
										if ok1 && ok2 && lo.Low == nil && lo.High == ssa.Value(sc) && hi.High == nil {
											if add, ok := hi.Low.(*ssa.BinOp); ok && add.Op == token.ADD && add.X == ssa.Value(sc) {
												if one, ok := constInt(add.Y); ok && one == 1 {
													okShape = true
												}
											}
										}
									}
								}
							}
							if !okShape {
								rb = append(rb, p.Pos(c.Pos())+": Remove does not publish s[:i] ++ s[i+1:] for the matched index i")
							}
							continue
						}
					}
					if !((bo.Op == token.EQL && ct.Truth) || (bo.Op == token.NEQ && !ct.Truth)) {
						continue
					}
					xc, xok := bo.X.(*ssa.Call)
					yc, yok := bo.Y.(*ssa.Call)
					if xok && yok && xc.Call.StaticCallee() != nil && yc.Call.StaticCallee() != nil &&
						xc.Call.StaticCallee().Name() == "Key" && yc.Call.StaticCallee().Name() == "Key" {
						// one side from the event, the other from the ranged element
						// one key belongs to an element of the ranged host slice, the other to the host being removed
						fromEvt := func(cl *ssa.Call) bool {
							for _, o := range origins(cl.Call.Args[0]) {
								if ld, ok := o.(*ssa.UnOp); ok {
									if _, isElem := ld.X.(*ssa.IndexAddr); isElem {
										return false
									}
								}
							}
							return true
						}
						if fromEvt(xc) != fromEvt(yc) {
							guarded = true
							// and the published slice omits exactly the matched index: append(s[:i], s[i+1:]...)
							if v := c.Common().Args[1]; true {
								okShape := false
								for _, o := range origins(v) {
									if ap, ok := o.(*ssa.Call); ok {
										if b, ok := ap.Call.Value.(*ssa.Builtin); ok && b.Name() == "append" {
											lo, ok1 := ap.Call.Args[0].(*ssa.Slice)
											hi, ok2 := ap.Call.Args[1].(*ssa.Slice)
											if ok1 && ok2 && lo.Low == nil && lo.High != nil && hi.High == nil && hi.Low != nil {
												if add, ok := hi.Low.(*ssa.BinOp); ok && add.Op == token.ADD && add.X == lo.High {
													if k, ok := constInt(add.Y); ok && k == 1 {
														okShape = true
													}
												}
											}
										}
									}
								}
								if !okShape {
									rb = append(rb, p.Pos(c.Pos())+": Remove does not publish s[:i] ++ s[i+1:] for the matched index i")
								}
							}
						}
					}
				}
			})
		}
		if !guarded {
			rb = append(rb, "no publication guarded by `host.Key() == evt.Host.Key()`: Remove does not drop the matching host")
		}
		r.check(len(rb) == 0, rule, "remove-matching-host", p.Pos(onEvent.Pos()), "", strings.Join(dedupe(rb), " || "))
	}
	// Add: a host that is announced although it is already listed must not get a second entry
	// (every plan would yield it twice, and a later Remove would drop only one of the two)
	{
		var ab []string
		inAddArm := func(b *ssa.BasicBlock) bool {
			for _, ct := range dominatingConds(b) {
				if ex, ok := ct.Cond.(*ssa.Extract); ok && ct.Truth {
					if ta, ok := ex.Tuple.(*ssa.TypeAssert); ok && typeIs(ta.AssertedType, "proxycore", "AddEvent") {
						return true
					}
				}
			}
			return false
		}
		compares, publishes := false, false
		for _, b := range onEvent.Blocks {
			if !inAddArm(b) {
				continue
			}
			for _, in := range b.Instrs {
				switch x := in.(type) {
				case *ssa.BinOp:
					if x.Op != token.EQL && x.Op != token.NEQ {
						continue
					}
					xc, xok := x.X.(*ssa.Call)
					yc, yok := x.Y.(*ssa.Call)
					if xok && yok && xc.Call.StaticCallee() != nil && yc.Call.StaticCallee() != nil && xc.Call.StaticCallee().Name() == "Key" && yc.Call.StaticCallee().Name() == "Key" {
						compares = true
					}
				case *ssa.Call:
					if callIsMethod(x, "sync/atomic", "Value", "Store") {
						publishes = true
					}
					// a helper doing the membership test
					if callee := x.Call.StaticCallee(); callee != nil && p.InRepo(callee) {
						for _, f := range withCallees(p, callee, 1) {
							eachInstr(f, func(in2 ssa.Instruction) {
								// the arm may be a helper of its own (addHost(evt)) that also publishes
								if sc, ok := in2.(*ssa.Call); ok && callIsMethod(sc, "sync/atomic", "Value", "Store") && recvNamed(f) == lb {
									publishes = true
								}
								if bo, ok := in2.(*ssa.BinOp); ok && (bo.Op == token.EQL || bo.Op == token.NEQ) {
									xc, xok := bo.X.(*ssa.Call)
									yc, yok := bo.Y.(*ssa.Call)
									if xok && yok && xc.Call.StaticCallee() != nil && yc.Call.StaticCallee() != nil && xc.Call.StaticCallee().Name() == "Key" && yc.Call.StaticCallee().Name() == "Key" {
										compares = true
									}
								}
							})
						}
					}
				}
			}
		}
		if !publishes {
			ab = append(ab, "the Add arm publishes no host list")
		}
		if !compares {
			ab = append(ab, "the Add arm appends the announced host without comparing its key with the hosts already listed: a host announced twice gets two entries, every query plan yields it twice and a later Remove leaves one of them behind")
		}
		r.check(len(ab) == 0, rule, "add-if-absent", p.Pos(onEvent.Pos()), "", strings.Join(ab, " || "))
	}

	// one event, one publication: a plan created (lock-free) while an event is being applied sees the
	// list before or after it, never an intermediate list
	{
		s := newSim(p)
		s.Inline = func(f *ssa.Function) bool { return recvNamed(f) == lb && f.Parent() == nil && f != onEvent }
		s.Effect = func(call ssa.CallInstruction, callee *ssa.Function) []string {
			if callIsMethod(call, "sync/atomic", "Value", "Store") {
				if fa, ok := call.Common().Args[0].(*ssa.FieldAddr); ok && fieldOfAddr(fa) == lbHosts {
					return []string{"publish"}
				}
			}
			return nil
		}
		var sb []string
		outs := s.Run(onEvent, newState())
		r.count("sim_states", s.Nodes)
		for _, o := range outs {
			if !o.Panic && o.St.eff["publish"] >= 2 {
				sb = append(sb, fmt.Sprintf("one event publishes the host list more than once (path ending at %s): a query plan created between the publications snapshots a list that is neither the old nor the new one (hosts that are live before and after the event are missing from it)", p.Pos(o.Pos)))
			}
		}
		r.check(len(sb) == 0 && len(outs) > 0, rule, "one-publication-per-event", p.Pos(onEvent.Pos()), fmt.Sprintf("%d paths", len(outs)), strings.Join(dedupe(sb), " || "))
	}

	// atomics discipline
	var ab []string
	nacc := 0
	for _, acc := range fieldAccesses(fns, lbIndex) {
		nacc++
		ok := false
		if acc.Kind == "addr-call" {
			if c, isCall := acc.Instr.(*ssa.Call); isCall {
				if f := c.Call.StaticCallee(); f != nil && f.Pkg != nil && f.Pkg.Pkg.Path() == "sync/atomic" {
					ok = true
					// rotation: the counter only ever moves forward by one per plan
					switch {
					case strings.HasPrefix(f.Name(), "Load"):
					case strings.HasPrefix(f.Name(), "Add"):
						if d, isC := constInt(c.Call.Args[1]); !isC || d != 1 {
							ab = append(ab, fmt.Sprintf("%s: the rotating counter is advanced by something other than 1 in %s: consecutive plans no longer start at consecutive hosts", p.Pos(c.Pos()), acc.Fn.Name()))
						}
					default:
						ab = append(ab, fmt.Sprintf("%s: the rotating counter is rewritten (%s) in %s: after a reset the next plan starts at host 0 whatever host the previous plan started at, so consecutive plans are not at consecutive hosts unless the reset point is a multiple of the host count", p.Pos(c.Pos()), f.Name(), acc.Fn.Name()))
					}
				}
			}
		}
		if !ok {
			ab = append(ab, fmt.Sprintf("%s: %s of the rotating counter in %s is not a sync/atomic operation", p.Pos(acc.Instr.Pos()), acc.Kind, acc.Fn.Name()))
		}
	}
	for _, acc := range fieldAccesses(fns, lbHosts) {
		nacc++
		ok := false
		if acc.Kind == "addr-call" {
			if c, isCall := acc.Instr.(*ssa.Call); isCall && (callIsMethod(c, "sync/atomic", "Value", "Load") || callIsMethod(c, "sync/atomic", "Value", "Store")) {
				ok = true
			}
		}
		if !ok {
			ab = append(ab, fmt.Sprintf("%s: %s of the published slice in %s bypasses atomic.Value", p.Pos(acc.Instr.Pos()), acc.Kind, acc.Fn.Name()))
		}
	}
	if nacc < 5 {
		ab = append(ab, fmt.Sprintf("only %d accesses found", nacc))
	}
	r.check(len(ab) == 0, atomicsRule, lb.Obj().Name()+".{index,hosts}", p.Pos(onEvent.Pos()), fmt.Sprintf("%d accesses", nacc), strings.Join(dedupe(ab), " || "))
}

// isKeySearch: fn searches a host list for a key: it returns an index of its list parameter only
// under a `h.Key() == x.Key()` comparison on that element, and a negative constant otherwise.
func isKeySearch(p *Prog, fn *ssa.Function) bool {
	if fn == nil || fn.Blocks == nil || !p.InRepo(fn) || fn.Signature.Results().Len() != 1 {
		return false
	}
	if b, ok := fn.Signature.Results().At(0).Type().Underlying().(*types.Basic); !ok || b.Info()&types.IsInteger == 0 {
		return false
	}
	okAll, hits := true, 0
	eachInstr(fn, func(in ssa.Instruction) {
		ret, ok := in.(*ssa.Return)
		if !ok {
			return
		}
		if k, isK := constInt(ret.Results[0]); isK {
			if k >= 0 {
				okAll = false
			}
			return
		}
		under := false
		for _, ct := range dominatingConds(ret.Block()) {
			bo, ok := ct.Cond.(*ssa.BinOp)
			if !ok || !((bo.Op == token.EQL && ct.Truth) || (bo.Op == token.NEQ && !ct.Truth)) {
				continue
			}
			xc, xok := bo.X.(*ssa.Call)
			yc, yok := bo.Y.(*ssa.Call)
			if xok && yok && xc.Call.StaticCallee() != nil && yc.Call.StaticCallee() != nil && xc.Call.StaticCallee().Name() == "Key" && yc.Call.StaticCallee().Name() == "Key" {
				under = true
			}
		}
		if under {
			hits++
		} else {
			okAll = false
		}
	})
	return okAll && hits > 0
}

// isLibKeySearch: slices.IndexFunc(list, pred) where pred is a function literal (possibly made by
// a small factory function) whose single return compares the Key() of its argument with the Key()
// of another host.
func isLibKeySearch(p *Prog, c *ssa.Call) bool {
	callee := c.Call.StaticCallee()
	if callee == nil || len(c.Call.Args) != 2 {
		return false
	}
	o := callee
	if og := callee.Origin(); og != nil {
		o = og
	}
	if o.Pkg == nil || o.Pkg.Pkg.Path() != "slices" || o.Name() != "IndexFunc" {
		return false
	}
	conds := predReturnConds(p, c.Call.Args[1])
	if len(conds) != 1 || !conds[0].Truth {
		return false
	}
	bo, ok := conds[0].Cond.(*ssa.BinOp)
	if !ok || bo.Op != token.EQL {
		return false
	}
	xc, xok := bo.X.(*ssa.Call)
	yc, yok := bo.Y.(*ssa.Call)
	return xok && yok && xc.Call.StaticCallee() != nil && yc.Call.StaticCallee() != nil &&
		xc.Call.StaticCallee().Name() == "Key" && yc.Call.StaticCallee().Name() == "Key"
}
