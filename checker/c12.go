package main

// C12 — write-consistency override rewrites exactly the consistency of matching writes.
//
//  override-guard  the request frame is forwarded as received unless it is a
//                  non-SELECT QUERY/EXECUTE/BATCH whose consistency is in the
//                  configured list; in that case the only field written is the
//                  message's Consistency, with the configured override level
//  membership      the list test is a pure membership test (empty list => false)
//  reencode        the re-encoded frame reuses the client's header and the decoded
//                  body object (custom payload, warnings, tracing id survive), and is
//                  produced by ConvertToRawFrame so its length is the bytes written;
//                  no frame.Frame of a request ever reaches the backend writer
//  isselect        isSelect comes from the statement text (QUERY/PREPARE), the
//                  prepared metadata (EXECUTE) or is false (BATCH)

import (
	"fmt"
	"go/constant"
	"go/token"
	"go/types"
	"strings"

	"golang.org/x/tools/go/ssa"
)

func init() { register("C12", checkC12) }

type overrideRoles struct {
	cr       *clientRoles
	override *ssa.Function          // maybeOverrideUnsupportedWriteConsistency
	member   *ssa.Function          // isUnsupportedWriteConsistency
	helpers  map[*ssa.Function]bool // private helpers of the override between it and the membership test
	reencode []*ssa.Function
}

func getOverrideRoles(p *Prog) *overrideRoles {
	or := &overrideRoles{cr: getClientRoles(p)}
	uwcF := p.Field("proxy", "Config", "UnsupportedWriteConsistencies")
	for _, m := range p.methodsOf(or.cr.cl) {
		readsList := false
		eachInstr(m, func(in ssa.Instruction) {
			if fa, ok := in.(*ssa.FieldAddr); ok && fieldOfAddr(fa) == uwcF {
				readsList = true
			}
		})
		if readsList {
			or.member = m
		}
		if callsDirectly(m, func(c ssa.CallInstruction) bool {
			cm := c.Common()
			return cm.IsInvoke() && cm.Method.Name() == "ConvertToRawFrame"
		}) {
			or.reencode = append(or.reencode, m)
		}
	}
	if or.member == nil {
		fatalf("anchor: no client method reads Config.UnsupportedWriteConsistencies")
	}
	// the override entry point takes (isSelect bool, raw *RawFrame, ...) and consults the
	// membership test itself or through a private helper (which is then part of it)
	isEntry := func(m *ssa.Function) bool {
		hasRaw, hasBool := false, false
		for _, par := range m.Params {
			if typeIs(par.Type(), "frame", "RawFrame") {
				hasRaw = true
			}
			if b, ok := par.Type().Underlying().(*types.Basic); ok && b.Kind() == types.Bool {
				hasBool = true
			}
		}
		return hasRaw && hasBool
	}
	var direct []*ssa.Function
	for _, m := range p.methodsOf(or.cr.cl) {
		if m != or.member && callsDirectly(m, func(c ssa.CallInstruction) bool { return c.Common().StaticCallee() == or.member }) {
			direct = append(direct, m)
		}
	}
	if len(direct) == 0 {
		fatalf("anchor: no client method consults the unsupported-consistency test")
	}
	or.helpers = map[*ssa.Function]bool{}
	for _, d := range direct {
		if isEntry(d) {
			or.override = d
		}
	}
	if or.override == nil {
		for _, m := range p.methodsOf(or.cr.cl) {
			if !isEntry(m) {
				continue
			}
			for _, d := range direct {
				d := d
				if callsDirectly(m, func(c ssa.CallInstruction) bool { return c.Common().StaticCallee() == d }) {
					or.override = m
					or.helpers[d] = true
				}
			}
		}
	}
	if or.override == nil {
		or.override = direct[len(direct)-1] // reported by the guard rule as not taking (isSelect, raw)
	}
	return or
}

func isPartialMsgType(t types.Type) bool {
	return typeIs(t, "codecs", "PartialQuery") || typeIs(t, "codecs", "PartialExecute") || typeIs(t, "codecs", "PartialBatch")
}

func ownerOfField(p *Prog, fa *ssa.FieldAddr) *types.Named {
	return namedOf(fa.X.Type())
}

func checkC12(p *Prog, r *Report) {
	requireRecognisedDispatch(p)
	r.NotCov = append(r.NotCov,
		"how the backend interprets the overridden consistency",
		"byte-level equality of the re-encoded body with the original (the partial codecs' layout and field symmetry are decided under C11)")
	or := getOverrideRoles(p)
	c12Guard(p, r, or)
	c12Membership(p, r, or)
	c12Reencode(p, r, or, "C12.reencode")
	c12IsSelect(p, r, or)
	c12MetadataBeforeReply(p, r, "C12.metadata-before-reply")
	// the re-encoded request is produced by the partial codecs: their layout per version is part of this property
	codecLayouts(p, r, "C12")
	// the configured override level is the one used: nothing re-defaults it after parsing (ANY is the zero value)
	r.borrow("C20", "C12", func() { c20ConfiguredValuesKept(p, r) })
	r.borrow("C03", "C12", func() { c03FrameOwnership(p, r) })
}

func c12Guard(p *Prog, r *Report, or *overrideRoles) {
	const rule = "C12.override-guard"
	r.Rule(rule, "the frame is forwarded as received unless !isSelect and the message is a partial QUERY/EXECUTE/BATCH whose consistency is in the configured list; then the only field written is Consistency := configured override")
	fn := or.override
	var rawPar, selPar *ssa.Parameter
	for _, par := range fn.Params {
		if typeIs(par.Type(), "frame", "RawFrame") {
			rawPar = par
		}
		if b, ok := par.Type().Underlying().(*types.Basic); ok && b.Kind() == types.Bool {
			selPar = par
		}
	}
	if rawPar == nil || selPar == nil {
		fatalf("anchor: %s does not take (isSelect bool, raw *RawFrame, ...)", fn.Name())
	}
	ovF := p.Field("proxy", "Config", "UnsupportedWriteConsistencyOverride")
	reenc := map[*ssa.Function]bool{}
	for _, f := range or.reencode {
		reenc[f] = true
	}
	for _, isSel := range []bool{true, false} {
		s := newSim(p)
		// private helpers of the override (choosing the kind of request, ...) are part of it
		s.Inline = func(f *ssa.Function) bool {
			if or.helpers[f] {
				return true
			}
			return f.Parent() == nil && f != or.member && !reenc[f] && recvNamed(f) == nil && pkgOfFn(f) == pkgOfFn(fn) && !f.Object().Exported() && onlyCalledFrom(p, f, fn, 2)
		}
		// the configured override, wherever the value travels
		s.LoadVal = func(ld *ssa.UnOp) (AV, bool) {
			if strings.Contains(fieldPath(ld), ovF.Name()) {
				return avSymbol("override"), true
			}
			return AV{}, false
		}
		s.OnInstr = func(st *State, in ssa.Instruction) {
			stv, ok := in.(*ssa.Store)
			if !ok {
				return
			}
			fa, ok := stv.Addr.(*ssa.FieldAddr)
			if !ok {
				// a store through a pointer that was chosen among several fields (p := &m.Consistency ...),
				// possibly handed to a private helper (&m.Consistency as an argument)
				var fas []*ssa.FieldAddr
				all := true
				for _, o := range originsInter(p, stv.Addr, 2) {
					if x, isFa := o.(*ssa.FieldAddr); isFa {
						fas = append(fas, x)
					} else if k, isC := o.(*ssa.Const); isC && k.Value == nil {
						continue
					} else {
						all = false
					}
				}
				if len(fas) == 0 || !all {
					return
				}
				fa = fas[0]
				for _, x := range fas[1:] {
					if fieldOfAddr(x).Name() != fieldOfAddr(fa).Name() {
						st.aux["badstore"] = st.aux["badstore"] + " store through a pointer to different fields"
					}
				}
			}
			owner := ownerOfField(p, fa)
			if owner == nil {
				return
			}
			f := fieldOfAddr(fa)
			switch {
			case isPartialMsgType(owner):
				if f.Name() == "Consistency" {
					// value must be the configured override
					okVal := false
					for _, o := range origins(stv.Val) {
						if strings.Contains(fieldPath(o), ovF.Name()) {
							okVal = true
						}
					}
					if a := s.eval(st, stv.Val); a.K == avSym && a.S == "override" {
						okVal = true
					}
					if okVal {
						st.aux["cons"] = st.aux["cons"] + "+"
					} else {
						st.aux["badstore"] = st.aux["badstore"] + " Consistency:=<not the configured override>"
					}
				} else {
					st.aux["badstore"] = st.aux["badstore"] + " " + owner.Obj().Name() + "." + f.Name()
				}
			case typeIs(owner, "frame", "Header") || typeIs(owner, "frame", "RawFrame") || typeIs(owner, "frame", "Body"):
				if _, fresh := fa.X.(*ssa.Alloc); !fresh {
					st.aux["badstore"] = st.aux["badstore"] + " " + owner.Obj().Name() + "." + f.Name()
				}
			}
		}
		s.Model = func(sm *Sim, st *State, call ssa.CallInstruction, callee *ssa.Function) []*State {
			if callee == or.member {
				t, f := st.clone(), st.clone()
				t.aux["unsupported"] = "T"
				SetCallResult(t, call, avBool(true))
				f.aux["unsupported"] = "F"
				SetCallResult(f, call, avBool(false))
				return []*State{t, f}
			}
			if callee != nil && reenc[callee] {
				st.aux["reencoded"] = "1"
				// arguments must be the received frame and the decoded body
				SetCallResult(st, call, avSymbol("reencoded"))
				return []*State{st}
			}
			return nil
		}
		s.OnBranch = func(st *State, cond ssa.Value, truth bool) {
			if ex, ok := cond.(*ssa.Extract); ok && truth {
				if ta, ok := ex.Tuple.(*ssa.TypeAssert); ok && isPartialMsgType(ta.AssertedType) {
					st.aux["arm"] = shortType(ta.AssertedType)
				}
			}
		}
		init := newState()
		init.vals[rawPar] = avSymbol("raw")
		init.vals[selPar] = avBool(isSel)
		outs := s.Run(fn, init)
		r.count("sim_states", s.Nodes)
		var bad []string
		overridden := 0
		for _, o := range outs {
			if o.Panic {
				continue
			}
			desc := fmt.Sprintf("path ending at %s {arm=%s unsupported=%s returns %s}", p.Pos(o.Pos), o.St.aux["arm"], o.St.aux["unsupported"], o.Ret)
			if b := o.St.aux["badstore"]; b != "" {
				bad = append(bad, "writes other than the consistency:"+b+" on "+desc)
			}
			shouldOverride := !isSel && o.St.aux["unsupported"] == "T"
			isRaw := o.Ret.K == avSym && o.Ret.S == "raw"
			if shouldOverride {
				overridden++
				if isRaw || o.St.aux["reencoded"] != "1" {
					bad = append(bad, "matching write is not re-encoded: "+desc)
				}
				if len(o.St.aux["cons"]) != 1 {
					bad = append(bad, fmt.Sprintf("consistency written %d times with the override on %s", len(o.St.aux["cons"]), desc))
				}
			} else {
				if !isRaw {
					bad = append(bad, "frame not forwarded as received although no override applies: "+desc)
				}
				if o.St.aux["cons"] != "" {
					bad = append(bad, "consistency modified although no override applies: "+desc)
				}
			}
		}
		if !isSel && overridden < 3 {
			bad = append(bad, fmt.Sprintf("only %d of the three request kinds (QUERY, EXECUTE, BATCH) can be overridden", overridden))
		}
		r.check(len(bad) == 0 && len(outs) > 0, rule, fmt.Sprintf("%s[isSelect=%v]", fn.Name(), isSel), p.Pos(fn.Pos()), fmt.Sprintf("%d paths", len(outs)), strings.Join(dedupe(bad), " || "))
	}
	// re-encode call arguments: (raw, body) of this request
	var ab []string
	ncalls := 0
	// (in the override function itself or in a private helper only it calls: the helper must be given
	// this request's frame and body for the parameters it passes on)
	isBodyPar := func(v ssa.Value) (*ssa.Parameter, bool) {
		par, ok := v.(*ssa.Parameter)
		return par, ok && typeIs(par.Type(), "frame", "Body")
	}
	parIndex := func(h *ssa.Function, par *ssa.Parameter) int {
		for i, q := range h.Params {
			if q == par {
				return i
			}
		}
		return -1
	}
	scan := []*ssa.Function{fn}
	for _, h := range withCallees(p, fn, 1) {
		if h != fn && h.Parent() == nil && p.InRepo(h) && !reenc[h] && onlyCalledFrom(p, h, fn, 1) {
			scan = append(scan, h)
		}
	}
	for _, h := range scan {
		h := h
		eachCall(h, func(c ssa.CallInstruction) {
			if f := c.Common().StaticCallee(); f == nil || !reenc[f] {
				return
			}
			ncalls++
			okRaw, okBody := false, false
			for _, a := range c.Common().Args {
				if h == fn {
					if a == ssa.Value(rawPar) {
						okRaw = true
					}
					if _, ok := isBodyPar(a); ok {
						okBody = true
					}
					continue
				}
				// helper: a is a parameter of the helper that every call in fn binds to fn's own frame / body
				par, isPar := a.(*ssa.Parameter)
				if !isPar {
					continue
				}
				idx := parIndex(h, par)
				all, n := true, 0
				isBody := false
				eachCall(fn, func(cs ssa.CallInstruction) {
					if cs.Common().StaticCallee() != h || idx < 0 || idx >= len(cs.Common().Args) {
						return
					}
					n++
					arg := cs.Common().Args[idx]
					if arg == ssa.Value(rawPar) {
						return
					}
					if _, ok := isBodyPar(arg); ok {
						isBody = true
						return
					}
					all = false
				})
				if all && n > 0 {
					if isBody {
						okBody = true
					} else {
						okRaw = true
					}
				}
			}
			if !okRaw || !okBody {
				ab = append(ab, p.Pos(c.Pos())+": re-encoding is not given this request's frame and decoded body")
			}
		})
	}
	r.check(len(ab) == 0 && ncalls >= 1, rule, fn.Name()+":reencode-args", p.Pos(fn.Pos()), fmt.Sprintf("%d re-encode sites", ncalls), strings.Join(ab, " || "))
}

func c12Membership(p *Prog, r *Report, or *overrideRoles) {
	const rule = "C12.membership"
	r.Rule(rule, "the unsupported-consistency test returns true only when an element of the configured list equals the request's consistency, false after the list is exhausted (empty list => false)")
	fn := or.member
	uwcF := p.Field("proxy", "Config", "UnsupportedWriteConsistencies")
	if c12MembershipAnyOf(p, fn, uwcF) {
		r.ok(rule, fn.Name(), p.Pos(fn.Pos()), "any-of over the configured list with `element == request's consistency` as the predicate")
		return
	}
	var bad []string
	var eqs []*ssa.BinOp
	eachInstr(fn, func(in ssa.Instruction) {
		if bo, ok := in.(*ssa.BinOp); ok && bo.Op == token.EQL {
			xp, yp := bo.X == ssa.Value(fn.Params[1]), bo.Y == ssa.Value(fn.Params[1])
			other := bo.X
			if xp {
				other = bo.Y
			}
			if (xp || yp) && strings.Contains(fieldPath(other), "ConsistencyLevel") {
				eqs = append(eqs, bo)
			}
		}
	})
	if len(eqs) == 0 {
		bad = append(bad, "no comparison of a list element's consistency with the request's consistency")
	}
	ranges := false
	eachInstr(fn, func(in ssa.Instruction) {
		if ia, ok := in.(*ssa.IndexAddr); ok {
			if f, _ := loadedField(ia.X); f == uwcF {
				ranges = true
			}
		}
	})
	if !ranges {
		bad = append(bad, "does not iterate over Config.UnsupportedWriteConsistencies")
	}
	eachInstr(fn, func(in ssa.Instruction) {
		ret, ok := in.(*ssa.Return)
		if !ok {
			return
		}
		for _, o := range origins(ret.Results[0]) {
			if c, ok := o.(*ssa.Const); ok && c.Value != nil && !constant.BoolVal(c.Value) {
				continue
			}
			g := false
			for _, e := range eqs {
				if guardedBy(ret.Block(), e, true) || o == ssa.Value(e) {
					g = true
				}
			}
			if !g {
				bad = append(bad, p.Pos(ret.Pos())+": may answer true without a matching list element")
			}
		}
	})
	r.check(len(bad) == 0, rule, fn.Name(), p.Pos(fn.Pos()), "", strings.Join(dedupe(bad), " || "))
}

// c12MembershipAnyOf: the test is `return anyOf(config list, func(e) bool { return e.ConsistencyLevel == consistency })`
// through a recognised membership helper (slices.ContainsFunc or a repository function of that
// shape, see anyOfKind).
func c12MembershipAnyOf(p *Prog, fn *ssa.Function, uwcF *types.Var) bool {
	var theCall *ssa.Call
	okRet := true
	eachInstr(fn, func(in ssa.Instruction) {
		ret, ok := in.(*ssa.Return)
		if !ok {
			return
		}
		c, isCall := ret.Results[0].(*ssa.Call)
		if !isCall || (theCall != nil && theCall != c) {
			okRet = false
			return
		}
		theCall = c
	})
	if !okRet || theCall == nil || len(theCall.Call.Args) != 2 || p.anyOfKind(theCall.Call.StaticCallee()) != "func" {
		return false
	}
	if f, _ := loadedField(theCall.Call.Args[0]); f != uwcF {
		return false
	}
	preds := p.funcValueTargets(theCall.Call.Args[1], 1)
	if len(preds) != 1 || preds[0].Parent() != fn || len(preds[0].Params) != 1 {
		return false
	}
	cf := preds[0]
	isSubject := func(v ssa.Value) bool {
		// the consistency being tested: the enclosing function's parameter, captured
		for _, o := range origins(v) {
			fv, ok := o.(*ssa.FreeVar)
			if !ok {
				return false
			}
			b := freeVarBinding(fv)
			if b == nil {
				return false
			}
			if par, ok := b.(*ssa.Parameter); ok && par == fn.Params[1] {
				continue
			}
			al, ok := b.(*ssa.Alloc)
			if !ok {
				return false
			}
			for _, ref := range *al.Referrers() {
				if st, ok := ref.(*ssa.Store); ok && st.Addr == ssa.Value(al) && st.Val != ssa.Value(fn.Params[1]) {
					return false
				}
			}
		}
		return true
	}
	isElem := func(v ssa.Value) bool {
		fp := fieldPath(v)
		return strings.HasSuffix(fp, ".ConsistencyLevel") && strings.HasPrefix(fp, cf.Params[0].Name()+".")
	}
	okPred, n := true, 0
	eachInstr(cf, func(in ssa.Instruction) {
		ret, ok := in.(*ssa.Return)
		if !ok {
			return
		}
		n++
		bo, isCmp := ret.Results[0].(*ssa.BinOp)
		if !isCmp || bo.Op != token.EQL || !((isElem(bo.X) && isSubject(bo.Y)) || (isElem(bo.Y) && isSubject(bo.X))) {
			okPred = false
		}
	})
	return okPred && n > 0
}

// c12Reencode: the frame literal and its conversion.
func c12Reencode(p *Prog, r *Report, or *overrideRoles, rule string) {
	r.Rule(rule, "a re-encoded request keeps the client's header object and the decoded body object (payload, warnings, tracing id), is produced by ConvertToRawFrame (length = bytes written), and a request is never handed to the backend writer as a frame.Frame")
	if len(or.reencode) == 0 {
		r.bad(rule, "reencode", "", "no client method re-encodes through ConvertToRawFrame: overridden requests would be length-framed by EncodeFrame, which over-declares traced requests")
		return
	}
	for _, fn := range or.reencode {
		var bad []string
		var rawPar, bodyPar *ssa.Parameter
		for _, par := range fn.Params {
			if typeIs(par.Type(), "frame", "RawFrame") {
				rawPar = par
			}
			if typeIs(par.Type(), "frame", "Body") {
				bodyPar = par
			}
		}
		if rawPar == nil || bodyPar == nil {
			bad = append(bad, "does not take the received frame and the decoded body")
		}
		// the argument of ConvertToRawFrame
		eachCall(fn, func(c ssa.CallInstruction) {
			cm := c.Common()
			if !cm.IsInvoke() || cm.Method.Name() != "ConvertToRawFrame" {
				return
			}
			// the converting codec is the connection's own (the one the body was decoded with: it
			// carries the compressor the frame's flags demand); any other codec fails on compressed
			// frames and the request goes out unmodified
			okCodec := clientCodecRoles(p).isValue(cm.Value)
			if !okCodec {
				bad = append(bad, p.Pos(c.Pos())+": the frame is converted with a codec other than the client connection's own ("+valDesc(cm.Value)+"): a frame whose flags ask for that connection's compression cannot be converted and is forwarded unmodified")
			}
			okHdr, okBody := false, false
			for _, o := range origins(cm.Args[0]) {
				a, ok := o.(*ssa.Alloc)
				if !ok || !typeIs(a.Type(), "frame", "Frame") {
					bad = append(bad, p.Pos(c.Pos())+": converted frame is not a frame literal built here (e.g. frame.NewFrame drops the decoded body's payload/warnings)")
					continue
				}
				for _, ref := range *a.Referrers() {
					fa, ok := ref.(*ssa.FieldAddr)
					if !ok {
						continue
					}
					for _, rr := range *fa.Referrers() {
						st, ok := rr.(*ssa.Store)
						if !ok || st.Addr != fa {
							continue
						}
						switch fieldOfAddr(fa).Name() {
						case "Header":
							if f, base := loadedField(st.Val); f != nil && f.Name() == "Header" && base == ssa.Value(rawPar) {
								okHdr = true
							}
						case "Body":
							if st.Val == ssa.Value(bodyPar) {
								okBody = true
							}
						}
					}
				}
			}
			if !okHdr {
				bad = append(bad, p.Pos(c.Pos())+": re-encoded frame does not reuse the client's header (version, flags, opcode)")
			}
			if !okBody {
				bad = append(bad, p.Pos(c.Pos())+": re-encoded frame does not reuse the decoded body (custom payload / warnings would be dropped)")
			}
		})
		// results: the converted raw frame, or the received raw frame
		eachInstr(fn, func(in ssa.Instruction) {
			ret, ok := in.(*ssa.Return)
			if !ok {
				return
			}
			for _, o := range origins(ret.Results[0]) {
				switch x := o.(type) {
				case *ssa.Parameter:
					if x != rawPar {
						bad = append(bad, p.Pos(ret.Pos())+": returns something other than a raw frame")
					}
				case *ssa.Extract:
					if c, ok := x.Tuple.(*ssa.Call); !ok || !c.Call.IsInvoke() || c.Call.Method.Name() != "ConvertToRawFrame" {
						bad = append(bad, p.Pos(ret.Pos())+": returns a value of unknown origin")
					}
				default:
					if typeIs(o.Type(), "frame", "Frame") {
						bad = append(bad, p.Pos(ret.Pos())+": a frame.Frame of a request is handed to the backend writer (EncodeFrame over-declares the length of traced requests)")
					} else {
						bad = append(bad, p.Pos(ret.Pos())+": returns a value of unknown origin "+o.String())
					}
				}
			}
		})
		r.check(len(bad) == 0, rule, fn.Name(), p.Pos(fn.Pos()), "header+body reused, ConvertToRawFrame", strings.Join(dedupe(bad), " || "))
		bad = reencodeErrorPath(p, fn)
		r.check(len(bad) == 0, rule, fn.Name()+":error-path", p.Pos(fn.Pos()), "the converted frame is returned only when the conversion succeeded", strings.Join(dedupe(bad), " || "))
	}
	// no *frame.Frame allocation flows into request.frm anywhere in package proxy
	req := p.proxyRequestType()
	frmF := requestFrameField(p, req)
	var fb []string
	n := 0
	for _, fn := range p.ScopedFuncs("proxy") {
		eachInstr(fn, func(in ssa.Instruction) {
			st, ok := in.(*ssa.Store)
			if !ok {
				return
			}
			fa, ok := st.Addr.(*ssa.FieldAddr)
			if !ok || fieldOfAddr(fa) != frmF {
				return
			}
			n++
			for _, o := range origins(st.Val) {
				c, ok := o.(*ssa.Call)
				if !ok || c.Call.StaticCallee() != or.override {
					fb = append(fb, p.Pos(st.Pos())+": request frame does not come from the override decision function")
				}
			}
		})
	}
	r.check(len(fb) == 0 && n > 0, rule, "request.frm", "", fmt.Sprintf("%d stores", n), strings.Join(fb, " || "))
}

func c12IsSelect(p *Prog, r *Report, or *overrideRoles) {
	const rule = "C12.isselect"
	r.Rule(rule, "isSelect is derived from the parsed statement (QUERY, PREPARE), from the metadata stored at PREPARE (EXECUTE), or is false (BATCH); the override decision receives that same flag with this request's frame and body")
	cr := or.cr
	fwd := cr.forward
	// which input of forward is isSelect: the bool parameter (or the bool field of an options record)
	slots := slotsOfType(fwd, func(t types.Type) bool {
		b, ok := t.Underlying().(*types.Basic)
		return ok && b.Kind() == types.Bool
	})
	if len(slots) != 1 {
		fatalf("anchor: %s has no bool parameter", fwd.Name())
	}
	selSlot := slots[0]
	// inside forward: override(isSelect, raw, body) gets the same parameters
	var fb []string
	found := false
	eachCall(fwd, func(c ssa.CallInstruction) {
		if c.Common().StaticCallee() != or.override {
			return
		}
		found = true
		for _, a := range c.Common().Args[1:] {
			if _, ok := slotOfValue(fwd, a); !ok {
				fb = append(fb, p.Pos(c.Pos())+": override decision is not given the forwarded request's own flag/frame/body")
			}
		}
	})
	if !found {
		fb = append(fb, "forwarding does not consult the override decision")
	}
	r.check(len(fb) == 0, rule, fwd.Name()+"->"+or.override.Name(), p.Pos(fwd.Pos()), "", strings.Join(dedupe(fb), " || "))

	// the parser reports a SELECT for every text that starts with SELECT, handled or not, parseable
	// or not: callers decide "is a read" by the type of the statement they get back
	{
		hq := p.Func("parser", "IsQueryHandled")
		lex := p.Named("parser", "lexer")
		tkSel := p.constOf("parser", "tkSelect")
		s := newSim(p)
		s.MaxNodes = 60000
		s.Inline = func(f *ssa.Function) bool {
			return f.Pkg == hq.Pkg && recvNamed(f) == nil && f.Parent() == nil && onlyCalledFrom(p, f, hq, 2) && f.Signature.Results().Len() == hq.Signature.Results().Len()
		}
		s.Model = func(sm *Sim, st *State, call ssa.CallInstruction, callee *ssa.Function) []*State {
			if callee != nil && isGeneratedLexer(callee) && recvNamed(callee) == lex {
				if st.aux["first"] == "" {
					st.aux["first"] = "1"
					SetCallResult(st, call, avC(tkSel))
				} else {
					SetCallResult(st, call, top)
				}
				return []*State{st}
			}
			return nil
		}
		s.OnInstr = func(st *State, in ssa.Instruction) {
			// package-level statement values (&SelectStatement{...}) are not nil
			if ld, ok := in.(*ssa.UnOp); ok && ld.Op == token.MUL {
				if g, ok := ld.X.(*ssa.Global); ok && g.Pkg == hq.Pkg {
					if _, isPtr := ld.Type().Underlying().(*types.Pointer); isPtr {
						st.vals[ld] = AV{K: avNonNil}
						s.Pinned[ld] = true
					}
				}
			}
		}
		outs := s.Run(hq, newState())
		r.count("sim_states", s.Nodes)
		var pb []string
		n := 0
		for _, o := range outs {
			if o.Panic {
				continue
			}
			n++
			// (handled with an error is answered with that error, never forwarded: no statement needed)
			if h, known := o.Ret.elem(0).isBool(); known && h && o.Ret.elem(2).K == avNonNil {
				continue
			}
			if o.Ret.elem(1).K == avNil {
				pb = append(pb, fmt.Sprintf("a text that starts with SELECT is reported without a statement (path ending at %s): the caller's `stmt.(*SelectStatement)` test fails, the read is taken for a write and its consistency is overridden", p.Pos(o.Pos)))
			}
		}
		r.check(len(pb) == 0 && n > 0, rule, "parser.IsQueryHandled[SELECT]", p.Pos(hq.Pos()), fmt.Sprintf("%d paths, each reports a select statement", n), strings.Join(dedupe(pb), " || "))
	}

	sites := 0
	for _, fn := range p.ScopedFuncs("proxy") {
		fn := fn
		eachCall(fn, func(c ssa.CallInstruction) {
			if c.Common().StaticCallee() != fwd {
				return
			}
			sites++
			arg := slotArg(c, selSlot)
			kind := "?"
			for _, par := range fn.Params {
				switch {
				case typeIs(par.Type(), "message", "Prepare"):
					kind = "PREPARE"
				case typeIs(par.Type(), "codecs", "PartialExecute"):
					kind = "EXECUTE"
				case typeIs(par.Type(), "codecs", "PartialQuery"):
					kind = "QUERY"
				}
			}
			if kind == "?" {
				kind = "BATCH"
			}
			var bad []string
			if arg == nil {
				bad = append(bad, "the isSelect flag handed to the forwarding function could not be resolved at this site")
			}
			for _, o := range origins(arg) {
				switch kind {
				case "QUERY", "PREPARE":
					okSrc := false
					if ex, ok := o.(*ssa.Extract); ok && ex.Index == 1 {
						if ta, ok := ex.Tuple.(*ssa.TypeAssert); ok && typeIs(ta.AssertedType, "parser", "SelectStatement") {
							for _, src := range origins(ta.X) {
								if e2, ok := src.(*ssa.Extract); ok {
									if cc, ok := e2.Tuple.(*ssa.Call); ok && callIsFunc(cc, "parser", "IsQueryHandled") {
										okSrc = true
									}
								}
							}
						}
					}
					if !okSrc {
						bad = append(bad, "isSelect is not `stmt.(*parser.SelectStatement)` of the parsed statement")
					}
				case "EXECUTE":
					cc, ok := o.(*ssa.Call)
					if !ok || cc.Call.StaticCallee() == nil || !typeIs(cc.Call.StaticCallee().Signature.Recv().Type(), "proxy", "Proxy") {
						bad = append(bad, "isSelect of an EXECUTE does not come from the prepared metadata")
					} else {
						bad = append(bad, c12CheckIsSelectLookup(p, cc.Call.StaticCallee())...)
					}
				case "BATCH":
					if cst, ok := o.(*ssa.Const); !ok || cst.Value == nil || constant.BoolVal(cst.Value) {
						bad = append(bad, "a BATCH is not treated as a write")
					}
				}
			}
			r.check(len(bad) == 0, rule, "site:"+fn.Name()+"["+kind+"]", p.Pos(c.Pos()), "", strings.Join(dedupe(bad), " || "))
		})
	}
	if sites < 4 {
		fatalf("rule %s: only %d forwarding sites found (4 confirmed by hand)", rule, sites)
	}
	// the metadata stored at PREPARE carries the request's isSelect
	isSelF := p.Field("proxy", "preparedMetadata", "isSelect")
	reqSel := p.Field("proxy", p.proxyRequestType().Obj().Name(), "isSelect")
	var sb []string
	nst := 0
	for _, fn := range p.ScopedFuncs("proxy") {
		eachInstr(fn, func(in ssa.Instruction) {
			st, ok := in.(*ssa.Store)
			if !ok {
				return
			}
			fa, ok := st.Addr.(*ssa.FieldAddr)
			if !ok || fieldOfAddr(fa) != isSelF {
				return
			}
			nst++
			par, ok := st.Val.(*ssa.Parameter)
			if !ok {
				sb = append(sb, p.Pos(st.Pos())+": stored isSelect is not the caller's flag")
				return
			}
			// callers pass request.isSelect
			idx := -1
			for i, pp := range fn.Params {
				if pp == par {
					idx = i
				}
			}
			for _, g := range p.ScopedFuncs("proxy") {
				eachCall(g, func(c ssa.CallInstruction) {
					if c.Common().StaticCallee() == fn && idx >= 0 {
						if f, _ := loadedField(c.Common().Args[idx]); f != reqSel {
							sb = append(sb, p.Pos(c.Pos())+": prepared metadata is stored with a flag other than the request's isSelect")
						}
					}
				})
			}
		})
	}
	r.check(len(sb) == 0 && nst > 0, rule, "preparedMetadata.isSelect", "", "", strings.Join(dedupe(sb), " || "))
}

// the Proxy.isSelect lookup: miss => false, hit => stored flag
func c12CheckIsSelectLookup(p *Prog, fn *ssa.Function) []string {
	var bad []string
	isSelF := p.Field("proxy", "preparedMetadata", "isSelect")
	var okVal ssa.Value
	eachInstr(fn, func(in ssa.Instruction) {
		if c, ok := in.(*ssa.Call); ok && callIsMethod(c, "sync", "Map", "Load") {
			for _, ref := range *c.Referrers() {
				if ex, ok := ref.(*ssa.Extract); ok && ex.Index == 1 {
					okVal = ex
				}
			}
		}
	})
	if okVal == nil {
		return []string{fn.Name() + ": no metadata lookup"}
	}
	eachInstr(fn, func(in ssa.Instruction) {
		ret, ok := in.(*ssa.Return)
		if !ok {
			return
		}
		for _, o := range origins(ret.Results[0]) {
			if c, ok := o.(*ssa.Const); ok && c.Value != nil && !constant.BoolVal(c.Value) {
				continue
			}
			if f, _ := loadedField(o); f == isSelF {
				continue
			}
			bad = append(bad, p.Pos(ret.Pos())+": "+fn.Name()+" returns something other than the stored isSelect flag or false")
		}
	})
	return bad
}

// c12MetadataBeforeReply: what the proxy learns from a PREPARED result (is the statement a
// SELECT, is it idempotent) is stored before that result is written to the client: once the
// client has the id it may EXECUTE it at once, and an EXECUTE without metadata is treated as a
// write (its consistency is overridden) and as non-idempotent.
func c12MetadataBeforeReply(p *Prog, r *Report, rule string) {
	r.Rule(rule, "on the delivery path of a backend reply the prepared-statement metadata (isSelect, idempotent) is stored before the reply is written to the client, so an EXECUTE sent right after PREPARED already finds it")
	req := p.proxyRequestType()
	onRes := p.methodOf(req, "OnResult")
	pmF := p.Field("proxy", "Proxy", "preparedMetadata")
	// functions that (transitively, within proxy) store into Proxy.preparedMetadata
	stores := func(fn *ssa.Function) bool {
		found := false
		for _, f := range withCallees(p, fn, 2) {
			eachCall(f, func(c ssa.CallInstruction) {
				if callIsMethod(c, "sync", "Map", "Store") {
					if fa, ok := c.Common().Args[0].(*ssa.FieldAddr); ok && fieldOfAddr(fa) == pmF {
						found = true
					}
				}
			})
		}
		return found
	}
	reply := replyFuncs(p, req)
	// the delivery path: OnResult and the request's own helpers it is split into (the error
	// handler and the host walk answer with their own messages, not with the backend's reply)
	rr := requestRoles(p)
	onPath := map[*ssa.Function]bool{}
	var walk func(f *ssa.Function, d int)
	walk = func(f *ssa.Function, d int) {
		if onPath[f] || d > 3 || f == rr.handleErr || f == rr.execLoop {
			return
		}
		onPath[f] = true
		eachCall(f, func(c ssa.CallInstruction) {
			if callee := c.Common().StaticCallee(); callee != nil && recvNamed(callee) == req && !reply[callee] {
				walk(callee, d+1)
			}
		})
	}
	walk(onRes, 0)
	isStore := func(c ssa.CallInstruction) bool {
		callee := c.Common().StaticCallee()
		return callee != nil && !reply[callee] && !onPath[callee] && callee.Pkg == onRes.Pkg && stores(callee)
	}
	before := func(a, b ssa.CallInstruction) bool {
		if a.Block() == b.Block() {
			for _, in := range a.Block().Instrs {
				if in == a.(ssa.Instruction) {
					return true
				}
				if in == b.(ssa.Instruction) {
					return false
				}
			}
		}
		return a.Block().Dominates(b.Block())
	}
	var storedBefore func(site ssa.CallInstruction, d int) bool
	storedBefore = func(site ssa.CallInstruction, d int) bool {
		f := site.Parent()
		found := false
		eachCall(f, func(c ssa.CallInstruction) {
			if isStore(c) && before(c, site) {
				found = true
			}
		})
		if found || f == onRes || d == 0 {
			return found
		}
		sites, only := p.staticCallSites(f)
		if !only || len(sites) == 0 {
			return false
		}
		for _, cs := range sites {
			if !onPath[cs.Parent()] || !storedBefore(cs, d-1) {
				return false
			}
		}
		return true
	}
	var replyCalls []ssa.CallInstruction
	nstore := 0
	for f := range onPath {
		eachCall(f, func(c ssa.CallInstruction) {
			if callee := c.Common().StaticCallee(); callee != nil && reply[callee] {
				replyCalls = append(replyCalls, c)
			}
			if isStore(c) {
				nstore++
			}
		})
	}
	var bad []string
	if nstore == 0 {
		bad = append(bad, "the delivery path does not store prepared-statement metadata at all")
	}
	for _, rc := range replyCalls {
		if nstore > 0 && !storedBefore(rc, 3) {
			bad = append(bad, p.Pos(rc.Pos())+": the backend's reply is written to the client before the prepared-statement metadata is stored: an EXECUTE of the new id can arrive first and is then handled as a non-SELECT, non-idempotent request")
		}
	}
	storeCalls := make([]int, nstore)
	r.check(len(bad) == 0 && len(replyCalls) > 0, rule, req.Obj().Name()+".OnResult", p.Pos(onRes.Pos()), fmt.Sprintf("%d reply site(s), %d store site(s)", len(replyCalls), len(storeCalls)), strings.Join(dedupe(bad), " || "))
}

// reencodeErrorPath: the frame result of a failed conversion is nil.  Returned inside an interface
// value it is a non-nil interface holding a nil *RawFrame: the backend connection's writer
// dereferences it and the process dies.
func reencodeErrorPath(p *Prog, fn *ssa.Function) []string {
	var bad []string
	eachInstr(fn, func(in ssa.Instruction) {
		ret, ok := in.(*ssa.Return)
		if !ok || len(ret.Results) == 0 {
			return
		}
		for _, o := range origins(ret.Results[0]) {
			ex, ok := o.(*ssa.Extract)
			if !ok || ex.Index != 0 {
				continue
			}
			call, ok := ex.Tuple.(*ssa.Call)
			if !ok || !call.Call.IsInvoke() || call.Call.Method.Name() != "ConvertToRawFrame" {
				continue
			}
			okGuard := false
			for _, ct := range dominatingConds(ret.Block()) {
				bo, ok := ct.Cond.(*ssa.BinOp)
				if !ok {
					continue
				}
				isErr := func(v ssa.Value) bool {
					e, ok := v.(*ssa.Extract)
					return ok && e.Index == 1 && e.Tuple == ssa.Value(call)
				}
				isNil := func(v ssa.Value) bool { c, ok := v.(*ssa.Const); return ok && c.Value == nil }
				if (isErr(bo.X) && isNil(bo.Y)) || (isErr(bo.Y) && isNil(bo.X)) {
					if (bo.Op == token.NEQ && !ct.Truth) || (bo.Op == token.EQL && ct.Truth) {
						okGuard = true
					}
				}
			}
			if !okGuard {
				bad = append(bad, p.Pos(ret.Pos())+": the frame result of ConvertToRawFrame is returned without having established that the conversion succeeded: on an error it is a nil *RawFrame inside a non-nil interface, which the backend connection's writer dereferences (the process dies on a request that decodes but cannot be re-encoded)")
			}
		}
	})
	return bad
}

// callsDirectlyOrIs: helper for choosing what to inline in the IsQueryHandled simulation: the
// statement-level functions (named isHandled...), not the selector/term parsers below them.
func callsDirectlyOrIs(f *ssa.Function, prefix string) bool {
	return strings.HasPrefix(f.Name(), prefix)
}
