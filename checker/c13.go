package main

// C13 — handshake, version negotiation and compression selection are answered locally.
//
//  handshake-once  OPTIONS / STARTUP / REGISTER: exactly one locally built frame
//                  (SUPPORTED, READY or an error), no request execution, no session
//                  lookup/creation, nothing sent to a backend
//  gate            for every known version v and every configurable maximum m the
//                  frame is rejected iff v > m or v < 3; a rejected frame gets one
//                  ProtocolError naming the version, is not body-decoded, not
//                  forwarded, and the handler returns nil (connection stays)
//  codec-switch    the per-connection codec/compression fields are written only at
//                  construction and in the STARTUP arm under a successful lookup of
//                  the lower-cased option in the compression table
//  names           SUPPORTED advertises exactly the key set of that table

import (
	"fmt"
	"go/ast"
	"go/constant"
	"go/token"
	"go/types"
	"sort"
	"strings"

	"golang.org/x/tools/go/ssa"
)

func init() { register("C13", checkC13) }

// msgTypeOf returns the concrete message type passed to a send(hdr, msg) call.
func sentMessageTypes(v ssa.Value) []string {
	var out []string
	for _, o := range origins(v) {
		out = append(out, shortType(o.Type()))
	}
	sort.Strings(out)
	return out
}

type recvPath struct {
	arm     string
	sent    string
	send    int
	exec    int
	session int
	backend int
	decode  int
	ret     AV
	pos     string
}

// runReceive simulates the client frame handler, optionally with the frame's
// version and the configured maximum bound to constants.
func runReceive(p *Prog, version, max *int64) ([]recvPath, int) {
	s, cl := newClientSim(p)
	fn := p.methodOf(cl, "Receive")
	verF := p.Field("frame", "Header", "Version")
	maxF := p.Field("proxy", "Config", "MaxVersion")
	baseEff := s.Effect
	px := p.Named("proxy", "Proxy")
	sessionFns := map[*ssa.Function]bool{}
	for _, m := range p.methodsOf(px) {
		if callsDirectly(m, func(c ssa.CallInstruction) bool { return callIsFunc(c, "proxycore", "ConnectSession") }) {
			sessionFns[m] = true
		}
	}
	// transitive: Proxy methods calling those
	for i := 0; i < 3; i++ {
		for _, m := range p.methodsOf(px) {
			if callsDirectly(m, func(c ssa.CallInstruction) bool { f := c.Common().StaticCallee(); return f != nil && sessionFns[f] }) {
				sessionFns[m] = true
			}
		}
	}
	s.Effect = func(call ssa.CallInstruction, callee *ssa.Function) []string {
		effs := baseEff(call, callee)
		if callee != nil && sessionFns[callee] {
			effs = append(effs, "session")
		}
		if libDecodeKind(p, call) == "DecodeBody" {
			effs = append(effs, "decodebody")
		}
		return effs
	}
	s.Model = func(sm *Sim, st *State, call ssa.CallInstruction, callee *ssa.Function) []*State {
		if callee != nil && callee.Name() == "send" && recvNamed(callee) == cl && len(call.Common().Args) == 3 {
			if strings.Count(st.aux["sent"], ",") < 3 { // saturate: a send inside a loop must not make the state space unbounded
				st.aux["sent"] = st.aux["sent"] + strings.Join(sentMessageTypes(call.Common().Args[2]), "|") + ","
			}
		}
		return nil
	}
	dispatch := clientDispatchFn(p)
	s.OnBranch = func(st *State, cond ssa.Value, truth bool) {
		if ex, ok := cond.(*ssa.Extract); ok {
			if ta, ok := ex.Tuple.(*ssa.TypeAssert); ok && ta.Parent() == dispatch {
				if truth {
					st.aux["arm"] = shortType(ta.AssertedType)
				} else {
					st.aux["arm"] = "default"
				}
			}
		}
	}
	init := newState()
	if version != nil {
		s.Tracked[verF] = true
		s.Tracked[maxF] = true
		init.cells[verF] = avInt(*version)
		init.cells[maxF] = avInt(*max)
	}
	outs := s.Run(fn, init)
	var paths []recvPath
	for _, o := range outs {
		if o.Panic {
			continue
		}
		arm := o.St.aux["arm"]
		if arm == "" {
			arm = "pre-dispatch"
		}
		paths = append(paths, recvPath{arm: arm, sent: strings.TrimSuffix(o.St.aux["sent"], ","), send: o.St.eff["send"], exec: o.St.eff["exec"],
			session: o.St.eff["session"], backend: o.St.eff["backend"], decode: o.St.eff["decodebody"], ret: o.Ret, pos: p.Pos(o.Pos)})
	}
	return paths, s.Nodes
}

func checkC13(p *Prog, r *Report) {
	requireRecognisedDispatch(p)
	r.NotCov = append(r.NotCov,
		"unknown version bytes (rejected inside the trusted library frame decoder: error => connection closed)",
		"the compression algorithms themselves; the order of frames on a connection")
	cl := p.proxyClientType()
	recv := p.methodOf(cl, "Receive")

	// ---- handshake-once
	const rule = "C13.handshake-once"
	r.Rule(rule, "OPTIONS/STARTUP/REGISTER are answered with exactly one locally built SUPPORTED/READY/ERROR frame and never reach a session, a request execution or a backend")
	paths, n := runReceive(p, nil, nil)
	r.count("sim_states", n)
	allowed := map[string]map[string]bool{
		"*message.Options":  {"*message.Supported": true},
		"*message.Startup":  {"*message.Ready": true, "*message.ProtocolError": true},
		"*message.Register": {"*message.Ready": true},
	}
	for _, arm := range []string{"*message.Options", "*message.Startup", "*message.Register"} {
		var bad []string
		cnt := 0
		for _, ep := range paths {
			if ep.arm != arm {
				continue
			}
			cnt++
			if ep.ret.K != avNil {
				bad = append(bad, "handler returns an error (connection closed) on path ending at "+ep.pos)
			}
			if ep.send != 1 {
				bad = append(bad, fmt.Sprintf("%d frames sent on path ending at %s (sent: %s)", ep.send, ep.pos, ep.sent))
			}
			if ep.exec+ep.session+ep.backend > 0 {
				bad = append(bad, fmt.Sprintf("handshake frame reaches a session/backend (exec=%d session=%d backend=%d) on path ending at %s", ep.exec, ep.session, ep.backend, ep.pos))
			}
			for _, m := range strings.Split(ep.sent, ",") {
				if m != "" && !allowed[arm][m] {
					bad = append(bad, fmt.Sprintf("answers with %s", m))
				}
			}
		}
		if cnt == 0 {
			bad = append(bad, "arm not found in the frame handler")
		}
		r.check(len(bad) == 0, rule, cl.Obj().Name()+".Receive#"+arm, p.Pos(recv.Pos()), fmt.Sprintf("%d paths", cnt), strings.Join(dedupe(bad), " || "))
	}
	r.Floor(rule, 3, "handshake arms")

	c13Gate(p, r, cl, recv)
	c13Codec(p, r, cl, recv)
	c13Names(p, r)
	c13LookupKeys(p, r)
	c13ReplyFlags(p, r)
	// a locally built answer gets a header of its own (flags of the request must not leak into it)
	r.borrow("C03", "C13", func() { c03FrameWrites(p, r) })
}

func c13Gate(p *Prog, r *Report, cl *types.Named, recv *ssa.Function) {
	const rule = "C13.gate"
	r.Rule(rule, "for each known protocol version v and configured maximum m: the frame is rejected iff v > m or v < 3; rejection sends exactly one ProtocolError, does not decode the body, forwards nothing and keeps the connection")
	vers := p.constsOfType("primitive", "ProtocolVersion")
	known := map[string]int64{}
	for n, v := range vers {
		if i, ok := constant.Int64Val(v); ok && strings.HasPrefix(n, "ProtocolVersion") {
			known[strings.TrimPrefix(n, "ProtocolVersion")] = i
		}
	}
	for _, need := range []string{"2", "3", "4", "5", "Dse1", "Dse2"} {
		if _, ok := known[need]; !ok {
			fatalf("anchor: primitive.ProtocolVersion%s not found", need)
		}
	}
	var names []string
	for n := range known {
		names = append(names, n)
	}
	sort.Slice(names, func(i, j int) bool { return known[names[i]] < known[names[j]] })
	cells := 0
	for _, mn := range names {
		m := known[mn]
		if m < 3 {
			continue // not configurable as a maximum
		}
		var bad []string
		for _, vn := range names {
			v := known[vn]
			wantReject := v > m || v < 3
			paths, n := runReceive(p, &v, &m)
			r.count("sim_states", n)
			cells++
			rejected, accepted := 0, 0
			for _, ep := range paths {
				if ep.decode == 0 && ep.send == 0 && ep.ret.K != avNil {
					continue // frame decode error before the gate
				}
				if ep.decode > 0 {
					accepted++
				} else {
					rejected++
					if ep.send != 1 || ep.sent != "*message.ProtocolError" {
						bad = append(bad, fmt.Sprintf("v=%s max=%s: rejected frame answered with %d frame(s) [%s]", vn, mn, ep.send, ep.sent))
					}
					if ep.exec+ep.session+ep.backend > 0 {
						bad = append(bad, fmt.Sprintf("v=%s max=%s: rejected frame is forwarded", vn, mn))
					}
					if ep.ret.K != avNil {
						bad = append(bad, fmt.Sprintf("v=%s max=%s: rejection closes the connection (handler returns an error)", vn, mn))
					}
				}
			}
			switch {
			case wantReject && accepted > 0:
				bad = append(bad, fmt.Sprintf("v=%s max=%s: frame must be rejected but %d path(s) decode and dispatch it", vn, mn, accepted))
			case wantReject && rejected == 0:
				bad = append(bad, fmt.Sprintf("v=%s max=%s: no rejecting path", vn, mn))
			case !wantReject && rejected > 0:
				bad = append(bad, fmt.Sprintf("v=%s max=%s: supported version is rejected on %d path(s)", vn, mn, rejected))
			case !wantReject && accepted == 0:
				bad = append(bad, fmt.Sprintf("v=%s max=%s: no accepting path", vn, mn))
			}
		}
		r.check(len(bad) == 0, rule, "max="+mn, p.Pos(recv.Pos()), fmt.Sprintf("%d versions folded", len(names)), strings.Join(dedupe(bad), " || "))
	}
	r.count("gate_cells", cells)
	r.Floor(rule, 5, "configurable maximum versions")

	// the error text names the frame's version
	verF := p.Field("frame", "Header", "Version")
	named := false
	eachInstr(recv, func(in ssa.Instruction) {
		a, ok := in.(*ssa.Alloc)
		if !ok || !typeIs(a.Type(), "message", "ProtocolError") {
			return
		}
		for _, ref := range *a.Referrers() {
			fa, ok := ref.(*ssa.FieldAddr)
			if !ok || fieldOfAddr(fa).Name() != "ErrorMessage" {
				continue
			}
			for _, rr := range *fa.Referrers() {
				st, ok := rr.(*ssa.Store)
				if !ok {
					continue
				}
				if c, ok := st.Val.(*ssa.Call); ok && callIsFunc(c, "fmt", "Sprintf") {
					if derivesFromField(c.Call.Args[1], verF, 0) {
						named = true
					}
				}
			}
		}
	})
	r.check(named, rule, "error-names-version", p.Pos(recv.Pos()), "", "the protocol error does not name the frame's version (drivers cannot downgrade)")
}

// derivesFromField: v (possibly a varargs slice) contains a value loaded from field f.
func derivesFromField(v ssa.Value, f *types.Var, depth int) bool {
	if depth > 6 {
		return false
	}
	for _, o := range origins(v) {
		if lf, _ := loadedField(o); lf == f {
			return true
		}
		switch x := o.(type) {
		case *ssa.Slice:
			if derivesFromField(x.X, f, depth+1) {
				return true
			}
		case *ssa.Alloc:
			for _, ref := range *x.Referrers() {
				if ia, ok := ref.(*ssa.IndexAddr); ok {
					for _, rr := range *ia.Referrers() {
						if st, ok := rr.(*ssa.Store); ok && derivesFromField(st.Val, f, depth+1) {
							return true
						}
					}
				}
			}
		}
	}
	return false
}

func c13Codec(p *Prog, r *Report, cl *types.Named, recv *ssa.Function) {
	const rule = "C13.codec-switch"
	r.Rule(rule, "the connection's codec and compression fields are written only when the client object is built and in the STARTUP arm, under a successful lookup of the lower-cased COMPRESSION option in the compression codec table, with the looked-up codec")
	codecF := p.Field("proxy", cl.Obj().Name(), "codec")
	compF := p.Field("proxy", cl.Obj().Name(), "compression")
	table := p.Global("codecs", "CustomRawCodecsWithCompression")
	fns := p.ScopedFuncs("proxy")
	n := 0
	type wr struct {
		f     *types.Var
		instr ssa.Instruction
		fn    *ssa.Function
		base  ssa.Value
		val   ssa.Value
	}
	var writes []wr
	ccr := clientCodecRoles(p)
	for _, w := range ccr.writes(p) {
		writes = append(writes, wr{codecF, w.Instr, w.Fn, w.Base, w.Val})
	}
	for _, acc := range fieldAccesses(fns, compF) {
		if !acc.Write {
			if acc.Kind == "addr-escapes" || acc.Kind == "addr-other" || acc.Kind == "addr-call" {
				r.bad(rule, fmt.Sprintf("%s.%s@%s", cl.Obj().Name(), compF.Name(), acc.Fn.Name()), p.Pos(acc.Instr.Pos()), "address of the field escapes (writes cannot be inventoried)")
			}
			continue
		}
		writes = append(writes, wr{compF, acc.Instr, acc.Fn, acc.Base, acc.Instr.(*ssa.Store).Val})
	}
	// the codec field itself is reached only through its accessors (or plain loads/stores)
	for _, acc := range fieldAccesses(fns, codecF) {
		if acc.Kind == "addr-escapes" || acc.Kind == "addr-other" {
			r.bad(rule, fmt.Sprintf("%s.%s@%s", cl.Obj().Name(), codecF.Name(), acc.Fn.Name()), p.Pos(acc.Instr.Pos()), "address of the field escapes (writes cannot be inventoried)")
		}
		if acc.Kind == "addr-call" {
			c, _ := acc.Instr.(*ssa.Call)
			if c == nil || !(callIsMethod(c, "sync/atomic", "Value", "Load") || callIsMethod(c, "sync/atomic", "Value", "Store")) {
				r.bad(rule, fmt.Sprintf("%s.%s@%s", cl.Obj().Name(), codecF.Name(), acc.Fn.Name()), p.Pos(acc.Instr.Pos()), "address of the field passed to something other than its atomic load/store")
			}
		}
	}
	for _, w := range writes {
		f := w.f
		{
			n++
			key := fmt.Sprintf("%s.%s@%s", cl.Obj().Name(), f.Name(), w.fn.Name())
			if a, ok := w.base.(*ssa.Alloc); ok && a.Parent() == w.fn {
				r.ok(rule, key, p.Pos(w.instr.Pos()), "construction of a new client")
				continue
			}
			st := w.instr
			var bad []string
			if !onlyCalledFrom(p, w.fn, recv, 3) {
				bad = append(bad, "written outside the frame handler (and its private helpers)")
			}
			if len(w.fn.Params) == 0 || w.base != ssa.Value(w.fn.Params[0]) || recvNamed(w.fn) != cl {
				bad = append(bad, "written on an object other than the receiving connection")
			}
			// guarded by a successful table lookup
			var lookup *ssa.Lookup
			for _, ct := range dominatingConds(st.Block()) {
				if ex, ok := ct.Cond.(*ssa.Extract); ok && ex.Index == 1 && ct.Truth {
					if lk, ok := ex.Tuple.(*ssa.Lookup); ok {
						if ld, ok := lk.X.(*ssa.UnOp); ok && sameGlobal(ld.X, table) {
							lookup = lk
						}
					}
				}
			}
			if lookup == nil {
				bad = append(bad, "not guarded by a successful lookup in the compression codec table")
			} else {
				if c, ok := lookup.Index.(*ssa.Call); !ok || !callIsFunc(c, "strings", "ToLower") {
					bad = append(bad, "lookup key is not lower-cased")
				}
				if f == codecF {
					okSrc := false
					for _, o := range origins(w.val) {
						if ex, ok := o.(*ssa.Extract); ok && ex.Tuple == lookup && ex.Index == 0 {
							okSrc = true
						}
					}
					if !okSrc {
						bad = append(bad, "stored codec is not the looked-up codec")
					}
				}
				// inside the STARTUP arm (possibly of the caller, when the arm's body is a helper)
				inStartup := guardHolds(p, st.Block(), func(ct condTruth) bool {
					if ex, ok := ct.Cond.(*ssa.Extract); ok && ct.Truth {
						if ta, ok := ex.Tuple.(*ssa.TypeAssert); ok && typeIs(ta.AssertedType, "message", "Startup") {
							return true
						}
					}
					return false
				}, 3)
				if !inStartup {
					bad = append(bad, "not inside the STARTUP arm")
				}
			}
			r.check(len(bad) == 0, rule, key, p.Pos(st.Pos()), "STARTUP arm, successful lower-cased lookup", strings.Join(bad, " || "))
		}
	}
	if n < 3 {
		fatalf("rule %s: only %d writes of codec/compression found (3 confirmed by hand)", rule, n)
	}
}

// astGlobalInit returns the initialiser expression of a package-level variable.
func (p *Prog) astGlobalInit(pkg, name string) (ast.Expr, *types.Info) {
	info := p.TypesInfo(pkg)
	for _, f := range p.Syntax(pkg) {
		for _, d := range f.Decls {
			gd, ok := d.(*ast.GenDecl)
			if !ok {
				continue
			}
			for _, sp := range gd.Specs {
				vs, ok := sp.(*ast.ValueSpec)
				if !ok {
					continue
				}
				for i, n := range vs.Names {
					if n.Name == name && i < len(vs.Values) {
						return vs.Values[i], info
					}
				}
			}
		}
	}
	fatalf("anchor: initialiser of %s.%s not found", pkg, name)
	return nil, nil
}

// stringElems extracts constant string elements (slice literal) or keys (map literal).
func stringElems(e ast.Expr, info *types.Info, keys bool) ([]string, bool) {
	cl, ok := e.(*ast.CompositeLit)
	if !ok {
		// a table built by a function of the package whose body is `return <literal>`
		if call, isCall := e.(*ast.CallExpr); isCall && curProg != nil {
			if lit := returnedLiteral(curProg, info, call); lit != nil {
				return stringElems(lit, info, keys)
			}
		}
		return nil, false
	}
	var out []string
	for _, el := range cl.Elts {
		x := el
		if kv, ok := el.(*ast.KeyValueExpr); ok {
			if keys {
				x = kv.Key
			} else {
				x = kv.Value
			}
		} else if keys {
			return nil, false
		}
		tv, ok := info.Types[x]
		if !ok || tv.Value == nil || tv.Value.Kind() != constant.String {
			return nil, false
		}
		out = append(out, constant.StringVal(tv.Value))
	}
	return out, true
}

func c13Names(p *Prog, r *Report) {
	const rule = "C13.names"
	r.Rule(rule, "the COMPRESSION list advertised in SUPPORTED equals the key set of the compression codec table used at STARTUP (and both tables of compression codecs have the same keys)")
	e1, info := p.astGlobalInit("codecs", "CompressionNames")
	names, ok1 := stringElems(e1, info, false)
	e2, _ := p.astGlobalInit("codecs", "CustomRawCodecsWithCompression")
	keys, ok2 := stringElems(e2, info, true)
	if !ok1 || !ok2 {
		r.bad(rule, "codecs.CompressionNames", "", "tables are not constant literals: cannot be compared statically")
		return
	}
	sort.Strings(names)
	sort.Strings(keys)
	lower := true
	for _, k := range keys {
		if k != strings.ToLower(k) {
			lower = false
		}
	}
	r.check(strings.Join(names, ",") == strings.Join(keys, ",") && lower && len(keys) > 0, rule, "codecs.CompressionNames", p.Pos(p.Global("codecs", "CompressionNames").Pos()),
		"advertised "+strings.Join(names, ","), fmt.Sprintf("advertised %v but the STARTUP table has keys %v (keys must be lower case: the lookup lower-cases the option)", names, keys))
	// SUPPORTED uses that list
	cl := p.proxyClientType()
	recv := p.methodOf(cl, "Receive")
	uses := false
	g := p.Global("codecs", "CompressionNames")
	// in the frame handler or one of its private helpers (the arm may have a method of its own)
	var fam []*ssa.Function
	for _, f := range withCallees(p, recv, 3) {
		if f == recv || (recvNamed(rootFn(f)) == cl && onlyCalledFrom(p, rootFn(f), recv, 3)) {
			fam = append(fam, f)
		}
	}
	for _, f := range fam {
		eachInstr(f, func(in ssa.Instruction) {
			if mu, ok := in.(*ssa.MapUpdate); ok {
				if k, ok := constStr(mu.Key); ok && k == "COMPRESSION" {
					for _, o := range origins(mu.Value) {
						if ld, ok := o.(*ssa.UnOp); ok && sameGlobal(ld.X, g) {
							uses = true
						}
					}
				}
			}
		})
	}
	r.check(uses, rule, "SUPPORTED.COMPRESSION", p.Pos(recv.Pos()), "", "SUPPORTED does not advertise codecs.CompressionNames under COMPRESSION")
}

// c13LookupKeys: every lookup in a table of codecs keyed by compression name, on the
// client side and on the backend side, lower-cases the name first.  The two sides must
// agree: the client side accepts "LZ4", stores the name as given, and the backend session is
// configured with that same string.
func c13LookupKeys(p *Prog, r *Report) {
	const rule = "C13.lookup-keys"
	r.Rule(rule, "every lookup in a codec table keyed by compression name uses the lower-cased name (tables have lower-case keys): the client-facing STARTUP and the backend handshake accept exactly the same spellings")
	n := 0
	var bad []string
	for _, fn := range p.ScopedFuncs("proxy", "proxycore", "codecs") {
		eachInstr(fn, func(in ssa.Instruction) {
			lk, ok := in.(*ssa.Lookup)
			if !ok {
				return
			}
			isTable := false
			for _, o := range origins(lk.X) {
				if ld, ok := o.(*ssa.UnOp); ok {
					if g, ok := ld.X.(*ssa.Global); ok && strings.Contains(g.Name(), "Compression") {
						if mt, ok := g.Type().(*types.Pointer).Elem().Underlying().(*types.Map); ok {
							if b, ok := mt.Key().Underlying().(*types.Basic); ok && b.Kind() == types.String {
								isTable = true
							}
						}
					}
				}
			}
			if !isTable {
				return
			}
			n++
			okKey := false
			for _, o := range origins(lk.Index) {
				switch x := o.(type) {
				case *ssa.Const:
					okKey = true
				case *ssa.Call:
					if callIsFunc(x, "strings", "ToLower") {
						okKey = true
					}
				}
			}
			if !okKey {
				bad = append(bad, fmt.Sprintf("%s: %s looks the compression name up as given (%s), without lower-casing it: a spelling accepted on the other side of the proxy is refused here", p.Pos(lk.Pos()), fn.Name(), valDesc(lk.Index)))
			}
		})
	}
	r.check(len(bad) == 0 && n >= 2, rule, "compression table lookups", "", fmt.Sprintf("%d lookups", n), strings.Join(dedupe(bad), " || "))
}

// returnedLiteral: call is a call of a function of the repository whose body consists of one
// return statement with a composite literal: that literal.
func returnedLiteral(p *Prog, info *types.Info, call *ast.CallExpr) *ast.CompositeLit {
	id, ok := call.Fun.(*ast.Ident)
	if !ok {
		return nil
	}
	fobj, ok := info.Uses[id].(*types.Func)
	if !ok || fobj.Pkg() == nil || !strings.HasPrefix(fobj.Pkg().Path(), modPath) {
		return nil
	}
	rel := strings.TrimPrefix(strings.TrimPrefix(fobj.Pkg().Path(), modPath), "/")
	for _, f := range p.Syntax(rel) {
		for _, d := range f.Decls {
			fd, ok := d.(*ast.FuncDecl)
			if !ok || fd.Recv != nil || fd.Name.Name != fobj.Name() || fd.Body == nil || len(fd.Body.List) != 1 {
				continue
			}
			ret, ok := fd.Body.List[0].(*ast.ReturnStmt)
			if !ok || len(ret.Results) != 1 {
				continue
			}
			lit, _ := ret.Results[0].(*ast.CompositeLit)
			return lit
		}
	}
	return nil
}

// c13ReplyFlags: a reply the proxy builds itself (version refusal, SUPPORTED, READY, errors, rows
// of the virtual tables) is encoded with the codec of the connection, which has a compressor only
// after a successful STARTUP.  Header flags of such a frame (compression, tracing, ...) therefore
// must not be copied from the flags of the request: those are whatever the peer chose to send,
// before any negotiation, and a frame flagged "compressed" cannot be encoded without a compressor
// (the writer fails and the connection drops instead of the documented answer).
func c13ReplyFlags(p *Prog, r *Report) {
	const rule = "C13.reply-flags"
	r.Rule(rule, "the header flags of a locally built reply frame are not derived from the header flags of the request frame (a refused or pre-STARTUP frame may carry any flags; the reply must be encodable without a negotiated compressor)")
	flagsF := p.Field("frame", "Header", "Flags")
	var tainted func(v ssa.Value, depth int, seen map[ssa.Value]bool) bool
	tainted = func(v ssa.Value, depth int, seen map[ssa.Value]bool) bool {
		if v == nil || depth > 8 || seen[v] {
			return false
		}
		seen[v] = true
		switch x := v.(type) {
		case *ssa.UnOp:
			if fa, ok := x.X.(*ssa.FieldAddr); ok && x.Op == token.MUL && fieldOfAddr(fa) == flagsF {
				return true
			}
		case *ssa.Field:
			if fieldOfVal(x) == flagsF {
				return true
			}
		}
		if in, ok := v.(ssa.Instruction); ok {
			for _, op := range in.Operands(nil) {
				if *op != nil && tainted(*op, depth+1, seen) {
					return true
				}
			}
		}
		return false
	}
	n := 0
	var bad []string
	for _, fn := range p.ScopedFuncs("proxy") {
		eachCall(fn, func(c ssa.CallInstruction) {
			sc := c.Common().StaticCallee()
			if sc == nil || sc.Pkg == nil || !strings.HasSuffix(sc.Pkg.Pkg.Path(), "/frame") || sc.Name() != "NewFrame" {
				return
			}
			frm, ok := c.(ssa.Value)
			if !ok {
				return
			}
			n++
			// every use of the new frame (directly or through the local it is kept in)
			uses := append([]ssa.Instruction(nil), *frm.Referrers()...)
			for _, u := range *frm.Referrers() {
				if st, ok := u.(*ssa.Store); ok && st.Val == frm {
					if al, ok := st.Addr.(*ssa.Alloc); ok {
						for _, ar := range *al.Referrers() {
							if ld, ok := ar.(*ssa.UnOp); ok && ld.Op == token.MUL {
								uses = append(uses, *ld.Referrers()...)
							}
						}
					}
				}
			}
			for _, u := range uses {
				switch x := u.(type) {
				case ssa.CallInstruction:
					cm := x.Common()
					callee := cm.StaticCallee()
					if callee == nil || callee.Signature.Recv() == nil || len(cm.Args) < 2 || namedOf(callee.Signature.Recv().Type()) == nil || namedOf(callee.Signature.Recv().Type()).Obj().Name() != "Frame" {
						continue
					}
					for _, a := range cm.Args[1:] {
						if tainted(a, 0, map[ssa.Value]bool{}) {
							bad = append(bad, fmt.Sprintf("%s: %s sets a header property of a locally built reply (%s) from the flags of the request frame: a frame that is refused, or arrives before STARTUP, can carry any flags, and a reply flagged accordingly cannot be encoded by a connection without a compressor", p.Pos(x.Pos()), fn.String(), callee.Name()))
						}
					}
				case *ssa.FieldAddr:
					// frm.Header -> stores into its fields
					for _, hr := range *x.Referrers() {
						ld, ok := hr.(*ssa.UnOp)
						if !ok {
							continue
						}
						for _, hu := range *ld.Referrers() {
							fa, ok := hu.(*ssa.FieldAddr)
							if !ok {
								continue
							}
							for _, fu := range *fa.Referrers() {
								if st, ok := fu.(*ssa.Store); ok && st.Addr == ssa.Value(fa) && tainted(st.Val, 0, map[ssa.Value]bool{}) {
									bad = append(bad, fmt.Sprintf("%s: %s stores into the header of a locally built reply a value derived from the flags of the request frame", p.Pos(st.Pos()), fn.String()))
								}
							}
						}
					}
				}
			}
		})
	}
	r.count("local_reply_frames", n)
	if n == 0 {
		fatalf("anchor: no locally built reply frame (frame.NewFrame) found in package proxy")
	}
	r.check(len(bad) == 0, rule, "locally built reply frames", "", fmt.Sprintf("%d frame.NewFrame sites in package proxy", n), strings.Join(dedupe(bad), " || "))
}
