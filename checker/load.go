package main

// Front end shared by every rule: loads the working tree of the repository
// under analysis with go/packages, type-checks it, builds go/ssa for the whole
// program and a VTA call graph.  Nothing under the repository is executed.

import (
	"fmt"
	"go/ast"
	"go/token"
	"go/types"
	"os"
	"path/filepath"
	"sort"
	"strings"

	"golang.org/x/tools/go/callgraph"
	"golang.org/x/tools/go/callgraph/cha"
	"golang.org/x/tools/go/callgraph/vta"
	"golang.org/x/tools/go/packages"
	"golang.org/x/tools/go/ssa"
	"golang.org/x/tools/go/ssa/ssautil"
)

const modPath = "github.com/datastax/cql-proxy"
const libPath = "github.com/datastax/go-cassandra-native-protocol"

// Prog is the resolved program.
type Prog struct {
	Dir     string
	Fset    *token.FileSet
	Pkgs    []*packages.Package // repo packages (roots)
	All     map[string]*packages.Package
	SSA     *ssa.Program
	CG      *callgraph.Graph
	Funcs   map[*ssa.Function]bool // all functions incl. anonymous
	byPkg   map[string]*ssa.Package
	NumRoot int
}

type loadOpts struct {
	Dir    string
	Tests  bool
	GOARCH string
}

// fatalf aborts the run without a verdict (exit 2): used for anything that
// makes the analysis itself unreliable.
type noVerdict struct{ msg string }

func fatalf(format string, args ...interface{}) {
	panic(noVerdict{fmt.Sprintf(format, args...)})
}

func loadProgram(o loadOpts) *Prog {
	env := []string{}
	for _, e := range os.Environ() {
		if strings.HasPrefix(e, "GOFLAGS=") || strings.HasPrefix(e, "GOWORK=") ||
			strings.HasPrefix(e, "GOARCH=") || strings.HasPrefix(e, "GOOS=") || strings.HasPrefix(e, "GOPROXY=") ||
			strings.HasPrefix(e, "GOSUMDB=") || strings.HasPrefix(e, "GOTOOLCHAIN=") ||
			strings.HasPrefix(e, "GONOSUMDB=") || strings.HasPrefix(e, "GONOSUMCHECK=") {
			continue
		}
		env = append(env, e)
	}
	// GOFLAGS is cleared on purpose: -mod=mod inside the repository would
	// rewrite its go.mod, and a check must never modify the tree it judges.
	env = append(env, "GOFLAGS=", "GOWORK=off", "GOPROXY=off")
	if o.GOARCH != "" {
		env = append(env, "GOARCH="+o.GOARCH)
	}
	fset := token.NewFileSet()
	cfg := &packages.Config{
		Mode:  packages.LoadAllSyntax,
		Dir:   o.Dir,
		Env:   env,
		Fset:  fset,
		Tests: o.Tests,
	}
	pkgs, err := packages.Load(cfg, "./...")
	if err != nil {
		fatalf("go/packages: %v", err)
	}
	if len(pkgs) == 0 {
		fatalf("go/packages returned zero packages for %s", o.Dir)
	}
	all := map[string]*packages.Package{}
	nerr := 0
	packages.Visit(pkgs, nil, func(p *packages.Package) {
		all[p.ID] = p
		for _, e := range p.Errors {
			// only errors in the repository's own packages matter
			if strings.HasPrefix(p.PkgPath, modPath) {
				fmt.Fprintf(os.Stderr, "load error: %s: %v\n", p.PkgPath, e)
				nerr++
			}
		}
	})
	if nerr > 0 {
		fatalf("%d type/load errors in the repository: no verdict", nerr)
	}
	prog, _ := ssautil.AllPackages(pkgs, ssa.InstantiateGenerics)
	prog.Build()
	p := &Prog{Dir: o.Dir, Fset: fset, Pkgs: pkgs, All: all, SSA: prog, byPkg: map[string]*ssa.Package{}}
	for _, sp := range prog.AllPackages() {
		if sp.Pkg != nil {
			if _, dup := p.byPkg[sp.Pkg.Path()]; !dup {
				p.byPkg[sp.Pkg.Path()] = sp
			}
		}
	}
	// with Tests:true the non-test variant of a package is replaced by the
	// variant that includes _test.go files; prefer the one with most members.
	for _, sp := range prog.AllPackages() {
		if sp.Pkg == nil {
			continue
		}
		cur := p.byPkg[sp.Pkg.Path()]
		if cur != sp && len(sp.Members) > len(cur.Members) {
			p.byPkg[sp.Pkg.Path()] = sp
		}
	}
	p.Funcs = ssautil.AllFunctions(prog)
	p.CG = vta.CallGraph(p.Funcs, cha.CallGraph(prog))
	n := 0
	for _, pk := range pkgs {
		if strings.HasPrefix(pk.PkgPath, modPath) {
			n++
		}
	}
	p.NumRoot = n
	if n == 0 {
		fatalf("no package of %s loaded", modPath)
	}
	for _, need := range []string{"proxy", "proxycore", "codecs", "parser", "astra"} {
		if p.byPkg[modPath+"/"+need] == nil {
			fatalf("package %s/%s not loaded", modPath, need)
		}
	}
	curProg = p
	return p
}

// Pkg returns the ssa package for a repo-relative path ("proxy").
func (p *Prog) Pkg(rel string) *ssa.Package {
	path := pkgPath(rel)
	sp := p.byPkg[path]
	if sp == nil {
		fatalf("anchor: package %q not found", path)
	}
	return sp
}

// FuncOpt resolves "Name" or "(*T).Name"/"T.Name" in pkg; nil if absent.
func (p *Prog) FuncOpt(pkg, name string) *ssa.Function {
	sp := p.Pkg(pkg)
	if strings.HasPrefix(name, "(") || strings.Contains(name, ".") {
		ptr := false
		n := name
		if strings.HasPrefix(n, "(*") {
			ptr = true
			n = strings.TrimPrefix(n, "(*")
			n = strings.Replace(n, ")", "", 1)
		} else if strings.HasPrefix(n, "(") {
			n = strings.Replace(strings.TrimPrefix(n, "("), ")", "", 1)
		}
		parts := strings.SplitN(n, ".", 2)
		if len(parts) != 2 {
			return nil
		}
		nt := p.NamedOpt(pkg, parts[0])
		if nt == nil {
			return nil
		}
		obj := nt.Obj()
		var T types.Type = obj.Type()
		if ptr {
			T = types.NewPointer(T)
		}
		sel := p.SSA.MethodSets.MethodSet(T).Lookup(sp.Pkg, parts[1])
		if sel == nil {
			// renamed? (see anchors.go)
			if nt, ok := obj.Type().(*types.Named); ok {
				return renamedAnchor(pkg+"."+parts[0]+"."+parts[1], p.methodsOf(nt))
			}
			return nil
		}
		return p.SSA.MethodValue(sel)
	}
	if f := sp.Func(name); f != nil {
		return f
	}
	// renamed? (see anchors.go)
	var cands []*ssa.Function
	for _, m := range sp.Members {
		if f, ok := m.(*ssa.Function); ok {
			cands = append(cands, f)
		}
	}
	return renamedAnchor(pkg+"."+name, cands)
}

func (p *Prog) Func(pkg, name string) *ssa.Function {
	f := p.FuncOpt(pkg, name)
	if f == nil {
		fatalf("anchor: function %s.%s not found", pkg, name)
	}
	return f
}

// Named returns the named type pkg.name.
func (p *Prog) Named(pkg, name string) *types.Named {
	n := p.NamedOpt(pkg, name)
	if n == nil {
		fatalf("anchor: type %s.%s not found", pkg, name)
	}
	return n
}

func (p *Prog) NamedOpt(pkg, name string) *types.Named {
	sp := p.byPkg[pkgPath(pkg)]
	if sp == nil {
		return nil
	}
	obj := sp.Pkg.Scope().Lookup(name)
	if obj == nil {
		// renamed? (anchors.go)
		return renamedType(sp, pkg, name)
	}
	n, _ := obj.Type().(*types.Named)
	if n != nil {
		typeLookups[pkg+"."+name] = typeFeatures(n)
	}
	return n
}

var repoPkgs = map[string]bool{"proxy": true, "proxycore": true, "codecs": true, "parser": true, "astra": true}

func pkgPath(rel string) string {
	if rel == "" {
		return modPath
	}
	if repoPkgs[rel] {
		return modPath + "/" + rel
	}
	switch rel {
	case "frame", "message", "primitive", "datatype", "datacodec":
		return libPath + "/" + rel
	}
	return rel
}

// Field returns the field object pkg.typ.field.
func (p *Prog) Field(pkg, typ, field string) *types.Var {
	v := p.FieldOpt(pkg, typ, field)
	if v == nil {
		fatalf("anchor: field %s.%s.%s not found", pkg, typ, field)
	}
	return v
}

func (p *Prog) FieldOpt(pkg, typ, field string) *types.Var {
	n := p.NamedOpt(pkg, typ)
	if n == nil {
		return nil
	}
	st, ok := n.Underlying().(*types.Struct)
	if !ok {
		return nil
	}
	for i := 0; i < st.NumFields(); i++ {
		if st.Field(i).Name() == field {
			fieldLookups[pkg+"."+typ+"."+field] = fieldPrint{Index: i, Type: types.TypeString(st.Field(i).Type(), nil)}
			return st.Field(i)
		}
	}
	// renamed? the field of the recorded type: the one declared in the same position, else the
	// only one of that type (anchors.go)
	if fp, ok := fieldPrints[pkg+"."+typ+"."+field]; ok {
		// (the position is trusted only while the struct's other recorded fields are where they were:
		// a reordered struct falls back to the unique-type rule)
		inPlace := true
		pre := pkg + "." + typ + "."
		for k, other := range fieldPrints {
			if !strings.HasPrefix(k, pre) {
				continue
			}
			for i := 0; i < st.NumFields(); i++ {
				if st.Field(i).Name() == strings.TrimPrefix(k, pre) && i != other.Index {
					inPlace = false
				}
			}
		}
		if inPlace && fp.Index < st.NumFields() && types.TypeString(st.Field(fp.Index).Type(), nil) == fp.Type && !knownFieldName(pkg, typ, st.Field(fp.Index).Name()) {
			return st.Field(fp.Index)
		}
		var only *types.Var
		n := 0
		for i := 0; i < st.NumFields(); i++ {
			if types.TypeString(st.Field(i).Type(), nil) == fp.Type && !knownFieldName(pkg, typ, st.Field(i).Name()) {
				only = st.Field(i)
				n++
			}
		}
		if n == 1 {
			return only
		}
	}
	return nil
}

// Global returns the package-level variable.
func (p *Prog) Global(pkg, name string) *ssa.Global {
	sp := p.Pkg(pkg)
	g, ok := sp.Members[name].(*ssa.Global)
	if !ok {
		fatalf("anchor: global %s.%s not found", pkg, name)
	}
	return g
}

// Pos renders a position relative to the repository root.
func (p *Prog) Pos(pos token.Pos) string {
	if !pos.IsValid() {
		return "?"
	}
	ps := p.Fset.Position(pos)
	f := ps.Filename
	if rel, err := filepath.Rel(p.Dir, f); err == nil && !strings.HasPrefix(rel, "..") {
		f = rel
	}
	return fmt.Sprintf("%s:%d", f, ps.Line)
}

// InRepo reports whether fn belongs to the repository's own packages.
func (p *Prog) InRepo(fn *ssa.Function) bool {
	if fn == nil {
		return false
	}
	pk := fn.Package()
	if pk == nil {
		if fn.Parent() != nil {
			return p.InRepo(fn.Parent())
		}
		if o := fn.Origin(); o != nil && o != fn {
			return p.InRepo(o)
		}
		return false
	}
	return pk.Pkg != nil && strings.HasPrefix(pk.Pkg.Path(), modPath)
}

// fileOf returns the base file name a function is declared in.
func (p *Prog) fileOf(fn *ssa.Function) string {
	pos := fn.Pos()
	for f := fn; !pos.IsValid() && f.Parent() != nil; f = f.Parent() {
		pos = f.Parent().Pos()
	}
	if !pos.IsValid() {
		return ""
	}
	return filepath.Base(p.Fset.Position(pos).Filename)
}

// excluded files (scoped out with reasons in DESIGN.md §1)
var excludedFiles = map[string]string{
	"mockcluster.go": "test scaffolding compiled into proxycore",
	"lexer.go":       "ragel-generated lexer (trusted generated component)",
}

// ScopedFuncs returns every function (including closures) of the given repo
// packages that is declared in a non-test, non-excluded file, sorted by name.
func (p *Prog) ScopedFuncs(pkgs ...string) []*ssa.Function {
	want := map[string]bool{}
	for _, k := range pkgs {
		want[pkgPath(k)] = true
	}
	var out []*ssa.Function
	for fn := range p.Funcs {
		if !p.InRepo(fn) || fn.Blocks == nil {
			continue
		}
		root := fn
		for root.Parent() != nil {
			root = root.Parent()
		}
		if root.Package() == nil || !want[root.Package().Pkg.Path()] {
			continue
		}
		if fn.Synthetic != "" {
			continue
		}
		file := p.fileOf(fn)
		if strings.HasSuffix(file, "_test.go") {
			continue
		}
		if _, ex := excludedFiles[file]; ex {
			continue
		}
		out = append(out, fn)
	}
	sort.Slice(out, func(i, j int) bool { return out[i].String() < out[j].String() })
	return out
}

// Callees returns the call-graph callees of a call instruction.
func (p *Prog) Callees(call ssa.CallInstruction) []*ssa.Function {
	if sc := call.Common().StaticCallee(); sc != nil {
		return []*ssa.Function{sc}
	}
	fn := call.Parent()
	node := p.CG.Nodes[fn]
	if node == nil {
		return nil
	}
	var out []*ssa.Function
	for _, e := range node.Out {
		if e.Site == call {
			out = append(out, e.Callee.Func)
		}
	}
	return out
}

// Syntax returns the *ast.File set of a repo package.
func (p *Prog) Syntax(rel string) []*ast.File {
	for _, pk := range p.Pkgs {
		if pk.PkgPath == pkgPath(rel) {
			return pk.Syntax
		}
	}
	fatalf("anchor: syntax of package %s not found", rel)
	return nil
}

func (p *Prog) TypesInfo(rel string) *types.Info {
	best := (*packages.Package)(nil)
	for _, pk := range p.Pkgs {
		if pk.PkgPath == pkgPath(rel) {
			if best == nil || len(pk.Syntax) > len(best.Syntax) {
				best = pk
			}
		}
	}
	if best == nil {
		fatalf("anchor: types info of package %s not found", rel)
	}
	return best.TypesInfo
}
