package main

// C18 — data-race freedom, as far as it is visible statically: the lock
// discipline the code itself declares.
//
//  guarded-by    every access to a field of the frozen guarded-by table happens with
//                its lock held (must-lockset, interprocedural through unexported
//                callees), writes with the exclusive mode; exceptions are frozen
//                per (function, field) with a reason
//  type-discipline  registries shared between goroutines stay sync.Map /
//                atomic.Value / sync-atomic-only
//  immutable     request fields read without the mutex are written only when the
//                request is built
//  codec-publication ClientConn.codec is only touched through its atomic accessors
//  cow           copy-on-write of the load balancer's published slice (C15)

import (
	"fmt"
	"go/constant"
	"go/token"
	"go/types"
	"path/filepath"
	"sort"
	"strings"

	"golang.org/x/tools/go/ssa"
)

func init() { register("C18", checkC18) }

type guardSpec struct{ pkg, typ, field, lock string }

var guardTable = []guardSpec{
	{"proxy", "Proxy", "sessions", "sessionsMu"},
	{"proxy", "Proxy", "clients", "mu"},
	{"proxy", "Proxy", "listeners", "mu"},
	{"proxy", "Proxy", "isConnected", "mu"},
	{"proxy", "Proxy", "isClosing", "mu"},
	{"proxy", "request", "done", "mu"},
	{"proxy", "request", "retryCount", "mu"},
	{"proxy", "request", "host", "mu"},
	{"proxy", "request", "state", "mu"},
	{"proxycore", "connPool", "conns", "connsMu"},
	{"proxycore", "ClientConn", "closing", "closingMu"},
	{"proxycore", "Conn", "err", "mu"},
	{"proxycore", "Cluster", "outageTime", "outageMu"},
	{"astra", "astraResolver", "sniProxyAddress", "mu"},
	{"astra", "astraResolver", "region", "mu"},
}

// frozen exceptions: accesses that are ordered by something other than the lock
var guardExceptions = map[string]string{
	"Proxy.sessions@Connect":            "written once while Connect holds Proxy.mu and before isConnected is set: no listener, hence no client goroutine, exists yet",
	"connPool.conns@stayConnected:read": "first read of the goroutine's own slot; no other goroutine writes that element",
}

// guardedBy1 checks the given guarded-by entries and records one obligation per (field, function).
func guardedBy1(p *Prog, r *Report, rule string, specs []guardSpec) {
	r.Rule(rule, "every access to a guarded field holds its lock (must-lockset through unexported callees), writes hold it exclusively; objects under construction and frozen, reasoned exceptions aside")
	la := lockAnalyse(p)
	fns := p.ScopedFuncs("proxy", "proxycore", "astra")
	total := 0
	for _, g := range specs {
		f := p.Field(g.pkg, g.typ, g.field)
		lock := p.Field(g.pkg, g.typ, g.lock)
		type agg struct {
			bad []string
			n   int
			pos string
		}
		per := map[string]*agg{}
		for _, acc := range fieldAccesses(fns, f) {
			if acc.Kind == "load" {
				// a plain load of a map/slice header is classified by its uses as well; count it as a read
			}
			fname := canonicalName(p, acc.Fn)
			key := fmt.Sprintf("%s.%s@%s", g.typ, g.field, fname)
			a := per[key]
			if a == nil {
				a = &agg{pos: p.Pos(acc.Instr.Pos())}
				per[key] = a
			}
			a.n++
			total++
			// construction: the object is a fresh allocation of this function
			if al, ok := acc.Base.(*ssa.Alloc); ok && al.Parent() == acc.Fn {
				continue
			}
			if _, ok := guardExceptions[g.typ+"."+g.field+"@"+fname]; ok {
				continue
			}
			if prePublication(p, acc.Fn, p.Named(g.pkg, g.typ)) {
				continue
			}
			if _, ok := guardExceptions[g.typ+"."+g.field+"@"+fname+":read"]; ok && !acc.Write {
				continue
			}
			held := la.mustAt[acc.Instr][lock]
			switch {
			case strings.HasPrefix(acc.Kind, "addr-"):
				a.bad = append(a.bad, fmt.Sprintf("%s: address of the field escapes (%s)", p.Pos(acc.Instr.Pos()), acc.Kind))
			case held == "":
				a.bad = append(a.bad, fmt.Sprintf("%s: %s without holding %s", p.Pos(acc.Instr.Pos()), acc.Kind, g.lock))
			case acc.Write && held != "W":
				a.bad = append(a.bad, fmt.Sprintf("%s: %s while holding %s only in read mode", p.Pos(acc.Instr.Pos()), acc.Kind, g.lock))
			}
		}
		var keys []string
		for k := range per {
			keys = append(keys, k)
		}
		sort.Strings(keys)
		for _, k := range keys {
			a := per[k]
			detail := fmt.Sprintf("%d accesses", a.n)
			if reason, ok := guardExceptions[strings.SplitN(k, "@", 2)[0]+"@"+strings.SplitN(k, "@", 2)[1]]; ok {
				detail += " (exception: " + reason + ")"
			}
			r.check(len(a.bad) == 0, rule, k, a.pos, detail, strings.Join(dedupe(a.bad), " || "))
		}
		if len(per) == 0 {
			fatalf("rule %s: no access to %s.%s found", rule, g.typ, g.field)
		}
	}
	r.count("guarded_accesses", total)
}

func checkC18(p *Prog, r *Report) {
	r.NotCov = append(r.NotCov,
		"unlocked state of objects other than the client connection object and the cluster object (for those two C18.confined decides confinement to the serving goroutine over the call graph: context-insensitive, closures handed to library functions are attributed to the function that contains them); anything only an execution shows (the dynamic race detector is the tool)",
		"happens-before through channels, WaitGroups and goroutine start beyond the frozen exceptions")
	guardedBy1(p, r, "C18.guarded-by", guardTable)
	r.Floor("C18.guarded-by", 25, "(field, function) access groups")
	c18Types(p, r)
	c18Immutable(p, r)
	c18Codec(p, r)
	c15Cow(p, r, "C18")
	c18Belief(p, r)
	c18Publication(p, r)
	c18SharedMaps(p, r)
	c18WriteModes(p, r)
	c18Confined(p, r)
}

func c18Types(p *Prog, r *Report) {
	const rule = "C18.type-discipline"
	r.Rule(rule, "registries shared between goroutines keep their concurrency-safe types (sync.Map, atomic.Value) and counters are only touched through sync/atomic")
	want := []struct{ pkg, typ, field, t string }{
		{"proxy", "Proxy", "eventClients", "sync.Map"},
		{"proxy", "Proxy", "preparedMetadata", "sync.Map"},
		{"proxycore", "Session", "pools", "sync.Map"},
		{"proxycore", "pendingRequests", "pending", "*sync.Map"},
		{"proxycore", "roundRobinLoadBalancer", "hosts", "sync/atomic.Value"},
		{"proxycore", "ClientConn", "codec", "sync/atomic.Value"},
	}
	for _, w := range want {
		f := p.FieldOpt(w.pkg, w.typ, w.field)
		if f == nil {
			// renamed: the registry is the field of that struct with the concurrency-safe type
			f = p.fieldByType(w.pkg, w.typ, func(t types.Type) bool { return types.TypeString(t, nil) == w.t })
		}
		if f == nil {
			fatalf("anchor: %s.%s has no field %s (nor a single field of type %s)", w.pkg, w.typ, w.field, w.t)
		}
		got := types.TypeString(f.Type(), nil)
		if strings.HasSuffix(w.t, "sync.Map") && p.syncMapWrapperField(f.Type()) != nil {
			// a typed wrapper whose only field is the sync.Map
			got = w.t
		}
		r.check(got == w.t, rule, w.typ+"."+w.field, p.Pos(f.Pos()), got, fmt.Sprintf("field has type %s, concurrent readers/writers rely on %s", got, w.t))
	}
	// the default prepared cache wraps a locked LRU
	dpc := p.Field("proxy", "defaultPreparedCache", "cache")
	r.check(strings.HasSuffix(types.TypeString(dpc.Type(), nil), "golang-lru.Cache"), rule, "defaultPreparedCache.cache", p.Pos(dpc.Pos()), "", "the shared prepared cache is no longer the internally locked lru.Cache")
	// atomics-only counters
	fns := p.ScopedFuncs("proxy", "proxycore")
	for _, c := range []struct{ pkg, typ, field string }{{"proxycore", "ClientConn", "inflight"}, {"proxycore", "roundRobinLoadBalancer", "index"}} {
		f := p.Field(c.pkg, c.typ, c.field)
		var bad []string
		n := 0
		for _, acc := range fieldAccesses(fns, f) {
			n++
			ok := false
			if acc.Kind == "addr-call" {
				if call, isCall := acc.Instr.(*ssa.Call); isCall {
					if fn := call.Call.StaticCallee(); fn != nil && fn.Pkg != nil && fn.Pkg.Pkg.Path() == "sync/atomic" {
						ok = true
					}
				}
			}
			if al, isAl := acc.Base.(*ssa.Alloc); isAl && al.Parent() == acc.Fn {
				ok = true
			}
			if !ok {
				bad = append(bad, fmt.Sprintf("%s: %s in %s bypasses sync/atomic", p.Pos(acc.Instr.Pos()), acc.Kind, acc.Fn.Name()))
			}
		}
		r.check(len(bad) == 0 && n > 0, rule, c.typ+"."+c.field, p.Pos(f.Pos()), fmt.Sprintf("%d atomic accesses", n), strings.Join(dedupe(bad), " || "))
	}
}

func c18Immutable(p *Prog, r *Report) {
	const rule = "C18.immutable"
	r.Rule(rule, "a field of a request that is read somewhere without the request mutex (by the connection's writer goroutine, a backend reader, a sender object) is written only while the request is being built")
	req := p.proxyRequestType()
	fns := p.ScopedFuncs("proxy")
	la := lockAnalyse(p)
	st, _ := req.Underlying().(*types.Struct)
	var mu *types.Var
	for i := 0; i < st.NumFields(); i++ {
		if isMutexType(st.Field(i).Type()) {
			mu = st.Field(i)
		}
	}
	if mu == nil {
		fatalf("anchor: the request type has no mutex")
	}
	nUnlocked := 0
	for i := 0; i < st.NumFields(); i++ {
		f := st.Field(i)
		if isMutexType(f.Type()) {
			continue
		}
		var unlockedReads, lateWrites, esc []string
		n := 0
		for _, acc := range fieldAccesses(fns, f) {
			n++
			if al, ok := acc.Base.(*ssa.Alloc); ok && al.Parent() == acc.Fn {
				continue // construction
			}
			if !acc.Write {
				if strings.HasPrefix(acc.Kind, "addr-") {
					esc = append(esc, fmt.Sprintf("%s: address escapes in %s", p.Pos(acc.Instr.Pos()), acc.Fn.Name()))
				}
				if la.mustAt[acc.Instr][mu] == "" {
					unlockedReads = append(unlockedReads, fmt.Sprintf("%s (%s)", p.Pos(acc.Instr.Pos()), acc.Fn.Name()))
				}
				continue
			}
			lateWrites = append(lateWrites, fmt.Sprintf("%s: written after construction in %s", p.Pos(acc.Instr.Pos()), acc.Fn.Name()))
		}
		if len(unlockedReads) == 0 {
			continue // only ever read under the mutex: the guarded-by rules speak for it
		}
		nUnlocked++
		var bad []string
		if len(lateWrites) > 0 {
			bad = append(bad, lateWrites...)
			bad = append(bad, "read without the mutex at "+unlockedReads[0])
		}
		bad = append(bad, esc...)
		r.check(len(bad) == 0, rule, req.Obj().Name()+"."+f.Name(), p.Pos(f.Pos()), fmt.Sprintf("%d accesses, %d without the mutex, no write after construction", n, len(unlockedReads)), strings.Join(dedupe(bad), " || "))
	}
	r.Floor(rule, 5, "request fields read without the mutex")
}

func c18Codec(p *Prog, r *Report) {
	const rule = "C18.codec-publication"
	r.Rule(rule, "the frame codec of a backend connection (replaced by Handshake) and of a client connection (replaced on STARTUP) is changed while other goroutines encode and decode with it: both are only loaded/stored through atomic.Value")
	f := p.Field("proxycore", "ClientConn", "codec")
	var bad []string
	n := 0
	for _, acc := range fieldAccesses(p.ScopedFuncs("proxycore"), f) {
		n++
		ok := false
		if acc.Kind == "addr-call" {
			if c, isCall := acc.Instr.(*ssa.Call); isCall && (callIsMethod(c, "sync/atomic", "Value", "Load") || callIsMethod(c, "sync/atomic", "Value", "Store")) {
				ok = true
			}
		}
		if !ok {
			bad = append(bad, fmt.Sprintf("%s: %s of ClientConn.codec in %s is not an atomic.Value operation", p.Pos(acc.Instr.Pos()), acc.Kind, acc.Fn.Name()))
		}
	}
	r.check(len(bad) == 0 && n >= 2, rule, "ClientConn.codec", p.Pos(f.Pos()), fmt.Sprintf("%d accesses", n), strings.Join(dedupe(bad), " || "))

	// the client-facing connection's codec: replaced by the reader goroutine on STARTUP while the
	// connection's writer goroutine and backend reader goroutines encode replies with it
	cf := clientCodecRoles(p).field
	var cbad []string
	cn := 0
	for _, acc := range fieldAccesses(p.ScopedFuncs("proxy"), cf) {
		cn++
		ok := false
		if acc.Kind == "addr-call" {
			if c, isCall := acc.Instr.(*ssa.Call); isCall && (callIsMethod(c, "sync/atomic", "Value", "Load") || callIsMethod(c, "sync/atomic", "Value", "Store")) {
				ok = true
			}
		}
		if !ok {
			cbad = append(cbad, fmt.Sprintf("%s: %s of the client connection's codec in %s is not an atomic.Value operation: the field is replaced on STARTUP by the connection's reader while its writer goroutine and backend readers encode with it", p.Pos(acc.Instr.Pos()), acc.Kind, acc.Fn.Name()))
		}
	}
	r.check(len(cbad) == 0 && cn >= 2, rule, "client.codec", p.Pos(cf.Pos()), fmt.Sprintf("%d accesses", cn), strings.Join(dedupe(cbad), " || "))
}

// c18Belief: the discipline the code itself believes in, for fields not listed in
// the frozen table: if a field of a struct that owns a mutex is written (after
// construction) with that mutex held somewhere, then every other access after
// construction holds it too (writes exclusively).  Narrowing a critical section,
// or adding an unlocked reader of a locked field, is caught for new fields as well.
var beliefExceptions = map[string]string{}

func isMutexType(t types.Type) bool {
	if pt, ok := t.(*types.Pointer); ok {
		t = pt.Elem()
	}
	s := types.TypeString(t, nil)
	return s == "sync.Mutex" || s == "sync.RWMutex"
}

func isConcurrencySafeType(t types.Type) bool {
	if pt, ok := t.(*types.Pointer); ok {
		t = pt.Elem()
	}
	if _, ok := t.Underlying().(*types.Chan); ok {
		return true
	}
	s := types.TypeString(t, nil)
	return strings.HasPrefix(s, "sync.") || strings.HasPrefix(s, "sync/atomic.") || s == "context.Context" || s == "context.CancelFunc"
}

func c18Belief(p *Prog, r *Report) {
	const rule = "C18.lock-consistency"
	r.Rule(rule, "a field that is accessed under a mutex of its own struct in at least two functions after construction, one of them writing it, is accessed under that mutex everywhere after construction (writes exclusively): the locking the code declares for a field is applied at every access, for fields outside the frozen table too")
	la := lockAnalyse(p)
	fns := p.ScopedFuncs("proxy", "proxycore", "astra")
	inTable := map[string]bool{}
	for _, g := range guardTable {
		inTable[g.typ+"."+g.field] = true
	}
	nfields, nguarded := 0, 0
	for _, pkgName := range []string{"proxy", "proxycore", "astra"} {
		pkg := p.Pkg(pkgName)
		scope := pkg.Pkg.Scope()
		names := scope.Names()
		sort.Strings(names)
		for _, tn := range names {
			obj, ok := scope.Lookup(tn).(*types.TypeName)
			if !ok {
				continue
			}
			st, ok := obj.Type().Underlying().(*types.Struct)
			if !ok {
				continue
			}
			// (reviewed tables are keyed by recorded names: a renamed anchor type and its renamed
			// fields are known by the names they had)
			if nt, isNamed := obj.Type().(*types.Named); isNamed {
				tn = canonTypeName(nt)
			}
			if _, ex := excludedFiles[filepath.Base(p.Fset.Position(obj.Pos()).Filename)]; ex {
				continue
			}
			var locks []*types.Var
			for i := 0; i < st.NumFields(); i++ {
				if isMutexType(st.Field(i).Type()) {
					locks = append(locks, st.Field(i))
				}
			}
			if len(locks) == 0 {
				continue
			}
			for i := 0; i < st.NumFields(); i++ {
				f := st.Field(i)
				if isMutexType(f.Type()) || isConcurrencySafeType(f.Type()) {
					continue
				}
				nfields++
				var accs []fieldAccess
				for _, acc := range fieldAccesses(fns, f) {
					if al, ok := acc.Base.(*ssa.Alloc); ok && al.Parent() == acc.Fn {
						continue // construction
					}
					accs = append(accs, acc)
				}
				for _, lock := range locks {
					var witness string
					lockedIn := map[*ssa.Function]bool{}
					for _, acc := range accs {
						held := la.mustAt[acc.Instr][lock]
						if held != "" {
							for _, a := range lockAcquirers(p, la, acc.Instr, lock, 4) {
								lockedIn[a] = true
							}
						}
						if acc.Write && held == "W" && witness == "" {
							witness = fmt.Sprintf("%s (%s in %s)", p.Pos(acc.Instr.Pos()), acc.Kind, acc.Fn.Name())
						}
					}
					// a field locked in a single function is a set-once initialisation
					// (published before its readers exist): ordering this rule cannot judge
					if witness == "" || len(lockedIn) < 2 {
						continue
					}
					nguarded++
					key := tn + "." + f.Name() + "~" + lock.Name()
					var bad []string
					for _, acc := range accs {
						exk := fmt.Sprintf("%s.%s@%s", tn, canonFieldName(f), canonicalName(p, acc.Fn))
						if _, ok := beliefExceptions[exk]; ok {
							continue
						}
						if _, ok := guardExceptions[exk]; ok {
							continue
						}
						if prePublication(p, acc.Fn, obj.Type().(*types.Named)) {
							continue
						}
						if _, ok := guardExceptions[exk+":read"]; ok && !acc.Write {
							continue
						}
						held := la.mustAt[acc.Instr][lock]
						switch {
						case strings.HasPrefix(acc.Kind, "addr-"):
							bad = append(bad, fmt.Sprintf("%s: address of the field escapes in %s (%s)", p.Pos(acc.Instr.Pos()), acc.Fn.Name(), acc.Kind))
						case held == "":
							bad = append(bad, fmt.Sprintf("%s: %s in %s without holding %s", p.Pos(acc.Instr.Pos()), acc.Kind, acc.Fn.Name(), lock.Name()))
						case acc.Write && held != "W":
							bad = append(bad, fmt.Sprintf("%s: %s in %s while holding %s only in read mode", p.Pos(acc.Instr.Pos()), acc.Kind, acc.Fn.Name(), lock.Name()))
						}
					}
					r.check(len(bad) == 0, rule, key, p.Pos(f.Pos()), fmt.Sprintf("%d accesses after construction; written under %s at %s", len(accs), lock.Name(), witness), strings.Join(dedupe(bad), " || "))
				}
			}
		}
	}
	r.count("belief_fields_examined", nfields)
	r.count("belief_fields_guarded", nguarded)
}

// lockAcquirers returns the functions whose own critical section of lock covers the
// instruction: the enclosing function when it acquires the lock itself, otherwise the
// callers that enter it with the lock held (followed through static call sites).
func lockAcquirers(p *Prog, la *lockAnalysis, in ssa.Instruction, lock *types.Var, depth int) []*ssa.Function {
	fn := in.Parent()
	if la.mustEntry[fn][lock] == "" || depth == 0 {
		return []*ssa.Function{rootFn(fn)}
	}
	var out []*ssa.Function
	sites, _ := p.staticCallSites(fn)
	for _, cs := range sites {
		out = append(out, lockAcquirers(p, la, cs, lock, depth-1)...)
	}
	if len(out) == 0 {
		out = append(out, rootFn(fn))
	}
	return out
}

// c18Publication: an object is handed to a shared registry (a map field, a sync.Map, a channel)
// only when it is complete: the constructing function writes none of its fields after the
// call that publishes it.  Another goroutine that finds the object in the registry would read
// the field while it is being written (or before: a nil field).
// c18SharedMaps: plain Go maps held in fields of the long-lived shared objects.
func c18SharedMaps(p *Prog, r *Report) {
	const rule = "C18.shared-maps"
	r.Rule(rule, "an entry of a plain map kept in a field of a shared object is written (or deleted) only while a mutex of that object is held exclusively, or while the object is being built; a map that other goroutines read without a lock is never written after start-up")
	la := lockAnalyse(p)
	var bad []string
	n := 0
	for _, fn := range p.ScopedFuncs("proxy", "proxycore", "astra") {
		eachInstr(fn, func(in ssa.Instruction) {
			var m ssa.Value
			switch x := in.(type) {
			case *ssa.MapUpdate:
				m = x.Map
			case *ssa.Call:
				if b, ok := x.Call.Value.(*ssa.Builtin); ok && b.Name() == "delete" {
					m = x.Call.Args[0]
				}
			}
			if m == nil {
				return
			}
			for _, o := range origins(m) {
				f, base := loadedField(o)
				if f == nil || base == nil {
					continue
				}
				owner := namedOf(base.Type())
				if owner == nil || owner.Obj().Pkg() == nil || !strings.HasPrefix(owner.Obj().Pkg().Path(), modPath) {
					continue
				}
				n++
				held := false
				for lk, mode := range la.mustAt[in] {
					if mode == "W" && fieldOwnedBy(lk, owner) {
						held = true
					}
				}
				if held || prePublication(p, fn, owner) {
					continue
				}
				// an object of a type that is never shared between goroutines (a parser, a local helper)
				if !sharedOwner(p, owner) {
					continue
				}
				// a field confined to the one goroutine that serves its own object: every access (outside
				// construction) is reachable only from goroutine entry points that are methods of the
				// owner itself (client.Receive for the fields of that client)
				if confinedToOwnGoroutine(p, f, owner) {
					continue
				}
				bad = append(bad, fmt.Sprintf("%s: %s writes the map %s.%s without holding a mutex of %s, after the object is in use: goroutines that read the map race with this write (and the runtime aborts on a concurrent map read and write)", p.Pos(in.Pos()), fn.Name(), owner.Obj().Name(), f.Name(), owner.Obj().Name()))
			}
		})
	}
	r.count("map_field_writes", n)
	r.check(len(bad) == 0, rule, "map fields of shared objects", "", fmt.Sprintf("%d map writes through fields inspected", n), strings.Join(dedupe(bad), " || "))
}

// confinedToOwnGoroutine: all accesses to owner.f after construction are reachable only through
// goroutine entry points whose receiver is the owner type (one goroutine per object: client.Receive
// for the fields of that client); the generic reader/writer loops of a connection reach them only
// through such an entry point.
func confinedToOwnGoroutine(p *Prog, f *types.Var, owner *types.Named) bool {
	var own, other []*ssa.Function
	for _, root := range c17Roots(p) {
		if recvNamed(root) == owner {
			own = append(own, root)
		} else {
			other = append(other, root)
		}
	}
	if len(own) == 0 {
		return false
	}
	isOwn := map[*ssa.Function]bool{}
	for _, o := range own {
		isOwn[o] = true
	}
	reach := func(roots []*ssa.Function, cut map[*ssa.Function]bool) map[*ssa.Function]bool {
		seen := map[*ssa.Function]bool{}
		work := append([]*ssa.Function(nil), roots...)
		for len(work) > 0 {
			fn := work[len(work)-1]
			work = work[:len(work)-1]
			if fn == nil || seen[fn] || cut[fn] {
				continue
			}
			seen[fn] = true
			if n := p.CG.Nodes[fn]; n != nil {
				for _, e := range n.Out {
					work = append(work, e.Callee.Func)
				}
			}
			work = append(work, fn.AnonFuncs...)
		}
		return seen
	}
	viaOwn := reach(own, nil)
	viaOther := reach(other, isOwn)
	n := 0
	for _, acc := range fieldAccesses(p.ScopedFuncs("proxy", "proxycore", "astra"), f) {
		if a, ok := acc.Base.(*ssa.Alloc); ok && a.Parent() == acc.Fn {
			continue // the object is being built
		}
		n++
		if !viaOwn[acc.Fn] || viaOther[acc.Fn] {
			return false
		}
	}
	return n > 0
}

// fieldOwnedBy: lk is a field of the struct type owner.
func fieldOwnedBy(lk *types.Var, owner *types.Named) bool {
	st, ok := owner.Underlying().(*types.Struct)
	if !ok {
		return false
	}
	for i := 0; i < st.NumFields(); i++ {
		if st.Field(i) == lk {
			return true
		}
	}
	return false
}

// sharedOwner: objects of this type are reachable from several goroutines: the type has a mutex,
// a sync.Map or an atomic field of its own (it declares itself shared), or goroutines are started
// on its methods.
func sharedOwner(p *Prog, owner *types.Named) bool {
	st, ok := owner.Underlying().(*types.Struct)
	if !ok {
		return false
	}
	for i := 0; i < st.NumFields(); i++ {
		t := st.Field(i).Type()
		if pt, ok := t.(*types.Pointer); ok {
			t = pt.Elem()
		}
		if isMutexType(t) || isConcurrencySafeType(t) {
			return true
		}
	}
	return false
}

func c18Publication(p *Prog, r *Report) {
	const rule = "C18.publication"
	r.Rule(rule, "a freshly built object is stored into a shared registry (map field, sync.Map, channel) only after its last field was written by the function that builds it: no field store follows the publishing call")
	var publishes func(fn *ssa.Function, idx int, depth int) bool
	publishes = func(fn *ssa.Function, idx int, depth int) bool {
		if fn == nil || fn.Blocks == nil || !p.InRepo(fn) || idx >= len(fn.Params) {
			return false
		}
		par := ssa.Value(fn.Params[idx])
		from := func(v ssa.Value) bool {
			for _, o := range origins(v) {
				if o == par {
					return true
				}
				if mi, ok := o.(*ssa.MakeInterface); ok && mi.X == par {
					return true
				}
			}
			return false
		}
		found := false
		eachInstr(fn, func(in ssa.Instruction) {
			switch x := in.(type) {
			case *ssa.MapUpdate:
				if f, _ := loadedField(x.Map); f != nil && (from(x.Key) || from(x.Value)) {
					found = true
				}
			case *ssa.Send:
				if from(x.X) {
					found = true
				}
			case *ssa.Call:
				if callIsMethod(x, "sync", "Map", "Store") || callIsMethod(x, "sync", "Map", "LoadOrStore") {
					for _, a := range x.Call.Args[1:] {
						if from(a) {
							found = true
						}
					}
				} else if depth > 0 {
					if callee := x.Call.StaticCallee(); callee != nil {
						for i, a := range x.Call.Args {
							if from(a) && publishes(callee, i, depth-1) {
								found = true
							}
						}
					}
				}
			}
		})
		return found
	}
	before := func(a, b ssa.Instruction) bool {
		if a.Block() == b.Block() {
			for _, in := range a.Block().Instrs {
				if in == a {
					return true
				}
				if in == b {
					return false
				}
			}
		}
		return a.Block().Dominates(b.Block())
	}
	n := 0
	for _, fn := range p.ScopedFuncs("proxy", "proxycore", "astra") {
		eachInstr(fn, func(in ssa.Instruction) {
			al, ok := in.(*ssa.Alloc)
			if !ok || !al.Heap {
				return
			}
			if _, isStruct := al.Type().(*types.Pointer).Elem().Underlying().(*types.Struct); !isStruct || namedOf(al.Type()) == nil {
				return
			}
			var pubs []ssa.Instruction
			var stores []*ssa.Store
			for _, ref := range *al.Referrers() {
				switch x := ref.(type) {
				case *ssa.Call:
					if callee := x.Call.StaticCallee(); callee != nil {
						for i, a := range x.Call.Args {
							if a == ssa.Value(al) && publishes(callee, i, 2) {
								pubs = append(pubs, x)
							}
						}
					}
				case *ssa.FieldAddr:
					for _, rr := range *x.Referrers() {
						if st, ok := rr.(*ssa.Store); ok && st.Addr == ssa.Value(x) {
							stores = append(stores, st)
						}
					}
				}
			}
			if len(pubs) == 0 {
				return
			}
			n++
			var bad []string
			for _, pc := range pubs {
				for _, st := range stores {
					if before(pc, st) {
						fa := st.Addr.(*ssa.FieldAddr)
						bad = append(bad, fmt.Sprintf("%s: field %s of the new %s is written after the object was published by the call at %s: a goroutine that finds it in the registry reads the field concurrently (or still unset)", p.Pos(st.Pos()), fieldOfAddr(fa).Name(), namedOf(al.Type()).Obj().Name(), p.Pos(pc.Pos())))
					}
				}
			}
			key := fmt.Sprintf("new %s in %s", namedOf(al.Type()).Obj().Name(), strings.TrimPrefix(fn.String(), modPath+"/"))
			r.check(len(bad) == 0, rule, key, p.Pos(al.Pos()), "no field store after publication", strings.Join(dedupe(bad), " || "))
		})
	}
	r.count("published_objects", n)
}

// prePublication: the access happens while the object is being built and is not yet visible to
// other goroutines: in a function that allocates the owner type (or receives it fresh from such
// a constructor), or in a start-up goroutine/helper that such a function starts and joins
// (sync.WaitGroup.Wait) before it returns the object.
func prePublication(p *Prog, fn *ssa.Function, owner *types.Named) bool {
	allocs := func(f *ssa.Function) bool {
		found := false
		eachInstr(f, func(in ssa.Instruction) {
			if a, ok := in.(*ssa.Alloc); ok && a.Heap && namedOf(a.Type()) == owner {
				found = true
			}
		})
		return found
	}
	constructor := func(f *ssa.Function) bool {
		if allocs(f) {
			return true
		}
		ok := false
		eachCall(f, func(c ssa.CallInstruction) {
			if callee := c.Common().StaticCallee(); callee != nil && p.InRepo(callee) && allocs(callee) {
				res := callee.Signature.Results()
				if res.Len() > 0 && namedOf(res.At(0).Type()) == owner {
					ok = true
				}
			}
		})
		return ok
	}
	root := rootFn(fn)
	if constructor(root) {
		return true
	}
	// started (go) or called only from constructors that wait for it
	starters := 0
	okAll := true
	for f := range p.Funcs {
		if !p.InRepo(f) || f.Blocks == nil {
			continue
		}
		eachInstr(f, func(in ssa.Instruction) {
			var cm *ssa.CallCommon
			isGo := false
			switch x := in.(type) {
			case *ssa.Go:
				cm = &x.Call
				isGo = true
			case *ssa.Call:
				cm = &x.Call
			default:
				return
			}
			target := cm.StaticCallee()
			if mc, ok := cm.Value.(*ssa.MakeClosure); ok {
				target, _ = mc.Fn.(*ssa.Function)
			}
			if target == nil || rootFn(target) != root && target != fn {
				return
			}
			starters++
			host := rootFn(f)
			waits := false
			for _, g := range withClosures(host) {
				eachCall(g, func(c ssa.CallInstruction) {
					if callIsMethod(c, "sync", "WaitGroup", "Wait") {
						waits = true
					}
				})
			}
			// a goroutine must be joined before the constructor returns; a plain call runs inside it
			// (a call from a closure defined in the constructor - a handler registered there - runs later)
			if !constructor(host) || (isGo && !waits) || (!isGo && f != host) {
				okAll = false
			}
		})
	}
	return starters > 0 && okAll
}

// c18WriteModes: two rules on field writes that need no table.
//
//	(1) a field of a struct is written while the goroutine holds only the READ side of an RWMutex
//	    of that struct (and no exclusive lock of it): readers share the lock, so two of them race
//	    on the write.  Wrong for every field, listed or not.
//	(2) a field of a shared object is written, without any lock of the object and after the object
//	    was published, by one goroutine while functions running under another goroutine entry point
//	    read it without a lock.
func c18WriteModes(p *Prog, r *Report) {
	const rule = "C18.write-modes"
	r.Rule(rule, "no field is written while only the read side of an RWMutex of its struct is held; a field that goroutines of another entry point read without a lock is not written after the object went into use (outside construction, without a lock of the object)")
	la := lockAnalyse(p)
	fns := p.ScopedFuncs("proxy", "proxycore", "astra")
	var bad []string
	nw := 0
	type wsite struct {
		f          *types.Var
		owner      *types.Named
		in         ssa.Instruction
		fn         *ssa.Function
		guardParam *ssa.Parameter // the write is under `if <bool parameter>` (or `if <struct parameter>.<bool field>`)
		guardField *types.Var     // the bool field of the struct parameter, nil for a plain bool parameter
	}
	var unlocked []wsite
	for _, fn := range fns {
		eachInstr(fn, func(in ssa.Instruction) {
			st, ok := in.(*ssa.Store)
			if !ok {
				return
			}
			fa, ok := st.Addr.(*ssa.FieldAddr)
			if !ok {
				return
			}
			owner := namedOf(fa.X.Type())
			if owner == nil || owner.Obj().Pkg() == nil || !strings.HasPrefix(owner.Obj().Pkg().Path(), modPath) {
				return
			}
			if a, isAlloc := fa.X.(*ssa.Alloc); isAlloc && a.Parent() == fn {
				return // under construction
			}
			f := fieldOfAddr(fa)
			if isMutexType(f.Type()) {
				return
			}
			nw++
			readOnly, excl := false, false
			for lk, mode := range la.mustAt[in] {
				if !fieldOwnedBy(lk, owner) {
					continue
				}
				if mode == "W" {
					excl = true
				} else {
					readOnly = true
				}
			}
			if readOnly && !excl {
				bad = append(bad, fmt.Sprintf("%s: %s writes %s.%s while holding only the read side of the object's RWMutex: other readers hold the same lock, so the writes race with each other and with the reads", p.Pos(in.Pos()), fn.Name(), owner.Obj().Name(), f.Name()))
				return
			}
			if excl || readOnly {
				return
			}
			if !sharedOwner(p, owner) || prePublication(p, fn, owner) || isConcurrencySafeType(f.Type()) {
				return
			}
			ws := wsite{f: f, owner: owner, in: in, fn: fn}
			for _, ct := range dominatingConds(in.Block()) {
				if !ct.Truth {
					continue
				}
				if par, ok := ct.Cond.(*ssa.Parameter); ok {
					ws.guardParam = par
				}
				// opts.initial: a bool field of a struct passed by value (spilled to a local)
				if f, base := loadedField(ct.Cond); f != nil && base != nil {
					for _, o := range origins(base) {
						if par, ok := o.(*ssa.Parameter); ok {
							ws.guardParam, ws.guardField = par, f
						}
					}
					if al, ok := base.(*ssa.Alloc); ok {
						for _, ref := range *al.Referrers() {
							if st, ok := ref.(*ssa.Store); ok && st.Addr == ssa.Value(al) {
								if par, ok := st.Val.(*ssa.Parameter); ok {
									ws.guardParam, ws.guardField = par, f
								}
							}
						}
					}
				}
				if fv, ok := ct.Cond.(*ssa.Field); ok {
					if par, ok := fv.X.(*ssa.Parameter); ok {
						ws.guardParam, ws.guardField = par, fieldOfVal(fv)
					}
				}
			}
			unlocked = append(unlocked, ws)
		})
	}
	// (2) for the unlocked post-publication writes: is the field read, without a lock of the owner,
	// under another goroutine entry point?
	roots := c17Roots(p)
	rootsOf := map[*ssa.Function]map[*ssa.Function]bool{}
	{
		scope := c17Scope(p)
		for _, root := range roots {
			for fn := range reachableFrom(p, []*ssa.Function{root}, scope) {
				if rootsOf[fn] == nil {
					rootsOf[fn] = map[*ssa.Function]bool{}
				}
				rootsOf[fn][root] = true
			}
		}
	}
	// the generic connection loops reach the per-connection handlers: the handler's own entry point is the identity
	generic := func(root *ssa.Function) bool {
		rn := recvNamed(root)
		return rn != nil && rn.Obj().Name() == "Conn"
	}
	rootSet := func(fn *ssa.Function) map[*ssa.Function]bool {
		out := map[*ssa.Function]bool{}
		for rt := range rootsOf[rootFn(fn)] {
			if !generic(rt) {
				out[rt] = true
			}
		}
		for rt := range rootsOf[fn] {
			if !generic(rt) {
				out[rt] = true
			}
		}
		return out
	}
	for _, ws := range unlocked {
		// a write under `if initial` whose true-callers are all constructors happens before publication
		if ws.guardParam != nil {
			idx := -1
			for i, q := range ws.fn.Params {
				if q == ws.guardParam {
					idx = i
				}
			}
			sites, only := p.staticCallSites(ws.fn)
			if idx >= 0 && only && len(sites) > 0 {
				allPre := true
				for _, cs := range sites {
					a := cs.Common().Args[idx]
					c, isC := a.(*ssa.Const)
					if isC && c.Value != nil && c.Value.Kind() == constant.Bool && !constant.BoolVal(c.Value) {
						continue // this caller never takes the branch
					}
					if ws.guardField != nil {
						if v, known := boolFieldOfArg(a, ws.guardField); known && !v {
							continue // the options literal of this caller leaves the flag false
						}
					}
					if !prePublication(p, cs.Parent(), ws.owner) && len(rootSet(cs.Parent())) > 0 {
						// (a caller no goroutine entry point reaches is start-up code, as for the writes below)
						allPre = false
					}
				}
				if allPre {
					continue
				}
			}
		}
		wroots := rootSet(ws.fn)
		if len(wroots) == 0 {
			continue // not reachable from a known goroutine entry point: start-up or shutdown code
		}
		for _, acc := range fieldAccesses(fns, ws.f) {
			if acc.Write || acc.Fn == ws.fn {
				continue
			}
			if a, ok := acc.Base.(*ssa.Alloc); ok && a.Parent() == acc.Fn {
				continue
			}
			locked := false
			for lk := range la.mustAt[acc.Instr] {
				if fieldOwnedBy(lk, ws.owner) {
					locked = true
				}
			}
			if locked {
				continue
			}
			rroots := rootSet(acc.Fn)
			other := ""
			for rt := range rroots {
				if !wroots[rt] {
					other = rt.String()
				}
			}
			if other == "" {
				continue
			}
			bad = append(bad, fmt.Sprintf("%s: %s writes %s.%s without a lock, after the object went into use; %s reads it without a lock under another goroutine entry point (%s)", p.Pos(ws.in.Pos()), ws.fn.Name(), ws.owner.Obj().Name(), ws.f.Name(), acc.Fn.Name(), strings.TrimPrefix(other, modPath+"/")))
			break
		}
	}
	r.count("field_writes_examined", nw)
	r.check(len(bad) == 0 && nw > 25, rule, "field writes", "", fmt.Sprintf("%d field writes examined", nw), strings.Join(dedupe(bad), " || "))
}

// boolFieldOfArg: the argument is a struct literal built at the call site; the value its bool
// field f is given there (false when the literal does not mention it).
func boolFieldOfArg(a ssa.Value, f *types.Var) (bool, bool) {
	for _, o := range origins(a) {
		var al *ssa.Alloc
		switch x := o.(type) {
		case *ssa.UnOp:
			al, _ = x.X.(*ssa.Alloc)
		case *ssa.Alloc:
			al = x
		}
		if al == nil {
			return false, false
		}
		for _, ref := range *al.Referrers() {
			if st, ok := ref.(*ssa.Store); ok && st.Addr == ssa.Value(al) {
				return false, false // a copy of another value, not a literal
			}
		}
		val := false
		for _, ref := range *al.Referrers() {
			fa, ok := ref.(*ssa.FieldAddr)
			if !ok || fieldOfAddr(fa) != f {
				continue
			}
			for _, rr := range *fa.Referrers() {
				if st, ok := rr.(*ssa.Store); ok && st.Addr == ssa.Value(fa) {
					c, isC := st.Val.(*ssa.Const)
					if !isC || c.Value == nil || c.Value.Kind() != constant.Bool {
						return false, false
					}
					val = constant.BoolVal(c.Value)
				}
			}
		}
		return val, true
	}
	return false, false
}

// c18Confined: the per-connection object of a client (the proxy's implementation of
// proxycore.Receiver) keeps plain, unlocked state (current keyspace, negotiated compression,
// the tables of locally prepared system queries).  That is race-free only by confinement: the
// connection's reader loop is the single goroutine that calls the object's entry points, and
// nothing that other goroutines run (backend readers delivering results, the event fan-out,
// timers, goroutines started anywhere) touches those fields.  Decided: (1) the entry points are
// called from one goroutine entry only; (2) every field that is written after the object is
// built, and is not of a concurrency-safe type nor in the guarded-by table, is accessed only in
// functions that goroutine reaches through the entry points and that no other goroutine reaches.
func c18Confined(p *Prog, r *Report) {
	const rule = "C18.confined"
	r.Rule(rule, "a plain field of an object served by one goroutine (the per-client connection object served by the connection's reader; the cluster object served by its control loop) that is written after construction is accessed only by that goroutine: never from a backend reader, the event fan-out, a timer or a goroutine started elsewhere")
	owner := p.proxyClientType()
	var own []*ssa.Function
	for _, root := range c17Roots(p) {
		if recvNamed(root) == owner && root.Parent() == nil {
			own = append(own, root)
		}
	}
	c18ConfinedOwner(p, r, rule, owner, own, true)
	cl := p.NamedOpt("proxycore", "Cluster")
	loop := p.FuncOpt("proxycore", "(*Cluster).stayConnected")
	if cl == nil || loop == nil {
		fatalf("anchor: proxycore.Cluster / its control loop not found")
	}
	c18ConfinedOwner(p, r, rule, cl, []*ssa.Function{loop}, false)
}

// c18ConfinedOwner: own are the goroutine entry points serving objects of type owner.  With
// viaCallers the entry points are callbacks (they must all be called from one function that is
// itself started with `go`); otherwise they are started with `go` themselves.
func c18ConfinedOwner(p *Prog, r *Report, rule string, owner *types.Named, own []*ssa.Function, viaCallers bool) {
	st, ok := owner.Underlying().(*types.Struct)
	if !ok {
		fatalf("anchor: the type %s is not a struct", owner.Obj().Name())
	}
	scoped := p.ScopedFuncs("proxy", "proxycore", "astra")
	var other []*ssa.Function
	isOwnRoot := map[*ssa.Function]bool{}
	for _, o := range own {
		isOwnRoot[o] = true
	}
	for _, root := range c17Roots(p) {
		if !isOwnRoot[root] {
			other = append(other, root)
		}
	}
	if len(own) == 0 {
		fatalf("anchor: no goroutine entry point on the type %s", owner.Obj().Name())
	}
	isOwn := map[*ssa.Function]bool{}
	for _, o := range own {
		isOwn[o] = true
	}
	// (1) one goroutine: all callers of the entry points are one function, itself started by `go`
	goTargets := map[*ssa.Function]bool{}
	for _, fn := range scoped {
		eachInstr(fn, func(in ssa.Instruction) {
			g, ok := in.(*ssa.Go)
			if !ok {
				return
			}
			if n := p.CG.Nodes[fn]; n != nil {
				for _, e := range n.Out {
					if e.Site == ssa.CallInstruction(g) && e.Callee.Func != nil {
						goTargets[e.Callee.Func] = true
					}
				}
			}
			if c := g.Call.StaticCallee(); c != nil {
				goTargets[c] = true
			}
			// functions handed to a timer run on the timer's goroutine
		})
		eachInstr(fn, func(in ssa.Instruction) {
			c, ok := in.(*ssa.Call)
			if !ok {
				return
			}
			if sc := c.Call.StaticCallee(); sc != nil && sc.Pkg != nil && sc.Pkg.Pkg.Path() == "time" && sc.Name() == "AfterFunc" && len(c.Call.Args) == 2 {
				for _, o := range origins(c.Call.Args[1]) {
					switch f := o.(type) {
					case *ssa.MakeClosure:
						if cf, ok := f.Fn.(*ssa.Function); ok {
							goTargets[cf] = true
						}
					case *ssa.Function:
						goTargets[f] = true
					}
				}
			}
		})
	}
	var ctorGo map[*ssa.Function]*ssa.Go
	if viaCallers {
		callers := map[*ssa.Function]bool{}
		for _, o := range own {
			if n := p.CG.Nodes[o]; n != nil {
				for _, e := range n.In {
					if e.Caller.Func != nil && p.InRepo(e.Caller.Func) {
						callers[e.Caller.Func] = true
					}
				}
			}
		}
		var cl []string
		oneLoop := len(callers) == 1
		for c := range callers {
			cl = append(cl, c.String())
			if !goTargets[c] {
				oneLoop = false
			}
		}
		sort.Strings(cl)
		r.check(oneLoop, rule, "the entry points of "+owner.Obj().Name()+" run on one goroutine", "", fmt.Sprintf("%d entry points, called from %s", len(own), strings.Join(cl, ", ")), fmt.Sprintf("the entry points of %s are called from %s: they must all be called from the one reader loop of the connection, itself started with `go`, or the object's unlocked fields are shared between goroutines", owner.Obj().Name(), strings.Join(cl, ", ")))
	} else {
		// the loop is started exactly once per object: one `go` site, in the function that builds the object
		var sites []string
		nsites := 0
		inCtor := true
		ctorGo = map[*ssa.Function]*ssa.Go{}
		for _, o := range own {
			if n := p.CG.Nodes[o]; n != nil {
				for _, e := range n.In {
					if e.Caller.Func == nil || !p.InRepo(e.Caller.Func) {
						continue
					}
					nsites++
					sites = append(sites, e.Caller.Func.String())
					g, isGo := e.Site.(*ssa.Go)
					if !isGo {
						inCtor = false
						continue
					}
					built := false
					if len(g.Call.Args) > 0 {
						for _, o := range origins(g.Call.Args[0]) {
							if a, ok := o.(*ssa.Alloc); ok && a.Parent() == e.Caller.Func {
								built = true
							}
						}
					}
					if !built {
						inCtor = false
					} else {
						ctorGo[e.Caller.Func] = g
					}
				}
			}
		}
		sort.Strings(sites)
		r.check(nsites == 1 && inCtor, rule, "the control loop of "+owner.Obj().Name()+" is started once per object", "", "one `go` site, in "+strings.Join(sites, ", ")+", on the object built there", fmt.Sprintf("the control loop of %s is started from %s: it must be started with `go` exactly once, by the function that builds the object, or two loops share the object's unlocked fields", owner.Obj().Name(), strings.Join(sites, ", ")))
	}

	reach := func(roots []*ssa.Function, cut map[*ssa.Function]bool, followGo bool) map[*ssa.Function]bool {
		seen := map[*ssa.Function]bool{}
		work := append([]*ssa.Function(nil), roots...)
		var deferred []*ssa.Function
		for len(work) > 0 {
			fn := work[len(work)-1]
			work = work[:len(work)-1]
			if fn == nil || seen[fn] || cut[fn] {
				if len(work) == 0 {
					rest := deferred[:0]
					for _, cb := range deferred {
						if seen[cb.Parent()] && !seen[cb] {
							work = append(work, cb)
						} else if !seen[cb] {
							rest = append(rest, cb)
						}
					}
					deferred = rest
				}
				continue
			}
			seen[fn] = true
			if n := p.CG.Nodes[fn]; n != nil {
				for _, e := range n.Out {
					if _, isGo := e.Site.(*ssa.Go); isGo && !followGo {
						continue
					}
					// a library function calling back into the program (slices.IndexFunc, sort.Slice,
					// sync.Map.Range ...): the call graph merges the callbacks of all its callers; a
					// func literal is passed by the function that contains it, so it is reached this
					// way only once its enclosing function is (checked again until nothing changes)
					if cb := e.Callee.Func; cb != nil && cb.Parent() != nil && !p.InRepo(fn) && p.InRepo(cb) {
						deferred = append(deferred, cb)
						continue
					}
					work = append(work, e.Callee.Func)
				}
			}
			for _, a := range fn.AnonFuncs {
				if !followGo && goTargets[a] {
					continue
				}
				work = append(work, a)
			}
			if len(work) == 0 {
				rest := deferred[:0]
				for _, cb := range deferred {
					if seen[cb.Parent()] {
						work = append(work, cb)
					} else {
						rest = append(rest, cb)
					}
				}
				deferred = rest
			}
		}
		return seen
	}
	for g := range goTargets {
		if !isOwn[g] {
			other = append(other, g)
		}
	}
	viaOwn := reach(own, nil, false)
	viaOther := reach(other, isOwn, true)
	// a write that happens only while the object is being started: it is guarded by a boolean
	// parameter of its function, and every call from the serving goroutine passes `false`
	startupOnly := func(acc fieldAccess) bool {
		if !acc.Write {
			return false
		}
		for _, ct := range dominatingConds(acc.Instr.Block()) {
			if !ct.Truth {
				continue
			}
			// the flag: a boolean parameter, or a boolean field of a parameter of struct type
			var par *ssa.Parameter
			var flagF *types.Var
			switch c := deSpill(ct.Cond).(type) {
			case *ssa.Parameter:
				par = c
			case *ssa.Field:
				if q, ok := deSpill(c.X).(*ssa.Parameter); ok {
					par, flagF = q, fieldOfVal(c)
				}
			case *ssa.UnOp:
				if fa, ok := c.X.(*ssa.FieldAddr); ok && c.Op == token.MUL {
					switch b := fa.X.(type) {
					case *ssa.Parameter:
						par, flagF = b, fieldOfAddr(fa)
					case *ssa.Alloc: // a struct parameter spilled to a local
						var stored ssa.Value
						nst := 0
						for _, ref := range *b.Referrers() {
							if st, ok := ref.(*ssa.Store); ok && st.Addr == ssa.Value(b) {
								stored = st.Val
								nst++
							}
						}
						if q, ok := stored.(*ssa.Parameter); ok && nst == 1 {
							par, flagF = q, fieldOfAddr(fa)
						}
					}
				}
			}
			if par == nil || par.Parent() != acc.Fn {
				continue
			}
			idx := -1
			for i, q := range acc.Fn.Params {
				if q == par {
					idx = i
				}
			}
			n := p.CG.Nodes[acc.Fn]
			if idx < 0 || n == nil {
				continue
			}
			okAll, seen := true, 0
			for _, e := range n.In {
				if e.Caller.Func == nil || !(viaOwn[e.Caller.Func] || viaOther[e.Caller.Func]) {
					continue // a caller no goroutine entry reaches: the start-up path
				}
				seen++
				args := e.Site.Common().Args
				if e.Site.Common().IsInvoke() || idx >= len(args) {
					okAll = false
					continue
				}
				if flagF == nil {
					c, isConst := args[idx].(*ssa.Const)
					if !isConst || c.Value == nil || c.Value.String() != "false" {
						okAll = false
					}
					continue
				}
				// every literal of the parameter's struct type built by that caller leaves the flag false
				want := namedOf(par.Type())
				lits := structLits(e.Caller.Func, func(t types.Type) bool { return want != nil && namedOf(t) == want })
				if len(lits) == 0 {
					okAll = false
				}
				for _, lit := range lits {
					if v, set := lit[flagF.Name()]; set {
						if c, isConst := v.(*ssa.Const); !isConst || c.Value == nil || c.Value.String() != "false" {
							okAll = false
						}
					}
				}
			}
			if okAll && seen > 0 {
				return true
			}
		}
		return false
	}
	guarded := map[*types.Var]bool{}
	for _, g := range guardTable {
		if f := p.FieldOpt(g.pkg, g.typ, g.field); f != nil {
			guarded[f] = true // decided by C18.guarded-by
		}
	}
	// startupPath: fn is reached by no goroutine entry at all and every chain of callers ends in the
	// function that builds the object, at a call that comes before the `go` starting the loop
	startupPath := func(fn *ssa.Function) bool {
		if len(ctorGo) == 0 || viaOwn[fn] || viaOther[fn] {
			return false
		}
		seen := map[*ssa.Function]bool{}
		var up func(f *ssa.Function) bool
		up = func(f *ssa.Function) bool {
			if seen[f] {
				return true
			}
			seen[f] = true
			n := p.CG.Nodes[f]
			if n == nil {
				return false
			}
			ncallers := 0
			for _, e := range n.In {
				caller := e.Caller.Func
				if caller == nil || !p.InRepo(caller) {
					continue
				}
				ncallers++
				if g, isCtor := ctorGo[caller]; isCtor {
					sb, gb := e.Site.Block(), g.Block()
					before := sb != gb && sb.Dominates(gb)
					if sb == gb {
						for _, in := range sb.Instrs {
							if in == ssa.Instruction(e.Site) {
								before = true
								break
							}
							if in == ssa.Instruction(g) {
								break
							}
						}
					}
					if !before {
						return false
					}
					continue
				}
				if viaOwn[caller] || viaOther[caller] || !up(caller) {
					return false
				}
			}
			return ncallers > 0
		}
		return up(fn)
	}
	nf, na := 0, 0
	for i := 0; i < st.NumFields(); i++ {
		f := st.Field(i)
		t := f.Type()
		if pt, ok := t.(*types.Pointer); ok {
			t = pt.Elem()
		}
		if isMutexType(t) || isConcurrencySafeType(t) || guarded[f] {
			continue
		}
		accs := fieldAccesses(scoped, f)
		var post []fieldAccess
		written := false
		for _, acc := range accs {
			if a, ok := acc.Base.(*ssa.Alloc); ok && a.Parent() == acc.Fn {
				continue // the object is being built
			}
			if startupOnly(acc) {
				continue
			}
			post = append(post, acc)
			if acc.Write {
				written = true
			}
		}
		if !written {
			continue // never changes once the connection is served: any goroutine may read it
		}
		nf++
		var bad []string
		for _, acc := range post {
			na++
			switch {
			case viaOther[acc.Fn]:
				bad = append(bad, fmt.Sprintf("%s: %s accesses %s.%s (%s) and runs on a goroutine other than the one serving the object (reachable from a backend reader, event, timer or `go` entry without passing through %s's own entry points), while the serving goroutine writes the field without a lock", p.Pos(acc.Instr.Pos()), acc.Fn.String(), owner.Obj().Name(), f.Name(), acc.Kind, owner.Obj().Name()))
			case !viaOwn[acc.Fn] && startupPath(acc.Fn):
				// runs before the serving goroutine exists
			case !viaOwn[acc.Fn]:
				bad = append(bad, fmt.Sprintf("%s: %s accesses %s.%s (%s) but is not reached from the object's own entry points: which goroutine runs it is unknown, and the field is written without a lock", p.Pos(acc.Instr.Pos()), acc.Fn.String(), owner.Obj().Name(), f.Name(), acc.Kind))
			}
		}
		r.check(len(bad) == 0, rule, owner.Obj().Name()+"."+f.Name(), "", fmt.Sprintf("%d accesses after construction, all confined to the serving goroutine", len(post)), strings.Join(dedupe(bad), " || "))
	}
	r.count("confined_fields", nf)
	r.count("confined_field_accesses", na)
}
