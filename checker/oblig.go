package main

import (
	"encoding/json"
	"fmt"
	"os"
	"path/filepath"
	"sort"
	"strings"
	"time"
)

// An Obligation is one decided instance of a rule.
type Obligation struct {
	Rule      string `json:"rule"`      // e.g. "C01.reply-once"
	Construct string `json:"construct"` // resolved symbol path, never a line number
	Status    string `json:"status"`    // discharged | violated
	Pos       string `json:"pos,omitempty"`
	Detail    string `json:"detail,omitempty"`
}

// Report collects what one property's rules analysed and decided.
type Report struct {
	Property  string
	prog      *Prog
	Obl       []Obligation
	Rules     map[string]string // rule id -> one-line statement of the rule
	ruleOrder []string
	Analysed  map[string]int // counters: functions, call sites, states ...
	Floors    []floor
	NotCov    []string
	Assume    []string
}

type floor struct {
	rule string
	min  int
	what string
}

func newReport(p *Prog, id string) *Report {
	return &Report{Property: id, prog: p, Rules: map[string]string{}, Analysed: map[string]int{}}
}

// Rule registers a rule and its statement.
func (r *Report) Rule(id, text string) {
	if _, ok := r.Rules[id]; !ok {
		r.ruleOrder = append(r.ruleOrder, id)
	}
	r.Rules[id] = text
}

// Floor demands that a rule decided at least min instances (non-vacuity).
func (r *Report) Floor(rule string, min int, what string) {
	r.Floors = append(r.Floors, floor{rule, min, what})
}

func (r *Report) ok(rule, construct, pos, detail string) {
	r.add(Obligation{Rule: rule, Construct: construct, Status: "discharged", Pos: pos, Detail: detail})
}

func (r *Report) bad(rule, construct, pos, detail string) {
	if len(detail) > 1500 {
		detail = detail[:1500] + " ... [truncated]"
	}
	r.add(Obligation{Rule: rule, Construct: construct, Status: "violated", Pos: pos, Detail: detail})
}

// check records discharged/violated depending on cond.
func (r *Report) check(cond bool, rule, construct, pos, okDetail, badDetail string) bool {
	if cond {
		r.ok(rule, construct, pos, okDetail)
	} else {
		r.bad(rule, construct, pos, badDetail)
	}
	return cond
}

func (r *Report) add(o Obligation) {
	if _, ok := r.Rules[o.Rule]; !ok {
		fatalf("internal: obligation for unregistered rule %s", o.Rule)
	}
	// one obligation per (rule, construct): a violation wins over a discharge
	for i := range r.Obl {
		if r.Obl[i].Rule == o.Rule && r.Obl[i].Construct == o.Construct {
			if r.Obl[i].Status == "discharged" && o.Status == "violated" {
				r.Obl[i] = o
			} else if r.Obl[i].Status == "violated" && o.Status == "violated" && !strings.Contains(r.Obl[i].Detail, o.Detail) {
				r.Obl[i].Detail += " | " + o.Detail
			}
			return
		}
	}
	r.Obl = append(r.Obl, o)
}

func (r *Report) count(key string, n int) { r.Analysed[key] += n }

func (r *Report) countRule(rule string) int {
	n := 0
	for _, o := range r.Obl {
		if o.Rule == rule {
			n++
		}
	}
	return n
}

// ---------------------------------------------------------------------------
// known findings

type KnownFinding struct {
	Property  string `json:"property"`
	Rule      string `json:"rule"`
	Construct string `json:"construct"`
	What      string `json:"what"`
}

type knownFile struct {
	Known []KnownFinding `json:"known_findings"`
	Fixed []string       `json:"fixed"`
}

func loadKnown(path string) knownFile {
	var k knownFile
	b, err := os.ReadFile(path)
	if err != nil {
		if os.IsNotExist(err) {
			return k
		}
		fatalf("known findings: %v", err)
	}
	if err := json.Unmarshal(b, &k); err != nil {
		fatalf("known findings: %v", err)
	}
	return k
}

// ---------------------------------------------------------------------------
// evidence + verdict

type evidence struct {
	PropertyID  string                 `json:"property_id"`
	Tier        string                 `json:"tier"`
	Seed        int                    `json:"seed"`
	Level       string                 `json:"level"`
	Coverage    map[string]interface{} `json:"coverage"`
	Assumptions []string               `json:"assumptions"`
	WallS       float64                `json:"wall_s"`
	Violations  int                    `json:"violations"`
}

// finish writes evidence and the violation report, prints the verdict lines and
// returns the process exit code.
func (r *Report) finish(verifDir, tier string, seed int, start time.Time, extra map[string]interface{}) int {
	// non-vacuity
	for _, f := range r.Floors {
		if n := r.countRule(f.rule); n < f.min {
			fatalf("rule %s is vacuous: %d instance(s) of %s decided, at least %d confirmed by hand on the pinned tree",
				f.rule, n, f.what, f.min)
		}
	}
	known := loadKnown(filepath.Join(verifDir, "known_findings.json"))
	sort.SliceStable(r.Obl, func(i, j int) bool {
		if r.Obl[i].Rule != r.Obl[j].Rule {
			return r.Obl[i].Rule < r.Obl[j].Rule
		}
		return r.Obl[i].Construct < r.Obl[j].Construct
	})
	var viol, knownHit []Obligation
	discharged := 0
	perRule := map[string][2]int{}
	for _, o := range r.Obl {
		c := perRule[o.Rule]
		if o.Status == "violated" {
			c[1]++
			isKnown := false
			for _, k := range known.Known {
				if k.Property == r.Property && k.Rule == o.Rule && k.Construct == o.Construct {
					isKnown = true
					fmt.Printf("KNOWN-FINDING: property=%s %s [%s %s]\n", r.Property, k.What, o.Rule, o.Construct)
				}
			}
			if isKnown {
				knownHit = append(knownHit, o)
			} else {
				viol = append(viol, o)
			}
		} else {
			c[0]++
			discharged++
		}
		perRule[o.Rule] = c
	}
	// evidence
	rules := []map[string]interface{}{}
	for _, id := range r.ruleOrder {
		c := perRule[id]
		rules = append(rules, map[string]interface{}{"rule": id, "statement": r.Rules[id], "discharged": c[0], "violated": c[1]})
	}
	samples := []interface{}{}
	seen := map[string]int{}
	for _, o := range r.Obl {
		if seen[o.Rule] < 4 || o.Status == "violated" {
			samples = append(samples, o)
			seen[o.Rule]++
		}
	}
	cov := map[string]interface{}{
		"explanation": fmt.Sprintf("Static analysis of the working tree at %s (go/packages type-checked syntax, go/ssa, VTA call graph; nothing executed). "+
			"%d obligations (rule instances over resolved constructs) decided by %d rules; each obligation is a structural necessary condition of %s, not the behaviour itself. "+
			"Not covered: %s", r.prog.Dir, len(r.Obl), len(r.Rules), r.Property, strings.Join(r.NotCov, "; ")),
		"obligations":    len(r.Obl),
		"discharged":     discharged,
		"known_findings": len(knownHit),
		"rules":          rules,
		"analysed":       r.Analysed,
		"samples":        samples,
		"exhaustive":     false,
		"checker_cmd":    strings.Join(os.Args, " "),
		"trusted_base":   []string{"go/types, go/ssa, callgraph/vta of golang.org/x/tools v0.29.0", "go-cassandra-native-protocol and the standard library (analysed as callees where needed, never reported on)"},
		"not_covered":    r.NotCov,
		"packages":       r.prog.NumRoot,
	}
	for k, v := range extra {
		cov[k] = v
	}
	ev := evidence{
		PropertyID: r.Property, Tier: tier, Seed: seed, Level: "other", Coverage: cov,
		Assumptions: append([]string{
			"the program analysed is the one the default build of the working tree compiles (GOOS/GOARCH of this host; thorough tier adds GOARCH=386 and test variants)",
			"VTA over-approximates dynamic dispatch; library code is trusted",
		}, r.Assume...),
		WallS: time.Since(start).Seconds(), Violations: len(viol),
	}
	if err := os.MkdirAll(filepath.Join(verifDir, "evidence"), 0o755); err != nil {
		fatalf("%v", err)
	}
	b, _ := json.MarshalIndent(ev, "", " ")
	if err := os.WriteFile(filepath.Join(verifDir, "evidence", r.Property+".json"), append(b, '\n'), 0o644); err != nil {
		fatalf("%v", err)
	}
	fmt.Printf("%s tier=%s: %d obligations, %d discharged, %d known finding(s), %d violation(s); analysed %v\n",
		r.Property, tier, len(r.Obl), discharged, len(knownHit), len(viol), r.Analysed)
	for _, id := range r.ruleOrder {
		c := perRule[id]
		fmt.Printf("  rule %-34s discharged=%-3d violated=%d\n", id, c[0], c[1])
	}
	if len(viol) == 0 {
		return 0
	}
	if err := os.MkdirAll(filepath.Join(verifDir, "reports"), 0o755); err != nil {
		fatalf("%v", err)
	}
	rp := filepath.Join(verifDir, "reports", r.Property+".txt")
	var sb strings.Builder
	fmt.Fprintf(&sb, "property %s: %d violated obligation(s) on %s\n", r.Property, len(viol), r.prog.Dir)
	for _, o := range viol {
		fmt.Fprintf(&sb, "\n%s\n  rule      %s: %s\n  construct %s\n  detail    %s\n", o.Pos, o.Rule, r.Rules[o.Rule], o.Construct, o.Detail)
	}
	if err := os.WriteFile(rp, []byte(sb.String()), 0o644); err != nil {
		fatalf("%v", err)
	}
	for _, o := range viol {
		fmt.Printf("  violated %s %s at %s: %s\n", o.Rule, o.Construct, o.Pos, o.Detail)
	}
	fmt.Printf("VIOLATION property=%s replay=%s\n", r.Property, rp)
	return 1
}

// borrow runs a rule set written for another property and files its obligations under
// this property's prefix (the clause is a necessary condition of both properties).
func (r *Report) borrow(from, to string, run func()) {
	saved := len(r.Obl)
	nfl := len(r.Floors)
	have := map[string]bool{}
	for _, id := range r.ruleOrder {
		have[id] = true
	}
	run()
	for i := saved; i < len(r.Obl); i++ {
		if strings.HasPrefix(r.Obl[i].Rule, from+".") {
			r.Obl[i].Rule = to + strings.TrimPrefix(r.Obl[i].Rule, from)
		}
	}
	for i, id := range r.ruleOrder {
		if !have[id] && strings.HasPrefix(id, from+".") {
			nid := to + strings.TrimPrefix(id, from)
			r.Rules[nid] = r.Rules[id]
			delete(r.Rules, id)
			r.ruleOrder[i] = nid
		}
	}
	for i := range r.Floors {
		if i >= nfl && strings.HasPrefix(r.Floors[i].rule, from+".") {
			r.Floors[i].rule = to + strings.TrimPrefix(r.Floors[i].rule, from)
		}
	}
}
