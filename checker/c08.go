package main

// C08 — prepared statements execute on every backend host without client involvement.
//
//  cache-wiring       every pooled backend connection is created with the shared
//                     prepared cache: all connPool literals take it from their config,
//                     connect() passes it on, both session configs of the proxy carry
//                     Proxy.preparedCache, and sessions hand their config to every pool
//  cache-before-deliver a successful PREPARE is cached before its reply is delivered
//                     (so an EXECUTE can never race ahead of the cache entry), on
//                     every RESULT path of a connection with a cache
//  key-agreement      cache store and load use the same key function of the id
//  reprepare          UNPREPARED for a cached id => the cached PREPARE is sent on this
//                     connection wrapping the original request (C01.handoff), and
//                     its outcome re-executes: error => next host, else same host
//  raw-body-opaque    bytes of a raw frame body are inspected directly only when
//                     the header says the body is not compressed/prefixed
//  private-frames     shared with C02

import (
	"fmt"
	"go/constant"
	"go/token"
	"go/types"
	"strings"

	"golang.org/x/tools/go/ssa"
)

func init() { register("C08", checkC08) }

func checkC08(p *Prog, r *Report) {
	r.NotCov = append(r.NotCov,
		"backend prepared-statement state and LRU eviction of the proxy's cache",
		"whether the backend assigns the same id to the re-prepared statement (keyspace-dependent ids): the proxy then moves on to the next host (C01.bounded-resend)")
	c08Wiring(p, r)
	c08CacheBeforeDeliver(p, r)
	c08Keys(p, r)
	c08Reprepare(p, r)
	c08RawBody(p, r)
	privateFrames(p, r, "C08.private-frames")
	c08ReplayEncoding(p, r)
	c08ReexecutePerHost(p, r)
	c08NoRelay(p, r)
	resultThreading(p, r, "C08.result-threading", "proxy", "proxycore")
}

func c08Wiring(p *Prog, r *Report) {
	const rule = "C08.cache-wiring"
	r.Rule(rule, "all connPool literals initialise preparedCache from their config; connect() passes the pool's cache to ConnectClient, which stores it in the connection; the proxy's session configs carry Proxy.preparedCache; sessions pass their config to every pool they create")
	// (1) connPool literals
	nlit := 0
	for _, fn := range p.ScopedFuncs("proxycore") {
		for _, lit := range structLits(fn, func(t types.Type) bool { return typeIs(t, "proxycore", "connPool") }) {
			nlit++
			v, ok := lit["preparedCache"]
			okSrc := ok && strings.HasSuffix(fieldPath(v), ".PreparedCache") && strings.Contains(fieldPath(v), "config")
			r.check(okSrc, rule, "connPool literal@"+fn.Name(), p.Pos(fn.Pos()), "preparedCache: config.PreparedCache",
				"pool built without the shared prepared cache: its connections never re-prepare and clients see UNPREPARED")
		}
	}
	if nlit < 1 {
		fatalf("rule %s: no connPool literal found", rule)
	}
	// both pool constructors obtain their pool from such a literal (directly or through a shared helper)
	for _, ctor := range []string{"connectPool", "connectPoolNoFail"} {
		f := p.FuncOpt("proxycore", ctor)
		if f == nil {
			continue
		}
		has := false
		for _, g := range withCallees(p, f, 2) {
			if len(structLits(g, func(t types.Type) bool { return typeIs(t, "proxycore", "connPool") })) > 0 {
				has = true
			}
		}
		r.check(has, rule, "connPool constructor "+ctor, p.Pos(f.Pos()), "", "does not build its pool from a literal that carries the prepared cache")
	}
	// (2) connect -> ConnectClient(ClientConnConfig{PreparedCache: p.preparedCache})
	pool := p.Named("proxycore", "connPool")
	connect := p.methodOf(pool, "connect")
	okCfg := false
	for _, lit := range structLits(connect, func(t types.Type) bool { return typeIs(t, "proxycore", "ClientConnConfig") }) {
		if f, base := loadedField(lit["PreparedCache"]); f != nil && f.Name() == "preparedCache" && base == ssa.Value(connect.Params[0]) {
			okCfg = true
		}
	}
	r.check(okCfg, rule, "connPool.connect:ClientConnConfig", p.Pos(connect.Pos()), "", "pooled connections are created without the pool's prepared cache")
	// (3) ConnectClient stores config.PreparedCache
	cc := p.Func("proxycore", "ConnectClient")
	okStore := false
	for _, lit := range structLits(cc, func(t types.Type) bool { return typeIs(t, "proxycore", "ClientConn") }) {
		if strings.HasSuffix(fieldPath(lit["preparedCache"]), "PreparedCache") {
			okStore = true
		}
	}
	r.check(okStore, rule, "ConnectClient", p.Pos(cc.Pos()), "", "ConnectClient drops the configured prepared cache")
	// (4) proxy session configs
	nsc := 0
	pcF := p.Field("proxy", "Proxy", "preparedCache")
	for _, fn := range p.ScopedFuncs("proxy") {
		for _, lit := range structLits(fn, func(t types.Type) bool { return typeIs(t, "proxycore", "SessionConfig") }) {
			nsc++
			f, _ := loadedField(lit["PreparedCache"])
			r.check(f == pcF, rule, "SessionConfig@"+fn.Name(), p.Pos(fn.Pos()), "", "session created without the proxy's shared prepared cache")
		}
	}
	if nsc < 2 {
		fatalf("rule %s: only %d SessionConfig literals in package proxy (2 confirmed by hand)", rule, nsc)
	}
	// the shared cache is created in Connect from the configuration or the default
	// (5) Session.OnEvent: connPoolConfig{SessionConfig: s.config}
	sess := p.Named("proxycore", "Session")
	onEvent := p.methodOf(sess, "OnEvent")
	npc := 0
	isCfg := func(t types.Type) bool { return typeIs(t, "proxycore", "connPoolConfig") }
	for _, fn := range withCallees(p, onEvent, 2) {
		if isLiteralConstructor(p, fn, isCfg) {
			continue // judged at its call sites
		}
		for _, lit := range structLitsVia(p, fn, isCfg) {
			npc++
			ok := strings.HasSuffix(fieldPath(lit["SessionConfig"]), ".config")
			r.check(ok, rule, fmt.Sprintf("connPoolConfig#%d@%s", npc, fn.Name()), p.Pos(fn.Pos()), "", "pool created with something other than the session's configuration")
		}
	}
	if npc < 1 {
		fatalf("rule %s: no connPoolConfig literal reachable from Session.OnEvent", rule)
	}
}

func c08CacheBeforeDeliver(p *Prog, r *Report) {
	const rule = "C08.cache-before-deliver"
	r.Rule(rule, "on a connection with a prepared cache every RESULT reply passes through the cache update before it is delivered to its request, and every ERROR reply through the UNPREPARED interception")
	cc := p.Named("proxycore", "ClientConn")
	recv := p.methodOf(cc, "Receive")
	opF := p.Field("frame", "Header", "OpCode")
	pcF := p.Field("proxycore", "ClientConn", "preparedCache")
	// role: the method that stores into the cache / the one that loads from it
	var cacheFn, interceptFn *ssa.Function
	for _, m := range p.methodsOf(cc) {
		if callsDirectly(m, func(c ssa.CallInstruction) bool {
			cm := c.Common()
			return cm.IsInvoke() && cm.Method.Name() == "Store" && recvNamedIs(cm.Method, "proxycore", "PreparedCache")
		}) {
			cacheFn = m
		}
		if callsDirectly(m, func(c ssa.CallInstruction) bool {
			cm := c.Common()
			return cm.IsInvoke() && cm.Method.Name() == "Load" && recvNamedIs(cm.Method, "proxycore", "PreparedCache")
		}) {
			interceptFn = m
		}
	}
	if cacheFn == nil || interceptFn == nil {
		r.bad(rule, "ClientConn.Receive", p.Pos(recv.Pos()), "no method of ClientConn stores into / loads from the prepared cache")
		return
	}
	// the roles belong to the outermost methods of the chain below Receive: the one through which
	// a reply reaches the cache update (and nothing else), and the one through which an error
	// reply reaches the cache lookup (and nothing else)
	reaches := func(m *ssa.Function, pred func(ssa.CallInstruction) bool) bool {
		found := false
		for _, f := range withCallees(p, m, 3) {
			if f != m && recvNamed(f) != cc {
				continue
			}
			eachCall(f, func(c ssa.CallInstruction) {
				if pred(c) {
					found = true
				}
			})
		}
		return found
	}
	isStore := func(c ssa.CallInstruction) bool {
		cm := c.Common()
		return cm.IsInvoke() && cm.Method.Name() == "Store" && recvNamedIs(cm.Method, "proxycore", "PreparedCache")
	}
	isLoad := func(c ssa.CallInstruction) bool {
		cm := c.Common()
		return cm.IsInvoke() && cm.Method.Name() == "Load" && recvNamedIs(cm.Method, "proxycore", "PreparedCache")
	}
	isDeliver := func(c ssa.CallInstruction) bool {
		cm := c.Common()
		return cm.IsInvoke() && cm.Method.Name() == "OnResult" && recvNamedIs(cm.Method, "proxycore", "Request")
	}
	for _, m := range p.methodsOf(cc) {
		if m == recv || reaches(m, isDeliver) {
			continue
		}
		st, ld := reaches(m, isStore), reaches(m, isLoad)
		if st && !ld && reaches(m, func(c ssa.CallInstruction) bool { return c.Common().StaticCallee() == cacheFn }) {
			cacheFn = m
		}
		if ld && !st && reaches(m, func(c ssa.CallInstruction) bool { return c.Common().StaticCallee() == interceptFn }) {
			interceptFn = m
		}
	}
	for _, op := range []string{"OpCodeResult", "OpCodeError"} {
		s := newSim(p)
		s.Tracked[opF] = true
		s.Tracked[pcF] = true
		s.Inline = func(f *ssa.Function) bool {
			return recvNamed(f) == cc && f.Parent() == nil && f != cacheFn && f != interceptFn && f != recv && onlyCalledFrom(p, f, recv, 4)
		}
		s.Model = func(sm *Sim, st *State, call ssa.CallInstruction, callee *ssa.Function) []*State {
			switch {
			case callee != nil && callee == getPendingRoles(p).loadAndDelete:
				SetCallResult(st, call, avSymbol("req"))
				return []*State{st}
			case callee == cacheFn:
				if st.aux["delivered"] == "1" {
					st.aux["late"] = "1"
				}
				st.addEff("cached")
				return []*State{st}
			case callee == interceptFn:
				st.addEff("intercept")
				t, f := st.clone(), st.clone()
				SetCallResult(t, call, avBool(true))
				SetCallResult(f, call, avBool(false))
				return []*State{t, f}
			case call.Common().IsInvoke() && call.Common().Method.Name() == "OnResult":
				st.aux["delivered"] = "1"
				st.addEff("deliver")
				return []*State{st}
			}
			return nil
		}
		init := newState()
		init.cells[opF] = avC(p.constOf("primitive", op))
		init.cells[pcF] = AV{K: avNonNil}
		outs := s.Run(recv, init)
		r.count("sim_states", s.Nodes)
		var bad []string
		n := 0
		for _, o := range outs {
			if o.Panic || o.Ret.K != avNil {
				continue
			}
			n++
			switch op {
			case "OpCodeResult":
				if o.St.eff["cached"] != 1 {
					bad = append(bad, fmt.Sprintf("a RESULT is delivered without the cache update (path ending at %s)", p.Pos(o.Pos)))
				}
				if o.St.aux["late"] == "1" {
					bad = append(bad, "the PREPARE is cached only after its reply was delivered: the client can EXECUTE the id before the proxy can re-prepare it elsewhere")
				}
				if o.St.eff["deliver"] != 1 {
					bad = append(bad, "a RESULT is not delivered exactly once")
				}
			case "OpCodeError":
				if o.St.eff["intercept"] != 1 {
					bad = append(bad, fmt.Sprintf("an ERROR bypasses the UNPREPARED interception (path ending at %s)", p.Pos(o.Pos)))
				}
			}
		}
		r.check(len(bad) == 0 && n > 0, rule, "ClientConn.Receive["+op+"]", p.Pos(recv.Pos()), fmt.Sprintf("%d paths", n), strings.Join(dedupe(bad), " || "))
	}
	// the cache update stores the request's frame copy for PREPARE requests whose reply is a PreparedResult
	var cb []string
	isPrep := false
	eachCall(cacheFn, func(c ssa.CallInstruction) {
		cm := c.Common()
		if cm.IsInvoke() && cm.Method.Name() == "IsPrepareRequest" {
			isPrep = true
		}
	})
	if !isPrep {
		cb = append(cb, "cache update does not check that the request was a PREPARE")
	}
	r.check(len(cb) == 0, rule, "ClientConn."+cacheFn.Name(), p.Pos(cacheFn.Pos()), "", strings.Join(cb, " || "))
}

func c08Keys(p *Prog, r *Report) {
	const rule = "C08.key-agreement"
	r.Rule(rule, "the prepared cache is written under f(PreparedResult.PreparedQueryId) and read under f(Unprepared.Id) with the same key function f")
	var storeKey, loadKey []string
	var pos string
	for _, fn := range p.ScopedFuncs("proxycore") {
		eachCall(fn, func(c ssa.CallInstruction) {
			cm := c.Common()
			if !cm.IsInvoke() || !recvNamedIs(cm.Method, "proxycore", "PreparedCache") {
				return
			}
			desc := "raw"
			arg := cm.Args[0]
			src := fieldPath(arg)
			// the key may reach the cache call through a parameter or a result of a private helper
			var keyCall *ssa.Call
			var find func(v ssa.Value, depth int)
			find = func(v ssa.Value, depth int) {
				if keyCall != nil || depth > 4 {
					return
				}
				for _, o := range originsInter(p, v, 2) {
					switch x := o.(type) {
					case *ssa.Call:
						callee := x.Call.StaticCallee()
						if callee == nil {
							continue
						}
						if !p.InRepo(callee) {
							keyCall = x
							return
						}
						// a repo helper returning the key: look at what it returns
						eachInstr(callee, func(in ssa.Instruction) {
							if ret, ok := in.(*ssa.Return); ok && len(ret.Results) > 0 {
								find(ret.Results[0], depth+1)
							}
						})
					case *ssa.Extract:
						if cc, ok := x.Tuple.(*ssa.Call); ok && cc.Call.StaticCallee() != nil && p.InRepo(cc.Call.StaticCallee()) {
							eachInstr(cc.Call.StaticCallee(), func(in ssa.Instruction) {
								if ret, ok := in.(*ssa.Return); ok && x.Index < len(ret.Results) {
									find(ret.Results[x.Index], depth+1)
								}
							})
						}
					}
				}
			}
			find(arg, 0)
			if keyCall != nil {
				desc = keyCall.Call.StaticCallee().String()
				src = fieldPath(keyCall.Call.Args[0])
			}
			pos = p.Pos(c.Pos())
			if cm.Method.Name() == "Store" {
				storeKey = append(storeKey, desc+"("+lastField(src)+")")
			} else if cm.Method.Name() == "Load" {
				loadKey = append(loadKey, desc+"("+lastField(src)+")")
			}
		})
	}
	var bad []string
	if len(storeKey) != 1 || len(loadKey) != 1 {
		bad = append(bad, fmt.Sprintf("%d cache stores and %d cache loads in proxycore", len(storeKey), len(loadKey)))
	} else {
		sf, lf := strings.SplitN(storeKey[0], "(", 2), strings.SplitN(loadKey[0], "(", 2)
		if sf[0] != lf[0] {
			bad = append(bad, fmt.Sprintf("cache written under %s but read under %s", storeKey[0], loadKey[0]))
		}
		if sf[1] != "PreparedQueryId)" {
			bad = append(bad, "cache key is not derived from the backend's PreparedQueryId: "+storeKey[0])
		}
		if lf[1] != "Id)" {
			bad = append(bad, "cache lookup is not derived from the UNPREPARED message's id: "+loadKey[0])
		}
	}
	r.check(len(bad) == 0, rule, "PreparedCache keys", pos, strings.Join(append(storeKey, loadKey...), " / "), strings.Join(bad, " || "))
}

func lastField(path string) string {
	if i := strings.LastIndex(path, "."); i >= 0 {
		return path[i+1:]
	}
	return path
}

func c08Reprepare(p *Prog, r *Report) {
	const rule = "C08.reprepare"
	r.Rule(rule, "the outcome of a re-PREPARE re-executes the original request: an ERROR moves it to the next host, anything else retries the same host; a connection lost while re-preparing moves it to the next host too (the request was answered UNPREPARED: it has not been executed, so this is safe for non-idempotent statements as well, and reporting the loss to the request would fail them)")
	prep := p.Named("proxycore", "prepareRequest")
	fn := p.methodOf(prep, "OnResult")
	opF := p.Field("frame", "Header", "OpCode")
	origF := p.FieldRole("proxycore", "prepareRequest", "origRequest", isRequestIface)
	for _, op := range []string{"OpCodeError", "OpCodeResult"} {
		s := newSim(p)
		s.Tracked[opF] = true
		var got []string
		s.Model = func(sm *Sim, st *State, call ssa.CallInstruction, callee *ssa.Function) []*State {
			cm := call.Common()
			if cm.IsInvoke() && cm.Method.Name() == "Execute" && recvNamedIs(cm.Method, "proxycore", "Request") {
				if f, _ := loadedField(cm.Value); f == origF {
					a := sm.eval(st, cm.Args[0])
					got = append(got, a.String())
				}
				return []*State{st}
			}
			return nil
		}
		init := newState()
		init.cells[opF] = avC(p.constOf("primitive", op))
		s.Run(fn, init)
		r.count("sim_states", s.Nodes)
		want := "false"
		if op == "OpCodeError" {
			want = "true"
		}
		ok := len(got) > 0
		for _, g := range got {
			if g != want {
				ok = false
			}
		}
		r.check(ok, rule, "prepareRequest.OnResult["+op+"]", p.Pos(fn.Pos()), "Execute(next="+want+")",
			fmt.Sprintf("re-executes with next=%v, expected next=%s (a failed re-prepare must move on, a successful one must stay)", got, want))
	}
	// connection loss while the re-prepare is in flight
	if oc := p.methodOf(prep, "OnClose"); oc != nil {
		s := newSim(p)
		var got []string
		other := 0
		s.Model = func(sm *Sim, st *State, call ssa.CallInstruction, callee *ssa.Function) []*State {
			cm := call.Common()
			if cm.IsInvoke() && recvNamedIs(cm.Method, "proxycore", "Request") {
				if f, _ := loadedField(cm.Value); f == origF && cm.Method.Name() == "Execute" {
					got = append(got, sm.eval(st, cm.Args[0]).String())
				} else {
					other++
				}
				return []*State{st}
			}
			return nil
		}
		s.Run(oc, newState())
		ok := len(got) > 0 && other == 0
		for _, g := range got {
			if g != "true" {
				ok = false
			}
		}
		r.check(ok, rule, "prepareRequest.OnClose", p.Pos(oc.Pos()), "Execute(next=true)",
			fmt.Sprintf("a connection lost during the re-prepare does not move the original request to the next host (Execute calls %v, %d other callbacks): reported as a connection loss, a non-idempotent statement that was never executed is failed", got, other))
	} else {
		r.bad(rule, "prepareRequest.OnClose", "", "the re-prepare wrapper has no OnClose")
	}
	// IsPrepareRequest of the wrapper is true (its PREPARED result refreshes the cache entry)
	ipr := p.methodOf(prep, "IsPrepareRequest")
	okTrue := false
	if ipr != nil {
		eachInstr(ipr, func(in ssa.Instruction) {
			if ret, ok := in.(*ssa.Return); ok {
				if c, ok := ret.Results[0].(*ssa.Const); ok && c.Value != nil && constant.BoolVal(c.Value) {
					okTrue = true
				}
			}
		})
	}
	r.check(okTrue, rule, "prepareRequest.IsPrepareRequest", p.Pos(fn.Pos()), "", "the re-prepare is not recognised as a PREPARE request")
}

func c08RawBody(p *Prog, r *Report) {
	const rule = "C08.raw-body-opaque"
	r.Rule(rule, "code that reads bytes of RawFrame.Body directly (instead of decoding through the frame codec) does so only under a test that the header's Compressed flag is clear")
	var sites []ssa.Instruction
	var descs []string
	for _, fn := range p.ScopedFuncs("proxycore", "proxy") {
		eachInstr(fn, func(in ssa.Instruction) {
			check := func(v ssa.Value, what string) {
				if f, base := loadedField(v); f != nil && f.Name() == "Body" && base != nil && typeIs(base.Type(), "frame", "RawFrame") {
					sites = append(sites, in)
					descs = append(descs, what+" in "+fn.Name())
				}
			}
			switch x := in.(type) {
			case *ssa.IndexAddr:
				check(x.X, "index")
			case *ssa.Slice:
				check(x.X, "slice")
			case *ssa.Call:
				callee := x.Call.StaticCallee()
				if callee != nil && p.InRepo(callee) && callee.Pkg != nil && callee.Pkg.Pkg.Path() == pkgPath("proxycore") {
					for _, a := range x.Call.Args {
						// helper taking the raw bytes (readInt)
						if _, isSlice := a.Type().Underlying().(*types.Slice); isSlice {
							check(a, "byte-level helper "+callee.Name())
						}
					}
				}
			}
		})
	}
	var bad []string
	for i, in := range sites {
		compressed := p.constOf("primitive", "HeaderFlagCompressed").ExactString()
		isCompressedTest := func(c *ssa.Call) bool {
			if c.Call.StaticCallee() == nil || c.Call.StaticCallee().Name() != "Contains" || len(c.Call.Args) < 2 {
				return false
			}
			k, ok := c.Call.Args[1].(*ssa.Const)
			return ok && k.Value != nil && k.Value.ExactString() == compressed
		}
		guarded := guardHolds(p, in.Block(), func(ct condTruth) bool {
			c, ok := ct.Cond.(*ssa.Call)
			if !ok {
				return false
			}
			if isCompressedTest(c) && !ct.Truth {
				return true
			}
			// none of a constant table of flags, Compressed among them, is set
			if isAnyOfFlags(p, c, compressed) && !ct.Truth {
				return true
			}
			// a repo predicate over the header flags that can only be true when the Compressed flag is clear
			callee := c.Call.StaticCallee()
			if callee == nil || !p.InRepo(callee) || !ct.Truth {
				return false
			}
			s := newSim(p)
			s.Model = func(sm *Sim, st *State, call ssa.CallInstruction, cal *ssa.Function) []*State {
				if cc, ok := call.(*ssa.Call); ok && isCompressedTest(cc) {
					t, f := st.clone(), st.clone()
					t.aux["compressed"] = "T"
					f.aux["compressed"] = "F"
					SetCallResult(t, call, avBool(true))
					SetCallResult(f, call, avBool(false))
					return []*State{t, f}
				}
				return nil
			}
			okPred := true
			sawTest := false
			for _, o := range s.Run(callee, newState()) {
				if o.Panic {
					continue
				}
				if o.St.aux["compressed"] != "" {
					sawTest = true
				}
				if b, known := o.Ret.isBool(); (!known || b) && o.St.aux["compressed"] != "F" {
					okPred = false
				}
			}
			return okPred && sawTest
		}, 2)
		if !guarded {
			bad = append(bad, p.Pos(in.Pos())+": "+descs[i]+" reads body bytes that may be compressed")
		}
	}
	r.count("raw_body_sites", len(sites))
	r.check(len(bad) == 0, rule, "RawFrame.Body byte reads", "", fmt.Sprintf("%d sites", len(sites)), strings.Join(dedupe(bad), " || "))
	_ = token.ADD
}

// isAnyOfFlags: c is slices.ContainsFunc(table, flags.Contains) over a package-level table of
// constants that has the given flag among its elements.
func isAnyOfFlags(p *Prog, c *ssa.Call, flag string) bool {
	callee := c.Call.StaticCallee()
	if callee == nil || len(c.Call.Args) != 2 {
		return false
	}
	if o := callee.Origin(); o != nil {
		callee = o
	}
	if callee.Pkg == nil || callee.Pkg.Pkg.Path() != "slices" || callee.Name() != "ContainsFunc" {
		return false
	}
	ld, ok := c.Call.Args[0].(*ssa.UnOp)
	if !ok {
		return false
	}
	g, ok := ld.X.(*ssa.Global)
	if !ok {
		return false
	}
	elems, ok := p.constSliceLiteral(g)
	if !ok {
		return false
	}
	has := false
	for _, e := range elems {
		if e.ExactString() == flag {
			has = true
		}
	}
	if !has {
		return false
	}
	pred := c.Call.Args[1]
	if ct, ok := pred.(*ssa.ChangeType); ok {
		pred = ct.X
	}
	mc, ok := pred.(*ssa.MakeClosure)
	if !ok || len(mc.Bindings) != 1 {
		return false
	}
	bound, ok := mc.Fn.(*ssa.Function)
	if !ok || !strings.Contains(bound.Synthetic, "bound") {
		return false
	}
	m := unwrapBound(bound)
	return m != nil && m.Name() == "Contains" && typeIs(mc.Bindings[0].Type(), "primitive", "HeaderFlag")
}

// unwrapBound: the method a bound-method wrapper forwards to.
func unwrapBound(fn *ssa.Function) *ssa.Function {
	var target *ssa.Function
	n := 0
	eachCall(fn, func(c ssa.CallInstruction) {
		if callee := c.Common().StaticCallee(); callee != nil {
			target = callee
			n++
		}
	})
	if n == 1 {
		return target
	}
	return nil
}

// c08ReplayEncoding: the prepared cache is shared by all sessions (every protocol version,
// every compression).  What is replayed on a connection to re-prepare a statement must be
// encoded for that connection, and what is cached must not carry the compression or the
// per-request flags of the connection it happened to be prepared on.
func c08ReplayEncoding(p *Prog, r *Report) {
	const rule = "C08.replay-encoding"
	r.Rule(rule, "the frame cached for a prepared statement and the frame replayed to re-prepare it are produced by decoding the PREPARE and encoding its message again (NewFrame + ConvertToRawFrame): cached without compression and request flags, replayed with the protocol version of the connection it is sent on (the version of the UNPREPARED response just received there), never the preparing client's frame bytes as they were")
	prepF := p.FieldRole("proxycore", "prepareRequest", "prepare", isRawFramePtr)
	entryF := p.Field("proxycore", "PreparedEntry", "PreparedFrame")
	verF := p.Field("frame", "Header", "Version")
	// describe how a stored frame value was produced: (reencoded?, version argument at the outermost call site)
	type prod struct {
		reencoded bool
		version   ssa.Value // in the storing function
		why       string
	}
	var produce func(v ssa.Value, depth int) prod
	produce = func(v ssa.Value, depth int) prod {
		os := origins(v)
		if depth == 2 {
			os = originsInter(p, v, 2) // a frame handed to a constructor helper is judged where the helper is called
		}
		for _, o := range os {
			ex, ok := o.(*ssa.Extract)
			if !ok || ex.Index != 0 {
				return prod{why: "the stored frame is " + valDesc(o) + ", not the result of an encoding"}
			}
			call, ok := ex.Tuple.(*ssa.Call)
			if !ok {
				return prod{why: "the stored frame is not the result of an encoding"}
			}
			if call.Call.IsInvoke() && call.Call.Method.Name() == "ConvertToRawFrame" {
				for _, fo := range origins(call.Call.Args[0]) {
					nf, ok := fo.(*ssa.Call)
					if !ok || !callIsFunc(nf, "frame", "NewFrame") {
						return prod{why: "the converted frame is not built with frame.NewFrame (it would keep the original header's flags)"}
					}
					return prod{reencoded: true, version: nf.Call.Args[0]}
				}
			}
			callee := call.Call.StaticCallee()
			if callee == nil || !p.InRepo(callee) || depth == 0 {
				return prod{why: "the stored frame comes from " + callDesc(call) + ", which does not re-encode"}
			}
			var inner prod
			found := false
			eachInstr(callee, func(in ssa.Instruction) {
				if ret, ok := in.(*ssa.Return); ok && len(ret.Results) > 0 {
					if pr := produce(ret.Results[0], depth-1); pr.reencoded || !found {
						if c, isConst := ret.Results[0].(*ssa.Const); isConst && c.Value == nil {
							return // the error path returns nil
						}
						inner, found = pr, true
					}
				}
			})
			if !found || !inner.reencoded {
				if inner.why == "" {
					inner.why = callee.Name() + " does not re-encode the message"
				}
				return inner
			}
			// map the version back to the caller's argument when it is a parameter of the helper
			for i, par := range callee.Params {
				if inner.version == ssa.Value(par) && i < len(call.Call.Args) {
					inner.version = call.Call.Args[i]
				}
			}
			return inner
		}
		return prod{why: "no producer found"}
	}
	n := 0
	for _, fn := range p.ScopedFuncs("proxycore") {
		eachInstr(fn, func(in ssa.Instruction) {
			st, ok := in.(*ssa.Store)
			if !ok {
				return
			}
			fa, ok := st.Addr.(*ssa.FieldAddr)
			if !ok {
				return
			}
			f := fieldOfAddr(fa)
			if f != prepF && f != entryF {
				return
			}
			n++
			pr := produce(st.Val, 2)
			var bad []string
			if !pr.reencoded {
				bad = append(bad, pr.why)
			} else if f == prepF {
				// replay: version of a frame received on this connection (a RawFrame parameter of this function)
				okVer := false
				for _, vo := range originsInter(p, pr.version, 3) {
					if vf, hdr := loadedField(vo); vf == verF && hdr != nil {
						if _, base := loadedField(hdr); base != nil {
							// the header of a raw frame handed to this code as a parameter (the reply just received),
							// never a frame taken out of the cache
							if par, isPar := base.(*ssa.Parameter); isPar && typeIs(par.Type(), "frame", "RawFrame") {
								okVer = true
							}
						}
					}
				}
				if !okVer {
					bad = append(bad, "the replayed PREPARE is not encoded with the protocol version of the frame just received on this connection ("+fieldPath(pr.version)+"): a statement prepared through a session of another version is replayed with that other version")
				}
			}
			what := "PreparedEntry.PreparedFrame"
			if f == prepF {
				what = "prepareRequest.prepare"
			}
			r.check(len(bad) == 0, rule, what+"@"+fn.Name(), p.Pos(st.Pos()), "decoded and encoded again", strings.Join(bad, " || "))
		})
	}
	if n < 2 {
		fatalf("rule %s: only %d stores of re-prepare frames found (2 confirmed by hand)", rule, n)
	}
}

// c08ReexecutePerHost: the bound on re-executions after a re-prepare belongs to one host.
func c08ReexecutePerHost(p *Prog, r *Report) {
	const rule = "C08.reexecute-per-host"
	r.Rule(rule, "the state that limits how often a request is executed again on a host after a re-prepare is tied to that host: it is compared with the request's current host, or it is reset wherever the current host changes; a limit that survives a change of host (retry on the next host, fail-over after a lost connection) makes the next host skip its own re-prepare-and-execute")
	rr := requestRoles(p)
	var exec *ssa.Function
	for _, m := range p.methodsOf(rr.req) {
		if m.Name() == "Execute" && len(m.Params) == 2 {
			exec = m
		}
	}
	if exec == nil {
		fatalf("rule %s: the request's Execute method was not found", rule)
	}
	// the current-host field: the *Host field the host walk stores the query plan's next host into
	var hostF *types.Var
	eachInstr(rr.execLoop, func(in ssa.Instruction) {
		if st, ok := in.(*ssa.Store); ok {
			if fa, ok := st.Addr.(*ssa.FieldAddr); ok && typeIs(fieldOfAddr(fa).Type(), "proxycore", "Host") && namedOf(fa.X.Type()) == rr.req {
				hostF = fieldOfAddr(fa)
			}
		}
	})
	if hostF == nil {
		fatalf("rule %s: the request's current-host field was not found", rule)
	}
	scope := []*ssa.Function{exec}
	for _, h := range withCallees(p, exec, 2) {
		if h != exec && h != rr.execLoop && recvNamed(h) == rr.req && h.Parent() == nil && !replyFuncs(p, rr.req)[h] && onlyCalledFrom(p, h, exec, 3) {
			scope = append(scope, h)
		}
	}
	// guard state: request fields Execute (and its private helpers) write
	guard := map[*types.Var]bool{}
	compared := false
	for _, f := range scope {
		eachInstr(f, func(in ssa.Instruction) {
			switch x := in.(type) {
			case *ssa.Store:
				if fa, ok := x.Addr.(*ssa.FieldAddr); ok && namedOf(fa.X.Type()) == rr.req {
					if fld := fieldOfAddr(fa); fld != hostF && !isMutexType(fld.Type()) {
						guard[fld] = true
					}
				}
			case *ssa.BinOp:
				if x.Op != token.EQL && x.Op != token.NEQ {
					return
				}
				fx, _ := loadedField(x.X)
				fy, _ := loadedField(x.Y)
				if (fx == hostF && fy != nil && fy != hostF && typeIs(fy.Type(), "proxycore", "Host")) ||
					(fy == hostF && fx != nil && fx != hostF && typeIs(fx.Type(), "proxycore", "Host")) {
					compared = true
				}
			}
		})
	}
	var bad []string
	if len(guard) == 0 {
		bad = append(bad, "Execute keeps no state that limits re-execution after a re-prepare (an always-UNPREPARED host would bounce the request forever)")
	}
	if !compared {
		// every change of the current host must reset the guard state
		for _, m := range p.methodsOf(rr.req) {
			changes := false
			wrote := map[*types.Var]bool{}
			eachInstr(m, func(in ssa.Instruction) {
				if st, ok := in.(*ssa.Store); ok {
					if fa, ok := st.Addr.(*ssa.FieldAddr); ok && namedOf(fa.X.Type()) == rr.req {
						if fieldOfAddr(fa) == hostF {
							if _, fresh := fa.X.(*ssa.Alloc); !fresh {
								changes = true
							}
						}
						wrote[fieldOfAddr(fa)] = true
					}
				}
			})
			if !changes {
				continue
			}
			for g := range guard {
				if !wrote[g] {
					bad = append(bad, fmt.Sprintf("%s changes the current host but leaves %s as it was, and Execute does not compare its state with the current host: what was counted for the previous host is held against the new one (its re-prepared statement is never executed there)", m.Name(), g.Name()))
				}
			}
		}
	}
	r.check(len(bad) == 0, rule, rr.req.Obj().Name()+".Execute", p.Pos(exec.Pos()), "", strings.Join(dedupe(bad), " || "))

	// the limit covers every prepared statement of the request: a BATCH is answered UNPREPARED once
	// per missing child, so a limit of one re-execution per host never gets a batch with two
	// missing children executed anywhere
	qF := p.Field("codecs", "PartialBatch", "Queries")
	var counters []*ssa.Function
	for _, f := range scope {
		reads := false
		eachInstr(f, func(in ssa.Instruction) {
			if fa, ok := in.(*ssa.FieldAddr); ok && fieldOfAddr(fa) == qF {
				reads = true
			}
			if fv, ok := in.(*ssa.Field); ok && fieldOfVal(fv) == qF {
				reads = true
			}
		})
		if reads {
			counters = append(counters, f)
		}
	}
	var lb []string
	if len(counters) == 0 {
		lb = append(lb, "the number of re-executions allowed on a host does not depend on how many prepared statements the request refers to (the children of a BATCH): a batch with two statements missing on every host is re-prepared twice per host and executed on none")
	} else {
		usesCount := false
		for _, f := range scope {
			eachInstr(f, func(in ssa.Instruction) {
				bo, ok := in.(*ssa.BinOp)
				if !ok {
					return
				}
				switch bo.Op {
				case token.GEQ, token.LSS, token.GTR, token.LEQ:
				default:
					return
				}
				for _, side := range []ssa.Value{bo.X, bo.Y} {
					for _, o := range origins(side) {
						if c, ok := o.(*ssa.Call); ok {
							for _, cf := range counters {
								if c.Call.StaticCallee() == cf {
									usesCount = true
								}
							}
						}
					}
				}
				if f != exec {
					return
				}
			})
			for _, cf := range counters {
				if cf == f && f == exec {
					usesCount = true // counted in Execute itself
				}
			}
		}
		if !usesCount {
			lb = append(lb, "the count of the request's prepared statements is not what the number of re-executions on a host is compared with")
		}
		// ... and the comparison decides: where it says the limit is reached, the host walk is
		// told to move on (a verdict computed into a variable nobody reads bounces the request
		// between PREPARE and EXECUTE on a host that keeps answering UNPREPARED)
		isLimitCmp := func(v ssa.Value) (*ssa.BinOp, bool) {
			bo, ok := v.(*ssa.BinOp)
			if !ok {
				return nil, false
			}
			for i, side := range []ssa.Value{bo.X, bo.Y} {
				for _, o := range origins(side) {
					if c, ok := o.(*ssa.Call); ok {
						for _, cf := range counters {
							if c.Call.StaticCallee() == cf {
								// reached when counter >= limit: the limit is on side i
								switch bo.Op {
								case token.GEQ, token.GTR:
									return bo, i == 1
								case token.LSS, token.LEQ:
									return bo, i == 0
								}
							}
						}
					}
				}
			}
			return nil, false
		}
		sm := newSim(p)
		sm.Inline = func(f *ssa.Function) bool {
			for _, h := range scope {
				if h == f && f != exec {
					for _, cf := range counters {
						if cf == f {
							return false
						}
					}
					return true
				}
			}
			return false
		}
		sm.OnBranch = func(st *State, cond ssa.Value, truth bool) {
			c, neg := stripNot(cond)
			if bo, reachedWhenTrue := isLimitCmp(c); bo != nil {
				if (truth != neg) == reachedWhenTrue {
					st.aux["limit"] = "reached"
				} else {
					st.aux["limit"] = "below"
				}
			}
		}
		var walkBad []string
		sm.Model = func(s2 *Sim, st *State, call ssa.CallInstruction, callee *ssa.Function) []*State {
			if callee != nil && callee == rr.execLoop && len(call.Common().Args) >= 2 {
				a := s2.eval(st, call.Common().Args[len(call.Common().Args)-1])
				if b, known := a.isBool(); st.aux["limit"] == "reached" && !(known && b) {
					walkBad = append(walkBad, p.Pos(call.Pos())+": the limit of re-executions on this host is reached, but the host walk is not told to move on to the next host (it is called with "+a.String()+")")
				}
				st.addEff("walk")
				return []*State{st}
			}
			return nil
		}
		init := newState()
		for _, par := range exec.Params[1:] {
			if b, ok := par.Type().Underlying().(*types.Basic); ok && b.Kind() == types.Bool {
				init.vals[par] = avBool(false)
			}
		}
		reached := 0
		for _, o := range sm.Run(exec, init) {
			if !o.Panic && o.St.aux["limit"] == "reached" {
				reached++
			}
		}
		r.count("sim_states", sm.Nodes)
		if reached == 0 {
			walkBad = append(walkBad, "no path of Execute on which the limit of re-executions is reached")
		}
		lb = append(lb, dedupe(walkBad)...)
	}
	r.check(len(lb) == 0, rule, rr.req.Obj().Name()+".Execute:limit", p.Pos(exec.Pos()), "", strings.Join(dedupe(lb), " || "))
}

// c08NoRelay: an UNPREPARED reply for a statement that is in the prepared cache never reaches
// the request (and so the client) as it is.
func c08NoRelay(p *Prog, r *Report) {
	const rule = "C08.no-relay"
	r.Rule(rule, "once the UNPREPARED interception found the statement in the prepared cache, every outcome keeps the reply away from the request: the re-prepare was registered on the connection, or the request was told to move on to the next host (Execute(true)); the interception then reports the reply as handled")
	cc := p.Named("proxycore", "ClientConn")
	var fn *ssa.Function
	for _, m := range p.methodsOf(cc) {
		if callsDirectly(m, func(c ssa.CallInstruction) bool {
			cm := c.Common()
			return cm.IsInvoke() && cm.Method.Name() == "Load" && recvNamedIs(cm.Method, "proxycore", "PreparedCache")
		}) {
			fn = m
		}
	}
	if fn == nil {
		fatalf("rule %s: no ClientConn method looks the prepared cache up", rule)
	}
	var reqPar *ssa.Parameter
	for _, par := range fn.Params {
		if typeIs(par.Type(), "proxycore", "Request") {
			reqPar = par
		}
	}
	if reqPar == nil {
		fatalf("rule %s: %s does not take the request", rule, fn.Name())
	}
	sendFn := p.methodOf(cc, "Send")
	s := newSim(p)
	// the tail of the interception may live in private helpers of the connection
	s.Inline = func(f *ssa.Function) bool {
		return recvNamed(f) == cc && f != sendFn && f != fn && !f.Object().Exported() && onlyCalledFrom(p, f, fn, 2)
	}
	s.Model = func(sm *Sim, st *State, call ssa.CallInstruction, callee *ssa.Function) []*State {
		cm := call.Common()
		switch {
		case cm.IsInvoke() && cm.Method.Name() == "Load" && recvNamedIs(cm.Method, "proxycore", "PreparedCache"):
			hit, miss := st.clone(), st.clone()
			hit.aux["hit"] = "1"
			SetCallResult(hit, call, avTup(AV{K: avNonNil}, avBool(true)))
			SetCallResult(miss, call, avTup(AV{K: avNil}, avBool(false)))
			return []*State{hit, miss}
		case callee != nil && callee == sendFn:
			okSt, fail := st.clone(), st.clone()
			okSt.addEff("registered")
			SetCallResult(okSt, call, AV{K: avNil})
			SetCallResult(fail, call, AV{K: avNonNil})
			return []*State{okSt, fail}
		case cm.IsInvoke() && cm.Method.Name() == "Execute" && recvNamedIs(cm.Method, "proxycore", "Request"):
			nb, known := sm.eval(st, cm.Args[0]).isBool()
			if a := sm.eval(st, cm.Value); (cm.Value == ssa.Value(reqPar) || a.K == avSym && a.S == "req") && known && nb {
				st.addEff("moved-on")
			} else {
				st.addEff("other-execute")
			}
			return []*State{st}
		}
		if callee != nil && callee.Signature.Results().Len() == 2 && p.InRepo(callee) {
			// helpers with an error result (re-encoding the cached request): both outcomes
			if _, isErr := callee.Signature.Results().At(1).Type().Underlying().(*types.Interface); isErr {
				okSt, fail := st.clone(), st.clone()
				SetCallResult(okSt, call, avTup(AV{K: avNonNil}, AV{K: avNil}))
				SetCallResult(fail, call, avTup(AV{K: avNil}, AV{K: avNonNil}))
				return []*State{okSt, fail}
			}
		}
		return nil
	}
	init := newState()
	init.vals[reqPar] = avSymbol("req")
	outs := s.Run(fn, init)
	r.count("sim_states", s.Nodes)
	var bad []string
	n := 0
	for _, o := range outs {
		if o.Panic || o.St.aux["hit"] != "1" {
			continue
		}
		n++
		desc := fmt.Sprintf("path ending at %s {%s ret=%s}", p.Pos(o.Pos), effStr(o.St), o.Ret)
		k := o.St.eff["registered"] + o.St.eff["moved-on"]
		if k != 1 || o.St.eff["other-execute"] > 0 {
			bad = append(bad, "statement in the cache, but the request is neither re-prepared here nor moved on to the next host exactly once: "+desc)
		}
		if b, known := o.Ret.isBool(); !known || !b {
			bad = append(bad, "statement in the cache, but the reply is reported as not handled: the UNPREPARED error goes to the request and the client sees it although the proxy could re-prepare the statement: "+desc)
		}
	}
	if n == 0 {
		bad = append(bad, "no path on which the statement is found in the cache")
	}
	r.check(len(bad) == 0, rule, "ClientConn."+fn.Name(), p.Pos(fn.Pos()), fmt.Sprintf("%d cache-hit paths", n), strings.Join(dedupe(bad), " || "))
}
