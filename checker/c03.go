package main

// C03 — forwarded requests and responses are byte-transparent except for stream ids.
//
//  frame-writes     in proxy/proxycore nothing stores into a frame's body bytes or
//                   into Header.{Version,Flags,OpCode,IsResponse} of a frame that is
//                   not being built locally; StreamId is written only by the backend
//                   sender and by the reply function (C02)
//  request-frame    what a request sends to the backend is what the override decision
//                   returned for it (the received raw frame unless C12's override
//                   applies), and the sender encodes raw frames with EncodeRawFrame
//  reply-verbatim   the backend's raw reply is what is written to the client, through
//                   EncodeRawFrame
//  session-args     the backend session speaks the client's version and compression
//                   (shared with C07), so compressed bodies can pass through verbatim
//  reencode / layout the only re-encoding path keeps header and decoded body and uses
//                   codecs with the protocol layout (shared with C12/C11)

import (
	"fmt"
	"go/types"
	"strings"

	"golang.org/x/tools/go/ssa"
)

func init() { register("C03", checkC03) }

func checkC03(p *Prog, r *Report) {
	requireRecognisedDispatch(p)
	r.NotCov = append(r.NotCov,
		"the fidelity of the library's frame codecs and of the compression algorithms",
		"byte equality as such: decided are ownership (who may write frame fields) and provenance (which frame object is encoded)")
	c03FrameWrites(p, r)
	c03RequestFrame(p, r)
	c03ReplyVerbatim(p, r)
	sessionSelection(p, r, "C03.session-args")
	or := getOverrideRoles(p)
	c12Reencode(p, r, or, "C03.reencode")
	c12Guard3(p, r, or)
	codecLayouts(p, r, "C03")
	// the session a request is forwarded on is keyed by the connection's compression: that field and
	// the codec change together, and only after the STARTUP's compression was accepted
	{
		cl := p.proxyClientType()
		r.borrow("C13", "C03", func() { c13Codec(p, r, cl, p.methodOf(cl, "Receive")) })
	}
	c03FrameOwnership(p, r)
}

// c03FrameOwnership: a frame handed from one goroutine to another (a backend reply on its way to
// the client's writer, a request on its way to a backend's writer) owns its body bytes.
func c03FrameOwnership(p *Prog, r *Report) {
	const rule = "C03.frame-ownership"
	r.Rule(rule, "the body of a raw frame built by the proxy is storage of its own (what the codec read, or the body of the frame it copies): never a slice of a buffer kept in a connection or proxy object, which the next frame read on that connection overwrites while this one still waits in a writer's queue")
	var bad []string
	n := 0
	for _, fn := range p.ScopedFuncs("proxy", "proxycore", "codecs") {
		for _, lit := range structLits(fn, func(t types.Type) bool { return typeIs(t, "frame", "RawFrame") }) {
			v, ok := lit["Body"]
			if !ok {
				continue
			}
			n++
			var walk func(v ssa.Value, depth int)
			walk = func(v ssa.Value, depth int) {
				if depth > 5 {
					return
				}
				for _, o := range origins(v) {
					if sl, ok := o.(*ssa.Slice); ok {
						walk(sl.X, depth+1)
						continue
					}
					// the bytes of a buffer object kept in a field (bytes.Buffer.Bytes() and the
					// like): a view of storage that the next Reset/Write reuses
					if c, ok := o.(*ssa.Call); ok {
						if callee := c.Call.StaticCallee(); callee != nil && !p.InRepo(callee) && callee.Signature.Recv() != nil && len(c.Call.Args) > 0 {
							if _, isBytes := c.Type().Underlying().(*types.Slice); isBytes {
								if bf := baseField(c.Call.Args[0]); bf != nil {
									if fa, ok := c.Call.Args[0].(*ssa.FieldAddr); ok {
										if owner := namedOf(fa.X.Type()); owner != nil && owner.Obj().Pkg() != nil && strings.HasPrefix(owner.Obj().Pkg().Path(), modPath) {
											bad = append(bad, fmt.Sprintf("%s: %s builds a frame whose body is %s() of the buffer %s.%s: the buffer is reused for the next frame while this one may still be queued for writing (or be written again on a retry), so the bytes that leave are those of another frame", p.Pos(lit["\x00pos"].Pos()), fn.Name(), callee.Name(), owner.Obj().Name(), bf.Name()))
										}
									}
								}
							}
						}
						continue
					}
					f, base := loadedField(o)
					if f == nil || base == nil {
						continue
					}
					owner := namedOf(base.Type())
					if owner == nil {
						continue
					}
					if typeIs(owner, "frame", "RawFrame") || typeIs(owner, "frame", "Frame") || typeIs(owner, "codecs", "FrameBodyReader") {
						continue // the body of the frame being copied
					}
					if owner.Obj().Pkg() != nil && strings.HasPrefix(owner.Obj().Pkg().Path(), modPath) {
						bad = append(bad, fmt.Sprintf("%s: %s builds a frame whose body is a slice of %s.%s: that buffer is reused for the next frame while this one may still be queued for writing, so the bytes that leave are those of another frame", p.Pos(lit["\x00pos"].Pos()), fn.Name(), owner.Obj().Name(), f.Name()))
					}
				}
			}
			walk(v, 0)
		}
	}
	r.check(len(bad) == 0 && n > 0, rule, "raw frame literals", "", fmt.Sprintf("%d literal(s) with a body", n), strings.Join(dedupe(bad), " || "))
}

// the override guard is part of transparency: everything else is forwarded as received
func c12Guard3(p *Prog, r *Report, or *overrideRoles) {
	// reuse C12's rule under this property's name
	saved := len(r.Obl)
	c12Guard(p, r, or)
	for i := saved; i < len(r.Obl); i++ {
		r.Obl[i].Rule = strings.Replace(r.Obl[i].Rule, "C12.", "C03.", 1)
	}
	r.Rules["C03.override-guard"] = r.Rules["C12.override-guard"]
	delete(r.Rules, "C12.override-guard")
	for i, id := range r.ruleOrder {
		if id == "C12.override-guard" {
			r.ruleOrder[i] = "C03.override-guard"
		}
	}
}

func c03FrameWrites(p *Prog, r *Report) {
	const rule = "C03.frame-writes"
	r.Rule(rule, "no code in proxy/proxycore writes a frame's body bytes, or the version/flags/opcode/direction of a frame header it did not just allocate; stream ids are written only by the backend sender and the client reply function")
	hdr := p.Named("frame", "Header")
	var bad []string
	nStores := 0
	req := p.proxyRequestType()
	reply := replyFuncs(p, req)
	sender := p.NamedOpt("proxycore", "requestSender")
	for _, fn := range p.ScopedFuncs("proxy", "proxycore") {
		eachInstr(fn, func(in ssa.Instruction) {
			st, ok := in.(*ssa.Store)
			if !ok {
				return
			}
			switch a := st.Addr.(type) {
			case *ssa.FieldAddr:
				owner := namedOf(a.X.Type())
				f := fieldOfAddr(a)
				if owner == nil {
					return
				}
				fresh := false
				if al, ok := a.X.(*ssa.Alloc); ok && al.Parent() == fn {
					fresh = true
				}
				switch {
				case owner == hdr:
					nStores++
					if fresh {
						return
					}
					switch f.Name() {
					case "StreamId":
						if !(reply[fn] || (sender != nil && recvNamed(fn) == sender)) {
							bad = append(bad, fmt.Sprintf("%s: stream id of an existing frame written in %s", p.Pos(st.Pos()), fn.Name()))
						}
					default:
						bad = append(bad, fmt.Sprintf("%s: header field %s of an existing frame is modified in %s", p.Pos(st.Pos()), f.Name(), fn.Name()))
					}
				case typeIs(owner, "frame", "RawFrame"):
					nStores++
					if !fresh {
						bad = append(bad, fmt.Sprintf("%s: %s of an existing raw frame is replaced in %s", p.Pos(st.Pos()), f.Name(), fn.Name()))
					}
				case typeIs(owner, "frame", "Body"):
					nStores++
					if !fresh {
						bad = append(bad, fmt.Sprintf("%s: decoded body field %s is modified in %s", p.Pos(st.Pos()), f.Name(), fn.Name()))
					}
				}
			case *ssa.IndexAddr:
				// element store into bytes loaded from RawFrame.Body
				if f, base := loadedField(a.X); f != nil && f.Name() == "Body" && base != nil && typeIs(base.Type(), "frame", "RawFrame") {
					bad = append(bad, fmt.Sprintf("%s: body bytes modified in %s", p.Pos(st.Pos()), fn.Name()))
				}
			}
		})
		// copy()/append() into body bytes
		eachCall(fn, func(c ssa.CallInstruction) {
			if b, ok := c.Common().Value.(*ssa.Builtin); ok && (b.Name() == "copy" || b.Name() == "append") {
				if f, base := loadedField(c.Common().Args[0]); f != nil && f.Name() == "Body" && base != nil && typeIs(base.Type(), "frame", "RawFrame") {
					bad = append(bad, fmt.Sprintf("%s: %s into a raw frame's body in %s", p.Pos(c.Pos()), b.Name(), fn.Name()))
				}
			}
		})
	}
	r.count("frame_field_stores", nStores)
	r.check(len(bad) == 0 && nStores >= 3, rule, "proxy+proxycore", "", fmt.Sprintf("%d stores into frame structures inspected", nStores), strings.Join(dedupe(bad), " || "))
}

func c03RequestFrame(p *Prog, r *Report) {
	const rule = "C03.request-frame"
	r.Rule(rule, "the frame a request hands to the backend writer is the stored result of the override decision; raw frames are written with EncodeRawFrame (header + the body bytes as received)")
	req := p.proxyRequestType()
	frmF := requestFrameField(p, req)
	fn := p.methodOf(req, "Frame")
	var bad []string
	if fn == nil {
		fatalf("anchor: request.Frame not found")
	}
	eachInstr(fn, func(in ssa.Instruction) {
		if ret, ok := in.(*ssa.Return); ok {
			for _, o := range origins(ret.Results[0]) {
				if f, base := loadedField(o); f != frmF || base != ssa.Value(fn.Params[0]) {
					bad = append(bad, p.Pos(ret.Pos())+": Frame() returns something other than the request's stored frame")
				}
			}
		}
	})
	r.check(len(bad) == 0, rule, req.Obj().Name()+".Frame", p.Pos(fn.Pos()), "", strings.Join(bad, " || "))
	// sender: RawFrame => EncodeRawFrame on that same frame
	var sb []string
	n := 0
	for _, f := range p.ScopedFuncs("proxycore") {
		eachCall(f, func(c ssa.CallInstruction) {
			cm := c.Common()
			if !cm.IsInvoke() || (cm.Method.Name() != "EncodeFrame" && cm.Method.Name() != "EncodeRawFrame") {
				return
			}
			isRaw := typeIs(cm.Args[0].Type(), "frame", "RawFrame")
			// the encoded frame is the request's frame or a copy of it (own header, same body)
			var fromReqV func(v ssa.Value, depth int) bool
			fromReqV = func(v ssa.Value, depth int) bool {
				if depth > 4 {
					return false
				}
				for _, o := range origins(v) {
					switch x := o.(type) {
					case *ssa.Call:
						if x.Call.IsInvoke() && x.Call.Method.Name() == "Frame" {
							return true
						}
						if callee := x.Call.StaticCallee(); callee != nil && p.InRepo(callee) {
							for _, a := range x.Call.Args {
								if fromReqV(a, depth+1) {
									return true
								}
							}
						}
					case *ssa.Alloc:
						for _, ref := range *x.Referrers() {
							fa, ok := ref.(*ssa.FieldAddr)
							if !ok || fieldOfAddr(fa).Name() != "Body" {
								continue
							}
							for _, rr := range *fa.Referrers() {
								if st, ok := rr.(*ssa.Store); ok && st.Addr == ssa.Value(fa) {
									if _, base := loadedField(st.Val); base != nil && fromReqV(base, depth+1) {
										return true
									}
								}
							}
						}
					}
				}
				return false
			}
			if !fromReqV(cm.Args[0], 0) {
				return
			}
			n++
			if isRaw != (cm.Method.Name() == "EncodeRawFrame") {
				sb = append(sb, p.Pos(c.Pos())+": frame kind and encoder do not match")
			}
		})
	}
	r.check(len(sb) == 0 && n >= 2, rule, "requestSender:encode", "", fmt.Sprintf("%d encode sites", n), strings.Join(sb, " || "))
}

func c03ReplyVerbatim(p *Prog, r *Report) {
	const rule = "C03.reply-verbatim"
	r.Rule(rule, "the backend's raw reply frame is the object written to the client with EncodeRawFrame; the delivery path (OnResult -> reply) passes it on unchanged")
	req := p.proxyRequestType()
	onRes := p.methodOf(req, "OnResult")
	var bad []string
	found := false
	for fn := range replyFuncs(p, req) {
		for _, f := range withSenders(p, fn) {
			eachCall(f, func(c ssa.CallInstruction) {
				cm := c.Common()
				if cm.IsInvoke() && cm.Method.Name() == "EncodeRawFrame" {
					found = true
					// the encoded frame is the reply function's raw parameter (captured)
					okSrc := false
					for _, o := range origins(cm.Args[0]) {
						switch x := o.(type) {
						case *ssa.Parameter:
							okSrc = true
						case *ssa.FreeVar:
							_ = x
							okSrc = true
						default:
							// a field of a named sender object: what the reply function put there
							if src := senderFieldSource(fn, o); src != nil {
								if _, isPar := src.(*ssa.Parameter); isPar {
									okSrc = true
								}
							}
						}
					}
					if !okSrc {
						bad = append(bad, p.Pos(c.Pos())+": the frame written to the client is not the backend's reply frame")
					}
				}
			})
		}
	}
	if !found {
		bad = append(bad, "no reply function writes the backend's raw frame with EncodeRawFrame")
	}
	// OnResult passes its raw parameter to the raw reply function
	// (directly, or through a method of the request that passes its own parameter on)
	var passes func(fn *ssa.Function, raw ssa.Value, depth int) bool
	passes = func(fn *ssa.Function, raw ssa.Value, depth int) bool {
		ok := false
		eachCall(fn, func(c ssa.CallInstruction) {
			f := c.Common().StaticCallee()
			if f == nil {
				return
			}
			for i, a := range c.Common().Args {
				if a != raw {
					continue
				}
				if replyFuncs(p, req)[f] {
					ok = true
				} else if depth > 0 && f.Parent() == nil && recvNamed(f) == req && i < len(f.Params) && f.Blocks != nil && passes(f, f.Params[i], depth-1) {
					ok = true
				}
			}
		})
		return ok
	}
	okPass := passes(onRes, onRes.Params[1], 2)
	if !okPass {
		bad = append(bad, "OnResult does not hand the backend's frame to the reply function")
	}
	r.check(len(bad) == 0, rule, req.Obj().Name()+".OnResult->reply", p.Pos(onRes.Pos()), "", strings.Join(dedupe(bad), " || "))

	// a backend reply is either forwarded as received or retried: on the delivery path only
	// the host walk (query plan exhausted) may answer with a message built by the proxy
	rr := requestRoles(p)
	local := map[*ssa.Function]bool{}
	for fn := range replyFuncs(p, req) {
		for _, f := range withSenders(p, fn) {
			eachCall(f, func(c ssa.CallInstruction) {
				if cm := c.Common(); cm.IsInvoke() && cm.Method.Name() == "EncodeFrame" {
					local[fn] = true
				}
			})
		}
	}
	var bad2 []string
	seen := map[*ssa.Function]bool{}
	var walk func(f *ssa.Function, depth int)
	walk = func(f *ssa.Function, depth int) {
		if seen[f] || f == rr.execLoop || depth > 4 {
			return
		}
		seen[f] = true
		for _, g := range withClosures(f) {
			eachCall(g, func(c ssa.CallInstruction) {
				callee := c.Common().StaticCallee()
				if callee == nil {
					return
				}
				if local[callee] {
					bad2 = append(bad2, fmt.Sprintf("%s: %s answers the client with a message built by the proxy while delivering a backend reply: the backend's frame (flags, opcode, body) is replaced instead of being passed through", p.Pos(c.Pos()), f.Name()))
					return
				}
				if recvNamed(callee) == req {
					walk(callee, depth+1)
				}
			})
		}
	}
	walk(onRes, 0)
	r.check(len(bad2) == 0, rule, req.Obj().Name()+".OnResult:no-substitute", p.Pos(onRes.Pos()), fmt.Sprintf("%d functions on the delivery path (host walk excluded)", len(seen)), strings.Join(dedupe(bad2), " || "))
}
