package main

import (
	"go/constant"
	"go/token"
	"go/types"
	"sort"
	"strconv"
	"strings"

	"golang.org/x/tools/go/ssa"
)

// qualified name helpers --------------------------------------------------

// fnIs reports whether fn is the function/method pkgpath.name where name is
// "Func" or "(*T).M" / "(T).M" (as printed by ssa with the package path removed).
func fnIs(fn *ssa.Function, pkg, name string) bool {
	if fn == nil {
		return false
	}
	return relName(fn) == pkgPath(pkg)+"."+name || fn.String() == fullName(pkg, name)
}

func fullName(pkg, name string) string {
	pp := pkgPath(pkg)
	if strings.HasPrefix(name, "(*") {
		return "(*" + pp + "." + name[2:]
	}
	if strings.HasPrefix(name, "(") {
		return "(" + pp + "." + name[1:]
	}
	return pp + "." + name
}

func relName(fn *ssa.Function) string { return fn.String() }

// calleeIs: static callee or invoked interface method matches.
func callIsMethod(call ssa.CallInstruction, pkg, typ, method string) bool {
	c := call.Common()
	if c.IsInvoke() {
		if c.Method.Name() != method {
			return false
		}
		return recvNamedIs(c.Method, pkg, typ)
	}
	if f := c.StaticCallee(); f != nil && f.Name() == method {
		if f.Signature.Recv() != nil {
			return recvNamedIs(f.Object().(*types.Func), pkg, typ)
		}
	}
	return false
}

func recvNamedIs(m *types.Func, pkg, typ string) bool {
	sig := m.Type().(*types.Signature)
	if sig.Recv() == nil {
		return false
	}
	t := sig.Recv().Type()
	if p, ok := t.(*types.Pointer); ok {
		t = p.Elem()
	}
	n, ok := t.(*types.Named)
	if !ok {
		return false
	}
	return n.Obj().Pkg() != nil && n.Obj().Pkg().Path() == pkgPath(pkg) && canonTypeName(n) == typ
}

// staticCalleeIs matches a package-level function.
func callIsFunc(call ssa.CallInstruction, pkg, name string) bool {
	f := call.Common().StaticCallee()
	if f == nil || f.Signature.Recv() != nil {
		return false
	}
	return f.Name() == name && f.Pkg != nil && f.Pkg.Pkg.Path() == pkgPath(pkg)
}

// namedOf strips pointers and returns the named type (nil if none).
func namedOf(t types.Type) *types.Named {
	for {
		switch x := t.(type) {
		case *types.Pointer:
			t = x.Elem()
			continue
		case *types.Named:
			return x
		case *types.Alias:
			t = types.Unalias(x)
			continue
		}
		return nil
	}
}

func typeIs(t types.Type, pkg, name string) bool {
	n := namedOf(t)
	if n == nil || n.Obj().Pkg() == nil || n.Obj().Pkg().Path() != pkgPath(pkg) {
		return false
	}
	return canonTypeName(n) == name
}

// canonTypeName: the name a type of the repository is known by: its own, or the recorded name of
// the anchor type it was recognised as after a rename (anchors.go).
var canonTypeCache map[*types.TypeName]string

func canonTypeName(n *types.Named) string {
	if canonTypeCache == nil && curProg != nil {
		canonTypeCache = map[*types.TypeName]string{}
		for key := range typePrints {
			parts := strings.Split(key, ".")
			if len(parts) != 2 {
				continue
			}
			if r := curProg.NamedOpt(parts[0], parts[1]); r != nil && r.Obj().Name() != parts[1] {
				canonTypeCache[r.Obj()] = parts[1]
			}
		}
	}
	if c, ok := canonTypeCache[n.Obj()]; ok {
		return c
	}
	return n.Obj().Name()
}

// instruction walking -------------------------------------------------------

func eachInstr(fn *ssa.Function, f func(in ssa.Instruction)) {
	for _, b := range fn.Blocks {
		for _, in := range b.Instrs {
			f(in)
		}
	}
}

// withClosures returns fn and all anonymous functions nested in it.
func withClosures(fn *ssa.Function) []*ssa.Function {
	out := []*ssa.Function{fn}
	for _, a := range fn.AnonFuncs {
		out = append(out, withClosures(a)...)
	}
	return out
}

func eachCall(fn *ssa.Function, f func(call ssa.CallInstruction)) {
	eachInstr(fn, func(in ssa.Instruction) {
		if c, ok := in.(ssa.CallInstruction); ok {
			f(c)
		}
	})
}

// rootFn returns the outermost enclosing function.
func rootFn(fn *ssa.Function) *ssa.Function {
	for fn.Parent() != nil {
		fn = fn.Parent()
	}
	return fn
}

// dominance guards ----------------------------------------------------------

// guardedBy reports whether block blk is only reachable through the edge of an
// If on cond (modulo '!') with the given truth.
func guardedBy(blk *ssa.BasicBlock, cond ssa.Value, truth bool) bool {
	fn := blk.Parent()
	for _, b := range fn.Blocks {
		ifi, ok := lastIf(b)
		if !ok {
			continue
		}
		c, neg := stripNot(ifi.Cond)
		if c != cond {
			continue
		}
		want := truth != neg
		succ := b.Succs[0]
		if !want {
			succ = b.Succs[1]
		}
		if len(succ.Preds) == 1 && succ.Dominates(blk) {
			return true
		}
	}
	return false
}

func lastIf(b *ssa.BasicBlock) (*ssa.If, bool) {
	if len(b.Instrs) == 0 {
		return nil, false
	}
	i, ok := b.Instrs[len(b.Instrs)-1].(*ssa.If)
	return i, ok
}

func stripNot(v ssa.Value) (ssa.Value, bool) {
	neg := false
	for {
		u, ok := v.(*ssa.UnOp)
		if !ok || u.Op != token.NOT {
			return v, neg
		}
		v = u.X
		neg = !neg
	}
}

// branchConds returns, for block blk, the list of (cond, truth) pairs of If
// edges that dominate it (conditions that must have held to reach blk).
type condTruth struct {
	Cond  ssa.Value
	Truth bool
}

func dominatingConds(blk *ssa.BasicBlock) []condTruth {
	var out []condTruth
	fn := blk.Parent()
	for _, b := range fn.Blocks {
		ifi, ok := lastIf(b)
		if !ok {
			continue
		}
		for k, succ := range b.Succs {
			if b.Succs[0] == b.Succs[1] {
				continue
			}
			if len(succ.Preds) == 1 && succ.Dominates(blk) {
				c, neg := stripNot(ifi.Cond)
				out = append(out, condTruth{c, (k == 0) != neg})
				// inside a range loop over filter(xs, pred): pred holds for the current element
				if (k == 0) != neg {
					out = append(out, filterPredConds(c)...)
				}
			}
		}
	}
	return out
}

// filterPredConds: cond is the test `i < len(ys)` of a range loop where ys is the result of a
// filtering helper (filterShape) applied to a predicate that is a func literal with a single
// return: what the predicate returns holds for every element the loop sees.
func filterPredConds(cond ssa.Value) []condTruth {
	if curProg == nil {
		return nil
	}
	bo, ok := cond.(*ssa.BinOp)
	if !ok || bo.Op != token.LSS {
		return nil
	}
	lc, ok := bo.Y.(*ssa.Call)
	if !ok {
		return nil
	}
	if b, ok := lc.Call.Value.(*ssa.Builtin); !ok || b.Name() != "len" || len(lc.Call.Args) != 1 {
		return nil
	}
	fc, ok := lc.Call.Args[0].(*ssa.Call)
	if !ok || !curProg.filterShape(fc.Call.StaticCallee()) {
		return nil
	}
	return predReturnConds(curProg, fc.Call.Args[1])
}

// predReturnConds: the predicate is a func literal with a single return: its returned value.
func predReturnConds(p *Prog, pred ssa.Value) []condTruth {
	preds := p.funcValueTargets(pred, 1)
	if len(preds) != 1 || preds[0].Blocks == nil {
		return nil
	}
	var out []condTruth
	n := 0
	eachInstr(preds[0], func(in ssa.Instruction) {
		if ret, ok := in.(*ssa.Return); ok && len(ret.Results) == 1 {
			n++
			c, neg := stripNot(ret.Results[0])
			out = append(out, condTruth{c, !neg})
		}
	})
	if n != 1 {
		return nil
	}
	return out
}

// filterShape: fn(xs, pred) returns the elements of xs for which pred holds, in order: the result
// only grows by appending the current element of a range over xs under pred(element), and is
// returned after the loop.  (Generic or not; recognised from the body.)
var filterShapeCache = map[*ssa.Function]bool{}

func (p *Prog) filterShape(fn *ssa.Function) bool {
	if fn == nil {
		return false
	}
	if v, ok := filterShapeCache[fn]; ok {
		return v
	}
	v := p.filterShape1(fn)
	filterShapeCache[fn] = v
	return v
}

func (p *Prog) filterShape1(fn *ssa.Function) bool {
	if !p.InRepo(fn) || fn.Blocks == nil || len(fn.Params) != 2 || fn.Signature.Recv() != nil || fn.Signature.Results().Len() != 1 {
		return false
	}
	if _, ok := fn.Params[0].Type().Underlying().(*types.Slice); !ok {
		return false
	}
	if !types.Identical(fn.Signature.Results().At(0).Type(), fn.Params[0].Type()) {
		return false
	}
	if _, ok := fn.Params[1].Type().Underlying().(*types.Signature); !ok {
		return false
	}
	isElem := func(v ssa.Value) bool {
		ld, ok := v.(*ssa.UnOp)
		if !ok || ld.Op != token.MUL {
			return false
		}
		ia, ok := ld.X.(*ssa.IndexAddr)
		return ok && ia.X == ssa.Value(fn.Params[0])
	}
	appends := map[ssa.Value]bool{}
	ok := true
	eachInstr(fn, func(in ssa.Instruction) {
		c, isCall := in.(*ssa.Call)
		if !isCall {
			return
		}
		if b, isB := c.Call.Value.(*ssa.Builtin); isB {
			if b.Name() != "append" {
				return
			}
			// append(acc, elem) under pred(elem)
			guarded := false
			for _, ct := range dominatingCondsPlain(c.Block()) {
				pc, isPc := ct.Cond.(*ssa.Call)
				if isPc && ct.Truth && pc.Call.Value == ssa.Value(fn.Params[1]) && len(pc.Call.Args) == 1 && isElem(pc.Call.Args[0]) {
					guarded = true
				}
			}
			one := false
			if sl, isSl := c.Call.Args[1].(*ssa.Slice); isSl {
				if al, isAl := sl.X.(*ssa.Alloc); isAl {
					n := 0
					for _, ref := range *al.Referrers() {
						if ia, isIa := ref.(*ssa.IndexAddr); isIa {
							for _, r2 := range *ia.Referrers() {
								if st, isSt := r2.(*ssa.Store); isSt && st.Addr == ssa.Value(ia) {
									n++
									if !isElem(st.Val) {
										n = -100
									}
								}
							}
						}
					}
					one = n == 1
				}
			}
			if !guarded || !one {
				ok = false
			}
			appends[c] = true
			return
		}
		if c.Call.Value != ssa.Value(fn.Params[1]) {
			ok = false // anything else the helper calls
		}
	})
	if !ok || len(appends) != 1 {
		return false
	}
	nret := 0
	eachInstr(fn, func(in ssa.Instruction) {
		ret, isRet := in.(*ssa.Return)
		if !isRet {
			return
		}
		nret++
		if loopDepthOf(ret.Block()) > 0 {
			ok = false
		}
		for _, o := range origins(ret.Results[0]) {
			if k, isK := o.(*ssa.Const); isK && k.Value == nil {
				continue
			}
			if !appends[o] {
				ok = false
			}
		}
	})
	return ok && nret == 1
}

// dominatingCondsPlain: the function's own dominating branch conditions.
func dominatingCondsPlain(blk *ssa.BasicBlock) []condTruth {
	var out []condTruth
	fn := blk.Parent()
	for _, b := range fn.Blocks {
		ifi, ok := lastIf(b)
		if !ok {
			continue
		}
		for k, succ := range b.Succs {
			if b.Succs[0] == b.Succs[1] {
				continue
			}
			if len(succ.Preds) == 1 && succ.Dominates(blk) {
				c, neg := stripNot(ifi.Cond)
				out = append(out, condTruth{c, (k == 0) != neg})
			}
		}
	}
	return out
}

// impliedCond is a condition known to hold at a block: one of the function's own dominating
// branch conditions (Subst nil), or a condition inside a boolean helper ("predicate") that holds
// whenever the helper returned true, with Subst mapping the helper's parameters to the arguments
// of the dominating call.
type impliedCond struct {
	Cond  ssa.Value
	Truth bool
	Subst map[ssa.Value]ssa.Value
}

func (ic impliedCond) resolve(v ssa.Value) ssa.Value {
	if ic.Subst != nil {
		if a, ok := ic.Subst[v]; ok {
			return a
		}
	}
	return v
}

// impliedConds: dominatingConds plus what dominating `if pred(x)` calls of repo predicates imply.
func impliedConds(blk *ssa.BasicBlock) []impliedCond {
	var out []impliedCond
	for _, ct := range dominatingConds(blk) {
		out = append(out, impliedCond{ct.Cond, ct.Truth, nil})
		call, ok := ct.Cond.(*ssa.Call)
		if !ok || !ct.Truth {
			continue
		}
		callee := call.Call.StaticCallee()
		if callee == nil || callee.Blocks == nil || curProg == nil || !curProg.InRepo(callee) {
			continue
		}
		facts := predicateFacts(callee)
		if len(facts) == 0 {
			continue
		}
		sub := map[ssa.Value]ssa.Value{}
		for i, par := range callee.Params {
			if i < len(call.Call.Args) {
				sub[par] = call.Call.Args[i]
			}
		}
		for _, f := range facts {
			out = append(out, impliedCond{f.Cond, f.Truth, sub})
		}
	}
	return out
}

var predicateFactsCache = map[*ssa.Function][]condTruth{}

// predicateFacts: branch conditions (over fn's own values) that hold on every path on which the
// one-result boolean function fn returns true.
func predicateFacts(fn *ssa.Function) []condTruth {
	if f, ok := predicateFactsCache[fn]; ok {
		return f
	}
	predicateFactsCache[fn] = nil
	res := fn.Signature.Results()
	if res.Len() != 1 {
		return nil
	}
	if b, ok := res.At(0).Type().Underlying().(*types.Basic); !ok || b.Kind() != types.Bool {
		return nil
	}
	type set = map[condTruth]bool
	inter := func(a, b set) set {
		if a == nil {
			return b
		}
		o := set{}
		for k := range a {
			if b[k] {
				o[k] = true
			}
		}
		return o
	}
	var factsTrue func(v ssa.Value, at *ssa.BasicBlock, depth int) (set, bool)
	factsTrue = func(v ssa.Value, at *ssa.BasicBlock, depth int) (set, bool) {
		base := set{}
		for _, ct := range dominatingConds(at) {
			base[ct] = true
		}
		if depth > 6 {
			return base, true
		}
		switch x := v.(type) {
		case *ssa.Const:
			if x.Value != nil && !constant.BoolVal(x.Value) {
				return nil, false // this path does not return true
			}
			return base, true
		case *ssa.Phi:
			var acc set
			any := false
			for i, e := range x.Edges {
				s, ok := factsTrue(e, x.Block().Preds[i], depth+1)
				if !ok {
					continue
				}
				any = true
				acc = inter(acc, s)
			}
			if !any {
				return nil, false
			}
			for k := range base {
				acc[k] = true
			}
			return acc, true
		case *ssa.UnOp:
			if x.Op == token.NOT {
				base[condTruth{x.X, false}] = true
				return base, true
			}
		case *ssa.BinOp, *ssa.Call:
			base[condTruth{v, true}] = true
			return base, true
		}
		return base, true
	}
	var acc set
	any := false
	eachInstr(fn, func(in ssa.Instruction) {
		ret, ok := in.(*ssa.Return)
		if !ok || len(ret.Results) != 1 {
			return
		}
		s, ok := factsTrue(ret.Results[0], ret.Block(), 0)
		if !ok {
			return
		}
		any = true
		acc = inter(acc, s)
	})
	if !any {
		return nil
	}
	var out []condTruth
	for k := range acc {
		out = append(out, k)
	}
	sort.Slice(out, func(i, j int) bool {
		if out[i].Cond.Pos() != out[j].Cond.Pos() {
			return out[i].Cond.Pos() < out[j].Cond.Pos()
		}
		return out[i].Cond.Name() < out[j].Cond.Name()
	})
	predicateFactsCache[fn] = out
	return out
}

// value provenance ------------------------------------------------------------

// origins follows phi/convert/changetype/makeinterface/typeassert chains and
// returns the set of root values v can derive from.
func origins(v ssa.Value) []ssa.Value {
	seen := map[ssa.Value]bool{}
	var out []ssa.Value
	var walk func(v ssa.Value)
	walk = func(v ssa.Value) {
		if v == nil || seen[v] {
			return
		}
		seen[v] = true
		switch x := v.(type) {
		case *ssa.Phi:
			for _, e := range x.Edges {
				walk(e)
			}
		case *ssa.ChangeType:
			walk(x.X)
		case *ssa.ChangeInterface:
			walk(x.X)
		case *ssa.Convert:
			walk(x.X)
		case *ssa.MakeInterface:
			walk(x.X)
		case *ssa.TypeAssert:
			walk(x.X)
		case *ssa.UnOp:
			// load of a local that is only stored to directly (defer-spilled results, captured locals):
			// flow-insensitive union of the stored values
			if al, ok := x.X.(*ssa.Alloc); ok && x.Op == token.MUL && allocTrackable(al) {
				n := 0
				for _, r := range *al.Referrers() {
					if st, ok := r.(*ssa.Store); ok && st.Addr == al {
						walk(st.Val)
						n++
					}
				}
				if n == 0 {
					out = append(out, v)
				}
			} else if fv, ok := x.X.(*ssa.FreeVar); ok && x.Op == token.MUL {
				out = append(out, fv) // captured variable of the enclosing function
			} else {
				out = append(out, v)
			}
		case *ssa.Extract:
			if ta, ok := x.Tuple.(*ssa.TypeAssert); ok && x.Index == 0 {
				walk(ta.X)
			} else {
				out = append(out, v)
			}
		default:
			out = append(out, v)
		}
	}
	walk(v)
	return out
}

// loadOfField: if v is a load (*addr) of a FieldAddr, or a Field of a struct value,
// returns the field.
func loadedField(v ssa.Value) (*types.Var, ssa.Value) {
	switch x := v.(type) {
	case *ssa.UnOp:
		if x.Op == token.MUL {
			if fa, ok := x.X.(*ssa.FieldAddr); ok {
				return fieldOfAddr(fa), fa.X
			}
		}
	case *ssa.Field:
		return fieldOfVal(x), x.X
	}
	return nil, nil
}

// fieldStep is loadedField extended with address chains (&a.b.c without loads in between).
func fieldStep(v ssa.Value) (*types.Var, ssa.Value) {
	if f, b := loadedField(v); f != nil {
		return f, b
	}
	if fa, ok := v.(*ssa.FieldAddr); ok {
		return fieldOfAddr(fa), fa.X
	}
	return nil, nil
}

// fieldPath renders the chain of field loads v derives from, e.g. "raw.Header.Version".
func fieldPath(v ssa.Value) string {
	var parts []string
	for i := 0; i < 8; i++ {
		f, base := fieldStep(v)
		if f == nil {
			break
		}
		parts = append([]string{canonFieldName(f)}, parts...)
		v = base
	}
	root := "?"
	switch x := v.(type) {
	case *ssa.Parameter:
		root = x.Name()
	case *ssa.FreeVar:
		root = x.Name()
	case *ssa.Global:
		root = x.Name()
	case *ssa.Extract:
		if c, ok := x.Tuple.(*ssa.Call); ok {
			root = callDesc(c) + "#" + string(rune('0'+x.Index))
		}
	case *ssa.Call:
		root = callDesc(x)
	case *ssa.Alloc:
		root = "local"
		if x.Comment != "" && x.Comment != "complit" {
			root = x.Comment // the source variable (value parameters are spilled to a local of the same name)
		}
	case *ssa.Phi:
		root = "phi"
	}
	return strings.Join(append([]string{root}, parts...), ".")
}

// field access inventory ------------------------------------------------------

type fieldAccess struct {
	Fn    *ssa.Function
	Instr ssa.Instruction
	Write bool
	Kind  string // store | load | mapupdate | delete | elemstore | maplookup | range | len | append-alias ...
	Base  ssa.Value
}

// fieldAccesses lists every access to field f in the given functions.  For
// map/slice-typed fields the uses of the loaded value are classified too.
func fieldAccesses(fns []*ssa.Function, f *types.Var) []fieldAccess {
	out := fieldAccesses1(fns, f)
	for i := range out {
		out[i].Base = deSpill(out[i].Base)
	}
	return out
}

// deSpill: a parameter that is captured by a closure lives in a local the compiler's intermediate
// form loads it from; the loaded value is the parameter (when nothing else is stored there).
func deSpill(v ssa.Value) ssa.Value {
	ld, ok := v.(*ssa.UnOp)
	if !ok || ld.Op != token.MUL {
		return v
	}
	al, ok := ld.X.(*ssa.Alloc)
	if !ok {
		return v
	}
	var par *ssa.Parameter
	for _, ref := range *al.Referrers() {
		switch r := ref.(type) {
		case *ssa.Store:
			if r.Addr != ssa.Value(al) {
				return v
			}
			q, isPar := r.Val.(*ssa.Parameter)
			if !isPar || (par != nil && par != q) {
				return v
			}
			par = q
		case *ssa.MakeClosure:
			// captured: the closures must not store to it
			if cf, ok := r.Fn.(*ssa.Function); ok {
				for i, b := range r.Bindings {
					if b != ssa.Value(al) || i >= len(cf.FreeVars) {
						continue
					}
					for _, fr := range *cf.FreeVars[i].Referrers() {
						if st, ok := fr.(*ssa.Store); ok && st.Addr == ssa.Value(cf.FreeVars[i]) {
							return v
						}
					}
				}
			}
		case *ssa.UnOp, *ssa.DebugRef:
		default:
			return v
		}
	}
	if par == nil {
		return v
	}
	return par
}

func fieldAccesses1(fns []*ssa.Function, f *types.Var) []fieldAccess {
	var out []fieldAccess
	for _, fn := range fns {
		eachInstr(fn, func(in ssa.Instruction) {
			switch x := in.(type) {
			case *ssa.FieldAddr:
				if fieldOfAddr(x) != f {
					return
				}
				for _, r := range *x.Referrers() {
					switch u := r.(type) {
					case *ssa.Store:
						if u.Addr == x {
							out = append(out, fieldAccess{fn, u, true, "store", x.X})
						} else {
							out = append(out, fieldAccess{fn, u, false, "addr-escapes", x.X})
						}
					case *ssa.UnOp:
						if u.Op == token.MUL {
							out = append(out, classifyLoadUses(fn, u, x.X)...)
						}
					case *ssa.DebugRef:
					case *ssa.Call:
						// address passed to a call (e.g. atomic op, method with pointer receiver)
						out = append(out, fieldAccess{fn, u, false, "addr-call", x.X})
					default:
						out = append(out, fieldAccess{fn, r, false, "addr-other", x.X})
					}
				}
			case *ssa.Field:
				if fieldOfVal(x) == f {
					out = append(out, fieldAccess{fn, x, false, "load", x.X})
				}
			}
		})
	}
	return out
}

func classifyLoadUses(fn *ssa.Function, load *ssa.UnOp, base ssa.Value) []fieldAccess {
	out := []fieldAccess{{fn, load, false, "load", base}}
	for _, r := range *load.Referrers() {
		switch u := r.(type) {
		case *ssa.MapUpdate:
			if u.Map == load {
				out = append(out, fieldAccess{fn, u, true, "mapupdate", base})
			}
		case *ssa.Call:
			if b, ok := u.Call.Value.(*ssa.Builtin); ok && b.Name() == "delete" && len(u.Call.Args) > 0 && u.Call.Args[0] == load {
				out = append(out, fieldAccess{fn, u, true, "delete", base})
			}
		case *ssa.IndexAddr:
			if u.X == load {
				for _, rr := range *u.Referrers() {
					if st, ok := rr.(*ssa.Store); ok && st.Addr == u {
						out = append(out, fieldAccess{fn, st, true, "elemstore", base})
					}
				}
			}
		}
	}
	return out
}

// misc ----------------------------------------------------------------------

func sortedKeys(m map[string]bool) []string {
	var ks []string
	for k := range m {
		ks = append(ks, k)
	}
	sort.Strings(ks)
	return ks
}

func constStr(v ssa.Value) (string, bool) {
	c, ok := v.(*ssa.Const)
	if !ok || c.Value == nil {
		return "", false
	}
	if b, ok := c.Type().Underlying().(*types.Basic); ok && b.Info()&types.IsString != 0 {
		return constantString(c), true
	}
	return "", false
}

func constantString(c *ssa.Const) string {
	s := c.Value.ExactString()
	if len(s) >= 2 && s[0] == '"' {
		// go/constant quotes strings
		if u, err := strconv.Unquote(s); err == nil {
			return u
		}
	}
	return s
}

func constInt(v ssa.Value) (int64, bool) {
	c, ok := v.(*ssa.Const)
	if !ok || c.Value == nil {
		return 0, false
	}
	if b, ok := c.Type().Underlying().(*types.Basic); ok && b.Info()&types.IsInteger != 0 {
		return c.Int64(), true
	}
	return 0, false
}

// interprocedural helpers ------------------------------------------------------
//
// Behaviour-preserving refactorings move code into helpers.  Rules that ask
// "is this instruction only reached under guard G" or "does this function do X"
// therefore look through statically called, same-package helpers.

var callSiteCache = map[*Prog]map[*ssa.Function][]ssa.CallInstruction{}
var valueUseCache = map[*Prog]map[*ssa.Function]bool{}

func (p *Prog) indexCalls() {
	if _, ok := callSiteCache[p]; ok {
		return
	}
	sites := map[*ssa.Function][]ssa.CallInstruction{}
	asValue := map[*ssa.Function]bool{}
	for fn := range p.Funcs {
		if !p.InRepo(fn) || fn.Blocks == nil {
			continue
		}
		eachInstr(fn, func(in ssa.Instruction) {
			if c, ok := in.(ssa.CallInstruction); ok {
				if callee := c.Common().StaticCallee(); callee != nil && c.Common().Value == ssa.Value(callee) {
					if _, isGo := in.(*ssa.Go); isGo {
						asValue[callee] = true
					} else {
						sites[callee] = append(sites[callee], c)
					}
				}
			}
			for _, op := range in.Operands(nil) {
				if g, ok := (*op).(*ssa.Function); ok {
					if c, ok := in.(ssa.CallInstruction); ok && c.Common().Value == ssa.Value(g) {
						continue
					}
					asValue[g] = true
				}
			}
		})
	}
	callSiteCache[p] = sites
	valueUseCache[p] = asValue
}

// staticCallSites returns the static call sites of fn and whether those are all its uses
// (not exported, never used as a value, not a method that satisfies an interface dynamically).
func (p *Prog) staticCallSites(fn *ssa.Function) ([]ssa.CallInstruction, bool) {
	p.indexCalls()
	only := !valueUseCache[p][fn] && fn.Parent() == nil
	if obj, ok := fn.Object().(*types.Func); ok && obj.Exported() {
		only = false
	}
	// dynamic callers through interfaces
	if n := p.CG.Nodes[fn]; n != nil {
		for _, e := range n.In {
			if e.Site != nil && e.Site.Common().StaticCallee() != fn {
				only = false
			}
		}
	}
	return callSiteCache[p][fn], only
}

// guardHolds reports whether pred holds for a condition dominating blk, or, when blk's
// function is a helper with only static call sites, at every one of those call sites.
func guardHolds(p *Prog, blk *ssa.BasicBlock, pred func(condTruth) bool, depth int) bool {
	for _, ct := range dominatingConds(blk) {
		if pred(ct) {
			return true
		}
	}
	if depth <= 0 {
		return false
	}
	fn := blk.Parent()
	if fn.Parent() != nil {
		// a closure: the guard may dominate the point where the closure is created
		okAll := false
		eachInstr(fn.Parent(), func(in ssa.Instruction) {
			if mc, ok := in.(*ssa.MakeClosure); ok && mc.Fn == ssa.Value(fn) {
				okAll = guardHolds(p, mc.Block(), pred, depth-1)
			}
		})
		return okAll
	}
	sites, only := p.staticCallSites(fn)
	if !only || len(sites) == 0 {
		return false
	}
	for _, s := range sites {
		if !guardHolds(p, s.Block(), pred, depth-1) {
			return false
		}
	}
	return true
}

// withCallees returns fn, its closures, and the same-package repo functions it
// statically calls (transitively up to depth).
func withCallees(p *Prog, fn *ssa.Function, depth int) []*ssa.Function {
	seen := map[*ssa.Function]bool{}
	var out []*ssa.Function
	var walk func(f *ssa.Function, d int)
	walk = func(f *ssa.Function, d int) {
		if f == nil || seen[f] || f.Blocks == nil {
			return
		}
		seen[f] = true
		out = append(out, f)
		for _, a := range f.AnonFuncs {
			walk(a, d)
		}
		if d <= 0 {
			return
		}
		eachCall(f, func(c ssa.CallInstruction) {
			callee := c.Common().StaticCallee()
			if callee != nil && p.InRepo(callee) && pkgOfFn(callee) != nil && pkgOfFn(callee) == pkgOfFn(rootFn(fn)) {
				walk(callee, d-1)
			}
		})
	}
	walk(fn, depth)
	return out
}

// onlyCalledFrom reports whether fn is root itself or a helper reached only by static calls
// that all originate (transitively) in root.
func onlyCalledFrom(p *Prog, fn, root *ssa.Function, depth int) bool {
	if fn == root {
		return true
	}
	if fn.Parent() != nil {
		return onlyCalledFrom(p, fn.Parent(), root, depth)
	}
	if depth <= 0 {
		return false
	}
	sites, only := p.staticCallSites(fn)
	if !only || len(sites) == 0 {
		return false
	}
	for _, s := range sites {
		if !onlyCalledFrom(p, s.Parent(), root, depth-1) {
			return false
		}
	}
	return true
}

// sameGlobal compares package-level variables by package path and name: with test
// variants loaded a package exists twice and its globals are distinct objects.
func sameGlobal(v ssa.Value, g *ssa.Global) bool {
	x, ok := v.(*ssa.Global)
	if !ok {
		return false
	}
	if x == g {
		return true
	}
	return x.Name() == g.Name() && x.Pkg != nil && g.Pkg != nil && x.Pkg.Pkg.Path() == g.Pkg.Pkg.Path()
}

// withSenders returns fn, its closures and the Send methods of the concrete sender objects
// that fn hands to a connection's Write: what a reply function writes is decided in that
// code, whether it is a func literal converted to SenderFunc or a named sender type.
func withSenders(p *Prog, fn *ssa.Function) []*ssa.Function {
	out := withClosures(fn)
	seen := map[*ssa.Function]bool{}
	for _, f := range out {
		seen[f] = true
	}
	for _, f := range withClosures(fn) {
		eachCall(f, func(c ssa.CallInstruction) {
			if !isConnWrite(c) || len(c.Common().Args) < 2 {
				return
			}
			for _, o := range origins(c.Common().Args[1]) {
				t := o.Type()
				if mi, ok := o.(*ssa.MakeInterface); ok {
					t = mi.X.Type()
				}
				if _, isIface := t.Underlying().(*types.Interface); isIface {
					continue
				}
				ms := p.SSA.MethodSets.MethodSet(t)
				for i := 0; i < ms.Len(); i++ {
					sel := ms.At(i)
					if sel.Obj().Name() != "Send" {
						continue
					}
					m := p.SSA.MethodValue(sel)
					if m == nil || !p.InRepo(m) {
						continue
					}
					// synthetic wrappers (pointer receiver for a value method) delegate to the declared method
					if m.Synthetic != "" {
						eachCall(m, func(cc ssa.CallInstruction) {
							if callee := cc.Common().StaticCallee(); callee != nil && callee.Name() == "Send" && p.InRepo(callee) {
								m = callee
							}
						})
					}
					for _, g := range withClosures(m) {
						if !seen[g] {
							seen[g] = true
							out = append(out, g)
						}
					}
				}
			}
		})
	}
	return out
}

// senderFieldSource maps a value read inside a sender type's Send method from a field of the
// sender object to the value that the reply function stored into that field when it built
// the object (nil when v is not such a read).
func senderFieldSource(replyFn *ssa.Function, v ssa.Value) ssa.Value {
	f, base := loadedField(v)
	if f == nil || base == nil {
		return nil
	}
	// base: the Send method's receiver (value receivers are spilled to a local)
	isRecv := false
	for _, o := range origins(base) {
		switch x := o.(type) {
		case *ssa.Parameter:
			if len(x.Parent().Params) > 0 && x.Parent().Params[0] == x {
				isRecv = true
			}
		case *ssa.Alloc:
			if x.Comment != "" && len(x.Parent().Params) > 0 && x.Comment == x.Parent().Params[0].Name() {
				isRecv = true
			}
		}
	}
	if !isRecv {
		return nil
	}
	owner := namedOf(base.Type())
	if owner == nil {
		return nil
	}
	for _, lit := range structLits(replyFn, func(t types.Type) bool { return namedOf(t) == owner }) {
		if val, ok := lit[f.Name()]; ok {
			return val
		}
	}
	return nil
}

// originsInter is origins() that also steps from a parameter of a private helper (a function
// with only static call sites) to the arguments passed at those sites.
func originsInter(p *Prog, v ssa.Value, depth int) []ssa.Value {
	var out []ssa.Value
	for _, o := range origins(v) {
		par, ok := o.(*ssa.Parameter)
		if !ok || depth == 0 {
			out = append(out, o)
			continue
		}
		fn := par.Parent()
		idx := -1
		for i, q := range fn.Params {
			if q == par {
				idx = i
			}
		}
		sites, only := p.staticCallSites(fn)
		if idx < 0 || !only || len(sites) == 0 {
			out = append(out, o)
			continue
		}
		for _, cs := range sites {
			args := cs.Common().Args
			if idx < len(args) {
				out = append(out, originsInter(p, args[idx], depth-1)...)
			}
		}
	}
	return out
}

// Range callbacks: the function that runs for each entry of a sync.Map.Range call, whether it is
// a func literal or a (bound) method value; and the reverse index.
func rangeCallbackFn(p *Prog, call ssa.CallInstruction) *ssa.Function {
	args := call.Common().Args
	if len(args) < 2 {
		return nil
	}
	return callbackFnOf(p, args[1])
}

// callbackFnOf: the repo function a function value stands for: a func literal, a named function
// or a (bound) method value.
func callbackFnOf(p *Prog, v ssa.Value) *ssa.Function {
	for _, o := range origins(v) {
		var fn *ssa.Function
		switch x := o.(type) {
		case *ssa.MakeClosure:
			fn, _ = x.Fn.(*ssa.Function)
		case *ssa.Function:
			fn = x
		}
		if fn == nil {
			continue
		}
		if fn.Synthetic != "" {
			// bound method wrapper / thunk: the method it forwards to
			var target *ssa.Function
			eachCall(fn, func(c ssa.CallInstruction) {
				if callee := c.Common().StaticCallee(); callee != nil && p.InRepo(callee) {
					target = callee
				}
			})
			if target != nil {
				return target
			}
		}
		return fn
	}
	return nil
}

var rangeIndexCache = map[*Prog]map[*ssa.Function][]ssa.CallInstruction{}

// rangeCallsOf returns the sync.Map.Range calls for which fn is the per-entry callback.
func rangeCallsOf(p *Prog, fn *ssa.Function) []ssa.CallInstruction {
	idx, ok := rangeIndexCache[p]
	if !ok {
		idx = map[*ssa.Function][]ssa.CallInstruction{}
		for f := range p.Funcs {
			if !p.InRepo(f) || f.Blocks == nil {
				continue
			}
			eachCall(f, func(c ssa.CallInstruction) {
				if callIsMethod(c, "sync", "Map", "Range") {
					if cb := rangeCallbackFn(p, c); cb != nil {
						idx[cb] = append(idx[cb], c)
					}
				}
			})
		}
		rangeIndexCache[p] = idx
	}
	return idx[fn]
}

// libDecodeKind: the call decodes a frame body with the library: the invoke itself
// (DecodeBody / ConvertFromRawFrame / DecodeFrame on a frame codec) or a small repo wrapper around
// it (same results, e.g. one that adds a recover).  Returns the method name, "" otherwise.
func libDecodeKind(p *Prog, call ssa.CallInstruction) string {
	isLib := func(c ssa.CallInstruction) string {
		cm := c.Common()
		if !cm.IsInvoke() {
			return ""
		}
		switch cm.Method.Name() {
		case "DecodeBody", "ConvertFromRawFrame", "DecodeFrame":
			if n := namedOf(cm.Value.Type()); n != nil && n.Obj().Pkg() != nil && strings.HasSuffix(n.Obj().Pkg().Path(), "/frame") {
				return cm.Method.Name()
			}
		}
		return ""
	}
	if k := isLib(call); k != "" {
		return k
	}
	callee := call.Common().StaticCallee()
	if callee == nil || callee.Blocks == nil || !p.InRepo(callee) || callee.Signature.Results().Len() != 2 {
		return ""
	}
	kind := ""
	n := 0
	eachCall(callee, func(c ssa.CallInstruction) {
		if k := isLib(c); k != "" {
			kind = k
			n++
		}
	})
	if n != 1 {
		return ""
	}
	return kind
}

// reachingStore: for a load of a local that is assigned several times (a captured variable, a
// named result), the one store whose value the load sees: the latest store that dominates the
// load, provided no other store can run between the two.  nil when that cannot be established.
func reachingStore(ld *ssa.UnOp) *ssa.Store {
	al, ok := ld.X.(*ssa.Alloc)
	if !ok || ld.Op != token.MUL {
		return nil
	}
	var stores []*ssa.Store
	for _, ref := range *al.Referrers() {
		if st, ok := ref.(*ssa.Store); ok && st.Addr == ssa.Value(al) {
			stores = append(stores, st)
		}
	}
	idxIn := func(in ssa.Instruction) int {
		for i, x := range in.Block().Instrs {
			if x == in {
				return i
			}
		}
		return -1
	}
	before := func(a, b ssa.Instruction) bool { // a executes before b on every path to b
		if a.Block() == b.Block() {
			return idxIn(a) < idxIn(b)
		}
		return a.Block().Dominates(b.Block())
	}
	var cands []*ssa.Store
	for _, st := range stores {
		if before(st, ld) {
			cands = append(cands, st)
		}
	}
	var last *ssa.Store
	for _, c := range cands {
		isLast := true
		for _, o := range cands {
			if o != c && !before(o, c) {
				isLast = false
			}
		}
		if isLast {
			last = c
		}
	}
	if last == nil {
		return nil
	}
	reach := func(from, to *ssa.BasicBlock) bool {
		seen := map[*ssa.BasicBlock]bool{}
		stack := []*ssa.BasicBlock{from}
		for len(stack) > 0 {
			b := stack[len(stack)-1]
			stack = stack[:len(stack)-1]
			if b == to {
				return true
			}
			if seen[b] {
				continue
			}
			seen[b] = true
			stack = append(stack, b.Succs...)
		}
		return false
	}
	for _, o := range stores {
		if o == last || before(o, last) {
			continue
		}
		if reach(last.Block(), o.Block()) && reach(o.Block(), ld.Block()) {
			return nil
		}
	}
	return last
}

// zeroAtLoad: the load of a local reads its zero value: no store to the local can run before it.
func zeroAtLoad(ld *ssa.UnOp) bool {
	al, ok := ld.X.(*ssa.Alloc)
	if !ok || ld.Op != token.MUL {
		return false
	}
	reach := func(from, to *ssa.BasicBlock) bool {
		seen := map[*ssa.BasicBlock]bool{}
		stack := []*ssa.BasicBlock{from}
		for len(stack) > 0 {
			b := stack[len(stack)-1]
			stack = stack[:len(stack)-1]
			if b == to {
				return true
			}
			if seen[b] {
				continue
			}
			seen[b] = true
			stack = append(stack, b.Succs...)
		}
		return false
	}
	for _, ref := range *al.Referrers() {
		switch x := ref.(type) {
		case *ssa.Store:
			if x.Addr != ssa.Value(al) {
				return false
			}
			if x.Block() == ld.Block() {
				for _, in := range x.Block().Instrs {
					if in == ssa.Instruction(x) {
						return false // the store comes first in the block
					}
					if in == ssa.Instruction(ld) {
						break
					}
				}
				// the load comes first; a loop could still bring the store before it
				if reach(x.Block().Succs[0], ld.Block()) {
					return false
				}
				continue
			}
			if reach(x.Block(), ld.Block()) {
				return false
			}
		case *ssa.UnOp, *ssa.DebugRef, *ssa.MakeClosure:
		default:
			return false
		}
	}
	return true
}

// anyOfKind: fn is a membership helper over its first parameter, a slice: "eq" when it reports
// whether the second parameter equals one of the elements, "func" when it reports whether the
// second parameter, a predicate, holds for one of them; "" otherwise.  The standard library's
// slices.Contains / slices.ContainsFunc are known; a repository function (generic or not) is
// recognised from the shape of its body: true is returned only under the comparison of (the
// predicate applied to) an element of the slice, false only after the loop.
var anyOfCache = map[*ssa.Function]string{}

func (p *Prog) anyOfKind(fn *ssa.Function) string {
	if fn == nil {
		return ""
	}
	if k, ok := anyOfCache[fn]; ok {
		return k
	}
	anyOfCache[fn] = ""
	k := p.anyOfKind1(fn)
	anyOfCache[fn] = k
	return k
}

func (p *Prog) anyOfKind1(fn *ssa.Function) string {
	o := fn
	if og := fn.Origin(); og != nil {
		o = og
	}
	if o.Pkg != nil && o.Pkg.Pkg.Path() == "slices" {
		switch o.Name() {
		case "Contains":
			return "eq"
		case "ContainsFunc":
			return "func"
		}
		return ""
	}
	if !p.InRepo(fn) || fn.Blocks == nil || len(fn.Params) != 2 || fn.Signature.Recv() != nil {
		return ""
	}
	if _, ok := fn.Params[0].Type().Underlying().(*types.Slice); !ok {
		return ""
	}
	res := fn.Signature.Results()
	if res.Len() != 1 {
		return ""
	}
	if b, ok := res.At(0).Type().Underlying().(*types.Basic); !ok || b.Kind() != types.Bool {
		return ""
	}
	isElem := func(v ssa.Value) bool {
		for _, o := range origins(v) {
			ld, ok := o.(*ssa.UnOp)
			if !ok || ld.Op != token.MUL {
				return false
			}
			ia, ok := ld.X.(*ssa.IndexAddr)
			if !ok {
				return false
			}
			for _, so := range origins(ia.X) {
				if so != ssa.Value(fn.Params[0]) {
					return false
				}
			}
		}
		return true
	}
	isSubject := func(v ssa.Value) bool {
		for _, o := range origins(v) {
			if o != ssa.Value(fn.Params[1]) {
				return false
			}
		}
		return true
	}
	kind := ""
	setKind := func(k string) bool {
		if kind != "" && kind != k {
			return false
		}
		kind = k
		return true
	}
	sawTrue, sawFalse, ok := false, false, true
	eachInstr(fn, func(in ssa.Instruction) {
		ret, isRet := in.(*ssa.Return)
		if !isRet {
			return
		}
		for _, o := range origins(ret.Results[0]) {
			switch x := o.(type) {
			case *ssa.Const:
				if x.Value == nil {
					ok = false
					return
				}
				if !constant.BoolVal(x.Value) {
					sawFalse = true
					if loopDepthOf(ret.Block()) > 0 {
						ok = false
					}
					continue
				}
				sawTrue = true
				guarded := false
				for _, ct := range dominatingConds(ret.Block()) {
					if !ct.Truth {
						continue
					}
					switch c := ct.Cond.(type) {
					case *ssa.BinOp:
						if c.Op == token.EQL && (isElem(c.X) && isSubject(c.Y) || isElem(c.Y) && isSubject(c.X)) {
							guarded = setKind("eq")
						}
					case *ssa.Call:
						if !c.Call.IsInvoke() && isSubject(c.Call.Value) && len(c.Call.Args) == 1 && isElem(c.Call.Args[0]) {
							guarded = setKind("func")
						}
					}
				}
				if !guarded {
					ok = false
				}
			case *ssa.Call:
				// a wrapper of another membership helper over the same arguments
				callee := x.Call.StaticCallee()
				if k := p.anyOfKind(callee); k != "" && len(x.Call.Args) == 2 && x.Call.Args[0] == ssa.Value(fn.Params[0]) && x.Call.Args[1] == ssa.Value(fn.Params[1]) {
					if setKind(k) {
						sawTrue, sawFalse = true, true
						continue
					}
				}
				ok = false
			default:
				ok = false
			}
		}
	})
	if !ok || !sawTrue || !sawFalse {
		return ""
	}
	return kind
}

// constTableArg: v is a package-level slice literal of constants (see constSliceLiteral).
func (p *Prog) constTableArg(v ssa.Value) ([]constant.Value, *ssa.Global, bool) {
	ld, ok := v.(*ssa.UnOp)
	if !ok || ld.Op != token.MUL {
		return nil, nil, false
	}
	g, ok := ld.X.(*ssa.Global)
	if !ok {
		return nil, nil, false
	}
	t, ok := p.constSliceLiteral(g)
	return t, g, ok
}

// pkgOfFn: the package a function belongs to; for an instance of a generic function (which has
// no package of its own) the package of the generic function.
func pkgOfFn(f *ssa.Function) *ssa.Package {
	if f == nil {
		return nil
	}
	if f.Pkg != nil {
		return f.Pkg
	}
	if f.Parent() != nil {
		return pkgOfFn(f.Parent())
	}
	if o := f.Origin(); o != nil && o != f {
		return o.Pkg
	}
	return nil
}

// ---------------------------------------------------------------------------
// operations on a concurrent map field: sync.Map used directly, or through a typed wrapper (a
// struct of the repository whose only field is the sync.Map and whose methods forward to it)

type mapOp struct {
	Kind    string              // Load, Store, LoadOrStore, LoadAndDelete, Delete, Range, ...
	Call    ssa.CallInstruction // the site in the code that uses the map (the wrapper call when wrapped)
	Fn      *ssa.Function
	Key     ssa.Value // at the site; nil when the wrapper derives it from its arguments
	Val     ssa.Value // stored value at the site (Store, LoadOrStore); nil when not applicable / derived
	Wrapper *ssa.Function
	Inner   ssa.CallInstruction // the sync.Map call itself
}

// syncMapWrapperField: t is (a pointer to) a struct of the repository whose only field is a
// sync.Map (or *sync.Map); returns that field.
func (p *Prog) syncMapWrapperField(t types.Type) *types.Var {
	n := namedOf(t)
	if n == nil || n.Obj().Pkg() == nil || !strings.HasPrefix(n.Obj().Pkg().Path(), modPath) {
		return nil
	}
	st, ok := n.Underlying().(*types.Struct)
	if !ok || st.NumFields() != 1 {
		return nil
	}
	ft := types.TypeString(st.Field(0).Type(), nil)
	if ft != "sync.Map" && ft != "*sync.Map" {
		return nil
	}
	return st.Field(0)
}

func syncMapMethod(c ssa.CallInstruction) string {
	callee := c.Common().StaticCallee()
	if callee == nil || callee.Pkg == nil || callee.Pkg.Pkg.Path() != "sync" {
		return ""
	}
	if rn := recvNamed(callee); rn == nil || rn.Obj().Name() != "Map" {
		return ""
	}
	return callee.Name()
}

// baseField: the struct field a receiver operand addresses (&x.f) or is loaded from (x.f of pointer type).
func baseField(v ssa.Value) *types.Var {
	switch x := v.(type) {
	case *ssa.FieldAddr:
		return fieldOfAddr(x)
	case *ssa.UnOp:
		if fa, ok := x.X.(*ssa.FieldAddr); ok && x.Op == token.MUL {
			return fieldOfAddr(fa)
		}
	}
	return nil
}

func (p *Prog) syncMapOps(f *types.Var, fns []*ssa.Function) []mapOp {
	var out []mapOp
	inner := p.syncMapWrapperField(f.Type())
	for _, fn := range fns {
		fn := fn
		eachCall(fn, func(c ssa.CallInstruction) {
			args := c.Common().Args
			if len(args) == 0 || baseField(args[0]) != f {
				return
			}
			if k := syncMapMethod(c); k != "" && inner == nil {
				op := mapOp{Kind: k, Call: c, Fn: fn, Inner: c}
				if len(args) > 1 {
					op.Key = args[1]
				}
				if len(args) > 2 && (k == "Store" || k == "LoadOrStore" || k == "Swap") {
					op.Val = args[2]
				}
				out = append(out, op)
				return
			}
			w := c.Common().StaticCallee()
			if inner == nil || w == nil || w.Blocks == nil || namedOf(f.Type()) != recvNamed(w) {
				return
			}
			eachCall(w, func(ic ssa.CallInstruction) {
				k := syncMapMethod(ic)
				iargs := ic.Common().Args
				if k == "" || len(iargs) == 0 || baseField(iargs[0]) != inner {
					return
				}
				op := mapOp{Kind: k, Call: c, Fn: fn, Wrapper: w, Inner: ic}
				outer := func(v ssa.Value) ssa.Value {
					var res ssa.Value
					for _, o := range origins(v) {
						par, ok := o.(*ssa.Parameter)
						if !ok {
							return nil
						}
						for j, wp := range w.Params {
							if wp == par && j < len(args) {
								if res != nil && res != args[j] {
									return nil
								}
								res = args[j]
							}
						}
					}
					return res
				}
				if len(iargs) > 1 {
					op.Key = outer(iargs[1])
				}
				if len(iargs) > 2 && (k == "Store" || k == "LoadOrStore" || k == "Swap") {
					op.Val = outer(iargs[2])
				}
				out = append(out, op)
			})
		})
	}
	return out
}

// ---------------------------------------------------------------------------
// what a function receives from its caller: a parameter, or a field of a parameter that is a
// struct passed by value (an options record built at the call site)

type paramSlot struct {
	Par   int
	Field int // -1: the parameter itself
}

// slotOfValue: inside fn, v is parameter i or field k of the struct parameter i.
func slotOfValue(fn *ssa.Function, v ssa.Value) (paramSlot, bool) {
	v = deSpill(v)
	idx := func(par *ssa.Parameter) int {
		for i, q := range fn.Params {
			if q == par {
				return i
			}
		}
		return -1
	}
	switch x := v.(type) {
	case *ssa.Parameter:
		if i := idx(x); i >= 0 {
			return paramSlot{i, -1}, true
		}
	case *ssa.Field:
		if par, ok := deSpill(x.X).(*ssa.Parameter); ok {
			if i := idx(par); i >= 0 {
				return paramSlot{i, x.Field}, true
			}
		}
	case *ssa.UnOp:
		if x.Op != token.MUL {
			break
		}
		if fa, ok := x.X.(*ssa.FieldAddr); ok {
			// the struct parameter was given an address (it is read field by field)
			if al, ok := fa.X.(*ssa.Alloc); ok {
				var par *ssa.Parameter
				n := 0
				for _, ref := range *al.Referrers() {
					if st, ok := ref.(*ssa.Store); ok && st.Addr == ssa.Value(al) {
						n++
						par, _ = st.Val.(*ssa.Parameter)
					}
				}
				if n == 1 && par != nil {
					if i := idx(par); i >= 0 {
						return paramSlot{i, fa.Field}, true
					}
				}
			}
		}
	}
	return paramSlot{}, false
}

// slotArg: the value a call site supplies for the slot; for a field of an options record the value
// stored into that field of the literal built at the site, or the field's zero value when the
// literal leaves it out.  nil when the site does not build the record there.
func slotArg(site ssa.CallInstruction, s paramSlot) ssa.Value {
	args := site.Common().Args
	if s.Par >= len(args) {
		return nil
	}
	arg := args[s.Par]
	if s.Field < 0 {
		return arg
	}
	ld, ok := arg.(*ssa.UnOp)
	if !ok || ld.Op != token.MUL {
		return nil
	}
	al, ok := ld.X.(*ssa.Alloc)
	if !ok {
		return nil
	}
	var val ssa.Value
	n := 0
	for _, ref := range *al.Referrers() {
		fa, ok := ref.(*ssa.FieldAddr)
		if !ok {
			if _, isLoad := ref.(*ssa.UnOp); isLoad {
				continue
			}
			if _, isDbg := ref.(*ssa.DebugRef); isDbg {
				continue
			}
			return nil
		}
		if fa.Field != s.Field {
			continue
		}
		for _, r2 := range *fa.Referrers() {
			if st, ok := r2.(*ssa.Store); ok && st.Addr == ssa.Value(fa) {
				val = st.Val
				n++
			}
		}
	}
	if n > 1 {
		return nil
	}
	if n == 0 {
		st, ok := al.Type().Underlying().(*types.Pointer).Elem().Underlying().(*types.Struct)
		if !ok || s.Field >= st.NumFields() {
			return nil
		}
		return zeroConstOf(st.Field(s.Field).Type())
	}
	return val
}

func zeroConstOf(t types.Type) *ssa.Const {
	if b, ok := t.Underlying().(*types.Basic); ok {
		switch {
		case b.Info()&types.IsBoolean != 0:
			return ssa.NewConst(constant.MakeBool(false), t)
		case b.Info()&types.IsString != 0:
			return ssa.NewConst(constant.MakeString(""), t)
		case b.Info()&types.IsInteger != 0:
			return ssa.NewConst(constant.MakeInt64(0), t)
		}
	}
	return ssa.NewConst(nil, t)
}

// slotsOfType: the slots of fn whose type satisfies pred (parameters and fields of by-value
// struct parameters declared in the repository).
func slotsOfType(fn *ssa.Function, pred func(types.Type) bool) []paramSlot {
	var out []paramSlot
	for i, par := range fn.Params {
		if pred(par.Type()) {
			out = append(out, paramSlot{i, -1})
			continue
		}
		n, isNamed := par.Type().(*types.Named)
		if !isNamed || n.Obj().Pkg() == nil || !strings.HasPrefix(n.Obj().Pkg().Path(), modPath) {
			continue
		}
		if st, ok := n.Underlying().(*types.Struct); ok {
			for k := 0; k < st.NumFields(); k++ {
				if pred(st.Field(k).Type()) {
					out = append(out, paramSlot{i, k})
				}
			}
		}
	}
	return out
}

// privateHelpersOf: fn and the unexported functions of its package (same receiver type, or none)
// that are reached only from fn: the phases a function was split into.
func privateHelpersOf(p *Prog, fn *ssa.Function) []*ssa.Function {
	out := []*ssa.Function{fn}
	for _, h := range withCallees(p, fn, 2) {
		if h == fn || h.Parent() != nil || h.Object() == nil || h.Object().Exported() {
			continue
		}
		if rn := recvNamed(h); rn != nil && rn != recvNamed(fn) {
			continue
		}
		if onlyCalledFrom(p, h, fn, 2) {
			out = append(out, h)
		}
	}
	return out
}

func eachCallIn(fns []*ssa.Function, f func(ssa.CallInstruction)) {
	for _, fn := range fns {
		eachCall(fn, f)
	}
}

func eachInstrIn(fns []*ssa.Function, f func(ssa.Instruction)) {
	for _, fn := range fns {
		eachInstr(fn, f)
	}
}

// followReturns: the values v stands for, looking through results of functions of the program: a
// value extracted from the result of a call is replaced by what the callee returns in that position.
func followReturns(p *Prog, v ssa.Value, depth int) []ssa.Value {
	var out []ssa.Value
	for _, o := range origins(v) {
		var call *ssa.Call
		idx := 0
		switch x := o.(type) {
		case *ssa.Extract:
			call, _ = x.Tuple.(*ssa.Call)
			idx = x.Index
		case *ssa.Call:
			call = x
		}
		if call == nil || depth <= 0 {
			out = append(out, o)
			continue
		}
		callee := call.Call.StaticCallee()
		if callee == nil || callee.Blocks == nil || !p.InRepo(callee) {
			out = append(out, o)
			continue
		}
		eachInstr(callee, func(in ssa.Instruction) {
			if ret, ok := in.(*ssa.Return); ok && idx < len(ret.Results) {
				out = append(out, followReturns(p, ret.Results[idx], depth-1)...)
			}
		})
	}
	return out
}
