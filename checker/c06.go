package main

// C06 — the idempotency classifier is sound, case/whitespace-stable and total.
//
// The semantic core (the verdict is right for every statement of the grammar)
// quantifies over inputs and is NOT decided.  Decided structural clauses:
//  err-implies-false  every classifier function returns false whenever it returns an
//                     error (assume-guarantee over the recursive family)
//  false-is-sticky    once a sub-term/child is classified non-idempotent on a path,
//                     the enclosing function returns false on that path
//  function-rule      a call of now()/uuid() (unqualified or in keyspace system) makes
//                     the term non-idempotent; the table contains now and uuid
//  type-rules         += / -= / col = col +/- term are idempotent only for set/map/udt
//                     and tuple literals; delete-by-element is non-idempotent for
//                     integer literals, bind markers, function calls and casts
//                     (folded over all term types)
//  lwt                INSERT/UPDATE/DELETE classification returns false on every path
//                     that saw an IF token, and each of them looks for it
//  totality           no loop can spin: every cycle consumes a token and every loop
//                     exits when the lexer is at end of input; no panic site is
//                     reachable from the classifier entry points
//  lexer-rewind       rewind() restores every lexer field that next() writes
//  identifier-compare shared with C09 (case/quote stable comparisons)

import (
	"fmt"
	"go/constant"
	"go/token"
	"go/types"
	"sort"
	"strings"

	"golang.org/x/tools/go/ssa"
)

func init() { register("C06", checkC06) }

var errType = types.Universe.Lookup("error").Type()

// classifierFamily: hand-written parser functions taking the lexer whose first
// result is a bool verdict and whose last result is an error.
func classifierFamily(p *Prog) []*ssa.Function {
	var out []*ssa.Function
	reach := map[*ssa.Function]bool{}
	var walk func(f *ssa.Function)
	walk = func(f *ssa.Function) {
		if f == nil || reach[f] || f.Blocks == nil {
			return
		}
		reach[f] = true
		eachCall(f, func(c ssa.CallInstruction) {
			if callee := c.Common().StaticCallee(); callee != nil && pkgOfFn(callee) == pkgOfFn(f) {
				walk(callee)
			}
		})
		// (calls through tables of parser functions, method values ...: the call graph's edges
		// within the package)
		if n := p.CG.Nodes[f]; n != nil {
			for _, e := range n.Out {
				if g := e.Callee.Func; g != nil && pkgOfFn(g) == pkgOfFn(f) {
					walk(g)
				}
			}
		}
		for _, a := range f.AnonFuncs {
			walk(a)
		}
	}
	walk(p.Func("parser", "IsQueryIdempotent"))
	for _, fn := range p.ScopedFuncs("parser") {
		if fn.Parent() != nil {
			continue
		}
		res := fn.Signature.Results()
		if res.Len() < 2 {
			continue
		}
		b, ok := res.At(0).Type().Underlying().(*types.Basic)
		if !ok || b.Kind() != types.Bool || !types.Identical(res.At(res.Len()-1).Type(), errType) {
			continue
		}
		// part of the idempotency walk (not the handled-query parser): reachable from the classifier's
		// entry point
		if !reach[fn] {
			continue
		}
		out = append(out, fn)
	}
	sort.Slice(out, func(i, j int) bool { return out[i].Name() < out[j].Name() })
	return out
}

// errOnlyHelpers: parser helpers returning (..., error) without a verdict.
func isErrHelper(p *Prog, fn *ssa.Function, fam map[*ssa.Function]bool) bool {
	if fn == nil || fam[fn] || !p.InRepo(fn) || fn.Pkg == nil || fn.Pkg.Pkg.Path() != pkgPath("parser") {
		return false
	}
	res := fn.Signature.Results()
	return res.Len() >= 1 && types.Identical(res.At(res.Len()-1).Type(), errType)
}

// familyModel models calls into the family and its helpers.
func familyModel(p *Prog, fam map[*ssa.Function]bool, onVerdict func(st *State, callee *ssa.Function, verdict bool)) func(sm *Sim, st *State, call ssa.CallInstruction, callee *ssa.Function) []*State {
	return func(sm *Sim, st *State, call ssa.CallInstruction, callee *ssa.Function) []*State {
		if callee == nil {
			return nil
		}
		if fam[callee] {
			n := callee.Signature.Results().Len()
			mk := func(v bool, e AV) *State {
				ns := st.clone()
				xs := make([]AV, n)
				xs[0] = avBool(v)
				xs[n-1] = e
				SetCallResult(ns, call, avTup(xs...))
				if onVerdict != nil {
					onVerdict(ns, callee, v)
				}
				ns.addEff("lex")
				return ns
			}
			return []*State{mk(true, AV{K: avNil}), mk(false, AV{K: avNil}), mk(false, AV{K: avNonNil})}
		}
		if isErrHelper(p, callee, fam) {
			n := callee.Signature.Results().Len()
			okSt, bad := st.clone(), st.clone()
			if n == 1 {
				SetCallResult(okSt, call, AV{K: avNil})
				SetCallResult(bad, call, AV{K: avNonNil})
			} else {
				xs, ys := make([]AV, n), make([]AV, n)
				xs[n-1], ys[n-1] = AV{K: avNil}, AV{K: avNonNil}
				SetCallResult(okSt, call, avTup(xs...))
				SetCallResult(bad, call, avTup(ys...))
			}
			return []*State{okSt, bad}
		}
		return nil
	}
}

func checkC06(p *Prog, r *Report) {
	r.NotCov = append(r.NotCov,
		"the classifier's verdict for every statement of the CQL grammar (soundness over inputs): no grammar-level abstraction of the hand-written recursive-descent parser is in reach of static analysis here",
		"whitespace/terminator invariance of the generated lexer (trusted generated component)")
	famList := classifierFamily(p)
	if len(famList) < 12 {
		fatalf("anchor: only %d classifier functions found in package parser (15 confirmed by hand)", len(famList))
	}
	fam := map[*ssa.Function]bool{}
	for _, f := range famList {
		fam[f] = true
	}
	r.count("classifier_functions", len(famList))
	c06ErrAndSticky(p, r, famList, fam)
	c06FunctionRule(p, r, fam)
	c06TypeRules(p, r)
	c06Lwt(p, r, fam)
	c06Totality(p, r, famList, fam)
	c06LexerRewind(p, r)
	c09IdentifierCompare(p, r, "C06.identifier-compare")
	tokenBased(p, r, "C06.token-based")
	boundedRecursion(p, r, "C06.bounded-recursion")
	c06IdentifierToken(p, r)
	resultThreading(p, r, "C06.result-threading", "parser")
	c06TokenExamined(p, r, "C06.token-examined")
}

// c06TokenExamined: a sub-parser returns the token that follows what it consumed.  That token has
// already been taken from the lexer: a caller that overwrites it without looking at it has skipped
// one token of the statement unseen (whatever it was: a missing ':', a function name).
func c06TokenExamined(p *Prog, r *Report, rule string) {
	r.Rule(rule, "the 'next token' a sub-parser returns is examined by its caller (compared, passed on or returned) before it is overwritten: a token dropped unseen lets an unparsable statement through and hides what stood in its place")
	lex := p.Named("parser", "lexer")
	tokT := p.Pkg("parser").Pkg.Scope().Lookup("token")
	if tokT == nil {
		fatalf("rule %s: type parser.token not found", rule)
	}
	var bad []string
	n := 0
	for _, fn := range p.ScopedFuncs("parser") {
		if isGeneratedLexer(fn) {
			continue
		}
		eachCall(fn, func(c ssa.CallInstruction) {
			callee := c.Common().StaticCallee()
			call, isCall := c.(*ssa.Call)
			if callee == nil || !isCall || !p.InRepo(callee) || recvNamed(callee) == lex {
				return
			}
			res := callee.Signature.Results()
			if res.Len() < 2 {
				return
			}
			takesLexer := false
			for _, par := range callee.Params {
				if namedOf(par.Type()) == lex {
					takesLexer = true
				}
			}
			if !takesLexer {
				return
			}
			for i := 0; i < res.Len(); i++ {
				if !types.Identical(res.At(i).Type(), tokT.Type()) {
					continue
				}
				n++
				used := false
				for _, ref := range *call.Referrers() {
					ex, ok := ref.(*ssa.Extract)
					if !ok || ex.Index != i {
						// the whole tuple returned as it is
						if _, isRet := ref.(*ssa.Return); isRet {
							used = true
						}
						continue
					}
					for _, r2 := range *ex.Referrers() {
						if _, dbg := r2.(*ssa.DebugRef); !dbg {
							used = true
						}
					}
				}
				if !used && rewoundAfter(p, lex, c) {
					continue // the lexer is rewound afterwards: nothing stays consumed
				}
				if !used {
					bad = append(bad, fmt.Sprintf("%s: %s drops the token returned by %s without examining it: one token of the statement is skipped unseen", p.Pos(c.Pos()), fn.Name(), callee.Name()))
				}
			}
		})
	}
	r.count("subparser_token_results", n)
	r.check(len(bad) == 0 && n >= 10, rule, "sub-parser call sites", "", fmt.Sprintf("%d returned tokens, all examined", n), strings.Join(dedupe(bad), " || "))
}

// c06IdentifierToken: the lexer keeps the text of the LAST identifier it saw; it is not cleared
// by later tokens.  Code that reads it for a token that is not an identifier compares stale text
// (a table named "json" makes the '(' after it look like the JSON keyword).
func c06IdentifierToken(p *Prog, r *Report) { c06IdentifierTokenAs(p, r, "C06.identifier-token") }

func c06IdentifierTokenAs(p *Prog, r *Report, rule string) {
	r.Rule(rule, "the lexer's identifier text is read only where the current token is known to be an identifier: under a test of the token against tkIdentifier in the same function, or at the entry of a function all of whose call sites are so guarded")
	lex := p.Named("parser", "lexer")
	tkId := p.constOf("parser", "tkIdentifier")
	var nextFn *ssa.Function
	for _, m := range p.methodsOf(lex) {
		if isGeneratedLexer(m) {
			nextFn = m
		}
	}
	if nextFn == nil {
		fatalf("rule %s: the scanner function of the lexer was not found", rule)
	}
	// fields of the lexer that hold token text: string fields the scanner writes
	textF := map[*types.Var]bool{}
	eachInstr(nextFn, func(in ssa.Instruction) {
		if st, ok := in.(*ssa.Store); ok {
			if fa, ok := st.Addr.(*ssa.FieldAddr); ok && namedOf(fa.X.Type()) == lex {
				if b, ok := fieldOfAddr(fa).Type().Underlying().(*types.Basic); ok && b.Kind() == types.String {
					textF[fieldOfAddr(fa)] = true
				}
			}
		}
	})
	readers := map[*ssa.Function]bool{}
	for _, m := range p.methodsOf(lex) {
		if m == nextFn || m.Signature.Results().Len() != 1 {
			continue // (mark/rewind save and restore the text, they take no decision on it)
		}
		eachInstr(m, func(in ssa.Instruction) {
			if fa, ok := in.(*ssa.FieldAddr); ok && textF[fieldOfAddr(fa)] {
				readers[m] = true
			}
		})
	}
	if len(readers) == 0 {
		fatalf("rule %s: no accessor of the lexer's identifier text found", rule)
	}
	fns := p.ScopedFuncs("parser")
	// functions that may advance the lexer
	advances := map[*ssa.Function]bool{nextFn: true}
	for changed := true; changed; {
		changed = false
		for _, f := range fns {
			if advances[f] || readers[f] {
				continue
			}
			eachCall(f, func(c ssa.CallInstruction) {
				if callee := c.Common().StaticCallee(); callee != nil && advances[callee] && !advances[f] {
					advances[f] = true
					changed = true
				}
			})
		}
	}
	// stillCurrent: between the branch that established "the token is an identifier" and the read no
	// call can advance the lexer (the text read would be that of a later token, or stale)
	stillCurrent := func(cond ssa.Value, truth bool, in ssa.Instruction) bool {
		fn := in.Parent()
		var gb, succ *ssa.BasicBlock
		for _, b := range fn.Blocks {
			ifi, ok := lastIf(b)
			if !ok {
				continue
			}
			c, neg := stripNot(ifi.Cond)
			if c != cond {
				continue
			}
			for k, sc := range b.Succs {
				if ((k == 0) != neg) == truth && len(sc.Preds) == 1 && sc.Dominates(in.Block()) {
					gb, succ = b, sc
				}
			}
		}
		if gb == nil {
			return true
		}
		// blocks on a path succ -> in.Block() that does not pass through the guard block again
		fwd := map[*ssa.BasicBlock]bool{}
		stack := []*ssa.BasicBlock{succ}
		for len(stack) > 0 {
			b := stack[len(stack)-1]
			stack = stack[:len(stack)-1]
			if fwd[b] || b == gb {
				continue
			}
			fwd[b] = true
			if b == in.Block() {
				continue
			}
			stack = append(stack, b.Succs...)
		}
		canReach := map[*ssa.BasicBlock]bool{}
		var mark func(b *ssa.BasicBlock)
		mark = func(b *ssa.BasicBlock) {
			if canReach[b] || !fwd[b] {
				return
			}
			canReach[b] = true
			for _, pr := range b.Preds {
				mark(pr)
			}
		}
		mark(in.Block())
		for b := range canReach {
			for _, bi := range b.Instrs {
				if b == in.Block() && bi == in {
					break
				}
				if c, ok := bi.(ssa.CallInstruction); ok {
					if callee := c.Common().StaticCallee(); callee != nil && advances[callee] {
						return false
					}
				}
			}
		}
		return true
	}
	guarded := func(in ssa.Instruction) bool {
		for _, ct := range dominatingConds(in.Block()) {
			bo, ok := ct.Cond.(*ssa.BinOp)
			if !ok {
				continue
			}
			isId := func(v ssa.Value) bool {
				c, ok := v.(*ssa.Const)
				return ok && c.Value != nil && c.Value.ExactString() == tkId.ExactString() && typeIs(c.Type(), "parser", "token")
			}
			if isId(bo.X) || isId(bo.Y) {
				if ((bo.Op == token.EQL && ct.Truth) || (bo.Op == token.NEQ && !ct.Truth)) && stillCurrent(ct.Cond, ct.Truth, in) {
					return true
				}
			}
		}
		return false
	}
	// atEntry: no advancing call can run before the instruction
	atEntry := func(in ssa.Instruction) bool {
		fn := in.Parent()
		b0 := in.Block()
		for _, b := range fn.Blocks {
			reaches := b == b0
			if !reaches {
				seen := map[*ssa.BasicBlock]bool{}
				stack := []*ssa.BasicBlock{b}
				for len(stack) > 0 && !reaches {
					x := stack[len(stack)-1]
					stack = stack[:len(stack)-1]
					if seen[x] {
						continue
					}
					seen[x] = true
					for _, sc := range x.Succs {
						if sc == b0 {
							reaches = true
						}
						stack = append(stack, sc)
					}
				}
			}
			if !reaches {
				continue
			}
			for _, bi := range b.Instrs {
				if b == b0 && bi == in {
					break
				}
				if c, ok := bi.(ssa.CallInstruction); ok {
					if callee := c.Common().StaticCallee(); callee != nil && advances[callee] {
						return false
					}
				}
			}
		}
		return true
	}
	needs := map[*ssa.Function]bool{}
	var bad []string
	nsites := 0
	for iter := 0; iter < 6; iter++ {
		bad = nil
		nsites = 0
		changed := false
		for _, f := range fns {
			if readers[f] || isGeneratedLexer(f) {
				continue
			}
			eachCall(f, func(c ssa.CallInstruction) {
				callee := c.Common().StaticCallee()
				if callee == nil || !(readers[callee] || needs[callee]) {
					return
				}
				nsites++
				in := c.(ssa.Instruction)
				if guarded(in) {
					return
				}
				if atEntry(in) && f.Parent() == nil {
					if !needs[f] {
						needs[f] = true
						changed = true
					}
					return
				}
				bad = append(bad, fmt.Sprintf("%s: %s reads the lexer's identifier text (through %s) where the current token is not known to be an identifier: the text is that of an earlier identifier", p.Pos(c.Pos()), f.Name(), callee.Name()))
			})
		}
		if !changed {
			break
		}
	}
	// entry points must not need an identifier
	for f := range needs {
		if f.Object() != nil && f.Object().Exported() {
			bad = append(bad, fmt.Sprintf("%s needs an identifier token on entry but is an entry point", f.Name()))
		}
	}
	r.count("identifier_text_reads", nsites)
	r.check(len(bad) == 0 && nsites >= 6, rule, "identifier text reads", "", fmt.Sprintf("%d read/call sites, each under a tkIdentifier test", nsites), strings.Join(dedupe(bad), " || "))
}

func c06ErrAndSticky(p *Prog, r *Report, famList []*ssa.Function, fam map[*ssa.Function]bool) {
	r.Rule("C06.err-implies-false", "a classifier function that returns an error returns the verdict false with it (unparseable => not idempotent), assuming the same of its callees")
	r.Rule("C06.false-is-sticky", "when a sub-term or child statement was classified non-idempotent on a path, the enclosing classifier function returns false on that path (a later idempotent element never overrides it)")
	for _, fn := range famList {
		s := newSim(p)
		s.Model = familyModel(p, fam, func(st *State, callee *ssa.Function, v bool) {
			if !v {
				st.aux["sawF"] = "1"
			}
		})
		outs := s.Run(fn, newState())
		r.count("sim_states", s.Nodes)
		n := fn.Signature.Results().Len()
		var eb, sb []string
		for _, o := range outs {
			if o.Panic {
				continue
			}
			v, known := o.Ret.elem(0).isBool()
			e := o.Ret.elem(n - 1)
			if e.K != avNil && (!known || v) {
				eb = append(eb, fmt.Sprintf("may return (%s, ..., %s) at %s", o.Ret.elem(0), e, p.Pos(o.Pos)))
			}
			if o.St.aux["sawF"] == "1" && (!known || v) {
				sb = append(sb, fmt.Sprintf("returns %s at %s although an element was classified non-idempotent on that path", o.Ret.elem(0), p.Pos(o.Pos)))
			}
		}
		r.check(len(eb) == 0 && len(outs) > 0, "C06.err-implies-false", "parser."+fn.Name(), p.Pos(fn.Pos()), fmt.Sprintf("%d outcomes", len(outs)), strings.Join(dedupe(eb), " || "))
		r.check(len(sb) == 0, "C06.false-is-sticky", "parser."+fn.Name(), p.Pos(fn.Pos()), "", strings.Join(dedupe(sb), " || "))
	}
	// the public entry point
	entry := p.Func("parser", "IsQueryIdempotent")
	okEntry := false
	eachCall(entry, func(c ssa.CallInstruction) {
		if f := c.Common().StaticCallee(); f != nil && fam[f] {
			okEntry = true
		}
	})
	r.check(okEntry, "C06.err-implies-false", "parser.IsQueryIdempotent", p.Pos(entry.Pos()), "delegates to the classifier family", "entry point does not use the classifier family")
}

func c06FunctionRule(p *Prog, r *Report, fam map[*ssa.Function]bool) {
	const rule = "C06.function-rule"
	r.Rule(rule, "a function-call term whose function is in the non-idempotent table (now, uuid) and whose keyspace is absent or system is never classified idempotent; the table contains now and uuid and is matched through Identifier.equal")
	e, info := p.astGlobalInit("parser", "nonIdempotentFuncs")
	names, ok := stringElems(e, info, false)
	have := map[string]bool{}
	for _, n := range names {
		have[n] = true
	}
	var tb []string
	if !ok {
		tb = append(tb, "table is not a literal list")
	}
	for _, need := range []string{"now", "uuid"} {
		if !have[need] {
			tb = append(tb, need+"() missing from the non-idempotent function table")
		}
	}
	for _, n := range names {
		if n != strings.ToLower(n) {
			tb = append(tb, n+" is not lower case")
		}
	}
	r.check(len(tb) == 0, rule, "parser.nonIdempotentFuncs", p.Pos(p.Global("parser", "nonIdempotentFuncs").Pos()), strings.Join(names, ","), strings.Join(tb, " || "))

	// the term function that consults the table
	nonMember := membershipRole(p, p.Global("parser", "nonIdempotentFuncs"))
	isNon := nonMember.fn
	var termFn *ssa.Function
	for f := range fam {
		if callsDirectly(f, func(c ssa.CallInstruction) bool { _, ok := nonMember.isCall(c); return ok }) {
			termFn = f
		}
	}
	if termFn == nil {
		r.bad(rule, "function-term", "", "no classifier function consults the non-idempotent function table")
		return
	}
	var bad []string
	for _, N := range []bool{true, false} {
		for _, E := range []bool{true, false} {
			for _, S := range []bool{true, false} {
				if E && S {
					continue
				}
				s := newSim(p)
				base := familyModel(p, fam, nil)
				s.Model = func(sm *Sim, st *State, call ssa.CallInstruction, callee *ssa.Function) []*State {
					args := call.Common().Args
					set := func(a AV) []*State { SetCallResult(st, call, a); return []*State{st} }
					switch {
					case callIsFunc(call, "parser", "parseQualifiedIdentifier"):
						okSt, bad := st.clone(), st.clone()
						SetCallResult(okSt, call, avTup(avSymbol("ks"), avSymbol("fn"), top, AV{K: avNil}))
						SetCallResult(bad, call, avTup(top, top, top, AV{K: avNonNil}))
						return []*State{okSt, bad}
					case func() bool { _, ok := nonMember.isCall(call); return ok }():
						if a := sm.eval(st, args[0]); a.K == avSym && a.S == "fn" {
							return set(avBool(N))
						}
						return set(top)
					case callIsMethod(call, "parser", "Identifier", "isEmpty"):
						if a := sm.eval(st, args[0]); a.K == avSym && a.S == "ks" {
							return set(avBool(E))
						}
						return set(top)
					case callIsMethod(call, "parser", "Identifier", "equal"):
						if cs, ok := constStr(args[1]); ok && cs == "system" {
							if a := sm.eval(st, args[0]); a.K == avSym && a.S == "ks" {
								return set(avBool(S))
							}
						}
						return set(top)
					}
					return base(sm, st, call, callee)
				}
				outs := s.Run(termFn, newState())
				r.count("sim_states", s.Nodes)
				for _, o := range outs {
					if o.Panic {
						continue
					}
					v, known := o.Ret.elem(0).isBool()
					if N && (E || S) && (!known || v) {
						bad = append(bad, fmt.Sprintf("non-idempotent function (keyspace empty=%v system=%v) can be classified idempotent at %s", E, S, p.Pos(o.Pos)))
					}
				}
			}
		}
	}
	r.check(len(bad) == 0, rule, "parser."+termFn.Name(), p.Pos(termFn.Pos()), "6 atom assignments", strings.Join(dedupe(bad), " || "))
	// membership through equal over the table
	mprob := nonMember.check(p)
	r.check(len(mprob) == 0, rule, "parser.nonIdempotentFuncs:membership", p.Pos(isNon.Pos()), "membership through Identifier.equal in "+isNon.Name(), "is not a membership test over the table through Identifier.equal: "+strings.Join(mprob, " || "))
}

func c06TypeRules(p *Prog, r *Report) {
	const rule = "C06.type-rules"
	r.Rule(rule, "update operations that add to / subtract from a column are idempotent only for set/map/udt and tuple literals; removing a collection element is non-idempotent for integer literals, bind markers, function calls and casts (folded over every term type)")
	tts := p.constsOfType("parser", "termType")
	if len(tts) < 8 {
		fatalf("anchor: only %d termType constants", len(tts))
	}
	fold := func(fnName string, want func(name string) bool) {
		fn := p.Func("parser", fnName)
		var bad []string
		var names []string
		for n := range tts {
			names = append(names, n)
		}
		sort.Strings(names)
		for _, n := range names {
			s := newSim(p)
			init := newState()
			init.vals[fn.Params[0]] = avC(tts[n])
			for _, o := range s.Run(fn, init) {
				v, known := o.Ret.isBool()
				if !known {
					bad = append(bad, n+": result not determined by the term type")
				} else if v && !want(n) {
					bad = append(bad, n+" is treated as idempotent")
				}
			}
		}
		r.check(len(bad) == 0, rule, "parser."+fnName, p.Pos(fn.Pos()), fmt.Sprintf("%d term types folded", len(names)), strings.Join(bad, " || "))
	}
	fold("isIdempotentUpdateOpTermType", func(n string) bool { return n == "termSetMapUdtLiteral" || n == "termTupleLiteral" })
	fold("isIdempotentDeleteElementTermType", func(n string) bool {
		return n != "termIntegerLiteral" && n != "termBindMarker" && n != "termFunctionCall" && n != "termCast"
	})
	// parseUpdateOp: arithmetic forms depend on the type rule
	upd := p.Func("parser", "parseUpdateOp")
	typeRule := p.Func("parser", "isIdempotentUpdateOpTermType")
	arith := map[string]bool{}
	for _, n := range []string{"tkAdd", "tkSub", "tkAddEqual", "tkSubEqual"} {
		arith[p.constOf("parser", n).ExactString()] = true
	}
	s := newSim(p)
	fam := map[*ssa.Function]bool{}
	for _, f := range classifierFamily(p) {
		fam[f] = true
	}
	base := familyModel(p, fam, nil)
	// a private helper of parseUpdateOp that applies the type rule is part of it
	ruleHelper := func(f *ssa.Function) bool {
		return f != nil && f != upd && f != typeRule && f.Parent() == nil && pkgOfFn(f) == pkgOfFn(upd) && onlyCalledFrom(p, f, upd, 2) &&
			callsDirectly(f, func(c ssa.CallInstruction) bool { return c.Common().StaticCallee() == typeRule })
	}
	s.Inline = ruleHelper
	s.Model = func(sm *Sim, st *State, call ssa.CallInstruction, callee *ssa.Function) []*State {
		if ruleHelper(callee) {
			return nil // inlined
		}
		if callee == typeRule {
			t, f := st.clone(), st.clone()
			t.aux["typeRule"] = "T"
			SetCallResult(t, call, avBool(true))
			f.aux["typeRule"] = "F"
			SetCallResult(f, call, avBool(false))
			return []*State{t, f}
		}
		return base(sm, st, call, callee)
	}
	s.OnBranch = func(st *State, cond ssa.Value, truth bool) {
		if bo, ok := cond.(*ssa.BinOp); ok && bo.Op == token.EQL && truth {
			for _, side := range []ssa.Value{bo.X, bo.Y} {
				if c, ok := side.(*ssa.Const); ok && c.Value != nil && typeIs(c.Type(), "parser", "token") && arith[c.Value.ExactString()] {
					st.aux["arith"] = "1"
				}
			}
		}
	}
	var bad []string
	sawArith := false
	for _, o := range s.Run(upd, newState()) {
		if o.Panic {
			continue
		}
		v, known := o.Ret.elem(0).isBool()
		if o.St.aux["arith"] == "1" {
			sawArith = true
			if (!known || v) && o.St.aux["typeRule"] != "T" {
				bad = append(bad, fmt.Sprintf("an additive update operation is classified idempotent without the term-type rule (path ending at %s)", p.Pos(o.Pos)))
			}
		}
	}
	r.count("sim_states", s.Nodes)
	if !sawArith {
		bad = append(bad, "no path recognises + / - / += / -= update operations")
	}
	r.check(len(bad) == 0, rule, "parser.parseUpdateOp", p.Pos(upd.Pos()), "", strings.Join(dedupe(bad), " || "))
}

func c06Lwt(p *Prog, r *Report, fam map[*ssa.Function]bool) {
	const rule = "C06.lwt"
	r.Rule(rule, "INSERT, UPDATE and DELETE classification looks for an IF token after the statement body and returns false on every path that saw one (lightweight transactions are not idempotent)")
	tkIf := p.constOf("parser", "tkIf").ExactString()
	for _, name := range []string{"isIdempotentInsertStmt", "isIdempotentUpdateStmt", "isIdempotentDeleteStmt"} {
		fn := p.FuncOpt("parser", name)
		if fn == nil {
			fatalf("anchor: parser.%s not found", name)
		}
		s := newSim(p)
		// a helper that holds the scan for the IF token is looked through
		scanHelper := func(f *ssa.Function) bool {
			if f == nil || f == fn || f.Blocks == nil || f.Parent() != nil || !p.InRepo(f) {
				return false
			}
			has := false
			eachInstr(f, func(in ssa.Instruction) {
				if bo, ok := in.(*ssa.BinOp); ok && bo.Op == token.EQL {
					for _, side := range []ssa.Value{bo.X, bo.Y} {
						if c, ok := side.(*ssa.Const); ok && c.Value != nil && typeIs(c.Type(), "parser", "token") && c.Value.ExactString() == tkIf {
							has = true
						}
					}
				}
			})
			return has
		}
		baseModel := familyModel(p, fam, nil)
		var bad []string
		termFn := p.Func("parser", "isDMLTerminator")
		s.Model = func(sm *Sim, st *State, call ssa.CallInstruction, callee *ssa.Function) []*State {
			if scanHelper(callee) {
				return nil
			}
			// every token after the statement body that is not a terminator is tested for IF before the
			// scan moves on to the next token
			if callee != nil && isGeneratedLexer(callee) {
				if tl := st.aux["tail"]; tl != "" && st.aux["ifTested"] != tl {
					bad = append(bad, p.Pos(call.Pos())+": the scan for IF moves on to the next token without having compared the current one with IF: an IF clause that is not the first thing after the statement body (INSERT ... JSON '{}' DEFAULT UNSET IF NOT EXISTS) is missed")
				}
				delete(st.aux, "tail")
				delete(st.aux, "ifTested")
				return baseModel(sm, st, call, callee)
			}
			if callee != nil && callee == termFn && len(call.Common().Args) == 1 {
				t, f := st.clone(), st.clone()
				SetCallResult(t, call, avBool(true))
				SetCallResult(f, call, avBool(false))
				f.aux["tail"] = call.Common().Args[0].Name()
				return []*State{t, f}
			}
			return baseModel(sm, st, call, callee)
		}
		s.Inline = scanHelper
		cmp := 0
		s.OnBranch = func(st *State, cond ssa.Value, truth bool) {
			if bo, ok := cond.(*ssa.BinOp); ok && (bo.Op == token.EQL || bo.Op == token.NEQ) {
				for i, side := range []ssa.Value{bo.X, bo.Y} {
					if c, ok := side.(*ssa.Const); ok && c.Value != nil && typeIs(c.Type(), "parser", "token") && c.Value.ExactString() == tkIf {
						cmp++
						other := bo.Y
						if i == 1 {
							other = bo.X
						}
						st.aux["ifTested"] = other.Name()
						if truth && bo.Op == token.EQL {
							st.aux["sawIf"] = "1"
						}
					}
				}
			}
		}
		trueWithoutScan := 0
		for _, o := range s.Run(fn, newState()) {
			if o.Panic {
				continue
			}
			v, known := o.Ret.elem(0).isBool()
			if o.St.aux["sawIf"] == "1" && (!known || v) {
				bad = append(bad, fmt.Sprintf("a statement with an IF clause can be classified idempotent (path ending at %s)", p.Pos(o.Pos)))
			}
			_ = trueWithoutScan
		}
		r.count("sim_states", s.Nodes)
		if cmp == 0 {
			bad = append(bad, "never looks for an IF token")
		}
		// every 'return true' is preceded by a scan loop: its block is dominated by a failed IF comparison or by a terminator test
		eachInstr(fn, func(in ssa.Instruction) {
			ret, ok := in.(*ssa.Return)
			if !ok {
				return
			}
			if c, ok := ret.Results[0].(*ssa.Const); ok && c.Value != nil && constant.BoolVal(c.Value) {
				scanned := false
				for _, ct := range dominatingConds(ret.Block()) {
					if cc, ok := ct.Cond.(*ssa.Call); ok && cc.Call.StaticCallee() != nil && cc.Call.StaticCallee() == p.FuncOpt("parser", "isDMLTerminator") && ct.Truth {
						scanned = true
					}
				}
				if !scanned {
					bad = append(bad, p.Pos(ret.Pos())+": returns idempotent without having scanned to the statement terminator")
				}
			}
		})
		r.check(len(bad) == 0, rule, "parser."+name, p.Pos(fn.Pos()), "", strings.Join(dedupe(bad), " || "))
	}
	// the terminator set contains end of input
	term := p.Func("parser", "isDMLTerminator")
	// (decided by evaluating the predicate on the end-of-input token, whatever form its set takes)
	hasEOF := false
	{
		s := newSim(p)
		s.Inline = func(f *ssa.Function) bool { return p.InRepo(f) && f.Pkg == term.Pkg }
		init := newState()
		if len(term.Params) == 1 {
			init.vals[term.Params[0]] = avC(p.constOf("parser", "tkEOF"))
			n, allTrue := 0, true
			for _, o := range s.Run(term, init) {
				if o.Panic {
					continue
				}
				n++
				if b, known := o.Ret.isBool(); !known || !b {
					allTrue = false
				}
			}
			hasEOF = n > 0 && allTrue
		}
	}
	r.check(hasEOF, rule, "parser.isDMLTerminator", p.Pos(term.Pos()), "", "end of input is not a statement terminator: the IF scan would never end")
}

func c06Totality(p *Prog, r *Report, famList []*ssa.Function, fam map[*ssa.Function]bool) {
	r.Rule("C06.progress", "every loop of the hand-written parser consumes a token on every iteration (a direct lexer.next(), untilToken, or a callee that always consumes one)")
	r.Rule("C06.eof-exit", "with the lexer at end of input every parser function terminates: no loop can continue on tkEOF")
	lexNext := func(c ssa.CallInstruction) bool {
		return callIsMethod(c, "parser", "lexer", "next") || callIsFunc(c, "parser", "untilToken")
	}
	// functions analysed: the family plus helpers that take the lexer
	var all []*ssa.Function
	for _, fn := range p.ScopedFuncs("parser") {
		if fn.Parent() != nil || recvNamed(fn) != nil {
			continue
		}
		takesLexer := false
		for _, par := range fn.Params {
			if typeIs(par.Type(), "parser", "lexer") {
				takesLexer = true
			}
		}
		if takesLexer {
			all = append(all, fn)
		}
	}
	// consuming: all success outcomes have lex >= 1 (fixpoint)
	consuming := map[*ssa.Function]bool{}
	run := func(fn *ssa.Function, eofMode bool) (*Sim, []Outcome) {
		s := newSim(p)
		// pure predicates over tokens (isDMLTerminator, isOperator) are folded
		s.Inline = func(f *ssa.Function) bool {
			if f.Pkg == nil || f.Pkg.Pkg.Path() != pkgPath("parser") || len(f.Params) == 0 {
				return false
			}
			for _, par := range f.Params {
				if !typeIs(par.Type(), "parser", "token") {
					return false
				}
			}
			return true
		}
		s.Progress["lex"] = !eofMode
		s.Effect = func(call ssa.CallInstruction, callee *ssa.Function) []string {
			if lexNext(call) {
				return []string{"lex"}
			}
			return nil
		}
		base := familyModel(p, fam, nil)
		tkEOF := avC(p.constOf("parser", "tkEOF"))
		s.Model = func(sm *Sim, st *State, call ssa.CallInstruction, callee *ssa.Function) []*State {
			if eofMode {
				// every token the function can obtain is tkEOF
				if lexNext(call) {
					SetCallResult(st, call, tkEOF)
					return []*State{st}
				}
				if callIsFunc(call, "parser", "skipToken") {
					SetCallResult(st, call, tkEOF)
					return []*State{st}
				}
			}
			outs := base(sm, st, call, callee)
			if callee != nil && (fam[callee] || isErrHelper(p, callee, fam)) {
				for _, o := range outs {
					if !(fam[callee]) {
						// helpers: progress only if known to consume
						if consuming[callee] {
							o.addEff("lex")
							if o.neweff == nil {
								o.neweff = map[string]bool{}
							}
							o.neweff["lex"] = true
						}
					} else if !consuming[callee] {
						// familyModel added lex optimistically: keep only for consuming callees
						if o.eff["lex"] > st.eff["lex"] {
							o.eff["lex"] = st.eff["lex"]
						}
					} else {
						if o.neweff == nil {
							o.neweff = map[string]bool{}
						}
						o.neweff["lex"] = true
					}
					if eofMode {
						// tokens returned by callees are tkEOF too
						if v, ok := call.(ssa.Value); ok {
							if tv, ok := o.vals[v]; ok && tv.K == avTuple {
								res := callee.Signature.Results()
								for i := 0; i < res.Len(); i++ {
									if typeIs(res.At(i).Type(), "parser", "token") {
										tv.T[i] = tkEOF
									}
								}
								o.vals[v] = tv
							}
						}
					}
				}
			}
			return outs
		}
		init := newState()
		if eofMode {
			for _, par := range fn.Params {
				if typeIs(par.Type(), "parser", "token") {
					init.vals[par] = tkEOF
				}
			}
		}
		outs := s.Run(fn, init)
		r.count("sim_states", s.Nodes)
		return s, outs
	}
	for iter := 0; iter < 4; iter++ {
		changed := false
		for _, fn := range all {
			if consuming[fn] {
				continue
			}
			_, outs := run(fn, false)
			okAll := len(outs) > 0
			n := fn.Signature.Results().Len()
			for _, o := range outs {
				if o.Panic {
					continue
				}
				if n > 0 && types.Identical(fn.Signature.Results().At(n-1).Type(), errType) {
					e := o.Ret
					if n > 1 {
						e = o.Ret.elem(n - 1)
					}
					if e.K == avNonNil {
						continue
					}
				}
				if o.St.eff["lex"] == 0 {
					okAll = false
				}
			}
			if okAll {
				consuming[fn] = true
				changed = true
			}
		}
		if !changed {
			break
		}
	}
	r.count("consuming_functions", len(consuming))
	for _, fn := range all {
		s, _ := run(fn, false)
		r.check(len(s.NoProgress) == 0, "C06.progress", "parser."+fn.Name(), p.Pos(fn.Pos()), "", "loop iteration that consumes no token: "+strings.Join(s.NoProgress, " ; "))
		s2, outs := run(fn, true)
		var bad []string
		if len(s2.NoProgress) > 0 {
			bad = append(bad, "a loop keeps running at end of input: "+strings.Join(s2.NoProgress, " ; "))
		}
		if len(outs) == 0 {
			bad = append(bad, "no terminating path at end of input")
		}
		r.check(len(bad) == 0, "C06.eof-exit", "parser."+fn.Name(), p.Pos(fn.Pos()), "", strings.Join(bad, " || "))
	}
	r.Floor("C06.progress", 15, "parser functions taking the lexer")
	// panic-freedom of the classifier and handled-query entry points
	panicFree(p, r, "C06.panic-free", []*ssa.Function{p.Func("parser", "IsQueryIdempotent"), p.Func("parser", "IsQueryHandled")}, func(fn *ssa.Function) bool {
		return fn.Pkg != nil && fn.Pkg.Pkg.Path() == pkgPath("parser") && !isGeneratedLexer(fn)
	})
}

func c06LexerRewind(p *Prog, r *Report) {
	const rule = "C06.lexer-rewind"
	r.Rule(rule, "mark() saves and rewind() restores every lexer field that next() assigns (position and current identifier): a lookahead must not leak into the term parsed afterwards")
	lx := p.Named("parser", "lexer")
	next, mark, rewind := p.methodOf(lx, "next"), p.methodOf(lx, "mark"), p.methodOf(lx, "rewind")
	if next == nil || mark == nil || rewind == nil {
		fatalf("anchor: lexer.next/mark/rewind not found")
	}
	stored := func(fn *ssa.Function) map[*types.Var]ssa.Value {
		m := map[*types.Var]ssa.Value{}
		eachInstr(fn, func(in ssa.Instruction) {
			if st, ok := in.(*ssa.Store); ok {
				if fa, ok := st.Addr.(*ssa.FieldAddr); ok && namedOf(fa.X.Type()) == lx {
					m[fieldOfAddr(fa)] = st.Val
				}
			}
		})
		return m
	}
	written := stored(next)
	restored := stored(rewind)
	saved := stored(mark)
	var bad []string
	for f := range written {
		rv, ok := restored[f]
		if !ok {
			bad = append(bad, fmt.Sprintf("next() assigns lexer.%s but rewind() does not restore it", f.Name()))
			continue
		}
		// restored from a field that mark() saved from f
		sf, _ := loadedField(rv)
		if sf == nil {
			bad = append(bad, fmt.Sprintf("rewind() restores lexer.%s from something other than a saved copy", f.Name()))
			continue
		}
		mv, ok := saved[sf]
		if !ok {
			bad = append(bad, fmt.Sprintf("mark() does not save lexer.%s", f.Name()))
			continue
		}
		if of, _ := loadedField(mv); of != f {
			bad = append(bad, fmt.Sprintf("mark() saves something other than lexer.%s into lexer.%s", f.Name(), sf.Name()))
		}
	}
	if len(written) < 2 {
		bad = append(bad, fmt.Sprintf("next() assigns only %d lexer fields (position and identifier expected)", len(written)))
	}
	r.check(len(bad) == 0, rule, "parser.lexer.mark/rewind", p.Pos(rewind.Pos()), fmt.Sprintf("%d fields saved and restored", len(written)), strings.Join(bad, " || "))
}

// isGeneratedLexer: the ragel-generated scanner function (trusted generated component).
func isGeneratedLexer(fn *ssa.Function) bool {
	return fn.Name() == "next" && recvNamed(fn) != nil && canonTypeName(recvNamed(fn)) == "lexer"
}

// boundedRecursion: the hand-written parser is recursive descent; its recursion depth is driven
// by the nesting of the statement text (an attacker chooses it).  Every cycle of the parser's
// call graph must pass through a call that is made only after a depth guard succeeded, so the
// depth is bounded by a constant instead of by the goroutine stack (exhausting that stack is a
// fatal runtime error that takes the whole process down, it cannot be recovered).
func boundedRecursion(p *Prog, r *Report, rule string) {
	r.Rule(rule, "every recursive cycle among the parser's functions contains a call that is made only after a depth guard (a lexer method that compares a depth counter with a constant limit and increments it) returned without error: the recursion depth is bounded by that constant, not by the nesting of the input")
	fns := p.ScopedFuncs("parser")
	inScope := map[*ssa.Function]bool{}
	for _, f := range fns {
		if f.Parent() == nil && !isGeneratedLexer(f) {
			inScope[f] = true
		}
	}
	// depth guards: methods of the lexer with `field >= const` and `field = field + 1`
	guards := map[*ssa.Function]bool{}
	for f := range inScope {
		if f.Signature.Recv() == nil || f.Signature.Results().Len() != 1 {
			continue
		}
		cmp, inc := false, false
		eachInstr(f, func(in ssa.Instruction) {
			switch x := in.(type) {
			case *ssa.BinOp:
				if x.Op == token.GEQ || x.Op == token.GTR || x.Op == token.LSS || x.Op == token.LEQ {
					lf, _ := loadedField(x.X)
					_, isC := x.Y.(*ssa.Const)
					if lf != nil && isC {
						cmp = true
					}
				}
			case *ssa.Store:
				if fa, ok := x.Addr.(*ssa.FieldAddr); ok {
					if bo, ok := x.Val.(*ssa.BinOp); ok && bo.Op == token.ADD {
						if lf, _ := loadedField(bo.X); lf == fieldOfAddr(fa) {
							inc = true
						}
					}
				}
			}
		})
		if cmp && inc {
			guards[f] = true
		}
	}
	// the counter the guards count in: written by the guards, by their decrementing counterparts
	// and where a lexer is set up; never restored together with the position (a whole-struct copy
	// of the lexer taken before a guard and assigned back after it undoes the guard's increment)
	depthFields := map[*types.Var]bool{}
	for g := range guards {
		eachInstr(g, func(in ssa.Instruction) {
			if st, ok := in.(*ssa.Store); ok {
				if fa, ok := st.Addr.(*ssa.FieldAddr); ok {
					if bo, ok := st.Val.(*ssa.BinOp); ok && bo.Op == token.ADD {
						if lf, _ := loadedField(bo.X); lf == fieldOfAddr(fa) {
							depthFields[lf] = true
						}
					}
				}
			}
		})
	}
	var cb []string
	nw := 0
	for f := range inScope {
		f := f
		eachInstr(f, func(in ssa.Instruction) {
			st, ok := in.(*ssa.Store)
			if !ok {
				return
			}
			if fa, ok := st.Addr.(*ssa.FieldAddr); ok && depthFields[fieldOfAddr(fa)] {
				nw++
				if guards[f] {
					return
				}
				// the counterpart: counter = counter - 1
				if bo, ok := st.Val.(*ssa.BinOp); ok && bo.Op == token.SUB {
					if lf, _ := loadedField(bo.X); lf == fieldOfAddr(fa) {
						if one, ok := constInt(bo.Y); ok && one == 1 {
							return
						}
					}
				}
				// set-up: a constant zero
				if k, ok := constInt(st.Val); ok && k == 0 {
					return
				}
				cb = append(cb, fmt.Sprintf("%s: %s writes the nesting counter %s outside the depth guard and its counterpart", p.Pos(st.Pos()), f.Name(), fieldOfAddr(fa).Name()))
				return
			}
			// whole-struct assignment through a pointer to the type that holds the counter
			pt, ok := st.Addr.Type().Underlying().(*types.Pointer)
			if !ok {
				return
			}
			stt, ok := pt.Elem().Underlying().(*types.Struct)
			if !ok {
				return
			}
			holds := false
			for i := 0; i < stt.NumFields(); i++ {
				if depthFields[stt.Field(i)] {
					holds = true
				}
			}
			if !holds {
				return
			}
			if al, ok := st.Addr.(*ssa.Alloc); ok && al.Parent() == f {
				return // a local copy being made (a snapshot), not a restore
			}
			cb = append(cb, fmt.Sprintf("%s: %s assigns a whole %s (position and nesting counter together): a snapshot taken before a depth guard and restored after it undoes the guard's count, so the nesting is no longer bounded", p.Pos(st.Pos()), f.Name(), namedOf(pt.Elem()).Obj().Name()))
		})
	}
	r.check(len(cb) == 0 && len(depthFields) > 0 && nw > 0, rule, "nesting counter", "", fmt.Sprintf("%d writes of the counter, all by the guard and its counterpart", nw), strings.Join(dedupe(cb), " || "))
	// an edge f -> g is guarded when the call is dominated by `guard() == nil`
	guardedCall := func(c ssa.CallInstruction) bool {
		for _, ct := range dominatingConds(c.Block()) {
			bo, ok := ct.Cond.(*ssa.BinOp)
			if !ok || (bo.Op != token.NEQ && bo.Op != token.EQL) {
				continue
			}
			isNil := func(v ssa.Value) bool { k, ok := v.(*ssa.Const); return ok && k.Value == nil }
			var other ssa.Value
			switch {
			case isNil(bo.Y):
				other = bo.X
			case isNil(bo.X):
				other = bo.Y
			default:
				continue
			}
			if (bo.Op == token.EQL) != ct.Truth { // need: err == nil holds
				continue
			}
			for _, o := range origins(other) {
				if call, ok := o.(*ssa.Call); ok && call.Call.StaticCallee() != nil && guards[call.Call.StaticCallee()] {
					return true
				}
			}
		}
		return false
	}
	adj := map[*ssa.Function][]*ssa.Function{}
	nEdges, nGuarded := 0, 0
	for f := range inScope {
		eachCall(f, func(c ssa.CallInstruction) {
			g := c.Common().StaticCallee()
			if g == nil || !inScope[g] {
				return
			}
			nEdges++
			if guardedCall(c) {
				nGuarded++
				return
			}
			adj[f] = append(adj[f], g)
		})
	}
	// cycles among unguarded edges
	color := map[*ssa.Function]int{}
	var stack []*ssa.Function
	var cycles []string
	var dfs func(f *ssa.Function)
	dfs = func(f *ssa.Function) {
		color[f] = 1
		stack = append(stack, f)
		for _, g := range adj[f] {
			switch color[g] {
			case 0:
				dfs(g)
			case 1:
				var names []string
				on := false
				for _, s := range stack {
					if s == g {
						on = true
					}
					if on {
						names = append(names, s.Name())
					}
				}
				names = append(names, g.Name())
				cycles = append(cycles, strings.Join(names, " -> "))
			}
		}
		stack = stack[:len(stack)-1]
		color[f] = 2
	}
	var order []*ssa.Function
	for f := range inScope {
		order = append(order, f)
	}
	sort.Slice(order, func(i, j int) bool { return order[i].Name() < order[j].Name() })
	for _, f := range order {
		if color[f] == 0 {
			dfs(f)
		}
	}
	sort.Strings(cycles)
	if len(cycles) > 4 {
		cycles = append(cycles[:4], fmt.Sprintf("... and %d more", len(cycles)-4))
	}
	detail := ""
	if len(cycles) > 0 {
		detail = "recursion whose depth only the input bounds (a statement nested a few million levels deep overflows the goroutine stack, which terminates the process): " + strings.Join(cycles, " ; ")
	}
	r.check(len(cycles) == 0, rule, "parser call graph", "", fmt.Sprintf("%d functions, %d calls among them, %d behind a depth guard, %d guard function(s)", len(inScope), nEdges, nGuarded, len(guards)), detail)
}

// rewoundAfter: every path that continues after the call resets the lexer to a marked position
// before it reads another token (a peek: what the call consumed does not stay consumed).
func rewoundAfter(p *Prog, lex *types.Named, c ssa.CallInstruction) bool {
	fn := c.Parent()
	isLexCall := func(in ssa.Instruction, name string) bool {
		cc, ok := in.(ssa.CallInstruction)
		if !ok {
			return false
		}
		callee := cc.Common().StaticCallee()
		return callee != nil && recvNamed(callee) == lex && (name == "" || callee.Name() == name)
	}
	// walk forward from the call: a path is fine when it meets rewind() or leaves the function
	// before any other call that takes the lexer
	type pos struct {
		b *ssa.BasicBlock
		i int
	}
	seen := map[*ssa.BasicBlock]bool{}
	var walk func(b *ssa.BasicBlock, from int) bool
	walk = func(b *ssa.BasicBlock, from int) bool {
		for i := from; i < len(b.Instrs); i++ {
			in := b.Instrs[i]
			if isLexCall(in, "rewind") {
				return true
			}
			if cc, ok := in.(ssa.CallInstruction); ok {
				takes := isLexCall(in, "")
				for _, a := range cc.Common().Args {
					if namedOf(a.Type()) == lex {
						takes = true
					}
				}
				if takes {
					return false // the lexer is used again without a rewind
				}
			}
			if _, ok := in.(*ssa.Return); ok {
				return true
			}
		}
		for _, s := range b.Succs {
			if seen[s] {
				continue
			}
			seen[s] = true
			if !walk(s, 0) {
				return false
			}
		}
		return true
	}
	blk := c.Block()
	for i, in := range blk.Instrs {
		if in == ssa.Instruction(c) {
			_ = fn
			return walk(blk, i+1)
		}
	}
	return false
}
