package main

import (
	"fmt"
	"go/types"
	"sort"
	"strings"

	"golang.org/x/tools/go/ssa"
)

// Renamed anchors.  A handful of rules start from an unexported function of the repository that
// they know by name (connPool.connect, Cluster.stayConnected, parseProtocolVersion ...).  A rename
// is a behaviour-preserving edit, and "anchor not found" would leave the property without a
// verdict.  For these names the signature and the set of functions called (as of the calibrated
// tree, anchors_gen.go) are recorded; when the name is gone, the function of the same package or
// receiver with the same signature whose callee set is clearly the most similar takes its place.
// When no candidate is clearly the best the anchor stays unresolved (no verdict), as before.
type anchorPrint struct {
	Sig     string
	Callees []string
}

func fingerprintOf(fn *ssa.Function) anchorPrint {
	sig := fn.Signature
	ps := []string{}
	for i := 0; i < sig.Params().Len(); i++ {
		ps = append(ps, types.TypeString(sig.Params().At(i).Type(), nil))
	}
	rs := []string{}
	for i := 0; i < sig.Results().Len(); i++ {
		rs = append(rs, types.TypeString(sig.Results().At(i).Type(), nil))
	}
	set := map[string]bool{}
	for _, f := range withClosures(fn) {
		eachCall(f, func(c ssa.CallInstruction) {
			cm := c.Common()
			switch {
			case cm.IsInvoke():
				set["~"+cm.Method.Name()] = true
			case cm.StaticCallee() != nil:
				callee := cm.StaticCallee()
				if callee.Parent() != nil {
					return
				}
				name := callee.Name()
				if rn := recvNamed(callee); rn != nil {
					name = rn.Obj().Name() + "." + name
				} else if callee.Pkg != nil {
					name = callee.Pkg.Pkg.Name() + "." + name
				}
				set[name] = true
			}
		})
	}
	// who calls it (distinguishes small leaf predicates of the same signature)
	if curProg != nil {
		if sites, _ := curProg.staticCallSites(fn); true {
			for _, cs := range sites {
				set["<"+rootFn(cs.Parent()).Name()] = true
			}
		}
	}
	var cs []string
	for k := range set {
		// names of functions that were recognised as renamed anchors count under their recorded name
		if c, ok := anchorRenames[k]; ok {
			k = c
		}
		cs = append(cs, k)
	}
	sort.Strings(cs)
	return anchorPrint{Sig: "(" + strings.Join(ps, ",") + ")(" + strings.Join(rs, ",") + ")", Callees: cs}
}

func jaccard(a, b []string) float64 {
	sa := map[string]bool{}
	for _, x := range a {
		sa[x] = true
	}
	inter, union := 0, len(sa)
	seen := map[string]bool{}
	for _, x := range b {
		if seen[x] {
			continue
		}
		seen[x] = true
		if sa[x] {
			inter++
		} else {
			union++
		}
	}
	if union == 0 {
		return 1
	}
	return float64(inter) / float64(union)
}

// anchorRenames: fingerprint entries ("Type.name", "pkg.name", "<name") of functions recognised as
// renamed anchors, mapped to the entries of their recorded names.
var anchorRenames = map[string]string{}
var anchorResolved = map[string]*ssa.Function{}
var anchorsPrepared bool

// prepareAnchors resolves the renamed anchors together: a function is often renamed along with
// the functions it calls or is called by, so what was recognised in one round sharpens the
// fingerprints of the next.
func prepareAnchors(p *Prog) {
	if anchorsPrepared {
		return
	}
	anchorsPrepared = true
	for round := 0; round < 3; round++ {
		for key := range anchorPrints {
			if anchorResolved[key] != nil {
				continue
			}
			parts := strings.Split(key, ".")
			var cands []*ssa.Function
			name := parts[len(parts)-1]
			switch len(parts) {
			case 2:
				sp := p.byPkg[pkgPath(parts[0])]
				if sp == nil || sp.Func(name) != nil {
					continue
				}
				for _, m := range sp.Members {
					if f, ok := m.(*ssa.Function); ok {
						cands = append(cands, f)
					}
				}
			case 3:
				n := p.NamedOpt(parts[0], parts[1])
				if n == nil {
					continue
				}
				have := false
				for _, m := range p.methodsOf(n) {
					if m.Name() == name {
						have = true
					}
				}
				if have {
					continue
				}
				cands = p.methodsOf(n)
			default:
				continue
			}
			if f := renamedAnchor1(key, cands); f != nil {
				anchorResolved[key] = f
				if len(parts) == 3 {
					anchorRenames[parts[1]+"."+f.Name()] = parts[1] + "." + name
				} else {
					anchorRenames[f.Pkg.Pkg.Name()+"."+f.Name()] = f.Pkg.Pkg.Name() + "." + name
				}
				anchorRenames["<"+f.Name()] = "<" + name
			}
		}
	}
}

// renamedAnchor picks, among candidates, the function that took over the role recorded under key.
func renamedAnchor(key string, candidates []*ssa.Function) *ssa.Function {
	if curProg != nil {
		prepareAnchors(curProg)
		if f := anchorResolved[key]; f != nil {
			return f
		}
	}
	return renamedAnchor1(key, candidates)
}

func renamedAnchor1(key string, candidates []*ssa.Function) *ssa.Function {
	want, ok := anchorPrints[key]
	if !ok {
		return nil
	}
	type scored struct {
		f *ssa.Function
		s float64
	}
	var sc []scored
	for _, f := range candidates {
		if f == nil || f.Blocks == nil || f.Parent() != nil {
			continue
		}
		taken := false
		for k2, f2 := range anchorResolved {
			if f2 == f && k2 != key {
				taken = true
			}
		}
		if taken {
			continue
		}
		fp := fingerprintOf(f)
		if fp.Sig != want.Sig {
			continue
		}
		// a function that still has its recorded name elsewhere in the table keeps its own role
		sc = append(sc, scored{f, jaccard(want.Callees, fp.Callees)})
	}
	sort.Slice(sc, func(i, j int) bool { return sc[i].s > sc[j].s })
	if len(sc) == 0 || sc[0].s < 0.6 {
		return nil
	}
	if len(sc) > 1 && sc[1].s > sc[0].s-0.2 {
		return nil
	}
	return sc[0].f
}

func init() {
	debugHooks["anchors"] = func(p *Prog) {
		type ent struct{ pkg, recv, name string }
		list := []ent{
			{"proxycore", "connPool", "connect"}, {"proxycore", "connPool", "stayConnected"},
			{"proxycore", "Cluster", "stayConnected"}, {"proxycore", "Cluster", "reconnect"}, {"proxycore", "Cluster", "connect"},
			{"proxycore", "Cluster", "setOutageTime"}, {"proxycore", "Cluster", "sendEvent"}, {"proxycore", "Cluster", "refreshHosts"}, {"proxycore", "Cluster", "mergeHosts"},
			{"proxy", "Proxy", "buildNodes"}, {"proxy", "", "parseProtocolVersion"}, {"proxy", "", "nameBasedUUID"},
			{"parser", "", "isHandledSelectStmt"}, {"parser", "", "isHandledUseStmt"}, {"parser", "", "isDMLTerminator"},
			{"parser", "", "parseUpdateOp"}, {"parser", "", "isIdempotentUpdateOpTermType"}, {"parser", "", "isIdempotentDeleteElementTermType"},
			{"parser", "lexer", "rewind"}, {"parser", "lexer", "mark"}, {"parser", "Identifier", "equal"},
			{"proxycore", "", "newPendingRequests"}, {"astra", "", "copyTLSConfig"},
		}
		fmt.Println("// Code generated by `cqlverif -dump anchors`; DO NOT EDIT.")
		fmt.Println("package main")
		fmt.Println()
		fmt.Println("var anchorPrints = map[string]anchorPrint{")
		for _, e := range list {
			var fn *ssa.Function
			key := e.pkg + "." + e.name
			if e.recv != "" {
				fn = p.methodOf(p.Named(e.pkg, e.recv), e.name)
				key = e.pkg + "." + e.recv + "." + e.name
			} else {
				fn = p.FuncOpt(e.pkg, e.name)
			}
			if fn == nil {
				continue
			}
			fp := fingerprintOf(fn)
			fmt.Printf("\t%q: {Sig: %q, Callees: %#v},\n", key, fp.Sig, fp.Callees)
		}
		fmt.Println("}")
	}
}

// canonicalName: the name a function is known by in the reviewed exception tables: its own name,
// or, for a function that took over a recorded anchor after a rename, the anchor's name.
var canonCache = map[*Prog]map[*ssa.Function]string{}

func canonicalName(p *Prog, fn *ssa.Function) string {
	m, ok := canonCache[p]
	if !ok {
		m = map[*ssa.Function]string{}
		canonCache[p] = m
		for key := range anchorPrints {
			parts := strings.Split(key, ".")
			if len(parts) != 3 {
				continue
			}
			n := p.NamedOpt(parts[0], parts[1])
			if n == nil {
				continue
			}
			if f := p.methodOf(n, parts[2]); f != nil && f.Name() != parts[2] {
				m[f] = parts[2]
			}
		}
	}
	if c, ok := m[fn]; ok {
		return c
	}
	return fn.Name()
}

// Renamed fields: the same idea for struct fields a rule knows by name: position and type in
// the struct as of the calibrated tree.
type fieldPrint struct {
	Index int
	Type  string
}

var fieldLookups = map[string]fieldPrint{}

// knownFieldName: the name is itself a recorded anchor of that struct (it keeps its own role).
func knownFieldName(pkg, typ, name string) bool {
	_, ok := fieldPrints[pkg+"."+typ+"."+name]
	return ok
}

func init() {
	debugHooks["fields"] = func(p *Prog) {
		var ids []string
		for id := range properties {
			ids = append(ids, id)
		}
		sort.Strings(ids)
		for _, id := range ids {
			func() {
				defer func() { recover() }()
				properties[id](p, newReport(p, id))
			}()
		}
		var keys []string
		for k := range fieldLookups {
			keys = append(keys, k)
		}
		sort.Strings(keys)
		fmt.Println("// Code generated by `cqlverif -dump fields`; DO NOT EDIT.")
		fmt.Println("package main")
		fmt.Println()
		fmt.Println("var fieldPrints = map[string]fieldPrint{")
		for _, k := range keys {
			// unexported fields only (exported ones are API)
			parts := strings.Split(k, ".")
			if len(parts) == 3 && parts[2] != "" && parts[2][0] >= 'a' && parts[2][0] <= 'z' {
				fmt.Printf("\t%q: {Index: %d, Type: %q},\n", k, fieldLookups[k].Index, fieldLookups[k].Type)
			}
		}
		fmt.Println("}")
	}
}

// canonFieldName: the name a field is known by in descriptors and reviewed tables: its own, or
// the recorded one when the field took over a recorded anchor after a rename.
var canonFieldCache map[*types.Var]string

func canonFieldName(f *types.Var) string {
	if canonFieldCache == nil && curProg != nil {
		canonFieldCache = map[*types.Var]string{}
		for key := range fieldPrints {
			parts := strings.Split(key, ".")
			if len(parts) != 3 {
				continue
			}
			if v := curProg.FieldOpt(parts[0], parts[1], parts[2]); v != nil && v.Name() != parts[2] {
				canonFieldCache[v] = parts[2]
			}
		}
	}
	if c, ok := canonFieldCache[f]; ok {
		return c
	}
	return f.Name()
}

// Renamed types: an unexported type a rule knows by name is recognised by its fields and methods.
var typeLookups = map[string][]string{}

func typeFeatures(n *types.Named) []string {
	var out []string
	if st, ok := n.Underlying().(*types.Struct); ok {
		for i := 0; i < st.NumFields(); i++ {
			out = append(out, "f:"+st.Field(i).Name()+":"+types.TypeString(st.Field(i).Type(), func(*types.Package) string { return "" }))
		}
	} else {
		out = append(out, "u:"+types.TypeString(n.Underlying(), func(*types.Package) string { return "" }))
	}
	for i := 0; i < n.NumMethods(); i++ {
		out = append(out, "m:"+n.Method(i).Name())
	}
	sort.Strings(out)
	return out
}

var renamedTypeCache = map[string]*types.Named{}

func renamedType(sp *ssa.Package, pkg, name string) *types.Named {
	key := pkg + "." + name
	if n, ok := renamedTypeCache[key]; ok {
		return n
	}
	renamedTypeCache[key] = nil
	want, ok := typePrints[key]
	if !ok {
		return nil
	}
	// the type's own name appears in its features (fields of pointer-to-self ...): compare with it erased
	erase := func(fs []string, nm string) []string {
		var out []string
		for _, f := range fs {
			out = append(out, strings.Replace(f, "."+nm, ".", -1))
		}
		return out
	}
	type scored struct {
		n *types.Named
		s float64
	}
	var sc []scored
	for _, nm := range sp.Pkg.Scope().Names() {
		tn, ok := sp.Pkg.Scope().Lookup(nm).(*types.TypeName)
		if !ok {
			continue
		}
		cand, ok := tn.Type().(*types.Named)
		if !ok {
			continue
		}
		if _, known := typePrints[pkg+"."+nm]; known {
			continue // keeps its own role
		}
		sc = append(sc, scored{cand, jaccard(erase(want, name), erase(typeFeatures(cand), nm))})
	}
	sort.Slice(sc, func(i, j int) bool { return sc[i].s > sc[j].s })
	if len(sc) == 0 || sc[0].s < 0.6 || (len(sc) > 1 && sc[1].s > sc[0].s-0.2) {
		return nil
	}
	renamedTypeCache[key] = sc[0].n
	return sc[0].n
}

func init() {
	debugHooks["types"] = func(p *Prog) {
		var ids []string
		for id := range properties {
			ids = append(ids, id)
		}
		sort.Strings(ids)
		for _, id := range ids {
			func() {
				defer func() { recover() }()
				properties[id](p, newReport(p, id))
			}()
		}
		var keys []string
		for k := range typeLookups {
			keys = append(keys, k)
		}
		sort.Strings(keys)
		fmt.Println("// Code generated by `cqlverif -dump types`; DO NOT EDIT.")
		fmt.Println("package main")
		fmt.Println()
		fmt.Println("var typePrints = map[string][]string{")
		for _, k := range keys {
			parts := strings.Split(k, ".")
			if len(parts) == 2 && parts[1] != "" && parts[1][0] >= 'a' && parts[1][0] <= 'z' {
				fmt.Printf("\t%q: %#v,\n", k, typeLookups[k])
			}
		}
		fmt.Println("}")
	}
}
