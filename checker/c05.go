package main

// C05 — retries follow the documented policy and terminate.
//
//  policy-table  the four decision functions of the default policy are evaluated
//                by constant folding for every cell of a finite partition of
//                their inputs and compared with the documented table
//  arm-policy    each error kind consults the policy method the documentation
//                names for it (or none)
//  action-map    RetryNext => count++ and walk to the next host once,
//                RetrySame => count++ and re-send to the same host once,
//                anything else => no retry
//  progress      shared with C01: the host walk has no cycle without Next()
//  plan-bounded  the round-robin plan yields at most len(hosts) hosts (C15)

import (
	"fmt"
	"go/constant"
	"go/types"
	"sort"
	"strings"

	"golang.org/x/tools/go/ssa"
)

func init() { register("C05", checkC05) }

// constsOfType lists the package-level constants of a named type.
func (p *Prog) constsOfType(pkg, typ string) map[string]constant.Value {
	sp := p.Pkg(pkg)
	out := map[string]constant.Value{}
	sc := sp.Pkg.Scope()
	for _, n := range sc.Names() {
		if c, ok := sc.Lookup(n).(*types.Const); ok && typeIs(c.Type(), pkg, typ) {
			out[n] = c.Val()
		}
	}
	return out
}

func checkC05(p *Prog, r *Report) {
	r.NotCov = append(r.NotCov,
		"which host 'answers successfully' (backend behaviour); user-supplied RetryPolicy implementations",
		"attempt counts as numbers: only the structure (one Next() per step, bounded plan, no non-advancing cycle) is decided")
	c05PolicyTable(p, r)
	rr := requestRoles(p)
	c05ArmPolicy(p, r, rr)
	c05ActionMap(p, r, rr)
	c05Progress(p, r, rr)
	c15PlanNext(p, r, "C05.plan-bounded")
	// a plan already handed out to a request must stay what it was while hosts come and go
	c15Cow(p, r, "C05")
	c05ConnectionLoss(p, r)
	resultThreading(p, r, "C05.result-threading", "proxy", "proxycore")
	// the idempotence verdict of a BATCH is an input of every "if idempotent" clause of the policy
	r.borrow("C04", "C05", func() { c04Batch(p, r, requestRoles(p)) })
}

func c05PolicyTable(p *Prog, r *Report) {
	const rule = "C05.policy-table"
	r.Rule(rule, "default policy decision functions equal the documented table on every cell of a finite partition of (retryCount, received/blockFor, dataPresent, writeType, error code)")
	impls := p.implsOf("proxy", "proxy", "RetryPolicy")
	if len(impls) != 1 {
		fatalf("anchor: expected one RetryPolicy implementation in package proxy, found %d", len(impls))
	}
	pol := impls[0]
	dec := map[string]constant.Value{}
	for _, n := range []string{"RetrySame", "RetryNext", "ReturnError"} {
		dec[n] = p.constOf("proxy", n)
	}
	decName := func(a AV) string {
		if a.K != avConst {
			return a.String()
		}
		for n, v := range dec {
			if v.ExactString() == a.C.ExactString() {
				return n
			}
		}
		return a.String()
	}
	// the default policy must be what NewProxy installs when none is configured
	newPol := p.Func("proxy", "NewDefaultRetryPolicy")
	instOK := false
	eachInstr(newPol, func(in ssa.Instruction) {
		if ret, ok := in.(*ssa.Return); ok {
			for _, o := range origins(ret.Results[0]) {
				if namedOf(o.Type()) == pol {
					instOK = true
				}
			}
		}
	})
	r.check(instOK, rule, "NewDefaultRetryPolicy", p.Pos(newPol.Pos()), "returns the analysed policy type", "does not return the policy type whose table is analysed")

	rcs := []int64{0, 1, 2, 3}
	evals := 0
	run := func(method string, bind func(s *Sim, st *State, fn *ssa.Function), expect string, cell string) (string, bool) {
		fn := p.methodOf(pol, method)
		if fn == nil {
			fatalf("anchor: policy method %s not found", method)
		}
		s := newSim(p)
		// named predicates the decision was split into (isFirstAttempt(retryCount), ...) are part of it
		s.Inline = func(f *ssa.Function) bool { return p.InRepo(f) && f.Blocks != nil && f != fn }
		st := newState()
		bind(s, st, fn)
		outs := s.Run(fn, st)
		evals++
		r.count("sim_states", s.Nodes)
		got := map[string]bool{}
		for _, o := range outs {
			if !o.Panic {
				got[decName(o.Ret)] = true
			}
		}
		g := strings.Join(sortedKeys(got), "|")
		return g, g == expect
	}
	type mism struct{ cell, got, want string }
	report := func(method string, ms []mism, n int) {
		fn := p.methodOf(pol, method)
		var d []string
		for i, m := range ms {
			if i < 6 {
				d = append(d, fmt.Sprintf("%s: got %s want %s", m.cell, m.got, m.want))
			}
		}
		r.check(len(ms) == 0, rule, pol.Obj().Name()+"."+method, p.Pos(fn.Pos()), fmt.Sprintf("%d cells agree with the documented table", n),
			fmt.Sprintf("%d of %d cells differ: %s", len(ms), n, strings.Join(d, " ; ")))
	}
	paramByName := func(fn *ssa.Function, name string) *ssa.Parameter {
		for _, par := range fn.Params {
			if par.Name() == name {
				return par
			}
		}
		// positional fallback: the int parameter
		for _, par := range fn.Params {
			if isIntegerType(par.Type()) {
				return par
			}
		}
		fatalf("anchor: %s has no retry count parameter", fn)
		return nil
	}
	intParam := func(fn *ssa.Function) *ssa.Parameter {
		for _, par := range fn.Params {
			if b, ok := par.Type().Underlying().(*types.Basic); ok && b.Kind() == types.Int {
				return par
			}
		}
		return paramByName(fn, "retryCount")
	}

	// OnReadTimeout
	{
		recvF := p.Field("message", "ReadTimeout", "Received")
		blockF := p.Field("message", "ReadTimeout", "BlockFor")
		dataF := p.Field("message", "ReadTimeout", "DataPresent")
		var ms []mism
		n := 0
		for _, rc := range rcs {
			for rec := int64(0); rec <= 3; rec++ {
				for blk := int64(0); blk <= 3; blk++ {
					for _, dp := range []bool{false, true} {
						want := "ReturnError"
						if rc == 0 && rec >= blk && !dp {
							want = "RetrySame"
						}
						cell := fmt.Sprintf("retryCount=%d received=%d blockFor=%d dataPresent=%v", rc, rec, blk, dp)
						got, ok := run("OnReadTimeout", func(s *Sim, st *State, fn *ssa.Function) {
							s.Tracked[recvF], s.Tracked[blockF], s.Tracked[dataF] = true, true, true
							st.cells[recvF], st.cells[blockF], st.cells[dataF] = avInt(rec), avInt(blk), avBool(dp)
							st.vals[intParam(fn)] = avInt(rc)
						}, want, cell)
						n++
						if !ok {
							ms = append(ms, mism{cell, got, want})
						}
					}
				}
			}
		}
		report("OnReadTimeout", ms, n)
	}
	// OnWriteTimeout
	{
		wtF := p.Field("message", "WriteTimeout", "WriteType")
		wts := p.constsOfType("primitive", "WriteType")
		if len(wts) < 5 {
			fatalf("anchor: only %d WriteType constants found", len(wts))
		}
		wts["<unknown>"] = constant.MakeString("SOMETHING_ELSE")
		var names []string
		for n := range wts {
			names = append(names, n)
		}
		sort.Strings(names)
		var ms []mism
		n := 0
		batchLog := p.constOf("primitive", "WriteTypeBatchLog")
		for _, rc := range rcs {
			for _, wn := range names {
				want := "ReturnError"
				if rc == 0 && wts[wn].ExactString() == batchLog.ExactString() {
					want = "RetrySame"
				}
				cell := fmt.Sprintf("retryCount=%d writeType=%s", rc, wn)
				got, ok := run("OnWriteTimeout", func(s *Sim, st *State, fn *ssa.Function) {
					s.Tracked[wtF] = true
					st.cells[wtF] = avC(wts[wn])
					st.vals[intParam(fn)] = avInt(rc)
				}, want, cell)
				n++
				if !ok {
					ms = append(ms, mism{cell, got, want})
				}
			}
		}
		report("OnWriteTimeout", ms, n)
	}
	// OnUnavailable
	{
		var ms []mism
		n := 0
		for _, rc := range rcs {
			want := "ReturnError"
			if rc == 0 {
				want = "RetryNext"
			}
			cell := fmt.Sprintf("retryCount=%d", rc)
			got, ok := run("OnUnavailable", func(s *Sim, st *State, fn *ssa.Function) {
				st.vals[intParam(fn)] = avInt(rc)
			}, want, cell)
			n++
			if !ok {
				ms = append(ms, mism{cell, got, want})
			}
		}
		report("OnUnavailable", ms, n)
	}
	// OnErrorResponse
	{
		codes := p.constsOfType("primitive", "ErrorCode")
		if len(codes) < 10 {
			fatalf("anchor: only %d ErrorCode constants found", len(codes))
		}
		var names []string
		for n := range codes {
			names = append(names, n)
		}
		sort.Strings(names)
		rf, wf := p.constOf("primitive", "ErrorCodeReadFailure"), p.constOf("primitive", "ErrorCodeWriteFailure")
		var ms []mism
		n := 0
		for _, rc := range rcs {
			for _, cn := range names {
				want := "RetryNext"
				if codes[cn].ExactString() == rf.ExactString() || codes[cn].ExactString() == wf.ExactString() {
					want = "ReturnError"
				}
				cell := fmt.Sprintf("retryCount=%d code=%s", rc, cn)
				got, ok := run("OnErrorResponse", func(s *Sim, st *State, fn *ssa.Function) {
					st.vals[intParam(fn)] = avInt(rc)
					s.Model = func(sm *Sim, st2 *State, call ssa.CallInstruction, callee *ssa.Function) []*State {
						if c := call.Common(); c.IsInvoke() && c.Method.Name() == "GetErrorCode" {
							SetCallResult(st2, call, avC(codes[cn]))
							return []*State{st2}
						}
						return nil
					}
				}, want, cell)
				n++
				if !ok {
					ms = append(ms, mism{cell, got, want})
				}
			}
		}
		report("OnErrorResponse", ms, n)
	}
	r.count("table_cells", evals)
	r.Floor(rule, 5, "policy functions")
}

// documented pairing of error kinds and policy methods
var armPolicy = map[string]string{
	"*message.ReadTimeout":     "OnReadTimeout",
	"*message.WriteTimeout":    "OnWriteTimeout",
	"*message.Unavailable":     "OnUnavailable",
	"*message.ServerError":     "OnErrorResponse",
	"*message.Overloaded":      "OnErrorResponse",
	"*message.TruncateError":   "OnErrorResponse",
	"*message.ReadFailure":     "OnErrorResponse",
	"*message.WriteFailure":    "OnErrorResponse",
	"*message.IsBootstrapping": "", // constant: next host
}

func c05ArmPolicy(p *Prog, r *Report, rr *reqRoles) {
	const rule = "C05.arm-policy"
	r.Rule(rule, "each backend error kind consults the policy method documented for it; bootstrapping always moves to the next host; every other error kind is returned to the client")
	paths, n := runErrorSim(p, rr, nil)
	r.count("sim_states", n)
	type agg struct {
		bad []string
		n   int
	}
	arms := map[string]*agg{}
	for _, ep := range paths {
		arm := ep.arm
		if arm == "" {
			arm = "(no arm)"
		}
		a := arms[arm]
		if a == nil {
			a = &agg{}
			arms[arm] = a
		}
		a.n++
		want, documented := armPolicy[ep.arm]
		switch {
		case documented && want != "" && ep.policy != "" && ep.policy != want:
			a.bad = append(a.bad, fmt.Sprintf("consults %s, documented %s", ep.policy, want))
		case documented && want == "" && ep.policy != "":
			a.bad = append(a.bad, "consults the policy although the documented action is unconditional")
		case !documented && (ep.policy != "" || len(ep.retries) > 0):
			a.bad = append(a.bad, fmt.Sprintf("error kind outside the documented table consults %q / retries %v", ep.policy, ep.retries))
		}
		if ep.arm == "*message.IsBootstrapping" {
			if len(ep.retries) != 1 || ep.retries[0] != "true" {
				a.bad = append(a.bad, fmt.Sprintf("bootstrapping does not move to the next host exactly once (retries %v)", ep.retries))
			}
		}
	}
	// every documented arm must exist and (if it has a policy) reach it on some path
	for arm, want := range armPolicy {
		a := arms[arm]
		if a == nil {
			r.bad(rule, "arm:"+arm, p.Pos(rr.handleErr.Pos()), "documented error kind has no arm in the error-result handler")
			continue
		}
		if want != "" {
			reached := false
			for _, ep := range paths {
				if ep.arm == arm && ep.policy == want {
					reached = true
				}
			}
			if !reached {
				a.bad = append(a.bad, "no path consults "+want)
			}
		}
	}
	var names []string
	for a := range arms {
		names = append(names, a)
	}
	sort.Strings(names)
	for _, a := range names {
		r.check(len(arms[a].bad) == 0, rule, "arm:"+a, p.Pos(rr.handleErr.Pos()), fmt.Sprintf("%d paths", arms[a].n), strings.Join(dedupe(arms[a].bad), " || "))
	}
	r.Floor(rule, 9, "error kinds")
}

func c05ActionMap(p *Prog, r *Report, rr *reqRoles) {
	const rule = "C05.action-map"
	r.Rule(rule, "RetryNext => retry count incremented and one walk to the next host; RetrySame => count incremented and one re-send to the same host; ReturnError => no retry")
	force := map[string]constant.Value{}
	for _, n := range []string{"RetrySame", "RetryNext", "ReturnError"} {
		force[n] = p.constOf("proxy", n)
	}
	paths, n := runErrorSim(p, rr, force)
	r.count("sim_states", n)
	per := map[string][]string{"RetrySame": nil, "RetryNext": nil, "ReturnError": nil}
	cnt := map[string]int{}
	for _, ep := range paths {
		d := ep.dec
		if d == "" {
			d = "ReturnError"
		}
		cnt[d]++
		switch d {
		case "RetryNext", "RetrySame":
			wantArg := "true"
			if d == "RetrySame" {
				wantArg = "false"
			}
			if len(ep.retries) != 1 || ep.retries[0] != wantArg {
				per[d] = append(per[d], fmt.Sprintf("expected one host walk with next=%s, got %v (path ending at %s)", wantArg, ep.retries, ep.pos))
			}
			if ep.incs != 1 {
				per[d] = append(per[d], fmt.Sprintf("retry count updated %d times (path ending at %s)", ep.incs, ep.pos))
			}
		default:
			if len(ep.retries) != 0 {
				per[d] = append(per[d], fmt.Sprintf("retries %v although the decision is to return the error (path ending at %s)", ep.retries, ep.pos))
			}
			if ep.incs != 0 {
				per[d] = append(per[d], "retry count changed without a retry")
			}
		}
	}
	for _, d := range []string{"RetrySame", "RetryNext", "ReturnError"} {
		if cnt[d] == 0 {
			per[d] = append(per[d], "no path takes this decision")
		}
		r.check(len(per[d]) == 0, rule, "decision:"+d, p.Pos(rr.handleErr.Pos()), fmt.Sprintf("%d paths", cnt[d]), strings.Join(dedupe(per[d]), " || "))
	}
	// the increment really is +1 on the stored count
	incOK := 0
	var stray []string
	var reqMethods []*ssa.Function
	reqMethods = append(reqMethods, p.methodsOf(rr.req)...)
	for _, m := range reqMethods {
		eachInstr(m, func(in ssa.Instruction) {
			if st, ok := in.(*ssa.Store); ok {
				if fa, ok := st.Addr.(*ssa.FieldAddr); ok && fieldOfAddr(fa) == rr.retryCountF {
					if bo, ok := st.Val.(*ssa.BinOp); ok && bo.Op.String() == "+" {
						if c, ok := constInt(bo.Y); ok && c == 1 {
							if f, _ := loadedField(bo.X); f == rr.retryCountF {
								incOK++
								if m != rr.handleErr && !onlyCalledFrom(p, m, rr.handleErr, 3) {
									stray = append(stray, fmt.Sprintf("%s: retry count incremented in %s, outside the error-result handler: an event that is not a policy decision (connection loss, re-prepare) uses up the retries the policy grants for a later error", p.Pos(st.Pos()), m.Name()))
								}
								return
							}
						}
					}
					incOK = -100
				}
			}
		})
	}
	r.check(incOK >= 1, rule, "retry-count-increment", p.Pos(rr.handleErr.Pos()), "retryCount = retryCount + 1", "retry count is not incremented by one at each retry")
	r.check(len(stray) == 0, rule, "retry-count-writers", p.Pos(rr.handleErr.Pos()), "the retry count is only advanced by policy decisions in the error-result handler", strings.Join(dedupe(stray), " || "))
}

func c05Progress(p *Prog, r *Report, rr *reqRoles) {
	const rule = "C05.progress"
	r.Rule(rule, "the host walk advances: with next=true exactly one QueryPlan.Next() per iteration, a nil host ends the request with the 'no more hosts' error, and no cycle exists without Next()")
	for _, next := range []bool{true, false} {
		rs := newRequestSim(p)
		init := newState()
		init.cells[rs.doneF] = avBool(false)
		init.cells[lockCell(rs.muF)] = avBool(true)
		init.vals[rr.execLoop.Params[1]] = avBool(next)
		var bad []string
		base := rs.Model
		rs.Model = func(sm *Sim, st *State, call ssa.CallInstruction, callee *ssa.Function) []*State {
			switch {
			case callIsMethod(call, "proxycore", "QueryPlan", "Next"):
				if st.aux["pendingHost"] == "1" {
					bad = append(bad, p.Pos(call.Pos())+": a host taken from the plan is replaced without having been tried (host skipped)")
				}
				st.aux["pendingHost"] = "1"
			case callIsMethod(call, "proxycore", "Session", "Send"), callee != nil && rs.reply[callee]:
				delete(st.aux, "pendingHost")
				// next=false is the policy's "retry on the same host" (and the re-execution after a
				// re-prepare): whatever bookkeeping the request carries, the first thing that
				// happens is a send to the current host, not a step along the plan
				if !next && st.aux["sent"] == "" {
					if st.eff["next"] > 0 {
						bad = append(bad, p.Pos(call.Pos())+": with next=false the walk consults the plan before its first send: a retry the policy directs at the same host goes to another host (and uses up the single retry the policy grants)")
					}
					st.aux["sent"] = "1"
				}
			}
			return base(sm, st, call, callee)
		}
		outs := rs.Run(rr.execLoop, init)
		r.count("sim_states", rs.Nodes)
		for _, c := range rs.NoProgress {
			bad = append(bad, "cycle without QueryPlan.Next: "+c)
		}
		for _, o := range outs {
			if o.Panic {
				continue
			}
			if o.St.eff["reply"]+o.St.eff["handoff"] != 1 {
				bad = append(bad, fmt.Sprintf("walk ends with %d replies and %d hand-overs (path ending at %s)", o.St.eff["reply"], o.St.eff["handoff"], p.Pos(o.Pos)))
			}
			if next && o.St.eff["next"] == 0 {
				bad = append(bad, "walk to the next host ends without consulting the plan")
			}
		}
		r.check(len(bad) == 0 && len(outs) > 0, rule, fmt.Sprintf("%s(next=%v)", rr.execLoop.Name(), next), p.Pos(rr.execLoop.Pos()), fmt.Sprintf("%d outcomes", len(outs)), strings.Join(dedupe(bad), " || "))
	}
	// the reply on exhaustion is a ServerError built in the loop function
	found := false
	for _, f := range withCallees(p, rr.execLoop, 2) {
		if f != rr.execLoop && !rr.helper(p, f) {
			continue
		}
		eachInstr(f, func(in ssa.Instruction) {
			if a, ok := in.(*ssa.Alloc); ok && typeIs(a.Type(), "message", "ServerError") {
				found = true
			}
		})
	}
	r.check(found, rule, "exhaustion-error", p.Pos(rr.execLoop.Pos()), "plan exhaustion answers with a ServerError", "plan exhaustion does not answer with a ServerError")
}

// c05ConnectionLoss: the documented policy for a lost backend connection: an idempotent request
// continues with the next host of its plan, whatever the error the connection ended with.
func c05ConnectionLoss(p *Prog, r *Report) {
	const rule = "C05.connection-loss"
	r.Rule(rule, "when the backend connection a request was sent on is lost, an idempotent request is handed to the next host of its query plan on every path (not depending on the error value: connections the proxy closes itself - a removed host, an idle time-out - end with proxycore.Closed, and the other hosts still serve); a non-idempotent one is answered with an error")
	rr := requestRoles(p)
	rs := newRequestSim(p)
	base := rs.Model
	rs.Inline = func(fn *ssa.Function) bool { return rr.helper(p, fn) }
	rs.Model = func(sm *Sim, st *State, call ssa.CallInstruction, callee *ssa.Function) []*State {
		switch callee {
		case rr.checkIdem:
			t, f := st.clone(), st.clone()
			t.aux["idem"] = "T"
			SetCallResult(t, call, avBool(true))
			f.aux["idem"] = "F"
			SetCallResult(f, call, avBool(false))
			return []*State{t, f}
		case rr.execLoop:
			arg := "?"
			if len(call.Common().Args) >= 2 {
				if b, ok := sm.eval(st, call.Common().Args[1]).isBool(); ok {
					arg = fmt.Sprint(b)
				}
			}
			st.aux["moved"] = st.aux["moved"] + arg + ","
			return []*State{st}
		}
		return base(sm, st, call, callee)
	}
	init := newState()
	init.cells[rs.doneF] = avBool(false)
	init.cells[lockCell(rs.muF)] = avBool(false)
	var bad []string
	outs := rs.Run(rr.onClose, init)
	r.count("sim_states", rs.Nodes)
	nT := 0
	for _, o := range outs {
		if o.Panic || o.St.aux["idem"] != "T" {
			continue
		}
		nT++
		if o.St.aux["moved"] != "true," {
			bad = append(bad, fmt.Sprintf("an idempotent request whose connection was lost is not handed to the next host exactly once (host walk calls: %q) on the path ending at %s", o.St.aux["moved"], p.Pos(o.Pos)))
		}
	}
	if nT == 0 {
		bad = append(bad, "no path on which the request is idempotent")
	}
	r.check(len(bad) == 0, rule, rr.req.Obj().Name()+".OnClose", p.Pos(rr.onClose.Pos()), fmt.Sprintf("%d idempotent paths, each moves on", nT), strings.Join(dedupe(bad), " || "))
}
