package main

// C09 — only USE and genuine system-table SELECTs are answered by the proxy itself.
//
//  tables            the intercepted table list is {local, peers, peers_v2} plus
//                    legacy schema_* tables, all lower case
//  decision-formula  isHandledSelectStmt is abstractly executed for every
//                    consistent assignment of the atoms
//                      A current keyspace equals system, B qualifier equals system,
//                      E qualifier empty, S table is a system table
//                    handled=true is reachable iff S and (B or (E and A))
//  dispatch          IsQueryHandled can answer handled only for statements that
//                    start with SELECT or USE
//  routing           QUERY/PREPARE: handled => answered locally exactly once and
//                    never forwarded; not handled => forwarded exactly once and
//                    never intercepted; EXECUTE intercepts iff the id is one of the
//                    connection's locally prepared system statements
//  identifier-compare identifiers are compared through Identifier.equal, which folds
//                    case exactly for unquoted identifiers

import (
	"fmt"
	"go/constant"
	"go/token"
	"go/types"
	"sort"
	"strings"

	"golang.org/x/tools/go/ssa"
)

func init() { register("C09", checkC09) }

func checkC09(p *Prog, r *Report) {
	requireRecognisedDispatch(p)
	r.NotCov = append(r.NotCov,
		"tokenisation of arbitrary statement text by the generated lexer (trusted)",
		"selector parsing of handled statements (C10)")
	c09Tables(p, r)
	c09Formula(p, r, "C09.decision-formula")
	c09Dispatch(p, r)
	c09Routing(p, r)
	c09IdentifierCompare(p, r, "C09.identifier-compare")
	// the current keyspace handed to the parser must keep the USE statement's quoting
	keyspaceWrites(p, r, "C09.current-keyspace")
	c09UseKeepsSpelling(p, r, "C09.current-keyspace")
	c06IdentifierTokenAs(p, r, "C09.identifier-token")
	tokenBased(p, r, "C09.token-based")
	resultThreading(p, r, "C09.result-threading", "parser", "proxy")
}

func c09Tables(p *Prog, r *Report) {
	const rule = "C09.tables"
	r.Rule(rule, "the intercepted table list contains local, peers, peers_v2, otherwise only legacy schema_* tables, all in lower case; isSystemTable is a membership test over it through Identifier.equal")
	e, info := p.astGlobalInit("parser", "systemTables")
	names, ok := stringElems(e, info, false)
	if !ok {
		r.bad(rule, "parser.systemTables", "", "not a literal list of constant strings")
		return
	}
	var bad []string
	have := map[string]bool{}
	for _, n := range names {
		have[n] = true
		if n != strings.ToLower(n) {
			bad = append(bad, fmt.Sprintf("%q is not lower case (quoted identifiers compare exactly)", n))
		}
		if n != "local" && n != "peers" && n != "peers_v2" && !strings.HasPrefix(n, "schema_") {
			bad = append(bad, fmt.Sprintf("%q is not a documented virtual system table: user queries on it would be answered with fabricated rows", n))
		}
	}
	for _, need := range []string{"local", "peers", "peers_v2"} {
		if !have[need] {
			bad = append(bad, fmt.Sprintf("%q missing: reads of system.%s would be forwarded and leak backend topology", need, need))
		}
	}
	g := p.Global("parser", "systemTables")
	r.check(len(bad) == 0, rule, "parser.systemTables", p.Pos(g.Pos()), strings.Join(names, ","), strings.Join(bad, " || "))

	// the membership test over the table: true only under equal(name, element of systemTables)
	mr := membershipRole(p, g)
	r.check(len(mr.check(p)) == 0, rule, "parser.systemTables:membership", p.Pos(mr.fn.Pos()), "membership through Identifier.equal in "+mr.fn.Name(), strings.Join(mr.check(p), " || "))
}

// c09Formula: abstract execution of the select decision under all consistent atom assignments.
func c09Formula(p *Prog, r *Report, rule string) {
	r.Rule(rule, "a SELECT is handled iff its table is a system table and its keyspace is system: the qualifier if present, otherwise the connection's current keyspace (decided for all 12 consistent assignments of the atoms)")
	fn := p.Func("parser", "isHandledSelectStmt")
	var ksParam *ssa.Parameter
	for _, par := range fn.Params {
		if typeIs(par.Type(), "parser", "Identifier") {
			ksParam = par
		}
	}
	if ksParam == nil {
		fatalf("anchor: isHandledSelectStmt has no Identifier parameter")
	}
	sysMember := membershipRole(p, p.Global("parser", "systemTables"))
	n := 0
	for _, A := range []bool{false, true} {
		for _, B := range []bool{false, true} {
			for _, E := range []bool{false, true} {
				for _, S := range []bool{false, true} {
					if B && E {
						continue
					}
					n++
					want := S && (B || (E && A))
					s := newSim(p)
					unknownCmp := []string{}
					s.Model = func(sm *Sim, st *State, call ssa.CallInstruction, callee *ssa.Function) []*State {
						set := func(a AV) []*State { SetCallResult(st, call, a); return []*State{st} }
						args := call.Common().Args
						switch {
						case callIsFunc(call, "parser", "parseQualifiedIdentifier"):
							okSt := st.clone()
							SetCallResult(okSt, call, avTup(avSymbol("qualKS"), avSymbol("table"), top, AV{K: avNil}))
							errSt := st.clone()
							SetCallResult(errSt, call, avTup(top, top, top, AV{K: avNonNil}))
							return []*State{okSt, errSt}
						case callIsMethod(call, "parser", "Identifier", "isEmpty"):
							if a := sm.eval(st, args[0]); a.K == avSym && a.S == "qualKS" {
								return set(avBool(E))
							}
							return set(top)
						case callIsMethod(call, "parser", "Identifier", "equal"):
							cs, isConst := constStr(args[1])
							a := sm.eval(st, args[0])
							if isConst && strings.EqualFold(cs, "system") && cs == strings.ToLower(cs) && a.K == avSym {
								switch a.S {
								case "qualKS":
									return set(avBool(B))
								case "curKS":
									return set(avBool(A))
								}
							}
							unknownCmp = append(unknownCmp, p.Pos(call.Pos()))
							return set(top)
						case func() bool { _, ok := sysMember.isCall(call); return ok }():
							if a := sm.eval(st, args[0]); a.K == avSym && a.S == "table" {
								return set(avBool(S))
							}
							return set(top)
						}
						return nil
					}
					init := newState()
					init.vals[ksParam] = avSymbol("curKS")
					outs := s.Run(fn, init)
					r.count("sim_states", s.Nodes)
					var handledPaths, refusedPaths []string
					for _, o := range outs {
						if o.Panic {
							continue
						}
						h, known := o.Ret.elem(0).isBool()
						if !known || h {
							handledPaths = append(handledPaths, p.Pos(o.Pos))
						} else if o.Ret.elem(2).K == avNil && o.St.eff["decided"] == 0 {
							// a clean "not handled" (no error): only acceptable when the formula is false
							refusedPaths = append(refusedPaths, p.Pos(o.Pos))
						}
					}
					key := fmt.Sprintf("A(curKS=system)=%v,B(qualifier=system)=%v,E(unqualified)=%v,S(system table)=%v", A, B, E, S)
					var bad []string
					if !want && len(handledPaths) > 0 {
						bad = append(bad, fmt.Sprintf("handled although it must be forwarded (paths ending at %s)", strings.Join(dedupe(handledPaths), ",")))
					}
					if want && len(handledPaths) == 0 {
						bad = append(bad, "never handled although it is a system-table read (it would be forwarded and leak backend topology)")
					}
					if want && len(refusedPaths) > 0 {
						bad = append(bad, fmt.Sprintf("can be refused without error although it is a system-table read (paths ending at %s)", strings.Join(dedupe(refusedPaths), ",")))
					}
					if len(bad) > 0 && len(unknownCmp) > 0 {
						bad = append(bad, "identifier comparisons not recognised as atoms at "+strings.Join(dedupe(unknownCmp), ","))
					}
					r.check(len(bad) == 0, rule, key, p.Pos(fn.Pos()), fmt.Sprintf("handled=%v", want), strings.Join(bad, " || "))
				}
			}
		}
	}
	r.Floor(rule, 12, "atom assignments")
}

func c09Dispatch(p *Prog, r *Report) {
	const rule = "C09.dispatch"
	r.Rule(rule, "IsQueryHandled can report handled only for statements whose first token is SELECT or USE; a USE followed by an identifier is always handled")
	fn := p.Func("parser", "IsQueryHandled")
	toks := p.constsOfType("parser", "token")
	if len(toks) < 40 {
		fatalf("anchor: only %d token constants found", len(toks))
	}
	tkSelect, tkUse := p.constOf("parser", "tkSelect"), p.constOf("parser", "tkUse")
	var names []string
	for n := range toks {
		names = append(names, n)
	}
	sort.Strings(names)
	var bad []string
	for _, tn := range names {
		tv := toks[tn]
		s := newSim(p)
		first := true
		s.Model = func(sm *Sim, st *State, call ssa.CallInstruction, callee *ssa.Function) []*State {
			if callIsMethod(call, "parser", "lexer", "next") && st.aux["first"] == "" {
				st.aux["first"] = "1"
				SetCallResult(st, call, avC(tv))
				return []*State{st}
			}
			return nil
		}
		_ = first
		outs := s.Run(fn, newState())
		r.count("sim_states", s.Nodes)
		isSel := tv.ExactString() == tkSelect.ExactString()
		isUse := tv.ExactString() == tkUse.ExactString()
		for _, o := range outs {
			if o.Panic {
				continue
			}
			h, known := o.Ret.elem(0).isBool()
			if !isSel && !isUse && (!known || h) {
				bad = append(bad, fmt.Sprintf("a statement starting with %s can be reported handled (path ending at %s)", tn, p.Pos(o.Pos)))
			}
		}
	}
	r.check(len(bad) == 0, rule, "parser.IsQueryHandled", p.Pos(fn.Pos()), fmt.Sprintf("%d first tokens folded", len(names)), strings.Join(dedupe(bad), " || "))
	// USE: identifier => handled with the identifier text as keyspace
	use := p.Func("parser", "isHandledUseStmt")
	tkId := p.constOf("parser", "tkIdentifier")
	var ub []string
	for _, isId := range []bool{true, false} {
		s := newSim(p)
		s.Model = func(sm *Sim, st *State, call ssa.CallInstruction, callee *ssa.Function) []*State {
			if callIsMethod(call, "parser", "lexer", "next") {
				if isId {
					SetCallResult(st, call, avC(tkId))
				} else {
					SetCallResult(st, call, avC(p.constOf("parser", "tkEOF")))
				}
				return []*State{st}
			}
			return nil
		}
		for _, o := range s.Run(use, newState()) {
			if o.Panic {
				continue
			}
			h, known := o.Ret.elem(0).isBool()
			if isId && (!known || !h) {
				ub = append(ub, "USE <identifier> is not handled (it would be forwarded and change a shared backend connection's keyspace)")
			}
			// (an earlier version of this clause demanded 'not handled' here: it described what the
			// code did, and the code was wrong - defect #44: forwarded, the statement switches the
			// keyspace of a backend connection shared with other clients)
			if !isId && (!known || !h || o.Ret.elem(2).K != avNonNil) {
				ub = append(ub, "USE without a readable identifier is not answered by the proxy with an error: forwarded, it would change a shared backend connection's keyspace")
			}
		}
		r.count("sim_states", s.Nodes)
	}
	r.check(len(ub) == 0, rule, "parser.isHandledUseStmt", p.Pos(use.Pos()), "", strings.Join(dedupe(ub), " || "))
}

// clientRoles: the methods of the client type by role.
type clientRoles struct {
	cl        *types.Named
	forward   *ssa.Function // builds the request and executes it
	intercept *ssa.Function // answers a parsed system statement
	send      map[*ssa.Function]bool
	ihelp     map[*ssa.Function]bool // private helpers of the interceptor
}

func getClientRoles(p *Prog) *clientRoles {
	cr := &clientRoles{cl: p.proxyClientType(), send: map[*ssa.Function]bool{}}
	req := p.proxyRequestType()
	for _, m := range p.methodsOf(cr.cl) {
		if callsDirectly(m, isConnWrite) {
			cr.send[m] = true
		}
		builds := false
		eachInstr(m, func(in ssa.Instruction) {
			if a, ok := in.(*ssa.Alloc); ok && namedOf(a.Type()) == req {
				builds = true
			}
		})
		if builds {
			cr.forward = m
		}
		// the interceptor: switches on the parsed statement types and builds rows results
		hasSel, hasUse := false, false
		eachInstr(m, func(in ssa.Instruction) {
			if ta, ok := in.(*ssa.TypeAssert); ok {
				if typeIs(ta.AssertedType, "parser", "SelectStatement") {
					hasSel = true
				}
				if typeIs(ta.AssertedType, "parser", "UseStatement") {
					hasUse = true
				}
			}
		})
		if hasSel && hasUse && m.Signature.Params().Len() == 2 {
			if _, isIface := m.Signature.Params().At(1).Type().Underlying().(*types.Interface); isIface {
				cr.intercept = m
			}
		}
	}
	if cr.forward == nil || cr.intercept == nil || len(cr.send) == 0 {
		fatalf("anchor: could not resolve forward/intercept/send methods of %s by role", cr.cl.Obj().Name())
	}
	// private helpers the interceptor was split into
	cr.ihelp = map[*ssa.Function]bool{}
	var walk func(f *ssa.Function, d int)
	walk = func(f *ssa.Function, d int) {
		if d > 3 {
			return
		}
		eachCall(f, func(c ssa.CallInstruction) {
			callee := c.Common().StaticCallee()
			if callee == nil || callee.Blocks == nil || callee.Pkg != f.Pkg || callee.Parent() != nil || cr.send[callee] || callee == cr.forward || callee == cr.intercept || cr.ihelp[callee] {
				return
			}
			if recvNamed(callee) != cr.cl && callee.Signature.Recv() != nil {
				return // methods of other types (the Proxy's session table, ...) keep their own rules
			}
			if !onlyCalledFrom(p, callee, cr.intercept, 4) {
				return
			}
			cr.ihelp[callee] = true
			walk(callee, d+1)
		})
	}
	walk(cr.intercept, 0)
	return cr
}

// inIntercept: fn is the interceptor or one of the private helpers it was split into.
func (cr *clientRoles) inIntercept(fn *ssa.Function) bool {
	fn = rootFn(fn)
	return fn == cr.intercept || cr.ihelp[fn]
}

// interceptFns lists the interceptor and its helpers.
func (cr *clientRoles) interceptFns() []*ssa.Function {
	out := []*ssa.Function{cr.intercept}
	var hs []*ssa.Function
	for f := range cr.ihelp {
		hs = append(hs, f)
	}
	sort.Slice(hs, func(i, j int) bool { return hs[i].String() < hs[j].String() })
	return append(out, hs...)
}

func c09Routing(p *Prog, r *Report) {
	const rule = "C09.routing"
	r.Rule(rule, "QUERY/PREPARE: handled => one local answer and no forwarding, not handled => one forwarding and no local answer; EXECUTE is intercepted iff its id is a locally prepared system statement of this connection")
	cr := getClientRoles(p)
	mkSim := func() *Sim {
		s := newSim(p)
		s.Inline = func(fn *ssa.Function) bool { return false }
		s.Effect = func(call ssa.CallInstruction, callee *ssa.Function) []string {
			switch {
			case callee != nil && callee == cr.forward:
				return []string{"forward"}
			case callee != nil && callee == cr.intercept:
				return []string{"intercept"}
			case callee != nil && cr.send[callee]:
				return []string{"send"}
			}
			return nil
		}
		return s
	}
	// handlers that call parser.IsQueryHandled
	n := 0
	for _, m := range p.methodsOf(cr.cl) {
		m := m
		var hcall *ssa.Call
		eachCall(m, func(c ssa.CallInstruction) {
			if callIsFunc(c, "parser", "IsQueryHandled") {
				hcall, _ = c.(*ssa.Call)
			}
		})
		if hcall == nil {
			continue
		}
		n++
		var bad []string
		// argument provenance
		ksF := p.Field("proxy", cr.cl.Obj().Name(), "keyspace")
		okKs, okQ := true, false
		if kc, ok := hcall.Call.Args[0].(*ssa.Call); ok && callIsFunc(kc, "parser", "IdentifierFromString") {
			for _, o := range origins(kc.Call.Args[0]) {
				f, _ := loadedField(o)
				if f == ksF {
					continue
				}
				if f != nil && f.Name() == "Keyspace" && typeIs(m.Signature.Params().At(1).Type(), "message", "Prepare") {
					continue // PREPARE's own keyspace option
				}
				okKs = false
			}
		} else {
			okKs = false
		}
		for _, o := range origins(hcall.Call.Args[1]) {
			if f, _ := loadedField(o); f != nil && f.Name() == "Query" {
				okQ = true
			}
		}
		if !okKs {
			bad = append(bad, "current keyspace passed to the parser is not the connection's keyspace")
		}
		if !okQ {
			bad = append(bad, "text passed to the parser is not the message's query")
		}
		for _, h := range []bool{true, false} {
			s := mkSim()
			s.Model = func(sm *Sim, st *State, call ssa.CallInstruction, callee *ssa.Function) []*State {
				if call == ssa.CallInstruction(hcall) {
					SetCallResult(st, call, avTup(avBool(h), top, top))
					return []*State{st}
				}
				return nil
			}
			outs := s.Run(m, newState())
			r.count("sim_states", s.Nodes)
			for _, o := range outs {
				if o.Panic {
					continue
				}
				f, ic, sd := o.St.eff["forward"], o.St.eff["intercept"], o.St.eff["send"]
				if h && (f != 0 || ic+sd != 1) {
					bad = append(bad, fmt.Sprintf("handled statement: forward=%d local answers=%d on path ending at %s", f, ic+sd, p.Pos(o.Pos)))
				}
				if !h && (f != 1 || ic+sd != 0) {
					bad = append(bad, fmt.Sprintf("unhandled statement: forward=%d local answers=%d on path ending at %s", f, ic+sd, p.Pos(o.Pos)))
				}
			}
		}
		r.check(len(bad) == 0, rule, cr.cl.Obj().Name()+"."+m.Name(), p.Pos(m.Pos()), "", strings.Join(dedupe(bad), " || "))
	}
	if n < 2 {
		fatalf("rule %s: only %d handlers consult parser.IsQueryHandled (2 confirmed by hand)", rule, n)
	}
	// EXECUTE handler: the client method taking *codecs.PartialExecute
	psqF := p.Field("proxy", cr.cl.Obj().Name(), "preparedSystemQuery")
	for _, m := range p.methodsOf(cr.cl) {
		isExec := false
		for i := 0; i < m.Signature.Params().Len(); i++ {
			if typeIs(m.Signature.Params().At(i).Type(), "codecs", "PartialExecute") {
				isExec = true
			}
		}
		if !isExec || cr.send[m] || m == cr.forward {
			continue
		}
		usesMap := false
		eachInstr(m, func(in ssa.Instruction) {
			if lk, ok := in.(*ssa.Lookup); ok {
				if f, _ := loadedField(lk.X); f == psqF {
					usesMap = true
				}
			}
		})
		if !usesMap {
			continue
		}
		n++
		s := mkSim()
		s.OnBranch = func(st *State, cond ssa.Value, truth bool) {
			if ex, ok := cond.(*ssa.Extract); ok && ex.Index == 1 {
				if lk, ok := ex.Tuple.(*ssa.Lookup); ok {
					if f, _ := loadedField(lk.X); f == psqF {
						st.aux["found"] = fmt.Sprint(truth)
					}
				}
			}
		}
		var bad []string
		for _, o := range s.Run(m, newState()) {
			if o.Panic {
				continue
			}
			f, ic, sd := o.St.eff["forward"], o.St.eff["intercept"], o.St.eff["send"]
			switch o.St.aux["found"] {
			case "true":
				if f != 0 || ic+sd != 1 {
					bad = append(bad, fmt.Sprintf("locally prepared id: forward=%d local answers=%d", f, ic+sd))
				}
			case "false":
				if f != 1 || ic+sd != 0 {
					bad = append(bad, fmt.Sprintf("backend-prepared id: forward=%d local answers=%d", f, ic+sd))
				}
			default:
				bad = append(bad, "a path does not consult the connection's locally prepared statements")
			}
		}
		r.count("sim_states", s.Nodes)
		r.check(len(bad) == 0, rule, cr.cl.Obj().Name()+"."+m.Name(), p.Pos(m.Pos()), "", strings.Join(dedupe(bad), " || "))
	}
	r.Floor(rule, 3, "routing handlers")
}

// c09IdentifierCompare: equal() semantics and "no raw comparison of identifier text".
func c09IdentifierCompare(p *Prog, r *Report, rule string) {
	r.Rule(rule, "Identifier.equal compares case-insensitively exactly when the identifier is unquoted; identifier text is not compared with == / map lookups outside the Identifier methods; IdentifierFromString marks only double-quoted text as case-sensitive")
	id := p.Named("parser", "Identifier")
	idF := p.Field("parser", "Identifier", "id")
	icF := p.Field("parser", "Identifier", "ignoreCase")
	eq := p.methodOf(id, "equal")
	if eq == nil {
		fatalf("anchor: Identifier.equal not found")
	}
	// equal: with ignoreCase=true the result is strings.EqualFold(i.id, arg); with false it is i.id == arg
	var bad []string
	for _, ic := range []bool{true, false} {
		s := newSim(p)
		s.Tracked[icF] = true
		s.Model = func(sm *Sim, st *State, call ssa.CallInstruction, callee *ssa.Function) []*State {
			if callIsFunc(call, "strings", "EqualFold") {
				a0, _ := loadedField(call.Common().Args[0])
				a1, _ := loadedField(call.Common().Args[1])
				if (a0 == idF && call.Common().Args[1] == eq.Params[1]) || (a1 == idF && call.Common().Args[0] == eq.Params[1]) {
					SetCallResult(st, call, avSymbol("fold"))
					return []*State{st}
				}
			}
			return nil
		}
		s.OnInstr = func(st *State, in ssa.Instruction) {
			if bo, ok := in.(*ssa.BinOp); ok && bo.Op == token.EQL {
				a0, _ := loadedField(bo.X)
				a1, _ := loadedField(bo.Y)
				if (a0 == idF && bo.Y == eq.Params[1]) || (a1 == idF && bo.X == eq.Params[1]) {
					st.aux["exactAt"] = fmt.Sprint(bo.Pos())
				}
			}
		}
		s.Pinned = map[ssa.Value]bool{}
		init := newState()
		init.cells[icF] = avBool(ic)
		// value receiver: field reads are *ssa.Field on the parameter; bind through a model of Field reads
		outs := runWithValueRecv(s, eq, init, map[*types.Var]AV{icF: avBool(ic)})
		for _, o := range outs {
			if o.Panic {
				continue
			}
			if ic {
				if !(o.Ret.K == avSym && o.Ret.S == "fold") {
					bad = append(bad, "unquoted identifier not compared with strings.EqualFold(id, other)")
				}
			} else {
				if o.Ret.K == avSym || o.St.aux["exactAt"] == "" {
					bad = append(bad, "quoted identifier not compared exactly (id == other)")
				}
			}
		}
	}
	r.check(len(bad) == 0, rule, "Identifier.equal", p.Pos(eq.Pos()), "", strings.Join(dedupe(bad), " || "))

	// raw comparisons of identifier text elsewhere in parser
	lexIdF := p.Field("parser", "lexer", "id")
	var raw []string
	nsites := 0
	for _, fn := range p.ScopedFuncs("parser") {
		if recvNamed(fn) == id {
			continue
		}
		eachInstr(fn, func(in ssa.Instruction) {
			fromId := func(v ssa.Value) bool {
				for _, o := range origins(v) {
					if f, _ := loadedField(o); f == idF {
						return true
					}
					// lexer.id / identifierStr(): raw token text
					if f, _ := loadedField(o); f != nil && f == lexIdF {
						return true
					}
					if c, ok := o.(*ssa.Call); ok && callIsMethod(c, "parser", "lexer", "identifierStr") {
						return true
					}
				}
				return false
			}
			switch x := in.(type) {
			case *ssa.BinOp:
				if x.Op == token.EQL || x.Op == token.NEQ {
					if b, ok := x.X.Type().Underlying().(*types.Basic); ok && b.Info()&types.IsString != 0 {
						nsites++
						if fromId(x.X) || fromId(x.Y) {
							// comparison with a constant without letters (e.g. "*") is not an identifier comparison
							cs, isC := constStr(x.Y)
							if !isC {
								cs, isC = constStr(x.X)
							}
							if isC && strings.ToLower(cs) == strings.ToUpper(cs) {
								return
							}
							raw = append(raw, p.Pos(x.Pos())+": identifier text compared with "+x.Op.String()+" in "+fn.Name()+" (ignores CQL case/quoting rules)")
						}
					}
				}
			case *ssa.Lookup:
				if _, isMap := x.X.Type().Underlying().(*types.Map); isMap && fromId(x.Index) {
					raw = append(raw, p.Pos(x.Pos())+": identifier text used as a map key in "+fn.Name())
				}
			}
		})
	}
	r.count("string_compare_sites", nsites)
	r.check(len(raw) == 0, rule, "parser:no-raw-identifier-compare", p.Pos(eq.Pos()), fmt.Sprintf("%d string comparisons inspected", nsites), strings.Join(dedupe(raw), " || "))

	// IdentifierFromString: ignoreCase=false only for text that starts (and ends) with a double quote
	ifs := p.Func("parser", "IdentifierFromString")
	var fb []string
	quoteCmp := 0
	quoteFns := []*ssa.Function{ifs}
	eachCall(ifs, func(c ssa.CallInstruction) {
		// a boolean helper over the text (isQuoted(id)) may hold the comparison
		if callee := c.Common().StaticCallee(); callee != nil && callee.Blocks != nil && p.InRepo(callee) && len(predicateFacts(callee)) > 0 {
			quoteFns = append(quoteFns, callee)
		}
	})
	for _, qf := range quoteFns {
		eachInstr(qf, func(in ssa.Instruction) {
			if bo, ok := in.(*ssa.BinOp); ok && bo.Op == token.EQL {
				if c, ok := constInt(bo.Y); ok && c == '"' {
					quoteCmp++
				}
			}
		})
	}
	if quoteCmp == 0 {
		fb = append(fb, "no test for a leading double quote")
	}
	sawCS, sawCI := false, false
	eachInstr(ifs, func(in ssa.Instruction) {
		st, ok := in.(*ssa.Store)
		if !ok {
			return
		}
		fa, ok := st.Addr.(*ssa.FieldAddr)
		if !ok || fieldOfAddr(fa) != icF {
			return
		}
		c, ok := st.Val.(*ssa.Const)
		if !ok {
			fb = append(fb, "ignoreCase is not a constant")
			return
		}
		if constant.BoolVal(c.Value) {
			sawCI = true
			return
		}
		sawCS = true
		// must be dominated by a true comparison with '"'
		g := false
		for _, ct := range impliedConds(st.Block()) {
			if bo, ok := ct.Cond.(*ssa.BinOp); ok && bo.Op == token.EQL && ct.Truth {
				if c, ok := constInt(bo.Y); ok && c == '"' {
					g = true
				}
			}
		}
		if !g {
			fb = append(fb, p.Pos(st.Pos())+": case-sensitive identifier built without having seen a leading double quote")
		}
	})
	if !sawCS || !sawCI {
		fb = append(fb, "does not build both quoted (case-sensitive) and unquoted (case-insensitive) identifiers")
	}
	r.check(len(fb) == 0, rule, "parser.IdentifierFromString", p.Pos(ifs.Pos()), "", strings.Join(dedupe(fb), " || "))
}

// runWithValueRecv runs fn (a method with a struct value receiver) with the given
// receiver fields bound: go/ssa reads them with *ssa.Field on the parameter, or
// spills the receiver to an Alloc and uses FieldAddr; both are handled.
func runWithValueRecv(s *Sim, fn *ssa.Function, init *State, fields map[*types.Var]AV) []Outcome {
	prev := s.OnInstr
	s.OnInstr = func(st *State, in ssa.Instruction) {
		if prev != nil {
			prev(st, in)
		}
	}
	prevModel := s.Model
	_ = prevModel
	for f := range fields {
		s.Tracked[f] = true
		init.cells[f] = fields[f]
	}
	s.FieldVals = fields
	return s.Run(fn, init)
}

// tokenBased: the parser's entry points hand the statement text to the lexer and to
// nothing else.  Any other use of the raw text (substring tests, prefix tests, length,
// comparison) takes a decision without CQL's tokenisation: identifier case folding,
// quoting and whitespace no longer apply to it.
func tokenBased(p *Prog, r *Report, rule string) {
	r.Rule(rule, "the parser's entry points pass the statement text only to the lexer: no decision is taken on the raw text (substring / prefix / length tests bypass case folding and quoting of CQL identifiers)")
	pkg := p.Pkg("parser")
	n := 0
	for _, mem := range sortedMembers(pkg) {
		fn, ok := mem.(*ssa.Function)
		if !ok || fn.Blocks == nil || fn.Object() == nil || !fn.Object().Exported() {
			continue
		}
		if _, ex := excludedFiles[p.fileOf(fn)]; ex {
			continue
		}
		// entry points: exported functions that initialise a lexer with one of their string parameters
		for _, par := range fn.Params {
			if b, ok := par.Type().Underlying().(*types.Basic); !ok || b.Kind() != types.String {
				continue
			}
			toLexer := false
			var bad []string
			for _, ref := range *par.Referrers() {
				switch x := ref.(type) {
				case *ssa.DebugRef:
				case *ssa.Call:
					if callee := x.Call.StaticCallee(); callee != nil && recvNamedIsFn(callee, "parser", "lexer") {
						toLexer = true
					} else {
						bad = append(bad, fmt.Sprintf("%s: statement text passed to %s", p.Pos(x.Pos()), callDesc(x)))
					}
				default:
					bad = append(bad, fmt.Sprintf("%s: statement text used directly (%T)", p.Pos(ref.Pos()), ref))
				}
			}
			if !toLexer {
				// the lexer may be given a text derived from the parameter: that is an entry point too, and
				// the derivation is the finding (the text the verdict is about is not the text that runs)
				eachCall(fn, func(c ssa.CallInstruction) {
					callee := c.Common().StaticCallee()
					if callee == nil || !recvNamedIsFn(callee, "parser", "lexer") {
						return
					}
					for _, a := range c.Common().Args[1:] {
						if b, ok := a.Type().Underlying().(*types.Basic); !ok || b.Kind() != types.String {
							continue
						}
						fromPar, other := false, ""
						for _, o := range origins(a) {
							if o == ssa.Value(par) {
								fromPar = true
							} else {
								other = valDesc(o)
							}
						}
						if fromPar && other != "" {
							toLexer = true
							bad = append(bad, fmt.Sprintf("%s: the lexer is given a transformed copy of the statement text (%s): the statement that is classified is not the statement the backend executes", p.Pos(c.Pos()), other))
						}
					}
				})
			}
			if !toLexer {
				continue
			}
			n++
			r.check(len(bad) == 0, rule, "parser."+fn.Name()+"("+par.Name()+")", p.Pos(fn.Pos()), "text goes to the lexer only", strings.Join(dedupe(bad), " || "))
		}
	}
	if n < 2 {
		fatalf("rule %s: only %d parser entry points found that tokenise their text (2 confirmed by hand)", rule, n)
	}
}

func recvNamedIsFn(fn *ssa.Function, pkg, typ string) bool {
	n := recvNamed(fn)
	return n != nil && n.Obj().Pkg() != nil && n.Obj().Pkg().Path() == pkgPath(pkg) && canonTypeName(n) == typ
}

func sortedMembers(pkg *ssa.Package) []ssa.Member {
	var names []string
	for k := range pkg.Members {
		names = append(names, k)
	}
	sort.Strings(names)
	var out []ssa.Member
	for _, k := range names {
		out = append(out, pkg.Members[k])
	}
	return out
}

// membership helper of a name table (systemTables, nonIdempotentFuncs): either a function that
// consults the table itself (isSystemTable(name)) or a generic `name.equalAny(table)` helper
// that is handed the table at the call site.
type memberRole struct {
	fn         *ssa.Function
	sliceParam int // index in fn.Params of the table, -1 when fn loads the global itself
	g          *ssa.Global
	wrappers   []*ssa.Function // name -> bool functions that only return fn(name, table)
	anyOf      bool            // fn only returns anyOf(table, name.equal) through a recognised membership helper
	nameParam  int             // index in fn.Params of the queried name (0 unless fn is a helper that takes it elsewhere)
}

// membershipAnyOf: f(name) only returns helper(<table g>, name.equal) where helper is a membership
// helper with a predicate (slices.ContainsFunc or a repository function of that shape, anyOfKind).
func membershipAnyOf(p *Prog, f *ssa.Function, g *ssa.Global) bool {
	var theCall *ssa.Call
	n := 0
	eachCall(f, func(c ssa.CallInstruction) {
		cc, isCall := c.(*ssa.Call)
		if !isCall || len(cc.Call.Args) != 2 || p.anyOfKind(cc.Call.StaticCallee()) != "func" {
			return
		}
		if ld, ok := cc.Call.Args[0].(*ssa.UnOp); ok && sameGlobal(ld.X, g) {
			theCall = cc
			n++
		}
	})
	if n != 1 {
		return false
	}
	// the predicate is the queried name's Identifier.equal
	pred := theCall.Call.Args[1]
	if ct, ok := pred.(*ssa.ChangeType); ok {
		pred = ct.X
	}
	mc, ok := pred.(*ssa.MakeClosure)
	if !ok || len(mc.Bindings) != 1 {
		return false
	}
	bound, ok := mc.Fn.(*ssa.Function)
	if !ok || !strings.Contains(bound.Synthetic, "bound") {
		return false
	}
	m := unwrapBound(bound)
	if m == nil || m.Name() != "equal" || recvNamed(m) == nil || recvNamed(m).Obj().Name() != "Identifier" {
		return false
	}
	subj := false
	for _, o := range origins(mc.Bindings[0]) {
		if o == ssa.Value(f.Params[0]) {
			subj = true
		}
		if ld, ok := o.(*ssa.UnOp); ok {
			if al, ok := ld.X.(*ssa.Alloc); ok && al.Comment == f.Params[0].Name() {
				subj = true
			}
		}
		if al, ok := o.(*ssa.Alloc); ok && al.Comment == f.Params[0].Name() {
			subj = true
		}
	}
	if !subj {
		return false
	}
	okRet := true
	eachInstr(f, func(in ssa.Instruction) {
		if ret, ok := in.(*ssa.Return); ok {
			if len(ret.Results) != 1 || ret.Results[0] != ssa.Value(theCall) {
				okRet = false
			}
		}
	})
	return okRet
}

// membershipWrapperOf: f(name) only returns helper(name, <table g>); gives the helper and the
// index of its table parameter.
func membershipWrapperOf(p *Prog, f *ssa.Function, g *ssa.Global) (*ssa.Function, int) {
	h, idx, _ := membershipWrapperOf2(p, f, g)
	return h, idx
}

// membershipWrapperOf2 also reports which parameter of the helper receives the queried name.
func membershipWrapperOf2(p *Prog, f *ssa.Function, g *ssa.Global) (*ssa.Function, int, int) {
	var helper *ssa.Function
	idx := -1
	var theCall *ssa.Call
	eachCall(f, func(c ssa.CallInstruction) {
		callee := c.Common().StaticCallee()
		cc, isCall := c.(*ssa.Call)
		if callee == nil || callee.Blocks == nil || !p.InRepo(callee) || !isCall {
			return
		}
		for i, a := range c.Common().Args {
			for _, o := range origins(a) {
				if ld, ok := o.(*ssa.UnOp); ok && sameGlobal(ld.X, g) {
					helper, idx, theCall = callee, i, cc
				}
			}
		}
	})
	if helper == nil || len(theCall.Call.Args) == 0 {
		return nil, -1, 0
	}
	// the queried name is passed on as the helper's first argument and every return is the helper's verdict
	passes := false
	nameIdx := 0
	for ai, arg := range theCall.Call.Args {
		for _, o := range origins(arg) {
			if o == ssa.Value(f.Params[0]) {
				passes, nameIdx = true, ai
			}
			if al, ok := o.(*ssa.Alloc); ok && al.Comment == f.Params[0].Name() {
				passes, nameIdx = true, ai
			}
		}
	}
	if !passes {
		return nil, -1, 0
	}
	okRet := true
	eachInstr(f, func(in ssa.Instruction) {
		if ret, ok := in.(*ssa.Return); ok {
			if len(ret.Results) != 1 || ret.Results[0] != ssa.Value(theCall) {
				okRet = false
			}
		}
	})
	if !okRet {
		return nil, -1, 0
	}
	return helper, idx, nameIdx
}

func membershipRole(p *Prog, g *ssa.Global) *memberRole {
	fns := p.ScopedFuncs("parser")
	for _, f := range fns {
		if f.Parent() != nil {
			continue
		}
		loads, eq := false, false
		eachInstr(f, func(in ssa.Instruction) {
			if ld, ok := in.(*ssa.UnOp); ok && sameGlobal(ld.X, g) {
				loads = true
			}
			if c, ok := in.(*ssa.Call); ok && callIsMethod(c, "parser", "Identifier", "equal") {
				eq = true
			}
		})
		if loads && f.Signature.Results().Len() == 1 {
			if b, ok := f.Signature.Results().At(0).Type().Underlying().(*types.Basic); ok && b.Kind() == types.Bool && len(f.Params) == 1 {
				if !eq && membershipAnyOf(p, f, g) {
					return &memberRole{fn: f, sliceParam: -1, g: g, anyOf: true}
				}
				if !eq {
					// a one-line wrapper `return helper(name, table)`: the test itself lives in the helper
					if h, idx, nameIdx := membershipWrapperOf2(p, f, g); h != nil {
						return &memberRole{fn: h, sliceParam: idx, g: g, wrappers: []*ssa.Function{f}, nameParam: nameIdx}
					}
				}
				return &memberRole{fn: f, sliceParam: -1, g: g}
			}
		}
	}
	// generic helper handed the table
	var role *memberRole
	for _, f := range fns {
		eachCall(f, func(c ssa.CallInstruction) {
			callee := c.Common().StaticCallee()
			if callee == nil || callee.Blocks == nil || !p.InRepo(callee) {
				return
			}
			for i, a := range c.Common().Args {
				for _, o := range origins(a) {
					if ld, ok := o.(*ssa.UnOp); ok && sameGlobal(ld.X, g) {
						if res := callee.Signature.Results(); res.Len() == 1 {
							if b, ok := res.At(0).Type().Underlying().(*types.Basic); ok && b.Kind() == types.Bool {
								role = &memberRole{fn: callee, sliceParam: i, g: g}
							}
						}
					}
				}
			}
		})
	}
	if role == nil {
		fatalf("anchor: no membership test over parser.%s found", g.Name())
	}
	return role
}

// isCall: the call is the membership test of this table; returns the tested identifier.
func (m *memberRole) isCall(call ssa.CallInstruction) (ssa.Value, bool) {
	for _, w := range m.wrappers {
		if call.Common().StaticCallee() == w && len(call.Common().Args) > 0 {
			return call.Common().Args[0], true
		}
	}
	if call.Common().StaticCallee() != m.fn {
		return nil, false
	}
	args := call.Common().Args
	if m.sliceParam >= 0 {
		if m.sliceParam >= len(args) {
			return nil, false
		}
		hit := false
		for _, o := range origins(args[m.sliceParam]) {
			if ld, ok := o.(*ssa.UnOp); ok && sameGlobal(ld.X, m.g) {
				hit = true
			}
		}
		if !hit {
			return nil, false
		}
	}
	if m.nameParam < len(args) {
		return args[m.nameParam], true
	}
	return args[0], true
}

// check: a membership test through Identifier.equal over the table: true only under a matching
// comparison of the tested identifier with a table entry, false only after all entries.
func (m *memberRole) check(p *Prog) []string {
	fn := m.fn
	if m.anyOf {
		if membershipAnyOf(p, fn, m.g) {
			return nil
		}
		return []string{"is not a membership test over the table through Identifier.equal"}
	}
	var mb []string
	var eqCalls []*ssa.Call
	eachCall(fn, func(c ssa.CallInstruction) {
		if callIsMethod(c, "parser", "Identifier", "equal") {
			if cc, ok := c.(*ssa.Call); ok {
				eqCalls = append(eqCalls, cc)
			}
		}
	})
	if m.sliceParam < 0 {
		uses := false
		eachInstr(fn, func(in ssa.Instruction) {
			if ld, ok := in.(*ssa.UnOp); ok && sameGlobal(ld.X, m.g) {
				uses = true
			}
		})
		if !uses {
			mb = append(mb, "does not consult parser."+m.g.Name())
		}
	} else {
		// the compared entries come from the slice parameter
		for _, ec := range eqCalls {
			fromSlice := false
			for _, o := range origins(ec.Call.Args[1]) {
				if ld, ok := o.(*ssa.UnOp); ok {
					if ia, ok := ld.X.(*ssa.IndexAddr); ok {
						for _, so := range origins(ia.X) {
							if so == ssa.Value(fn.Params[m.sliceParam]) {
								fromSlice = true
							}
						}
					}
				}
			}
			if !fromSlice {
				mb = append(mb, p.Pos(ec.Pos())+": the comparison is not against an entry of the table handed in")
			}
		}
	}
	eachInstr(fn, func(in ssa.Instruction) {
		ret, ok := in.(*ssa.Return)
		if !ok {
			return
		}
		for _, o := range origins(ret.Results[0]) {
			c, ok := o.(*ssa.Const)
			if ok && c.Value != nil && !constant.BoolVal(c.Value) {
				// an early false after a failed comparison gives up after the first entry
				for _, ct := range dominatingConds(ret.Block()) {
					if cc, ok := ct.Cond.(*ssa.Call); ok && callIsMethod(cc, "parser", "Identifier", "equal") && !ct.Truth && loopDepthOf(ret.Block()) > 0 {
						mb = append(mb, p.Pos(ret.Pos())+": gives up after the first table entry")
					}
				}
				continue
			}
			guarded := false
			for _, ec := range eqCalls {
				if guardedBy(ret.Block(), ec, true) || o == ssa.Value(ec) {
					guarded = true
				}
			}
			if !guarded {
				mb = append(mb, p.Pos(ret.Pos())+": may return true without a matching Identifier.equal against a table entry")
			}
		}
	})
	for _, ec := range eqCalls {
		subj := false
		for _, o := range origins(ec.Call.Args[0]) {
			if o == ssa.Value(fn.Params[m.nameParam]) {
				subj = true
			}
			if al, ok := o.(*ssa.Alloc); ok && al.Comment == fn.Params[m.nameParam].Name() {
				subj = true // value receiver spilled to a local
			}
		}
		if len(ec.Call.Args) == 2 && !subj {
			mb = append(mb, p.Pos(ec.Pos())+": compares something other than the queried name")
		}
	}
	if len(eqCalls) == 0 {
		mb = append(mb, "no Identifier.equal comparison")
	}
	return dedupe(mb)
}

// c09UseKeepsSpelling: the keyspace of a USE statement is kept as written.  The proxy stores it as
// the connection's current keyspace and parses it again for every later statement: stripped of its
// quotes, "System" would be read as an unquoted, case-insensitive identifier and equal system.
func c09UseKeepsSpelling(p *Prog, r *Report, rule string) {
	lex := p.Named("parser", "lexer")
	var bad []string
	n := 0
	for _, fn := range p.ScopedFuncs("parser") {
		for _, lit := range structLits(fn, func(t types.Type) bool { return typeIs(t, "parser", "UseStatement") }) {
			n++
			v := lit["Keyspace"]
			ok := false
			why := valDesc(v)
			for _, o := range origins(v) {
				c, isCall := o.(*ssa.Call)
				if !isCall || c.Call.StaticCallee() == nil {
					continue
				}
				callee := c.Call.StaticCallee()
				// the lexer's accessor for the raw text of the identifier token
				if recvNamed(callee) == lex && callee.Signature.Results().Len() == 1 {
					if b, isStr := callee.Signature.Results().At(0).Type().Underlying().(*types.Basic); isStr && b.Kind() == types.String {
						ok = true
					}
				}
				if rn := recvNamed(callee); rn != nil && rn.Obj().Name() == "Identifier" {
					why = "Identifier." + callee.Name() + "(), which removes the quotes"
				}
			}
			if !ok {
				bad = append(bad, fmt.Sprintf("%s: the keyspace of the USE statement is %s, not the identifier as written: after USE \"System\" the stored name is read back as the case-insensitive `System`, i.e. system, and unqualified local/peers are answered by the proxy", p.Pos(lit["\x00pos"].Pos()), why))
			}
		}
	}
	r.check(len(bad) == 0 && n > 0, rule, "parser.UseStatement.Keyspace", "", fmt.Sprintf("%d literal(s)", n), strings.Join(dedupe(bad), " || "))
}
