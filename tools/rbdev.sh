#!/bin/sh
# build the analyser to bin/cqlverif.dev (development aid: leaves the binary a running regression uses alone)
cd /verif/checker && env -u GOSUMDB -u GOTOOLCHAIN -u GOWORK GOFLAGS=-mod=mod GOPROXY=off go build -o /verif/bin/cqlverif.dev .
