#!/bin/sh
# rebuild the analyser binary (development aid)
cd /verif/checker && env -u GOSUMDB -u GOTOOLCHAIN -u GOWORK GOFLAGS=-mod=mod GOPROXY=off go build -o /verif/bin/cqlverif . 
