#!/bin/bash
# trace_patch.sh <prop> <abs patch> [grep-pattern]: development aid, runs the analysis with the
# simulation trace on a scratch copy of /repo with the patch applied
set -u
prop=$1; patch=$2; pat=${3:-simtrace}
tmp=$(mktemp -d /tmp/cqlverif-tr-XXXX)
rsync -a --exclude .git /repo/ $tmp/repo/
patch -p1 -s -d $tmp/repo -i $patch || { echo "does not apply"; rm -rf $tmp; exit 1; }
mkdir $tmp/verif; cp /verif/known_findings.json $tmp/verif
env -u GOSUMDB -u GOTOOLCHAIN -u GOFLAGS -u GOWORK GOPROXY=off CQLVERIF_SIMTRACE=1 ${CQLVERIF_BIN:-/verif/bin/cqlverif} -p $prop -repo $tmp/repo -verif $tmp/verif 2>&1 | grep -E "$pat"
rm -rf $tmp
