#!/usr/bin/env python3
"""Sensitivity self-test of the static checks (thorough tier and development).

Each variant in /verif/variants/variants.py is a small semantic edit of the
repository (text of one construct replaced, keyed by a unique snippet) that
breaks one rule instance while still compiling.  For every selected variant the
working tree of /repo is copied to a scratch directory outside /repo and /verif,
the edit is applied, the copy is type-checked by the analyser itself (a variant
that does not compile is an error of the corpus), the property's analysis is run
on the copy in a fresh process, and the copy is deleted.  Nothing is executed
from the copy.  A variant whose snippet is no longer present is 'skipped'.

usage: selftest.py [-p C01] [-j 8] [--id name] [--seeded]   exit 0 = all detected
"""
import argparse, json, os, shutil, subprocess, sys, tempfile, concurrent.futures, glob

VERIF = "/verif"
REPO = "/repo"
BIN = f"{VERIF}/bin/cqlverif"


def run_variant(v, keep=False):
    tmp = tempfile.mkdtemp(prefix="cqlverif-st-")
    try:
        tree = os.path.join(tmp, "repo")
        subprocess.check_call(["rsync", "-a", "--exclude", ".git", REPO + "/", tree + "/"])
        if "patch" in v:
            p = subprocess.run(["git", "apply", "--unsafe-paths", "--directory", tree, v["patch"]], cwd="/", capture_output=True, text=True)
            if p.returncode != 0:
                p = subprocess.run(["patch", "-p1", "-d", tree, "-i", v["patch"]], capture_output=True, text=True)
                if p.returncode != 0:
                    return (v["id"], "skipped", "patch does not apply")
        for e in v.get("edits", []):
            path = os.path.join(tree, e["file"])
            s = open(path).read()
            if s.count(e["old"]) != 1:
                return (v["id"], "skipped", f"snippet occurs {s.count(e['old'])} times in {e['file']}")
            open(path, "w").write(s.replace(e["old"], e["new"]))
        out = os.path.join(tmp, "verif")
        os.makedirs(out)
        if os.path.exists(f"{VERIF}/known_findings.json"):
            shutil.copy(f"{VERIF}/known_findings.json", out)
        env = dict(os.environ)
        for k in ("GOSUMDB", "GOTOOLCHAIN", "GOFLAGS", "GOWORK"):
            env.pop(k, None)
        env["GOPROXY"] = "off"
        p = subprocess.run([BIN, "-p", v["property"], "-repo", tree, "-verif", out, "-tier", "quick"], capture_output=True, text=True, env=env, timeout=600)
        txt = p.stdout + p.stderr
        if p.returncode == 2:
            return (v["id"], "error", txt.strip().splitlines()[-1] if txt.strip() else "exit 2")
        if v.get("silent"):
            # negative control: a behaviour-preserving edit must not raise an alarm
            if p.returncode == 0:
                return (v["id"], "silent-ok", "")
            viol = [l.strip() for l in txt.splitlines() if l.strip().startswith("violated")]
            return (v["id"], "FALSE-ALARM", "; ".join(x[:200] for x in viol[:3]))
        if p.returncode == 0:
            return (v["id"], "MISSED", "analysis reports no violation")
        exp = v.get("expect_rule")
        if exp and not any(("violated " + exp) in l for l in txt.splitlines()):
            viol = [l.strip() for l in txt.splitlines() if l.strip().startswith("violated")]
            return (v["id"], "detected-other", "; ".join(x[:160] for x in viol[:3]))
        return (v["id"], "detected", "")
    finally:
        if not keep:
            shutil.rmtree(tmp, ignore_errors=True)


def load_variants(args):
    ns = {}
    exec(open(f"{VERIF}/variants/variants.py").read(), ns)
    vs = list(ns["VARIANTS"])
    if args.seeded:
        for meta in sorted(glob.glob(f"{VERIF}/seeded/*/meta.json")):
            m = json.load(open(meta))
            d = os.path.dirname(meta)
            vs.append({"id": "seeded/" + os.path.basename(d), "property": m["property"], "patch": os.path.join(d, "patch.diff"),
                       "expect_rule": m.get("expect_rule")})
    if args.p:
        vs = [v for v in vs if v["property"] == args.p]
    if args.id:
        vs = [v for v in vs if args.id in v["id"]]
    return vs


def main():
    ap = argparse.ArgumentParser()
    ap.add_argument("-p")
    ap.add_argument("-j", type=int, default=8)
    ap.add_argument("--id")
    ap.add_argument("--seeded", action="store_true")
    ap.add_argument("--json")
    args = ap.parse_args()
    vs = load_variants(args)
    res = []
    with concurrent.futures.ThreadPoolExecutor(max_workers=args.j) as ex:
        for r in ex.map(run_variant, vs):
            res.append(r)
            print("%-14s %s %s" % (r[1], r[0], r[2]), flush=True)
    n = {k: sum(1 for r in res if r[1] == k) for k in ("detected", "detected-other", "silent-ok", "MISSED", "FALSE-ALARM", "skipped", "error")}
    print("selftest:", n)
    if args.json:
        json.dump({"results": res, "summary": n}, open(args.json, "w"), indent=1)
    sys.exit(0 if n["MISSED"] == 0 and n["error"] == 0 and n["FALSE-ALARM"] == 0 else 2)


if __name__ == "__main__":
    main()
