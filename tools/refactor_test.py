#!/usr/bin/env python3
"""Negative controls: behaviour-preserving refactorings (written by independent
agents, /verif/refactors/*.diff) are applied one at a time to a scratch copy of
the working tree and every property's analysis must stay silent (exit 0).
usage: refactor_test.py [-p C01] [--id A1] [-j 8]"""
import argparse, glob, os, shutil, subprocess, sys, tempfile, concurrent.futures, json

VERIF, REPO, BIN = "/verif", "/repo", "/verif/bin/cqlverif"

def props():
    return [json.loads(l)["id"] for l in open(f"{VERIF}/properties.jsonl")]

def run_patch(patch, plist, jobs):
    name = os.path.basename(patch)[:-5]
    tmp = tempfile.mkdtemp(prefix="cqlverif-rf-")
    out = []
    try:
        tree = os.path.join(tmp, "repo")
        subprocess.check_call(["rsync", "-a", "--exclude", ".git", REPO + "/", tree + "/"])
        p = subprocess.run(["patch", "-p1", "-s", "-d", tree, "-i", patch], capture_output=True, text=True)
        if p.returncode != 0:
            return [(name, "*", "skipped", "patch does not apply")]
        env = dict(os.environ)
        for k in ("GOSUMDB", "GOTOOLCHAIN", "GOFLAGS", "GOWORK"):
            env.pop(k, None)
        env["GOPROXY"] = "off"
        def one(pid):
            vd = os.path.join(tmp, "verif_" + pid)
            os.makedirs(vd)
            shutil.copy(f"{VERIF}/known_findings.json", vd)
            q = subprocess.run([BIN, "-p", pid, "-repo", tree, "-verif", vd], capture_output=True, text=True, env=env, timeout=600)
            txt = q.stdout + q.stderr
            if q.returncode == 0:
                return (name, pid, "silent-ok", "")
            lines = [l.strip() for l in txt.splitlines() if l.strip().startswith("violated") or "NO-VERDICT" in l]
            return (name, pid, "FALSE-ALARM" if q.returncode == 1 else "BROKEN", " ;; ".join(x[:300] for x in lines[:3]))
        with concurrent.futures.ThreadPoolExecutor(max_workers=jobs) as ex:
            out = list(ex.map(one, plist))
        return out
    finally:
        shutil.rmtree(tmp, ignore_errors=True)

def main():
    ap = argparse.ArgumentParser()
    ap.add_argument("-p"); ap.add_argument("--id"); ap.add_argument("--dir", default=""); ap.add_argument("-j", type=int, default=8); ap.add_argument("--json")
    a = ap.parse_args()
    plist = [a.p] if a.p else props()
    patches = sorted(glob.glob(f"{VERIF}/refactors/{a.dir + '/' if a.dir else ''}*.diff"))
    if a.id:
        patches = [x for x in patches if a.id in os.path.basename(x)]
    res = []
    for pt in patches:
        r = run_patch(pt, plist, a.j)
        res += r
        bad = [x for x in r if x[2] not in ("silent-ok",)]
        print(os.path.basename(pt), "ok" if not bad else "", flush=True)
        for x in bad:
            print("   ", x[1], x[2], x[3], flush=True)
    n = {k: sum(1 for r in res if r[2] == k) for k in ("silent-ok", "FALSE-ALARM", "BROKEN", "skipped")}
    print("refactor controls:", n)
    if a.json:
        json.dump({"results": res, "summary": n}, open(a.json, "w"), indent=1)
    sys.exit(0 if n["FALSE-ALARM"] == 0 and n["BROKEN"] == 0 else 2)

if __name__ == "__main__":
    main()
