#!/bin/bash
# usage: confirm_seed.sh <out dir of a seeding agent> <name>
# Confirms a seeded change in a scratch worktree: demo passes on the clean tree,
# fails with the patch; the existing suite passes with the patch.  Network
# namespace isolation avoids collisions on the fixed ports the suite binds.
set -u
OUT=$1; NAME=$2
WT=/tmp/confirm/$NAME
rm -rf "$WT"; mkdir -p /tmp/confirm
git -C /repo worktree add --detach "$WT" HEAD >/dev/null 2>&1 || { echo "worktree failed"; exit 2; }
trap 'git -C /repo worktree remove --force "$WT" >/dev/null 2>&1; rm -rf "$WT"' EXIT
cd "$WT"
while IFS= read -r line; do
  src=$(echo "$line" | sed 's/ *->.*//'); dst=$(echo "$line" | sed 's/.*-> *//')
  [ -z "$src" ] && continue
  src=$(basename "$src")
  mkdir -p "$(dirname "$dst")"; cp "$OUT/$src" "$dst"
done < "$OUT/demo_paths.txt"
# the demo command may come wrapped in its own unshare/cd: keep only the go test part
DEMO=$(python3 -c "
import json,re
c=json.load(open('$OUT/meta.json'))['demo_cmd']
m=re.search(r'go test[^\"]*', c)
print('GOPROXY=off '+m.group(0).strip() if m else c)")
run() { unshare -n sh -c "ip link set lo up; export GOPROXY=off; $1" ; }
echo "== demo on clean tree: $DEMO"
run "$DEMO" > /tmp/confirm/$NAME.clean.log 2>&1; c1=$?
echo "   exit=$c1"
git apply "$OUT/patch.diff" || { echo "patch does not apply"; exit 2; }
echo "== build with patch"; run "go build ./..." || { echo "build failed"; exit 2; }
echo "== demo with patch"
run "$DEMO" > /tmp/confirm/$NAME.patched.log 2>&1; c2=$?
echo "   exit=$c2"
echo "== suite with patch (excluding the demo files is not needed: they are extra tests)"
# remove demo files so the suite is the unedited one
while IFS= read -r line; do dst=$(echo "$line" | sed 's/.*-> *//'); [ -n "$dst" ] && rm -f "$dst"; done < "$OUT/demo_paths.txt"
run "go test -vet=off -count=1 -timeout 10m ./..." > /tmp/confirm/$NAME.suite.log 2>&1; c3=$?
echo "   exit=$c3"
if [ $c1 -eq 0 ] && [ $c2 -ne 0 ] && [ $c3 -eq 0 ]; then echo "CONFIRMED $NAME"; exit 0; else echo "NOT CONFIRMED $NAME (clean=$c1 patched=$c2 suite=$c3)"; exit 1; fi
